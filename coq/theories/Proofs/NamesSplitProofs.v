(* C12 conservation: a segment invariant over the fold of split_multiple_persons_names, for ALL strings. *)
From Coq Require Import List NArith ZArith Bool Lia.
From BP Require Import Base.Chars Model.Blocks Gen.Constants Model.Names Spec.C12.
Import ListNotations.

(* piece_1 sep_1 piece_2 sep_2 ... piece_n sep_n *)
Fixpoint zipcat (P S : list str) : str :=
  match P, S with
  | p :: P', s :: S' => p ++ s ++ zipcat P' S'
  | _, _ => []
  end.

Lemma zipcat_snoc P : forall S p s, length P = length S -> zipcat (P ++ [p]) (S ++ [s]) = zipcat P S ++ p ++ s.
Proof.
  induction P as [|x P IH]; intros [|y S] p s HL; simpl in *; try discriminate.
  - rewrite app_nil_r. reflexivity.
  - rewrite IH by lia. rewrite <- !app_assoc. reflexivity.
Qed.

Lemma interleave_snoc P : forall S x, length P = length S -> interleave (P ++ [x]) S = zipcat P S ++ x.
Proof.
  induction P as [|p P IH]; intros [|s S] x HL; simpl in *; try discriminate.
  - reflexivity.
  - specialize (IH S x ltac:(lia)).
    destruct (P ++ [x]) eqn:E.
    + destruct P; discriminate.
    + rewrite IH. rewrite <- !app_assoc. reflexivity.
Qed.

Definition allws (q : str) : Prop := forallb ws_split q = true.

Lemma allws_app q c : allws q -> ws_split c = true -> allws (q ++ [c]).
Proof. unfold allws. intros H1 H2. rewrite forallb_app, H1. simpl. rewrite H2. reflexivity. Qed.

(* the text of the separator candidate matches the step-prefix of   ws+ a n d ws+   *)
Definition shape (st : sstep) (q : str) : Prop :=
  match st with
  | SStart => q = []
  | SFindA => q <> [] /\ allws q
  | SFindN => exists w a, q = w ++ [a] /\ w <> [] /\ allws w /\ is_aA a = true
  | SFindD => exists w a n, q = w ++ [a; n] /\ w <> [] /\ allws w /\ is_aA a = true /\ is_nN n = true
  | SEndWs => exists w a n d, q = w ++ [a; n; d] /\ w <> [] /\ allws w /\ is_aA a = true /\ is_nN n = true /\ is_dD d = true
  | SNextWord => exists w a n d w2, q = w ++ [a; n; d] ++ w2 /\ w <> [] /\ allws w /\ is_aA a = true /\ is_nN n = true
                                    /\ is_dD d = true /\ w2 <> [] /\ allws w2
  end.

Lemma shape_next_sep q : shape SNextWord q -> is_and_sep q.
Proof.
  intros (w & a & n & d & w2 & E & Hw & Aw & Ha & Hn & Hd & Hw2 & Aw2).
  exists w, [a; n; d], w2. repeat split; auto. simpl. rewrite Ha, Hn, Hd. reflexivity.
Qed.

Record Inv (pre : str) (st : sst) : Prop := mkInv {
  iP : list str; iS : list str;
  i_pieces : s_pieces st = rev iP;
  i_seps : s_seps st = rev iS;
  i_len : length iP = length iS;
  i_text : pre = zipcat iP iS ++ rev (s_cur st) ++ rev (s_pend st);
  i_seps_ok : Forall is_and_sep iS;
  i_pieces_ne : Forall (fun p => p <> []) iP;
  i_cur_ne : s_cur st <> [];
  i_shape : shape (s_step st) (rev (s_pend st));
  i_esc : s_esc st = true -> s_step st = SStart
}.

Lemma shape_start_nil st : s_step st = SStart -> shape (s_step st) (rev (s_pend st)) -> s_pend st = [].
Proof.
  intros E H. rewrite E in H. simpl in H. destruct (s_pend st) as [|x l]; [reflexivity|].
  simpl in H. destruct (rev l); discriminate.
Qed.

Lemma flush_inv pre st c d e : Inv pre st -> Inv (pre ++ [c]) (s_flush st c d e).
Proof.
  intros [P S HP HS HL HT HSo HPn Hc Hsh He].
  refine (mkInv _ _ P S _ _ HL _ HSo HPn _ _ _); unfold s_flush; simpl; auto.
  - rewrite HT. rewrite rev_app_distr. rewrite <- !app_assoc. reflexivity.
  - discriminate.
Qed.

Lemma cut_inv pre st c d e : Inv pre st -> s_step st = SNextWord -> Inv (pre ++ [c]) (s_cut st c d e).
Proof.
  intros [P S HP HS HL HT HSo HPn Hc Hsh He] Hst.
  rewrite Hst in Hsh.
  refine (mkInv _ _ (P ++ [rev (s_cur st)]) (S ++ [rev (s_pend st)]) _ _ _ _ _ _ _ _ _); unfold s_cut; simpl.
  - rewrite rev_app_distr, HP. reflexivity.
  - rewrite rev_app_distr, HS. reflexivity.
  - rewrite !app_length. simpl. lia.
  - rewrite zipcat_snoc by exact HL. rewrite HT. rewrite <- !app_assoc. reflexivity.
  - apply Forall_app. split; [exact HSo|]. constructor; [|constructor]. apply shape_next_sep. exact Hsh.
  - apply Forall_app. split; [exact HPn|]. constructor; [|constructor].
    intros E. apply Hc. destruct (s_cur st) as [|x0 l0]; [reflexivity|]. simpl in E. destruct (rev l0); discriminate.
  - discriminate.
  - reflexivity.
  - reflexivity.
Qed.

Lemma more_inv pre st c step' :
  Inv pre st -> shape step' (rev (s_pend st) ++ [c]) -> Inv (pre ++ [c]) (s_more st c step').
Proof.
  intros [P S HP HS HL HT HSo HPn Hc Hsh He] Hsh'.
  refine (mkInv _ _ P S _ _ HL _ HSo HPn _ _ _); unfold s_more; simpl; auto.
  - rewrite HT. rewrite <- !app_assoc. reflexivity.
  - discriminate.
Qed.

Lemma restart_inv pre st c : Inv pre st -> ws_split c = true -> Inv (pre ++ [c]) (s_restart st c).
Proof.
  intros [P S HP HS HL HT HSo HPn Hc Hsh He] Hws.
  refine (mkInv _ _ P S _ _ HL _ HSo HPn _ _ _); unfold s_restart; simpl; auto.
  - rewrite HT. rewrite rev_app_distr. rewrite <- !app_assoc. reflexivity.
  - intros E. apply app_eq_nil in E. apply Hc. tauto.
  - split; [discriminate|]. unfold allws. simpl. rewrite Hws. reflexivity.
  - discriminate.
Qed.

Lemma step_inv pre st c : Inv pre st -> Inv (pre ++ [c]) (split_step st c).
Proof.
  intros HI. unfold split_step.
  destruct (s_esc st) eqn:Eesc.
  { (* the partner of a backslash *)
    destruct HI as [P S HP HS HL HT HSo HPn Hc Hsh He].
    pose proof (He Eesc) as Hst.
    pose proof (shape_start_nil st Hst Hsh) as Hpend.
    refine (mkInv _ _ P S _ _ HL _ HSo HPn _ _ _); simpl; auto; try discriminate.
    rewrite HT, Hpend. simpl. rewrite !app_nil_r. rewrite <- app_assoc. reflexivity. }
  destruct (ceq c c_bs).
  { destruct (is_next (s_step st)) eqn:En.
    - apply cut_inv; [exact HI|]. destruct (s_step st); try discriminate; reflexivity.
    - apply flush_inv; exact HI. }
  destruct (ceq c c_lb).
  { destruct (is_next (s_step st)) eqn:En.
    - apply cut_inv; [exact HI|]. destruct (s_step st); try discriminate; reflexivity.
    - apply flush_inv; exact HI. }
  destruct (ceq c c_rb); [apply flush_inv; exact HI|].
  destruct (negb (s_depth st =? 0)%N); [apply flush_inv; exact HI|].
  pose proof (i_shape _ _ HI) as Hsh.
  destruct (s_step st) eqn:Est; simpl in Hsh.
  - destruct (ws_split c) eqn:Ews; [apply restart_inv; assumption | apply flush_inv; exact HI].
  - destruct (is_aA c) eqn:Ea.
    + apply more_inv; [exact HI|]. destruct Hsh as [Hne Hall]. exists (rev (s_pend st)), c. auto.
    + destruct (ws_split c) eqn:Ews.
      * apply more_inv; [exact HI|]. destruct Hsh as [Hne Hall]. split.
        -- intros E. apply app_eq_nil in E. tauto.
        -- apply allws_app; assumption.
      * apply flush_inv; exact HI.
  - destruct (is_nN c) eqn:En.
    + apply more_inv; [exact HI|]. destruct Hsh as (w & a & E & Hne & Hall & Ha). exists w, a, c.
      rewrite E, <- app_assoc. auto.
    + destruct (ws_split c) eqn:Ews; [apply restart_inv; assumption | apply flush_inv; exact HI].
  - destruct (is_dD c) eqn:Ed.
    + apply more_inv; [exact HI|]. destruct Hsh as (w & a & n & E & Hne & Hall & Ha & Hn). exists w, a, n, c.
      rewrite E, <- app_assoc. auto 10.
    + destruct (ws_split c) eqn:Ews; [apply restart_inv; assumption | apply flush_inv; exact HI].
  - destruct (ws_split c) eqn:Ews.
    + apply more_inv; [exact HI|]. destruct Hsh as (w & a & n & d & E & Hne & Hall & Ha & Hn & Hd).
      exists w, a, n, d, [c]. rewrite E, <- app_assoc. repeat split; auto; try discriminate.
      unfold allws. simpl. rewrite Ews. reflexivity.
    + apply flush_inv; exact HI.
  - destruct (ws_split c) eqn:Ews.
    + apply more_inv; [exact HI|]. destruct Hsh as (w & a & n & d & w2 & E & Hne & Hall & Ha & Hn & Hd & Hne2 & Hall2).
      exists w, a, n, d, (w2 ++ [c]). rewrite E, <- !app_assoc. repeat split; auto.
      * intros E2. apply app_eq_nil in E2. tauto.
      * apply allws_app; assumption.
    + apply cut_inv; [exact HI | exact Est].
Qed.

Lemma fold_inv l : forall pre st, Inv pre st -> Inv (pre ++ l) (fold_left split_step l st).
Proof.
  induction l as [|c l IH]; intros pre st HI; simpl.
  - rewrite app_nil_r. exact HI.
  - replace (pre ++ c :: l) with ((pre ++ [c]) ++ l) by (rewrite <- app_assoc; reflexivity).
    apply IH. apply step_inv. exact HI.
Qed.

(* the first character of a stripped text is not whitespace *)
Lemma lstrip_set_head p s : match lstrip_set p s with [] => True | x :: _ => p x = false end.
Proof. induction s as [|c s IH]; simpl; [exact I|]. destruct (p c) eqn:E; [exact IH | exact E]. Qed.

Lemma lstrip_set_snoc p l x : p x = false -> exists l', lstrip_set p (l ++ [x]) = l' ++ [x].
Proof.
  intros Hx. induction l as [|c l IH]; simpl.
  - rewrite Hx. exists []. reflexivity.
  - destruct (p c); [exact IH|]. exists (c :: l). reflexivity.
Qed.

Lemma strip_set_head p s : match strip_set p s with [] => True | x :: _ => p x = false end.
Proof.
  unfold strip_set. pose proof (lstrip_set_head p s) as H.
  destruct (lstrip_set p s) as [|x u]; [simpl; exact I|].
  simpl rev at 2.
  destruct (lstrip_set_snoc p (rev u) x H) as [l' E]. rewrite E. rewrite rev_app_distr. simpl. exact H.
Qed.

(* the state after the first character of a stripped text *)
Lemma first_inv c : ws_split c = false -> Inv [c] (split_step sst0 c).
Proof.
  intros Hws. unfold split_step, sst0; simpl.
  assert (forall d e, Inv [c] (mksst SStart d e [c] [] [] [])) as Base.
  { intros d e. refine (mkInv _ _ [] [] _ _ _ _ _ _ _ _ _); simpl; auto; discriminate. }
  destruct (ceq c c_bs); [apply Base|].
  destruct (ceq c c_lb); [apply Base|].
  destruct (ceq c c_rb); [apply Base|].
  rewrite Hws. apply Base.
Qed.

Lemma split_conserved s : conserved s (split_names s).
Proof.
  unfold conserved, split_names, split_names_seps.
  pose proof (strip_set_head ws_split s) as Hhead. fold (strip4 s) in Hhead.
  destruct (strip4 s) as [|c t] eqn:E.
  - exists []. simpl. repeat split; constructor.
  - unfold split_run. simpl fold_left.
    pose proof (fold_inv t [c] _ (first_inv c Hhead)) as [P S HP HS HL HT HSo HPn Hc Hsh He].
    set (st := fold_left split_step t (split_step sst0 c)) in *.
    exists S. unfold split_result. simpl fst.
    rewrite HP. rewrite rev_involutive.
    replace (rev (rev (s_pend st ++ s_cur st) :: rev P)) with (P ++ [rev (s_pend st ++ s_cur st)])
      by (simpl; rewrite rev_involutive; reflexivity).
    repeat split.
    + rewrite app_length. simpl. unfold str, ch in *. lia.
    + rewrite interleave_snoc by exact HL. simpl in HT. rewrite HT. rewrite rev_app_distr. reflexivity.
    + exact HSo.
    + apply Forall_app. split; [exact HPn|]. constructor; [|constructor].
      intros E2. apply Hc. destruct (s_cur st) as [|x l]; [reflexivity|].
      rewrite rev_app_distr in E2. simpl in E2. destruct (rev l); discriminate.
Qed.
