(* C12 idempotence for ALL strings (balanced or not):  split (merge (split s)) = split s.

   A direct simulation argument on the six-step machine; no reference splitter, no balance hypothesis.

   For a machine state st let  nt st  (the "normalised text" of the state) be
        piece_1 " and " piece_2 " and " ... piece_k " and " ++ current ++ pending
   i.e. the text read so far with every separator already passed replaced by the canonical " and ".
   Invariant (K): running the machine from scratch on  nt st  reaches st again (up to the ghost list of separators,
   [sim]); and whenever a separator candidate is being matched (step <> START_WHITESPACE) there is an "anchor"
   state a -- the state in which the first whitespace of the candidate was read -- which itself satisfies sim, from
   which whitespace restarts a candidate (depth 0, no pending escape, step START/FIND_N/FIND_D), and whose whole text
   is the current name of st.  Every step that is not a cut appends its character to nt, so sim is kept by
   determinism.  At a cut the new normalised text is  nt a ++ " and " ++ [c]:  from the anchor the canonical separator
   walks FIND_A, FIND_N, FIND_D, END_WHITESPACE, NEXT_WORD with the same current name, and the cut on c then produces
   the same state as the original cut (after a cut the bookkeeping depends on c only: the depth was 0 since a
   candidate can only be matched at depth 0 -- in particular a stray '}' (depth clamped at 0, never cuts) is treated
   the same way after " and " as after the original separator because it is processed from an identical state). *)
From Coq Require Import List NArith ZArith Bool Lia.
From BP Require Import Base.Chars Model.Blocks Gen.Constants Model.Names Spec.C12
  Proofs.NamesSplitProofs Proofs.NamesExactProofs Proofs.NamesIdemProofs.
Import ListNotations.

(* ---------------------------------------------------------------- states up to the ghost separators *)
Definition forget (st : sst) : sst :=
  mksst (s_step st) (s_depth st) (s_esc st) (s_cur st) (s_pend st) (s_pieces st) [].
Definition eqv (a b : sst) : Prop := forget a = forget b.

Lemma eqv_fields a b : eqv a b ->
  s_step a = s_step b /\ s_depth a = s_depth b /\ s_esc a = s_esc b /\ s_cur a = s_cur b /\ s_pend a = s_pend b
  /\ s_pieces a = s_pieces b.
Proof. unfold eqv, forget. intros H. injection H as H1 H2 H3 H4 H5 H6. auto 10. Qed.

Lemma step_eqv a b c : eqv a b -> eqv (split_step a c) (split_step b c).
Proof.
  destruct a as [s1 d1 e1 c1 p1 P1 S1], b as [s2 d2 e2 c2 p2 P2 S2].
  unfold eqv, forget. cbn [s_step s_depth s_esc s_cur s_pend s_pieces]. intros H.
  injection H as H1 H2 H3 H4 H5 H6. subst s1 d1 e1 c1 p1 P1.
  unfold split_step, s_flush, s_cut, s_more, s_restart. cbn [s_step s_depth s_esc s_cur s_pend s_pieces s_seps].
  destruct e2; [reflexivity|].
  destruct (ceq c c_bs); [destruct (is_next s2); reflexivity|].
  destruct (ceq c c_lb); [destruct (is_next s2); reflexivity|].
  destruct (ceq c c_rb); [reflexivity|].
  destruct (negb (d2 =? 0)%N); [reflexivity|].
  destruct s2; repeat (match goal with |- context [if ?x then _ else _] => destruct x end); reflexivity.
Qed.

Lemma fold_eqv l : forall a b, eqv a b -> eqv (fold_left split_step l a) (fold_left split_step l b).
Proof. induction l as [|c l IH]; intros a b H; [exact H|]. cbn [fold_left]. apply IH, step_eqv, H. Qed.

Lemma out_eqv a b : eqv a b -> fst (split_result a) = fst (split_result b).
Proof.
  intros H. destruct (eqv_fields a b H) as (_ & _ & _ & E4 & E5 & E6).
  unfold split_result. cbn [fst]. rewrite E4, E5, E6. reflexivity.
Qed.

(* ---------------------------------------------------------------- the normalised text of a state *)
Definition nt (st : sst) : str :=
  concat (map (fun p : str => p ++ and_sep) (rev (s_pieces st))) ++ rev (s_cur st) ++ rev (s_pend st).

Definition sim (st : sst) : Prop := eqv (fold_left split_step (nt st) sst0) st.

(* st' has the finished names of st and its unfinished text extended by c *)
Definition keeps (st st' : sst) (c : ch) : Prop :=
  s_pieces st' = s_pieces st /\ rev (s_cur st') ++ rev (s_pend st') = rev (s_cur st) ++ rev (s_pend st) ++ [c].

Lemma nt_ext st st' c : keeps st st' c -> nt st' = nt st ++ [c].
Proof. intros [HP E]. unfold nt. rewrite HP, E, <- !app_assoc. reflexivity. Qed.

Lemma sim_ext st c : sim st -> keeps st (split_step st c) c -> sim (split_step st c).
Proof.
  intros Hs Hk. unfold sim. rewrite (nt_ext _ _ _ Hk), fold_left_app. cbn [fold_left]. apply step_eqv. exact Hs.
Qed.

Lemma flush_keeps st c d e : keeps st (s_flush st c d e) c.
Proof.
  unfold keeps, s_flush. cbn [s_pieces s_cur s_pend]. split; [reflexivity|].
  cbn [rev]. rewrite rev_app_distr, app_nil_r, <- app_assoc. reflexivity.
Qed.
Lemma more_keeps st c step' : keeps st (s_more st c step') c.
Proof. unfold keeps, s_more. cbn [s_pieces s_cur s_pend]. split; reflexivity. Qed.
Lemma restart_keeps st c : keeps st (s_restart st c) c.
Proof.
  unfold keeps, s_restart. cbn [s_pieces s_cur s_pend]. split; [reflexivity|].
  cbn [rev app]. rewrite rev_app_distr, <- app_assoc. reflexivity.
Qed.

(* ---------------------------------------------------------------- the invariant *)
Definition restartable (a : sst) : Prop :=
  s_esc a = false /\ s_depth a = 0%N /\ (s_step a = SStart \/ s_step a = SFindN \/ s_step a = SFindD).

Definition anchored (st : sst) : Prop :=
  s_depth st = 0%N /\ s_esc st = false /\
  exists a, sim a /\ restartable a /\ s_cur st = s_pend a ++ s_cur a /\ s_pieces st = s_pieces a.

Definition tailK (st : sst) : Prop :=
  match s_step st with SStart => s_pend st = [] | _ => anchored st end.

Definition K (st : sst) : Prop := sim st /\ tailK st.

Lemma K_ext st c : K st -> keeps st (split_step st c) c -> tailK (split_step st c) -> K (split_step st c).
Proof. intros [Hs _] Hk Ht. split; [apply sim_ext; assumption | exact Ht]. Qed.

Lemma flush_tail st c d e : tailK (s_flush st c d e).
Proof. reflexivity. Qed.

Lemma more_tail st c step' : step' <> SStart -> anchored st -> tailK (s_more st c step').
Proof.
  intros Hne (Hd & He & a & Ha).
  assert (A : anchored (s_more st c step')).
  { unfold anchored, s_more. cbn [s_depth s_esc s_cur s_pieces]. split; [exact Hd|]. split; [reflexivity|].
    exists a. exact Ha. }
  unfold tailK. change (s_step (s_more st c step')) with step'. destruct step'; [contradiction|..]; exact A.
Qed.

Lemma restart_tail st c : sim st -> s_esc st = false -> s_depth st = 0%N ->
  (s_step st = SStart \/ s_step st = SFindN \/ s_step st = SFindD) -> tailK (s_restart st c).
Proof.
  intros Hs He Hd Hst. unfold tailK, s_restart. cbn [s_step]. unfold anchored. cbn [s_depth s_esc s_cur s_pieces].
  split; [exact Hd|]. split; [reflexivity|]. exists st. split; [exact Hs|]. split; [|split; reflexivity].
  split; [exact He|]. split; [exact Hd | exact Hst].
Qed.

(* from an anchor the canonical separator is matched completely, the current name being the anchor's whole text *)
Lemma and_run a : restartable a ->
  fold_left split_step and_sep a
  = mksst SNextWord 0 false (s_pend a ++ s_cur a) (rev and_sep) (s_pieces a) (s_seps a).
Proof.
  destruct a as [s d e cu pe P S]. unfold restartable. cbn [s_step s_depth s_esc s_cur s_pend s_pieces s_seps].
  intros (He & Hd & Hs). subst e d.
  destruct Hs as [Hs|[Hs|Hs]]; subst s; vm_compute; reflexivity.
Qed.

Lemma nt_cut st a c d e : s_cur st = s_pend a ++ s_cur a -> s_pieces st = s_pieces a ->
  nt (s_cut st c d e) = nt a ++ and_sep ++ [c].
Proof.
  intros Hc Hp. unfold nt, s_cut. cbn [s_pieces s_cur s_pend]. rewrite Hc, Hp.
  cbn [rev]. rewrite map_app, concat_app. cbn [map concat app]. rewrite rev_app_distr, !app_nil_r, <- !app_assoc.
  reflexivity.
Qed.

Lemma K_cut st c d e : K st -> s_step st = SNextWord ->
  (forall b, s_step b = SNextWord -> s_depth b = 0%N -> s_esc b = false -> split_step b c = s_cut b c d e) ->
  K (s_cut st c d e).
Proof.
  intros [Hs Ht] Est Hcut. unfold tailK in Ht. rewrite Est in Ht.
  destruct Ht as (Hd & He & a & Hsa & Hra & Hcur & Hpieces).
  split; [|reflexivity].
  unfold sim. rewrite (nt_cut st a c d e Hcur Hpieces), !fold_left_app. cbn [fold_left].
  set (b := fold_left split_step and_sep (fold_left split_step (nt a) sst0)).
  set (b' := fold_left split_step and_sep a).
  assert (Hbb : eqv b b') by (apply fold_eqv; exact Hsa).
  assert (Eb' : b' = mksst SNextWord 0 false (s_pend a ++ s_cur a) (rev and_sep) (s_pieces a) (s_seps a))
    by (apply and_run; exact Hra).
  unfold eqv. rewrite (step_eqv b b' c Hbb).
  rewrite (Hcut b') by (rewrite Eb'; reflexivity).
  rewrite Eb'. unfold forget, s_cut. cbn [s_step s_depth s_esc s_cur s_pend s_pieces].
  rewrite Hcur, Hpieces. reflexivity.
Qed.

Lemma K_step st c : K st -> K (split_step st c).
Proof.
  intros HK. pose proof (K_ext st c HK) as Hext. pose proof HK as [Hsim Hm].
  unfold split_step in *.
  destruct (s_esc st) eqn:Eesc.
  { (* the partner of a backslash *)
    assert (s_step st = SStart /\ s_pend st = []) as [Est Hp].
    { unfold tailK in Hm. destruct (s_step st); [split; [reflexivity | exact Hm]|..];
        destruct Hm as (_ & He & _); congruence. }
    apply Hext.
    - split; cbn [s_pieces s_cur s_pend]; [reflexivity|]. rewrite Hp. cbn [rev app]. rewrite app_nil_r. reflexivity.
    - unfold tailK. cbn [s_step s_pend]. rewrite Est. exact Hp. }
  (* at step NEXT_WORD the depth is 0 *)
  assert (Hnext : s_step st = SNextWord -> s_depth st = 0%N).
  { intros E. unfold tailK in Hm. rewrite E in Hm. exact (proj1 Hm). }
  assert (Hisnext : is_next (s_step st) = true -> s_step st = SNextWord)
    by (destruct (s_step st); try discriminate; reflexivity).
  destruct (ceq c c_bs) eqn:Ebs.
  { destruct (is_next (s_step st)) eqn:En.
    - pose proof (Hisnext eq_refl) as Est. rewrite (Hnext Est). apply K_cut; [exact HK | exact Est|].
      intros b B1 B2 B3. unfold split_step. rewrite B3, Ebs, B1, B2. reflexivity.
    - apply Hext; [apply flush_keeps | apply flush_tail]. }
  destruct (ceq c c_lb) eqn:Elb.
  { destruct (is_next (s_step st)) eqn:En.
    - pose proof (Hisnext eq_refl) as Est. rewrite (Hnext Est). apply K_cut; [exact HK | exact Est|].
      intros b B1 B2 B3. unfold split_step. rewrite B3, Ebs, Elb, B1, B2. reflexivity.
    - apply Hext; [apply flush_keeps | apply flush_tail]. }
  destruct (ceq c c_rb) eqn:Erb; [apply Hext; [apply flush_keeps | apply flush_tail]|].
  destruct (negb (s_depth st =? 0)%N) eqn:Ed; [apply Hext; [apply flush_keeps | apply flush_tail]|].
  assert (Hd0 : s_depth st = 0%N) by (apply negb_false_iff in Ed; apply N.eqb_eq; exact Ed).
  unfold tailK in Hm.
  destruct (s_step st) eqn:Est.
  - destruct (ws_split c) eqn:Ews.
    + apply Hext; [apply restart_keeps|]. apply restart_tail; auto.
    + apply Hext; [apply flush_keeps | apply flush_tail].
  - destruct (is_aA c) eqn:Ea; [apply Hext; [apply more_keeps | apply more_tail; [discriminate | exact Hm]]|].
    destruct (ws_split c) eqn:Ews; [apply Hext; [apply more_keeps | apply more_tail; [discriminate | exact Hm]]|].
    apply Hext; [apply flush_keeps | apply flush_tail].
  - destruct (is_nN c) eqn:En; [apply Hext; [apply more_keeps | apply more_tail; [discriminate | exact Hm]]|].
    destruct (ws_split c) eqn:Ews.
    + apply Hext; [apply restart_keeps|]. apply restart_tail; auto.
    + apply Hext; [apply flush_keeps | apply flush_tail].
  - destruct (is_dD c) eqn:Edd; [apply Hext; [apply more_keeps | apply more_tail; [discriminate | exact Hm]]|].
    destruct (ws_split c) eqn:Ews.
    + apply Hext; [apply restart_keeps|]. apply restart_tail; auto.
    + apply Hext; [apply flush_keeps | apply flush_tail].
  - destruct (ws_split c) eqn:Ews; [apply Hext; [apply more_keeps | apply more_tail; [discriminate | exact Hm]]|].
    apply Hext; [apply flush_keeps | apply flush_tail].
  - destruct (ws_split c) eqn:Ews; [apply Hext; [apply more_keeps | apply more_tail; [discriminate | exact Hm]]|].
    clear Hext. apply K_cut; [exact HK | exact Est|].
    intros b B1 B2 B3. unfold split_step. rewrite B3, Ebs, Elb, Erb, B1, B2, Ews. reflexivity.
Qed.

Lemma K_fold l : forall st, K st -> K (fold_left split_step l st).
Proof. induction l as [|c l IH]; intros st H; [exact H|]. cbn [fold_left]. apply IH, K_step, H. Qed.

Lemma K_sst0 : K sst0.
Proof. split; reflexivity. Qed.

(* every reachable state is reproduced by the machine from its own normalised text *)
Lemma run_sim t : sim (split_run t).
Proof. exact (proj1 (K_fold t sst0 K_sst0)). Qed.

(* ---------------------------------------------------------------- assembly *)
Lemma join_snoc (sep : str) (l : list str) (x : str) :
  join sep (l ++ [x]) = concat (map (fun p : str => p ++ sep) l) ++ x.
Proof.
  induction l as [|y l IH]; [reflexivity|].
  cbn [app map concat]. rewrite join_cons_ne by (destruct l; discriminate). rewrite IH, <- !app_assoc. reflexivity.
Qed.

Lemma merge_out st : merge_names (fst (split_result st)) = nt st.
Proof.
  unfold merge_names, split_result, nt. cbn [fst rev]. rewrite join_snoc, rev_app_distr. reflexivity.
Qed.

Theorem split_idempotent_all s : idempotent_on s.
Proof.
  unfold idempotent_on.
  pose proof (split_conserved s) as (seps & HL & Ht & Hseps & Hpne).
  pose proof (strip_set_head ws_split s) as Hhead. pose proof (strip_set_last ws_split s) as Hlast.
  fold (strip4 s) in Hhead, Hlast.
  assert (EX0 : split_names s = match strip4 s with [] => [] | t => fst (split_result (split_run t)) end).
  { unfold split_names, split_names_seps. destruct (strip4 s); reflexivity. }
  set (X := split_names s) in *.
  destruct (strip4 s) as [|c0 t0] eqn:Et.
  { (* nothing but whitespace *) rewrite EX0. reflexivity. }
  assert (HXne : X <> []) by (intros E; rewrite E in Ht; discriminate).
  set (st := split_run (c0 :: t0)) in *.
  assert (Em : merge_names X = nt st) by (rewrite EX0; apply merge_out).
  (* the merged text is already stripped *)
  destruct (interleave_ends X seps HXne Hpne HL) as (_ & Hh1 & Hl1).
  destruct (join_ends and_sep X HXne Hpne) as (Hjne & Hh2 & Hl2). fold (merge_names X) in Hjne, Hh2, Hl2.
  assert (Estrip : strip4 (merge_names X) = merge_names X).
  { apply strip_id; [exact Hjne | |].
    - rewrite Hh2, <- Hh1, <- Ht. exact Hhead.
    - rewrite Hl2, <- Hl1, <- Ht. exact Hlast. }
  assert (E1 : split_names (merge_names X) = fst (split_result (split_run (merge_names X)))).
  { unfold split_names, split_names_seps. rewrite Estrip. destruct (merge_names X); [contradiction | reflexivity]. }
  rewrite E1, Em, EX0. apply out_eqv. exact (run_sim (c0 :: t0)).
Qed.
