(* Proofs for the object-level part of C19 (Model/EntryObj.v): the operations on Field objects refine the value-level
   model Model/Entry.v, the store of Field objects only grows, other entries and earlier results never change. *)
From Coq Require Import List NArith ZArith Bool Arith Lia.
From BP Require Import Base.Chars Model.Blocks Model.Entry Model.EntryObj Proofs.EntryProofs.
Import ListNotations.

(* ------------------------------------------------------------------ the store *)
Lemma sdom_le_max s i : In i (sdom s) -> i <= fold_right Nat.max 0 (sdom s).
Proof.
  unfold sdom. induction s as [|[j f] r IH]; simpl; intros H; [contradiction|].
  destruct H as [H|H]; [subst; lia | apply IH in H; lia].
Qed.

Lemma sfresh_notin s : ~ In (sfresh s) (sdom s).
Proof. intros H. apply sdom_le_max in H. unfold sfresh in H. lia. Qed.

Lemma slookup_in s i f : slookup s i = Some f -> In i (sdom s).
Proof.
  induction s as [|[j g] r IH]; simpl; [discriminate|].
  destruct (Nat.eqb j i) eqn:E; [apply Nat.eqb_eq in E; auto | auto].
Qed.

Lemma store_extends_refl s : store_extends s s.
Proof. intros i H. auto. Qed.

Lemma store_extends_trans s1 s2 s3 : store_extends s1 s2 -> store_extends s2 s3 -> store_extends s1 s3.
Proof.
  intros H12 H23 i Hi. destruct (H12 i Hi) as [Hd Hl]. destruct (H23 i Hd) as [Hd' Hl']. split; [assumption | congruence].
Qed.

Lemma store_extends_alloc s f : store_extends s (fst (salloc s f)).
Proof.
  intros i Hi. unfold salloc. cbn [fst]. split; [right; assumption|]. cbn [slookup].
  destruct (Nat.eqb (sfresh s) i) eqn:E; [|reflexivity].
  apply Nat.eqb_eq in E. subst. exfalso. apply (sfresh_notin s). assumption.
Qed.

Lemma sget_alloc_new s f : sget (fst (salloc s f)) (snd (salloc s f)) = f.
Proof. unfold sget, salloc. cbn [fst snd slookup]. rewrite Nat.eqb_refl. reflexivity. Qed.

Lemma salloc_dom s f : In (snd (salloc s f)) (sdom (fst (salloc s f))).
Proof. simpl. left. reflexivity. Qed.

Lemma sget_extends s s' i : store_extends s s' -> In i (sdom s) -> sget s' i = sget s i.
Proof. intros H Hi. unfold sget. destruct (H i Hi) as [_ Hl]. rewrite Hl. reflexivity. Qed.

Lemma okeyof_extends s s' i : store_extends s s' -> In i (sdom s) -> okeyof s' i = okeyof s i.
Proof. intros H Hi. unfold okeyof. rewrite (sget_extends s s' i H Hi). reflexivity. Qed.

Lemma ent_ok_extends s s' e : store_extends s s' -> ent_ok s e -> ent_ok s' e.
Proof. intros H He i Hi. apply (H i). apply He. assumption. Qed.

(* ------------------------------------------------------------------ lists *)
Lemma set_nth_map {T U} (g : T -> U) n x l : map g (set_nth n x l) = set_nth n (g x) (map g l).
Proof.
  revert n. induction l as [|y r IH]; intros n; destruct n; simpl; try reflexivity.
  rewrite IH; reflexivity.
Qed.

Lemma set_nth_in {T} n (x : T) l y : In y (set_nth n x l) -> y = x \/ In y l.
Proof.
  revert n. induction l as [|z r IH]; intros n; destruct n; simpl; try tauto.
  - intros [H|H]; [left; congruence | tauto].
  - intros [H|H]; [tauto | apply IH in H; tauto].
Qed.

Lemma set_nth_other {T} a b (x : T) l : a <> b -> nth_error (set_nth a x l) b = nth_error l b.
Proof.
  revert a b. induction l as [|z r IH]; intros a b Hab; destruct a, b; simpl; try reflexivity; try congruence.
  apply IH. congruence.
Qed.

Lemma set_nth_length {T} a (x : T) l : List.length (set_nth a x l) = List.length l.
Proof. revert a. induction l as [|z r IH]; intros a; destruct a; simpl; auto. Qed.

Lemma set_nth_in_nth {T} a (x : T) l e y : nth_error l a = Some e -> In y (set_nth a x l) -> y = x \/ In y l.
Proof. intros _. apply set_nth_in. Qed.

Lemma filter_map_comm {T U} (g : T -> U) p l : filter p (map g l) = map g (filter (fun x => p (g x)) l).
Proof.
  induction l as [|y r IH]; simpl; [reflexivity|].
  destruct (p (g y)); simpl; rewrite IH; reflexivity.
Qed.

(* ------------------------------------------------------------------ dictionaries key -> object, read through the store *)
Lemma abs_dict_set s d k i : abs_dict s (dict_set d k i) = dict_set (abs_dict s d) k (sget s i).
Proof.
  induction d as [|[k' j] r IH]; simpl; [reflexivity|].
  destruct (str_eqb k k'); simpl; [reflexivity | rewrite IH; reflexivity].
Qed.

Lemma dict_get_abs s d k : dict_get (abs_dict s d) k = option_map (sget s) (dict_get d k).
Proof.
  induction d as [|[k' j] r IH]; simpl; [reflexivity|].
  destruct (str_eqb k k'); simpl; [reflexivity | assumption].
Qed.

Lemma dict_has_abs s d k : dict_has (abs_dict s d) k = dict_has d k.
Proof. unfold dict_has. rewrite dict_get_abs. destruct (dict_get d k); reflexivity. Qed.

Lemma ofields_dict_abs s ids : fields_dict (abs_ids s ids) = abs_dict s (ofields_dict s ids).
Proof.
  unfold fields_dict, ofields_dict, abs_ids.
  change (@nil (str * field)) with (abs_dict s []). generalize (@nil (str * oid)).
  induction ids as [|i r IH]; intros d; simpl; [reflexivity|].
  rewrite <- IH. rewrite abs_dict_set. reflexivity.
Qed.

Lemma abs_ids_keys s ids : map fkey (abs_ids s ids) = map (okeyof s) ids.
Proof. unfold abs_ids. rewrite map_map. reflexivity. Qed.

(* the objects in fields_dict are objects of the field list *)
Lemma dict_set_in_val {V} (d : list (str * V)) k v k' v' : In (k', v') (dict_set d k v) -> In (k', v') d \/ v' = v.
Proof.
  induction d as [|[k0 v0] r IH]; simpl.
  - intros [H|[]]. inversion H. auto.
  - destruct (str_eqb k k0); simpl; intros [H|H]; auto.
    + inversion H. auto.
    + apply IH in H. tauto.
Qed.

Lemma ofields_dict_in s ids k i : In (k, i) (ofields_dict s ids) -> In i ids.
Proof.
  unfold ofields_dict.
  assert (G : forall d, In (k, i) (fold_left (fun d j => dict_set d (okeyof s j) j) ids d) -> In (k, i) d \/ In i ids).
  { induction ids as [|j r IH]; intros d; simpl; [auto|].
    intros H. apply IH in H. destruct H as [H|H]; [|auto].
    apply dict_set_in_val in H. destruct H as [H|H]; auto. }
  intros H. apply G in H. destruct H as [[]|H]. assumption.
Qed.

Lemma ofields_dict_get_in s ids k i : dict_get (ofields_dict s ids) k = Some i -> In i ids.
Proof. intros H. apply dict_get_in in H. apply ofields_dict_in in H. assumption. Qed.

(* the dictionary depends on the store only through the keys of the listed objects *)
Lemma ofields_dict_ext s s' ids : (forall i, In i ids -> okeyof s' i = okeyof s i) -> ofields_dict s' ids = ofields_dict s ids.
Proof.
  unfold ofields_dict. generalize (@nil (str * oid)).
  induction ids as [|i r IH]; intros d H; simpl; [reflexivity|].
  rewrite (H i (or_introl eq_refl)). apply IH. intros j Hj. apply H. right. assumption.
Qed.

Lemma abs_ids_ext s s' ids : (forall i, In i ids -> sget s' i = sget s i) -> abs_ids s' ids = abs_ids s ids.
Proof. intros H. unfold abs_ids. apply map_ext_in. assumption. Qed.

(* ------------------------------------------------------------------ one operation, same store *)
Lemma oset_field_abs s ids i :
  set_field (abs_ids s ids) (sget s i) = (abs_ids s (fst (oset_field s ids i)), abs_res s (snd (oset_field s ids i))).
Proof.
  unfold set_field, oset_field. rewrite ofields_dict_abs, dict_has_abs, abs_ids_keys. fold (okeyof s i).
  destruct (dict_has (ofields_dict s ids) (okeyof s i)).
  - destruct (index_of (okeyof s i) (map (okeyof s) ids)) as [n|]; simpl; [|reflexivity].
    unfold abs_ids. rewrite set_nth_map. reflexivity.
  - simpl. unfold abs_ids. rewrite map_app. reflexivity.
Qed.

Lemma odflt_abs s d : abs_res s (odflt d) = dflt d.
Proof. destruct d; reflexivity. Qed.

Lemma opop_abs s ids k d :
  pop (abs_ids s ids) k d = (abs_ids s (fst (opop s ids k d)), abs_res s (snd (opop s ids k d))).
Proof.
  unfold pop, opop. rewrite ofields_dict_abs, dict_get_abs.
  destruct (dict_get (ofields_dict s ids) k) as [i|]; simpl.
  - unfold abs_ids. rewrite filter_map_comm. reflexivity.
  - rewrite odflt_abs. reflexivity.
Qed.

Lemma oget_abs s ids k d : get (abs_ids s ids) k d = abs_res s (oget s ids k d).
Proof.
  unfold get, oget. rewrite ofields_dict_abs, dict_get_abs.
  destruct (dict_get (ofields_dict s ids) k); simpl; [reflexivity | rewrite odflt_abs; reflexivity].
Qed.

Lemma ocontains_abs s ids k : contains (abs_ids s ids) k = ocontains s ids k.
Proof. unfold contains, ocontains. rewrite ofields_dict_abs, dict_has_abs. reflexivity. Qed.

Lemma ogetitem_abs s e k : getitem (abs_ent s e) k = abs_res s (ogetitem s e k).
Proof.
  unfold getitem, ogetitem. simpl.
  destruct (str_eqb k k_entrytype); [reflexivity|]. destruct (str_eqb k k_id); [reflexivity|].
  rewrite ofields_dict_abs, dict_get_abs. destruct (dict_get (ofields_dict s (oids e)) k); reflexivity.
Qed.

Lemma oitems_abs s e : items (abs_ent s e) = oitems s e.
Proof. unfold items, oitems, abs_ent, abs_ids. simpl. rewrite map_map. reflexivity. Qed.

(* ------------------------------------------------------------------ which objects an entry holds after a call *)
Lemma oset_field_ids s ids i j : In j (fst (oset_field s ids i)) -> j = i \/ In j ids.
Proof.
  unfold oset_field. destruct (dict_has (ofields_dict s ids) (okeyof s i)).
  - destruct (index_of (okeyof s i) (map (okeyof s) ids)); simpl; [apply set_nth_in | auto].
  - simpl. rewrite in_app_iff. simpl. intros [H|[H|[]]]; auto.
Qed.

Lemma oset_field_res s ids i : res_ok s (snd (oset_field s ids i)).
Proof.
  unfold oset_field. destruct (dict_has (ofields_dict s ids) (okeyof s i)); [|exact I].
  destruct (index_of (okeyof s i) (map (okeyof s) ids)); exact I.
Qed.

Lemma opop_ids s ids k d j : In j (fst (opop s ids k d)) -> In j ids.
Proof.
  unfold opop. destruct (dict_get (ofields_dict s ids) k); simpl; [|auto].
  intros H. apply filter_In in H. tauto.
Qed.

Lemma odflt_res s d : res_ok s (odflt d).
Proof. destruct d; exact I. Qed.

Lemma opop_res s ids k d : (forall i, In i ids -> In i (sdom s)) -> res_ok s (snd (opop s ids k d)).
Proof.
  intros Hok. unfold opop. destruct (dict_get (ofields_dict s ids) k) as [i|] eqn:E; simpl; [|apply odflt_res].
  apply Hok. apply (ofields_dict_get_in s ids k i E).
Qed.

Lemma oget_res s ids k d : (forall i, In i ids -> In i (sdom s)) -> res_ok s (oget s ids k d).
Proof.
  intros Hok. unfold oget. destruct (dict_get (ofields_dict s ids) k) as [i|] eqn:E; simpl; [|apply odflt_res].
  apply Hok. apply (ofields_dict_get_in s ids k i E).
Qed.

Lemma ogetitem_res s e k : res_ok s (ogetitem s e k).
Proof.
  unfold ogetitem. destruct (str_eqb k k_entrytype); [exact I|]. destruct (str_eqb k k_id); [exact I|].
  destruct (dict_get (ofields_dict s (oids e)) k); exact I.
Qed.

Lemma abs_ent_extends s s' e : store_extends s s' -> ent_ok s e -> abs_ent s' e = abs_ent s e.
Proof.
  intros Hx He. unfold abs_ent. f_equal. apply abs_ids_ext. intros i Hi. apply sget_extends; auto.
Qed.

(* ------------------------------------------------------------------ one call: the diagram commutes *)
(* set_field with the object i of a store s1 that extends s (s1 = s, or s plus the object made for the call) *)
Lemma set_case s s1 e i : ent_ok s e -> store_extends s s1 -> In i (sdom s1) ->
  step (abs_ent s e) (OSetField (sget s1 i))
    = (abs_ent s1 (with_ids e (fst (oset_field s1 (oids e) i))), abs_res s1 (snd (oset_field s1 (oids e) i)))
  /\ ent_ok s1 (with_ids e (fst (oset_field s1 (oids e) i)))
  /\ res_ok s1 (snd (oset_field s1 (oids e) i)).
Proof.
  intros He Hx Hi. split; [|split].
  - rewrite <- (abs_ent_extends s s1 e Hx He). unfold step. cbn [abs_ent efields].
    rewrite oset_field_abs. reflexivity.
  - intros j Hj. cbn [with_ids oids] in Hj. apply oset_field_ids in Hj. destruct Hj as [Hj|Hj]; [subst; assumption|].
    apply (Hx j). apply He. assumption.
  - apply oset_field_res.
Qed.

Lemma ostep_refines s e o s1 e1 r : ent_ok s e -> op_ok s o -> ostep s e o = (s1, e1, r) ->
  step (abs_ent s e) (abs_op s o) = (abs_ent s1 e1, abs_res s1 r)
  /\ ent_ok s1 e1 /\ res_ok s1 r /\ store_extends s s1.
Proof.
  intros He Ho Hs. destruct o as [i|f|k v|k d|k|k d|k|k]; cbn [ostep abs_op op_ok] in *.
  - destruct (set_case s s e i He (store_extends_refl s) Ho) as (H1 & H2 & H3).
    destruct (oset_field s (oids e) i) as [ids x]. inversion Hs; subst. cbn [fst snd] in *.
    repeat split; auto using store_extends_refl.
  - pose proof (store_extends_alloc s f) as Hx. pose proof (sget_alloc_new s f) as Hg. pose proof (salloc_dom s f) as Hd.
    destruct (salloc s f) as [s' i]. cbn [fst snd] in *.
    destruct (set_case s s' e i He Hx Hd) as (H1 & H2 & H3). rewrite Hg in H1.
    destruct (oset_field s' (oids e) i) as [ids x]. inversion Hs; subst. cbn [fst snd] in *. auto.
  - pose proof (store_extends_alloc s (mkfield k v None)) as Hx. pose proof (sget_alloc_new s (mkfield k v None)) as Hg.
    pose proof (salloc_dom s (mkfield k v None)) as Hd.
    destruct (salloc s (mkfield k v None)) as [s' i]. cbn [fst snd] in *.
    destruct (set_case s s' e i He Hx Hd) as (H1 & H2 & H3). rewrite Hg in H1.
    destruct (oset_field s' (oids e) i) as [ids x]. inversion Hs; subst. cbn [fst snd] in *. auto.
  - pose proof (opop_abs s (oids e) k d) as Ha. pose proof (opop_ids s (oids e) k d) as Hi.
    pose proof (opop_res s (oids e) k d He) as Hr.
    destruct (opop s (oids e) k d) as [ids x]. inversion Hs; subst. cbn [fst snd] in *.
    unfold step. cbn [abs_ent efields]. rewrite Ha.
    repeat split; auto using store_extends_refl. intros j Hj. apply He. apply Hi. assumption.
  - pose proof (opop_abs s (oids e) k None) as Ha. pose proof (opop_ids s (oids e) k None) as Hi.
    destruct (opop s (oids e) k None) as [ids x]. inversion Hs; subst. cbn [fst snd] in *.
    unfold step. cbn [abs_ent efields]. rewrite Ha.
    repeat split; auto using store_extends_refl. intros j Hj. apply He. apply Hi. assumption.
  - inversion Hs; subst. unfold step. cbn [abs_ent efields]. rewrite oget_abs.
    repeat split; auto using store_extends_refl. apply oget_res. assumption.
  - inversion Hs; subst. unfold step. cbn [abs_ent efields]. rewrite ocontains_abs.
    repeat split; auto using store_extends_refl.
  - inversion Hs; subst. unfold step. rewrite ogetitem_abs.
    repeat split; auto using store_extends_refl. apply ogetitem_res.
Qed.

(* the store part needs no hypothesis at all *)
Lemma ostep_extends s e o : store_extends s (fst (fst (ostep s e o))).
Proof.
  destruct o as [i|f|k v|k d|k|k d|k|k]; cbn [ostep]; try apply store_extends_refl.
  - destruct (oset_field s (oids e) i). apply store_extends_refl.
  - pose proof (store_extends_alloc s f) as Hx. destruct (salloc s f) as [s' i].
    destruct (oset_field s' (oids e) i). exact Hx.
  - pose proof (store_extends_alloc s (mkfield k v None)) as Hx. destruct (salloc s (mkfield k v None)) as [s' i].
    destruct (oset_field s' (oids e) i). exact Hx.
  - destruct (opop s (oids e) k d). apply store_extends_refl.
  - destruct (opop s (oids e) k None). apply store_extends_refl.
Qed.

(* ------------------------------------------------------------------ histories on one entry *)
Lemma abs_op_extends s s' o : store_extends s s' -> op_ok s o -> abs_op s' o = abs_op s o.
Proof. intros Hx Ho. destruct o; cbn [abs_op op_ok] in *; try reflexivity. rewrite (sget_extends s s'); auto. Qed.

Lemma abs_res_extends s s' r : store_extends s s' -> res_ok s r -> abs_res s' r = abs_res s r.
Proof. intros Hx Hr. destruct r; cbn [abs_res res_ok] in *; try reflexivity. rewrite (sget_extends s s'); auto. Qed.

Lemma res_ok_extends s s' r : store_extends s s' -> res_ok s r -> res_ok s' r.
Proof. intros Hx Hr. destruct r; cbn [res_ok] in *; auto. apply (Hx i). assumption. Qed.

Lemma obj_refines ops : forall s e, ent_ok s e -> ops_ok ops s e ->
  forall s' e' rs, orun ops s e = (s', e', rs) ->
  run (map (abs_op s') ops) (abs_ent s e) = (abs_ent s' e', map (abs_res s') rs)
  /\ ent_ok s' e' /\ Forall (res_ok s') rs /\ store_extends s s'.
Proof.
  induction ops as [|o r IH]; intros s e He Hok s' e' rs Hrun; cbn [orun ops_ok] in *.
  - inversion Hrun; subst. simpl. repeat split; auto using store_extends_refl.
  - destruct Hok as [Ho Hok].
    destruct (ostep s e o) as [[s1 e1] x] eqn:Es.
    destruct (ostep_refines s e o s1 e1 x He Ho Es) as (H1 & H2 & H3 & H4).
    destruct (orun r s1 e1) as [[s2 e2] xs] eqn:Er. inversion Hrun; subst.
    destruct (IH s1 e1 H2 Hok s' e' xs Er) as (I1 & I2 & I3 & I4).
    cbn [map run]. rewrite (abs_op_extends s s' o (store_extends_trans _ _ _ H4 I4) Ho). rewrite H1. rewrite I1.
    rewrite (abs_res_extends s1 s' x I4 H3).
    split; [reflexivity|]. split; [assumption|]. split.
    + constructor; [apply (res_ok_extends s1 s'); assumption | assumption].
    + apply (store_extends_trans _ _ _ H4 I4).
Qed.

(* ------------------------------------------------------------------ several entries: the store only grows *)
Lemma wstep_frame w c : store_extends (wstore w) (wstore (fst (wstep w c))).
Proof.
  unfold wstep. destruct (nth_error (wents w) (fst c)) as [e|]; [|apply store_extends_refl].
  pose proof (ostep_extends (wstore w) e (snd c)) as H.
  destruct (ostep (wstore w) e (snd c)) as [[s1 e1] r]. exact H.
Qed.

Lemma wrun_frame cs : forall w, store_extends (wstore w) (wstore (fst (wrun cs w))).
Proof.
  induction cs as [|c r IH]; intros w; cbn [wrun]; [apply store_extends_refl|].
  pose proof (wstep_frame w c) as H1. destruct (wstep w c) as [w1 x]. cbn [fst] in H1.
  pose proof (IH w1) as H2. destruct (wrun r w1) as [w2 xs]. cbn [fst] in *.
  apply (store_extends_trans _ _ _ H1 H2).
Qed.

Lemma store_frame cs w i : In i (sdom (wstore w)) ->
  In i (sdom (wstore (fst (wrun cs w)))) /\ slookup (wstore (fst (wrun cs w))) i = slookup (wstore w) i.
Proof. apply (wrun_frame cs w). Qed.

(* ------------------------------------------------------------------ several entries: the entries not called *)
Lemma wstep_other w c b : fst c <> b -> nth_error (wents (fst (wstep w c))) b = nth_error (wents w) b.
Proof.
  intros Hb. unfold wstep. destruct (nth_error (wents w) (fst c)) as [e|]; [|reflexivity].
  destruct (ostep (wstore w) e (snd c)) as [[s1 e1] r]. cbn [fst wents]. apply set_nth_other. assumption.
Qed.

Lemma wrun_other cs : forall w b, (forall c, In c cs -> fst c <> b) ->
  nth_error (wents (fst (wrun cs w))) b = nth_error (wents w) b.
Proof.
  induction cs as [|c r IH]; intros w b Hb; cbn [wrun]; [reflexivity|].
  pose proof (wstep_other w c b (Hb c (or_introl eq_refl))) as H1. destruct (wstep w c) as [w1 x]. cbn [fst] in H1.
  pose proof (IH w1 b (fun c' Hc => Hb c' (or_intror Hc))) as H2. destruct (wrun r w1) as [w2 xs]. cbn [fst] in *.
  congruence.
Qed.

(* everything an entry shows depends on the store only through the objects it holds *)
Lemma shows_same_extends s s' e : ent_ok s e -> store_extends s s' -> shows_same s s' e.
Proof.
  intros He Hx.
  assert (Ha : abs_ent s' e = abs_ent s e) by (apply abs_ent_extends; assumption).
  assert (Hd : ofields_dict s' (oids e) = ofields_dict s (oids e)).
  { apply ofields_dict_ext. intros i Hi. apply okeyof_extends; auto. }
  assert (Hg : forall k d, abs_res s' (oget s' (oids e) k d) = abs_res s (oget s (oids e) k d)).
  { intros k d. rewrite <- !oget_abs. change (abs_ids s' (oids e)) with (efields (abs_ent s' e)). rewrite Ha. reflexivity. }
  unfold shows_same. repeat split.
  - exact Ha.
  - exact Hd.
  - rewrite <- !ofields_dict_abs. change (abs_ids s' (oids e)) with (efields (abs_ent s' e)). rewrite Ha. reflexivity.
  - rewrite <- !oitems_abs. rewrite Ha. reflexivity.
  - unfold oget. rewrite Hd. reflexivity.
  - apply Hg.
  - intros k. unfold ocontains. rewrite Hd. reflexivity.
  - intros k. unfold ogetitem. rewrite Hd.
    destruct (str_eqb k k_entrytype); [reflexivity|]. destruct (str_eqb k k_id); [reflexivity|].
    destruct (dict_get (ofields_dict s (oids e)) k) as [i|] eqn:E; [|reflexivity].
    rewrite (sget_extends s s' i Hx); [reflexivity|]. apply He. apply (ofields_dict_get_in s (oids e) k i E).
Qed.

Lemma other_entries cs w b e : nth_error (wents w) b = Some e -> ent_ok (wstore w) e ->
  (forall c, In c cs -> fst c <> b) ->
  let w' := fst (wrun cs w) in
  nth_error (wents w') b = Some e
  /\ shows_same (wstore w) (wstore w') e
  /\ (forall i, In i (sdom (wstore w)) -> sget (wstore w') i = sget (wstore w) i).
Proof.
  intros Hn He Hb w'. pose proof (wrun_frame cs w) as Hx. fold w' in Hx.
  split; [|split].
  - unfold w'. rewrite wrun_other; assumption.
  - apply shows_same_extends; assumption.
  - intros i Hi. apply sget_extends; assumption.
Qed.

(* ------------------------------------------------------------------ several entries: the whole world commutes *)
Lemma nth_error_lt {T} (l : list T) n : n < List.length l -> exists x, nth_error l n = Some x.
Proof.
  intros H. destruct (nth_error l n) as [x|] eqn:E; [eauto|].
  apply nth_error_None in E. lia.
Qed.

Lemma wstep_refines w c w1 r : world_ok w -> fst c < List.length (wents w) -> op_ok (wstore w) (snd c) ->
  wstep w c = (w1, r) ->
  vstep (abs_world w) (abs_wop (wstore w) c) = (abs_world w1, abs_res (wstore w1) r)
  /\ world_ok w1 /\ res_ok (wstore w1) r /\ store_extends (wstore w) (wstore w1).
Proof.
  intros Hw Hlt Ho Hs. destruct (nth_error_lt _ _ Hlt) as [e Hn].
  unfold wstep in Hs. rewrite Hn in Hs.
  assert (He : ent_ok (wstore w) e) by (apply Hw; apply (nth_error_In _ _ Hn)).
  destruct (ostep (wstore w) e (snd c)) as [[s1 e1] x] eqn:Es. inversion Hs; subst. clear Hs.
  destruct (ostep_refines _ _ _ _ _ _ He Ho Es) as (H1 & H2 & H3 & H4).
  cbn [wstore wents]. split; [|split; [|split]]; auto.
  - unfold vstep, abs_wop, abs_world. cbn [fst snd wstore wents].
    rewrite (map_nth_error (abs_ent (wstore w)) _ _ Hn). rewrite H1.
    rewrite set_nth_map. f_equal. f_equal. apply map_ext_in. intros e' He'. symmetry. apply abs_ent_extends; auto.
  - intros e' He'. cbn [wstore wents] in *. apply set_nth_in in He'. destruct He' as [He'|He']; [subst; assumption|].
    apply (ent_ok_extends (wstore w)); auto.
Qed.

Lemma abs_wop_extends s s' c : store_extends s s' -> op_ok s (snd c) -> abs_wop s' c = abs_wop s c.
Proof. intros Hx Ho. unfold abs_wop. rewrite (abs_op_extends s s'); auto. Qed.

Lemma world_refines cs : forall w, world_ok w -> wops_ok cs w ->
  forall w' rs, wrun cs w = (w', rs) ->
  vrun (map (abs_wop (wstore w')) cs) (abs_world w) = (abs_world w', map (abs_res (wstore w')) rs)
  /\ world_ok w' /\ Forall (res_ok (wstore w')) rs /\ store_extends (wstore w) (wstore w').
Proof.
  induction cs as [|c r IH]; intros w Hw Hok w' rs Hrun; cbn [wrun wops_ok] in *.
  - inversion Hrun; subst. simpl. split; [reflexivity|]. split; [assumption|]. split; [constructor | apply store_extends_refl].
  - destruct Hok as [[Hlt Ho] Hok].
    destruct (wstep w c) as [w1 x] eqn:Es. cbn [fst] in Hok.
    destruct (wstep_refines w c w1 x Hw Hlt Ho Es) as (H1 & H2 & H3 & H4).
    destruct (wrun r w1) as [w2 xs] eqn:Er. inversion Hrun; subst.
    destruct (IH w1 H2 Hok w' xs Er) as (I1 & I2 & I3 & I4).
    cbn [map vrun]. rewrite (abs_wop_extends (wstore w) (wstore w') c (store_extends_trans _ _ _ H4 I4) Ho).
    rewrite H1. rewrite I1. rewrite (abs_res_extends (wstore w1) (wstore w') x I4 H3).
    split; [reflexivity|]. split; [assumption|]. split.
    + constructor; [apply (res_ok_extends (wstore w1) (wstore w')); assumption | assumption].
    + apply (store_extends_trans _ _ _ H4 I4).
Qed.

(* ------------------------------------------------------------------ witnesses *)
From Coq Require Import String.
(* objects 1, 2: the fields of entry A (entry 0); object 3: the one field of entry B (entry 1) *)
Definition ex_store : fstore :=
  [(3, mkfield (lit "title") (VStr (lit "old")) None);
   (2, mkfield (lit "year") (VStr (lit "2000")) (Some 3%Z));
   (1, mkfield (lit "title") (VStr (lit "T")) (Some 2%Z))].
Definition ex_world : world :=
  mkworld ex_store [mkoent (lit "article") (lit "a") [1; 2]; mkoent (lit "book") (lit "b") [3]].
(* f = A.get("title");  B.set_field(f);  A["title"] = "X";  B["title"];  A["title"] *)
Definition ex_wops : list wop :=
  [(0, PGet (lit "title") None); (1, PSetObj 1); (0, PSetItem (lit "title") (VStr (lit "X")));
   (1, PGetItem (lit "title")); (0, PGetItem (lit "title"))].
(* B = Entry("book", "b", list(A.fields)): the same two objects in another list *)
Definition ex_world2 : world :=
  mkworld ex_store [mkoent (lit "article") (lit "a") [1; 2]; mkoent (lit "book") (lit "b") [1; 2]].
Definition ex_wops2 : list wop := [(0, PSetItem (lit "title") (VStr (lit "X")))].

Lemma example_obj_hypotheses :
  world_ok ex_world /\ wops_ok ex_wops ex_world /\ world_ok ex_world2 /\ wops_ok ex_wops2 ex_world2.
Proof.
  assert (W1 : world_ok ex_world).
  { intros e He i Hi. simpl in He. destruct He as [He|[He|[]]]; subst e; simpl in Hi; simpl; tauto. }
  assert (W2 : world_ok ex_world2).
  { intros e He i Hi. simpl in He. destruct He as [He|[He|[]]]; subst e; simpl in Hi; simpl; tauto. }
  split; [exact W1|]. split; [|split; [exact W2|]].
  - vm_compute. repeat split; auto; lia.
  - vm_compute. repeat split; auto; lia.
Qed.

(* entry B holds the object it was given (1) and still shows "T" after A["title"] = "X"; A holds a new object (4) in
   the same slot; the result of the earlier get (object 1) still shows "T" *)
Lemma example_obj_run :
  let w' := fst (wrun ex_wops ex_world) in
  map oids (wents w') = [[4; 2]; [1]]
  /\ snd (wrun ex_wops ex_world) = [OObj 1; ONone; ONone; OVal (VStr (lit "T")); OVal (VStr (lit "X"))]
  /\ sget (wstore w') 1 = mkfield (lit "title") (VStr (lit "T")) (Some 2%Z)
  /\ sget (wstore w') 4 = mkfield (lit "title") (VStr (lit "X")) None.
Proof. vm_compute. repeat split; reflexivity. Qed.

Lemma example_obj_shared :
  let w' := fst (wrun ex_wops2 ex_world2) in
  nth_error (abs_world ex_world2) 1 = Some (abs_ent ex_store (mkoent (lit "book") (lit "b") [1; 2]))
  /\ nth_error (abs_world w') 1 = nth_error (abs_world ex_world2) 1
  /\ nth_error (abs_world w') 0 <> nth_error (abs_world ex_world2) 0.
Proof. vm_compute. repeat split; try reflexivity. intros H. discriminate H. Qed.

(* the alternative item assignment (write into the object in the slot): the untouched entry B changes, and so does
   what the object handed out before shows *)
Lemma obj_inplace_refuted :
  exists cs w b e, world_ok w /\ wops_ok cs w /\ nth_error (wents w) b = Some e /\ (forall c, In c cs -> fst c <> b)
    /\ abs_ent (wstore (fst (wrun_inplace cs w))) e <> abs_ent (wstore w) e
    /\ exists i, In i (sdom (wstore w)) /\ sget (wstore (fst (wrun_inplace cs w))) i <> sget (wstore w) i.
Proof.
  exists ex_wops2, ex_world2, 1, (mkoent (lit "book") (lit "b") [1; 2]).
  destruct example_obj_hypotheses as (_ & _ & W & P).
  split; [exact W|]. split; [exact P|]. split; [reflexivity|]. split.
  - intros c [Hc|[]]. subst c. simpl. discriminate.
  - split.
    + vm_compute. intros H. discriminate H.
    + exists 1. split; [simpl; tauto|]. vm_compute. intros H. discriminate H.
Qed.
