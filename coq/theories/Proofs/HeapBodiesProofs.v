(* C07 - every shipped middleware body stays within its footprint (Model/HeapBodies.v), for EVERY table. *)
From Coq Require Import List ZArith Bool Arith Lia.
From BP Require Import Model.Heap Model.HeapMw Model.HeapBodies Spec.C07 Proofs.HeapProofs.
Import ListNotations.

Arguments alloc : simpl never.

Ltac bind H :=
  match type of H with
  | (match ?x with Some _ => _ | None => None end) = Some _ =>
      let v := fresh "v" in let e := fresh "E" in destruct x as [v|] eqn:e; [|discriminate H]
  end.

(* fp_inv kept, dom grown *)
Definition fp_ext (h : heap) (b : nat) (hc h1 : heap) : Prop :=
  fp_inv h b h1 /\ (forall p, In p (dom hc) -> In p (dom h1)).

Lemma fp_ext_refl : forall h b hc, fp_inv h b hc -> fp_ext h b hc hc.
Proof. intros; split; auto. Qed.
Lemma fp_ext_trans : forall h b h1 h2 h3, fp_ext h b h1 h2 -> fp_ext h b h2 h3 -> fp_ext h b h1 h3.
Proof. intros h b h1 h2 h3 [_ M1] [I2 M2]. split; auto. Qed.
Lemma fp_ext_regr : forall h b hc h1 q, fp_ext h b hc h1 -> regr h b hc q -> regr h b h1 q.
Proof. intros h b hc h1 q [_ M] R. eapply regr_mono; eauto. Qed.
Lemma fp_ext_regv : forall h b hc h1 v, fp_ext h b hc h1 -> regv h b hc v -> regv h b h1 v.
Proof. intros h b hc h1 v [_ M] R. eapply regv_mono; eauto. Qed.
Lemma rega_mono : forall h b hc h1 d, fp_ext h b hc h1 -> rega h b hc d -> rega h b h1 d.
Proof. intros h b hc h1 d X R k v I. eapply fp_ext_regv; eauto. Qed.

Lemma setattr_ext_fp : forall h b hc o a v h1, fp_inv h b hc -> regr h b hc o -> regv h b hc v ->
  setattr hc o a v = Some h1 -> fp_ext h b hc h1.
Proof. intros h b hc o a v h1 I [_ R] Gv E. destruct (setattr_fp _ _ _ _ _ _ _ I R Gv E). split; auto. Qed.

Lemma alloc_ext_fp : forall h b hc ob h1 n, fp_inv h b hc -> rego h b hc ob -> alloc hc ob = (h1, n) ->
  fp_ext h b hc h1 /\ regr h b h1 n.
Proof. intros h b hc ob h1 n I G A. destruct (fp_alloc _ _ _ _ _ _ I G A) as (I1 & R & M). split; [split; auto | exact R]. Qed.

Lemma rego_atoms : forall h b hc l, rego h b hc (OList (map PAtom l)).
Proof.
  intros h b hc l. apply rego_list. intros v I. apply in_map_iff in I. destruct I as [a [<- _]]. apply regv_atom.
Qed.
Lemma alloc_atoms_fp : forall h b hc l h1 n, fp_inv h b hc -> alloc_atoms hc l = (h1, n) -> fp_ext h b hc h1 /\ regr h b h1 n.
Proof. intros h b hc l h1 n I A. eapply alloc_ext_fp; eauto. apply rego_atoms. Qed.

Lemma get_dict_reg : forall h b hc o d, fp_inv h b hc -> regr h b hc o -> get_dict hc o = Some d -> rega h b hc d.
Proof.
  intros h b hc o d I [_ R] E. unfold get_dict in E. destruct (lookup hc o) as [[|d'|]|] eqn:L; try discriminate.
  inversion E; subst. apply rego_dict. eapply fp_read; eauto.
Qed.
Lemma get_list_reg : forall h b hc o l, fp_inv h b hc -> regr h b hc o -> get_list hc o = Some l -> forall v, In v l -> regv h b hc v.
Proof.
  intros h b hc o l I [_ R] E. unfold get_list in E. destruct (lookup hc o) as [[l'| |]|] eqn:L; try discriminate.
  inversion E; subst. apply rego_list. eapply fp_read; eauto.
Qed.
Lemma getattr_regr : forall h b hc o a v, fp_inv h b hc -> regr h b hc o -> getattr hc o a = Some v -> regv h b hc v.
Proof. intros h b hc o a v I [_ R] E. eapply getattr_reg; eauto. Qed.
Lemma as_ref_regr : forall h b hc v r, regv h b hc v -> as_ref v = Some r -> regr h b hc r.
Proof. intros h b hc [a|o] r G E; inversion E; subst. apply regv_ref_inv; auto. Qed.
Lemma aget_rega : forall h b hc d k v, rega h b hc d -> aget d k = Some v -> regv h b hc v.
Proof. intros h b hc d k v G E. eapply G. eapply aget_in; eauto. Qed.

Lemma entry_fields_reg : forall h b hc o fs, fp_inv h b hc -> regr h b hc o -> entry_fields hc o = Some fs ->
  forall f, In f fs -> regr h b hc f.
Proof.
  intros h b hc o fs I [_ R] E f If. unfold entry_fields in E. bind E. destruct v as [l xs]. simpl in E.
  destruct (attr_list_reg _ _ _ _ _ _ _ I R E0) as [_ Gx]. apply regv_ref_inv. apply Gx. eapply as_refs_in; eauto.
Qed.

Lemma adel_in : forall d k k1 v1, In (k1, v1) (adel d k) -> In (k1, v1) d.
Proof. intros d k k1 v1 I. unfold adel in I. apply filter_In in I. apply I. Qed.

Lemma meta_set_fp : forall h b hc o k v h1, fp_inv h b hc -> regr h b hc o -> regv h b hc v ->
  meta_set hc o k v = Some h1 -> fp_ext h b hc h1.
Proof.
  intros h b hc o k v h1 I R Gv E. unfold meta_set in E. bind E. bind E. bind E. inversion E; subst; clear E.
  pose proof (as_ref_regr _ _ _ _ _ (getattr_regr _ _ _ _ _ _ I R E0) E1) as Rm.
  split; [|intros p Ip; simpl; auto]. apply fp_set; auto; [apply Rm|].
  apply rego_dict. apply rega_aset; auto. eapply get_dict_reg; eauto.
Qed.

Lemma error_block_fp : forall h b hc o h2 eb, fp_inv h b hc -> regr h b hc o -> error_block hc o = Some (h2, eb) ->
  fp_ext h b hc h2 /\ regr h b h2 eb.
Proof.
  intros h b hc o h2 eb I R E. unfold error_block in E. bind E. bind E.
  destruct (alloc hc (ODict [])) as [h1 md] eqn:A1. destruct (alloc h1 _) as [h3 e3] eqn:A2. inversion E; subst; clear E.
  assert (G0 : rego h b hc (ODict [])) by (apply rego_dict, rega_nil).
  destruct (alloc_ext_fp _ _ _ _ _ _ I G0 A1) as [X1 Rmd].
  match type of A2 with alloc h1 ?o' = _ => assert (G1 : rego h b h1 o') end.
  { apply rego_inst. repeat apply rega_cons; try apply rega_nil; try apply regv_atom.
    - eapply fp_ext_regv; [exact X1|]. eapply getattr_regr; eauto.
    - eapply fp_ext_regv; [exact X1|]. eapply getattr_regr; eauto.
    - apply regv_ref; auto.
    - apply regv_ref. eapply fp_ext_regr; eauto. }
  destruct (alloc_ext_fp _ _ _ _ _ _ (proj1 X1) G1 A2) as [X2 Re]. split; [eapply fp_ext_trans; eauto | auto].
Qed.

(* the loop over the fields *)
Lemma floop_fp : forall A (Q : heap -> A -> Prop) h b (step : heap -> A -> nat -> option (heap * A)),
  (forall hc a f h1 a1, fp_inv h b hc -> regr h b hc f -> Q hc a -> step hc a f = Some (h1, a1) ->
                        fp_ext h b hc h1 /\ Q h1 a1) ->
  forall fs hc a h1 a1, fp_inv h b hc -> (forall f, In f fs -> regr h b hc f) -> Q hc a ->
  floop step hc a fs = Some (h1, a1) -> fp_ext h b hc h1 /\ Q h1 a1.
Proof.
  intros A Q h b step S fs. induction fs as [|f r IH]; simpl; intros hc a h1 a1 I R Qa E.
  - inversion E; subst. split; [apply fp_ext_refl; auto | auto].
  - bind E. destruct v as [h2 a2]. simpl in E.
    destruct (S hc a f h2 a2 I (R f (or_introl eq_refl)) Qa E0) as [X2 Q2].
    destruct (IH h2 a2 h1 a1 (proj1 X2)) as [X3 Q3]; auto.
    + intros f0 I0. eapply fp_ext_regr; eauto.
    + split; [eapply fp_ext_trans; eauto | auto].
Qed.

(* from "the final heap satisfies the invariant and the results are in the region" to the footprint *)
Definition fp_fun (fe : heap -> nat -> option (heap * result)) : Prop :=
  forall h b h' res, wf_heap h -> In b (dom h) -> fe h b = Some (h', res) ->
    fp_inv h b h' /\ forall r, In r (result_blocks res) -> regr h b h' r.

Lemma fp_keep : fp_fun keep_block.
Proof.
  intros h b h' res W B E. inversion E; subst. split; [apply fp_init; auto|]. intros r [<-|[]]. split; [auto|apply region_self].
Qed.

Lemma fp_dispatch : forall fe fs, fp_fun fe -> fp_fun fs -> footprint_ok (dispatch fe fs).
Proof.
  intros fe fs Fe Fs h lib b h' res W L B E. unfold dispatch in E.
  assert (P : forall f, fp_fun f -> f h b = Some (h', res) -> fp_inv h b h' /\ forall r, In r (result_blocks res) -> regr h b h' r)
    by (intros f F Ef; eapply F; eauto).
  destruct (is_entry h b); [destruct (P fe Fe E); apply fp_final; auto|].
  destruct (is_string h b); [destruct (P fs Fs E); apply fp_final; auto|].
  destruct (P keep_block fp_keep E); apply fp_final; auto.
Qed.

Lemma regr_self : forall h b, In b (dom h) -> regr h b h b.
Proof. intros; split; [auto | apply region_self]. Qed.

Lemma ret_one : forall h b hc h1 r, fp_ext h b hc h1 -> regr h b hc r -> forall r0, In r0 (result_blocks (ROne r)) -> regr h b h1 r0.
Proof. intros h b hc h1 r X R r0 [<-|[]]. eapply fp_ext_regr; eauto. Qed.

Ltac solve_ext := first [eassumption | eapply fp_ext_trans; [eassumption | solve_ext]].

Tactic Notation "bindn" hyp(H) ident(v) ident(e) :=
  match type of H with
  | (match ?x with Some _ => _ | None => None end) = Some _ => destruct x as [v|] eqn:e; [|discriminate H]
  end.

(* ------------------------------------------------------------------ RemoveEnclosing *)
Lemma rm_step_fp : forall tbl h b hc d f h1 d1, fp_inv h b hc -> regr h b hc f -> rega h b hc d ->
  rm_step tbl hc d f = Some (h1, d1) -> fp_ext h b hc h1 /\ rega h b h1 d1.
Proof.
  intros tbl h b hc d f h1 d1 I R Q E. unfold rm_step in E.
  bindn E v Ev. bindn E a Ea. bindn E se Es. bindn E h2 Eh. bindn E kv Ek. bindn E k Ekk. inversion E; subst; clear E.
  pose proof (setattr_ext_fp _ _ _ _ _ _ _ I R (regv_atom _ _ _ _) Eh) as X.
  split; [exact X|]. apply rega_aset; [eapply rega_mono; eauto | apply regv_atom].
Qed.

Lemma fp_rm_entry : forall k tbl, fp_fun (rm_entry k tbl).
Proof.
  intros k tbl h b h' res W B E. unfold rm_entry in E. pose proof (fp_init h b W) as I0. pose proof (regr_self h b B) as Rb.
  bindn E fs Ef. bindn E x Ex. destruct x as [h1 d]. cbn [fst snd] in E.
  destruct (alloc h1 (ODict d)) as [h2 md] eqn:A. bindn E h3 Em. inversion E; subst; clear E.
  destruct (floop_fp _ (rega h b) h b (rm_step tbl) (fun hc a f h1 a1 => rm_step_fp tbl h b hc a f h1 a1)
              fs h [] h1 d I0 (entry_fields_reg _ _ _ _ _ I0 Rb Ef) (rega_nil _ _ _) Ex) as [X1 Q1].
  destruct (alloc_ext_fp _ _ _ _ _ _ (proj1 X1) (proj1 (rego_dict _ _ _ _) Q1) A) as [X2 Rm].
  assert (X12 : fp_ext h b h h2) by (eapply fp_ext_trans; eauto).
  pose proof (meta_set_fp _ _ _ _ _ _ _ (proj1 X2) (fp_ext_regr _ _ _ _ _ X12 Rb) (regv_ref _ _ _ _ Rm) Em) as X3.
  split; [apply X3|]. apply (ret_one h b h h' b); [solve_ext | exact Rb].
Qed.

Lemma fp_rm_string : forall k tbl, fp_fun (rm_string k tbl).
Proof.
  intros k tbl h b h' res W B E. unfold rm_string in E. pose proof (fp_init h b W) as I0. pose proof (regr_self h b B) as Rb.
  bindn E v Ev. bindn E a Ea. bindn E se Es. bindn E h1 Eh. bindn E h2 Em. inversion E; subst; clear E.
  pose proof (setattr_ext_fp _ _ _ _ _ _ _ I0 Rb (regv_atom _ _ _ _) Eh) as X1.
  pose proof (meta_set_fp _ _ _ _ _ _ _ (proj1 X1) (fp_ext_regr _ _ _ _ _ X1 Rb) (regv_atom _ _ _ _) Em) as X2.
  split; [apply X2|]. apply (ret_one h b h h' b); [solve_ext | exact Rb].
Qed.

(* ------------------------------------------------------------------ AddEnclosing *)
Lemma add_step_fp : forall tbl prev h b hc u f h1 u1, fp_inv h b hc -> regr h b hc f -> True ->
  add_step tbl prev hc u f = Some (h1, u1) -> fp_ext h b hc h1 /\ True.
Proof.
  intros tbl prev h b hc u f h1 u1 I R _ E. unfold add_step in E.
  bindn E v Ev. bindn E a Ea. bindn E kv Ek. bindn E k Ekk. bindn E p Ep. bindn E n En. bindn E h2 Eh. inversion E; subst; clear E.
  split; [|exact Logic.I]. eapply setattr_ext_fp; eauto. apply regv_atom.
Qed.

Lemma fp_add_entry : forall k tbl, fp_fun (add_entry k tbl).
Proof.
  intros k tbl h b h' res W B E. unfold add_entry in E. pose proof (fp_init h b W) as I0. pose proof (regr_self h b B) as Rb.
  bindn E mdv Em. bindn E md Emd. bindn E d Ed.
  pose proof (as_ref_regr _ _ _ _ _ (getattr_regr _ _ _ _ _ _ I0 Rb Em) Emd) as Rm.
  assert (X0 : fp_ext h b h (set_obj h md (ODict (adel d k)))).
  { split; [|intros p Ip; simpl; auto]. apply fp_set; auto; [apply Rm|]. apply rego_dict.
    intros k1 v1 I1. eapply (get_dict_reg _ _ _ _ _ I0 Rm Ed). eapply adel_in; eauto. }
  bindn E prev Ep. bindn E fs Ef. bindn E x Ex. destruct x as [h1 u]. cbn [fst] in E. inversion E; subst; clear E.
  destruct (floop_fp _ (fun _ _ => True) h b (add_step tbl prev) (fun hc a f h1 a1 => add_step_fp tbl prev h b hc a f h1 a1)
              fs _ tt _ _ (proj1 X0) (entry_fields_reg _ _ _ _ _ (proj1 X0) (fp_ext_regr _ _ _ _ _ X0 Rb) Ef) Logic.I Ex) as [X1 _].
  split; [apply X1|]. apply (ret_one h b h h' b); [solve_ext | exact Rb].
Qed.

Lemma fp_add_string : forall k tbl, fp_fun (add_string k tbl).
Proof.
  intros k tbl h b h' res W B E. unfold add_string in E. pose proof (fp_init h b W) as I0. pose proof (regr_self h b B) as Rb.
  bindn E mdv Em. bindn E md Emd. bindn E d Ed. bindn E p Ep. bindn E v Ev. bindn E a Ea. bindn E n En. bindn E h1 Eh.
  inversion E; subst; clear E.
  pose proof (setattr_ext_fp _ _ _ _ _ _ _ I0 Rb (regv_atom _ _ _ _) Eh) as X1.
  split; [apply X1|]. eapply ret_one; eauto.
Qed.

(* ------------------------------------------------------------------ Month* *)
Lemma last_with_key_in : forall h k fs acc r, last_with_key h k fs acc = Some (Some r) -> In r fs \/ acc = Some r.
Proof.
  intros h k fs. induction fs as [|f rest IH]; simpl; intros acc r E.
  - inversion E; auto.
  - bindn E kv Ek. bindn E kk Ekk. destruct (IH _ _ E) as [I|A]; [left; auto|].
    destruct (Z.eqb kk k); [inversion A; subst; left; auto | right; auto].
Qed.

Lemma fp_month_entry : forall km k mo tbl, fp_fun (month_entry km k mo tbl).
Proof.
  intros km k mo tbl h b h' res W B E. unfold month_entry in E. pose proof (fp_init h b W) as I0. pose proof (regr_self h b B) as Rb.
  bindn E fs Ef. bindn E mf Emf. destruct mf as [f|].
  - bindn E v Ev. bindn E nm En. bindn E h1 Eh. bindn E h2 Em. inversion E; subst; clear E.
    assert (Rf : regr h b h f).
    { destruct (last_with_key_in _ _ _ _ _ Emf) as [If|A]; [|discriminate]. eapply entry_fields_reg; eauto. }
    assert (Gn : regv h b h (fst nm)).
    { destruct v as [a|r]; [bindn En r Er; inversion En; subst; apply regv_atom|].
      inversion En; subst. cbn [fst]. eapply getattr_regr; eauto. }
    pose proof (setattr_ext_fp _ _ _ _ _ _ _ I0 Rf Gn Eh) as X1.
    pose proof (meta_set_fp _ _ _ _ _ _ _ (proj1 X1) (fp_ext_regr _ _ _ _ _ X1 Rb) (regv_atom _ _ _ _) Em) as X2.
    split; [apply X2|]. apply (ret_one h b h h' b); [solve_ext | exact Rb].
  - inversion E; subst. split; [auto|]. eapply ret_one; [apply fp_ext_refl; auto | exact Rb].
Qed.

(* ------------------------------------------------------------------ NormalizeFieldKeys *)
Lemma norm_step_fp : forall lower h b hc d f h1 d1, fp_inv h b hc -> regr h b hc f -> rega h b hc d ->
  norm_step lower hc d f = Some (h1, d1) -> fp_ext h b hc h1 /\ rega h b h1 d1.
Proof.
  intros lower h b hc d f h1 d1 I R Q E. unfold norm_step in E.
  bindn E kv Ek. bindn E k Ekk. bindn E k' El. bindn E h2 Eh. inversion E; subst; clear E.
  pose proof (setattr_ext_fp _ _ _ _ _ _ _ I R (regv_atom _ _ _ _) Eh) as X.
  split; [exact X|]. apply rega_aset; [eapply rega_mono; eauto | apply regv_ref; eapply fp_ext_regr; eauto].
Qed.

Lemma rega_values : forall h b hc d, rega h b hc d -> rego h b hc (OList (map snd d)).
Proof.
  intros h b hc d G. apply rego_list. intros v I. apply in_map_iff in I. destruct I as [[k v'] [<- I]]. eapply G; eauto.
Qed.

Lemma fp_norm_entry : forall lower, fp_fun (norm_entry lower).
Proof.
  intros lower h b h' res W B E. unfold norm_entry in E. pose proof (fp_init h b W) as I0. pose proof (regr_self h b B) as Rb.
  bindn E fs Ef. bindn E x Ex. destruct x as [h1 d]. cbn [fst snd] in E.
  destruct (alloc h1 _) as [h2 nl] eqn:A. bindn E h3 Es. inversion E; subst; clear E.
  destruct (floop_fp _ (rega h b) h b (norm_step lower) (fun hc a f h1 a1 => norm_step_fp lower h b hc a f h1 a1)
              fs h [] h1 d I0 (entry_fields_reg _ _ _ _ _ I0 Rb Ef) (rega_nil _ _ _) Ex) as [X1 Q1].
  destruct (alloc_ext_fp _ _ _ _ _ _ (proj1 X1) (rega_values _ _ _ _ Q1) A) as [X2 Rn].
  assert (X12 : fp_ext h b h h2) by (eapply fp_ext_trans; eauto).
  pose proof (setattr_ext_fp _ _ _ _ _ _ _ (proj1 X2) (fp_ext_regr _ _ _ _ _ X12 Rb) (regv_ref _ _ _ _ Rn) Es) as X3.
  split; [apply X3|]. apply (ret_one h b h h' b); [solve_ext | exact Rb].
Qed.

(* ------------------------------------------------------------------ SortFields* *)
Lemma insert_in : forall x l y, In y (insert_ranked x l) -> y = x \/ In y l.
Proof.
  intros x l. induction l as [|z r IH]; simpl; intros y I.
  - destruct I as [<-|[]]; auto.
  - destruct (Nat.leb (fst x) (fst z)).
    + destruct I as [<-|I]; auto.
    + destruct I as [<-|I]; [right; left; auto|]. destruct (IH y I); auto.
Qed.
Lemma sort_in : forall l y, In y (sort_ranked l) -> In y l.
Proof.
  induction l as [|x r IH]; simpl; intros y I; [auto|].
  apply insert_in in I. destruct I as [->|I]; auto.
Qed.
Lemma ranks_in : forall rank dflt h fs rk, ranks rank dflt h fs = Some rk -> forall x, In x rk -> In (snd x) fs.
Proof.
  intros rank dflt h fs. induction fs as [|f r IH]; simpl; intros rk E x I.
  - inversion E; subst. inversion I.
  - bindn E kv Ek. bindn E k Ekk. bindn E r' Er. inversion E; subst. destruct I as [<-|I]; [left; auto | right; eapply IH; eauto].
Qed.

Lemma fp_sort_entry : forall rank dflt k mv, fp_fun (sort_entry rank dflt k mv).
Proof.
  intros rank dflt k mv h b h' res W B E. unfold sort_entry in E. pose proof (fp_init h b W) as I0. pose proof (regr_self h b B) as Rb.
  bindn E fs Ef. bindn E rk Er. destruct (alloc h _) as [h1 nl] eqn:A. bindn E h2 Es. bindn E h3 Em. inversion E; subst; clear E.
  match type of A with alloc h ?o = _ => assert (G : rego h b h o) end.
  { apply rego_list. intros v I. apply in_map_iff in I. destruct I as [x [<- I]]. apply regv_ref.
    eapply entry_fields_reg; eauto. eapply ranks_in; eauto. apply sort_in; auto. }
  destruct (alloc_ext_fp _ _ _ _ _ _ I0 G A) as [X1 Rn].
  pose proof (setattr_ext_fp _ _ _ _ _ _ _ (proj1 X1) (fp_ext_regr _ _ _ _ _ X1 Rb) (regv_ref _ _ _ _ Rn) Es) as X2.
  assert (X12 : fp_ext h b h h2) by solve_ext.
  assert (X3 : fp_ext h b h2 h').
  { destruct mv as [a|l].
    - eapply meta_set_fp; [apply X2 | eapply fp_ext_regr; [exact X12|exact Rb] | apply regv_atom | exact Em].
    - destruct (alloc_atoms h2 l) as [h2' ol] eqn:A2.
      destruct (alloc_atoms_fp _ _ _ _ _ _ (proj1 X2) A2) as [X2' Ro].
      eapply fp_ext_trans; [exact X2'|].
      eapply meta_set_fp; [apply X2' | eapply fp_ext_regr; [exact X2'|]; eapply fp_ext_regr; [exact X12|exact Rb]
                          | apply regv_ref; exact Ro | exact Em]. }
  split; [apply X3|]. apply (ret_one h b h h' b); [solve_ext | exact Rb].
Qed.

(* ------------------------------------------------------------------ the name middlewares *)
Definition valf_ok (valf : valfun) : Prop :=
  forall h b hc v h1 r, fp_inv h b hc -> regv h b hc v -> valf hc v = Some (h1, r) ->
    fp_ext h b hc h1 /\ match r with Some v' => regv h b h1 v' | None => True end.

Lemma names_step_fp : forall nk valf, valf_ok valf -> forall h b hc (u : bool) f h1 u1, fp_inv h b hc -> regr h b hc f -> True ->
  names_step nk valf hc u f = Some (h1, u1) -> fp_ext h b hc h1 /\ True.
Proof.
  intros nk valf V h b hc u f h1 u1 I R _ E. split; [|exact Logic.I]. unfold names_step in E.
  destruct u; [inversion E; subst; apply fp_ext_refl; auto|].
  bindn E kv Ek. bindn E k Ekk. destruct (existsb (Z.eqb k) nk); [|inversion E; subst; apply fp_ext_refl; auto].
  bindn E v Ev. bindn E r Er. destruct r as [h2 [v'|]]; cbn [fst snd] in E.
  - bindn E h3 Es. inversion E; subst; clear E.
    destruct (V h b hc v h2 (Some v') I (getattr_regr _ _ _ _ _ _ I R Ev) Er) as [X1 Gv].
    eapply fp_ext_trans; [exact X1|]. eapply setattr_ext_fp; [apply X1 | eapply fp_ext_regr; eauto | exact Gv | exact Es].
  - inversion E; subst. apply (V h b hc v h1 None I (getattr_regr _ _ _ _ _ _ I R Ev) Er).
Qed.

Lemma fp_names_entry : forall nk valf, valf_ok valf -> fp_fun (names_entry nk valf).
Proof.
  intros nk valf V h b h' res W B E. unfold names_entry in E. pose proof (fp_init h b W) as I0. pose proof (regr_self h b B) as Rb.
  bindn E fs Ef. bindn E x Ex. destruct x as [h1 fl]. cbn [fst snd] in E.
  destruct (floop_fp _ (fun _ _ => True) h b (names_step nk valf) (names_step_fp nk valf V h b)
              fs h false h1 fl I0 (entry_fields_reg _ _ _ _ _ I0 Rb Ef) Logic.I Ex) as [X1 _].
  destruct fl.
  - bindn E e Ee. destruct e as [h2 eb]. cbn [fst snd] in E. inversion E; subst; clear E.
    destruct (error_block_fp _ _ _ _ _ _ (proj1 X1) (fp_ext_regr _ _ _ _ _ X1 Rb) Ee) as [X2 Re].
    split; [apply X2|]. intros r [<-|[]]. exact Re.
  - inversion E; subst. split; [apply X1|]. apply (ret_one h b h h' b); [solve_ext | exact Rb].
Qed.

Lemma separate_ok : forall tbl, valf_ok (separate_val tbl).
Proof.
  intros tbl h b hc v h1 r I G E. unfold separate_val in E. bindn E a Ea. bindn E l El.
  destruct (alloc_atoms hc l) as [h2 nl] eqn:A. inversion E; subst.
  destruct (alloc_atoms_fp _ _ _ _ _ _ I A) as [X R]. split; [auto | apply regv_ref; auto].
Qed.

Lemma merge_co_ok : forall tbl, valf_ok (merge_co_val tbl).
Proof.
  intros tbl h b hc v h1 r I G E. unfold merge_co_val in E.
  destruct v as [a|o]; [inversion E; subst; split; [apply fp_ext_refl; auto | auto]|].
  destruct (lookup hc o) as [[xs| |]|]; try (inversion E; subst; split; [apply fp_ext_refl; auto | auto]).
  bindn E l El. bindn E a Ea. inversion E; subst. split; [apply fp_ext_refl; auto | apply regv_atom].
Qed.

Lemma alloc_parts_fp : forall h b hc p h1 np, fp_inv h b hc -> alloc_parts hc p = Some (h1, np) ->
  fp_ext h b hc h1 /\ regr h b h1 np.
Proof.
  intros h b hc p h1 np I E. unfold alloc_parts in E.
  destruct p as [|fi [|vo [|la [|jr [|? ?]]]]]; try discriminate.
  destruct (alloc_atoms hc fi) as [h2 l1] eqn:A1. destruct (alloc_atoms h2 vo) as [h3 l2] eqn:A2.
  destruct (alloc_atoms h3 la) as [h4 l3] eqn:A3. destruct (alloc_atoms h4 jr) as [h5 l4] eqn:A4.
  destruct (alloc h5 _) as [h6 n] eqn:A5. inversion E; subst; clear E.
  destruct (alloc_atoms_fp _ _ _ _ _ _ I A1) as [X1 R1]. destruct (alloc_atoms_fp _ _ _ _ _ _ (proj1 X1) A2) as [X2 R2].
  destruct (alloc_atoms_fp _ _ _ _ _ _ (proj1 X2) A3) as [X3 R3]. destruct (alloc_atoms_fp _ _ _ _ _ _ (proj1 X3) A4) as [X4 R4].
  match type of A5 with alloc h5 ?o = _ => assert (G : rego h b h5 o) end.
  { apply rego_inst. repeat apply rega_cons; try apply rega_nil; apply regv_ref.
    - eapply fp_ext_regr; [exact X4|]. eapply fp_ext_regr; [exact X3|]. eapply fp_ext_regr; eauto.
    - eapply fp_ext_regr; [exact X4|]. eapply fp_ext_regr; eauto.
    - eapply fp_ext_regr; eauto.
    - auto. }
  destruct (alloc_ext_fp _ _ _ _ _ _ (proj1 X4) G A5) as [X5 R5]. split; [solve_ext | auto].
Qed.

Lemma alloc_parts_list_fp : forall h b ps hc h1 l, fp_inv h b hc -> alloc_parts_list hc ps = Some (h1, l) ->
  fp_ext h b hc h1 /\ forall v, In v l -> regv h b h1 v.
Proof.
  intros h b ps. induction ps as [|p r IH]; simpl; intros hc h1 l I E.
  - inversion E; subst. split; [apply fp_ext_refl; auto | intros v []].
  - bindn E x Ex. destruct x as [h2 np]. cbn [fst snd] in E. bindn E y Ey. destruct y as [h3 l']. cbn [fst snd] in E.
    inversion E; subst; clear E.
    destruct (alloc_parts_fp _ _ _ _ _ _ I Ex) as [X1 R1]. destruct (IH _ _ _ (proj1 X1) Ey) as [X2 G2].
    split; [solve_ext|]. intros v [<-|Iv]; [apply regv_ref; eapply fp_ext_regr; eauto | auto].
Qed.

Lemma split_ok : forall tbl, valf_ok (split_val tbl).
Proof.
  intros tbl h b hc v h1 r I G E. unfold split_val in E. bindn E o Eo. bindn E xs Ex. bindn E l El. bindn E sp Es.
  destruct sp as [ps|]; [|inversion E; subst; split; [apply fp_ext_refl; auto | auto]].
  bindn E x Ea. destruct x as [h2 pl]. cbn [fst snd] in E. destruct (alloc h2 (OList pl)) as [h3 nl] eqn:A. inversion E; subst; clear E.
  destruct (alloc_parts_list_fp _ _ _ _ _ _ I Ea) as [X1 G1].
  destruct (alloc_ext_fp _ _ _ _ _ _ (proj1 X1) (proj1 (rego_list _ _ _ _) G1) A) as [X2 R2].
  split; [solve_ext | apply regv_ref; auto].
Qed.

Lemma merge_parts_ok : forall tbl, valf_ok (merge_parts_val tbl).
Proof.
  intros tbl h b hc v h1 r I G E. unfold merge_parts_val in E. bindn E o Eo. bindn E xs Ex. bindn E ps Ep. bindn E l El.
  destruct (alloc_atoms hc l) as [h2 nl] eqn:A. inversion E; subst.
  destruct (alloc_atoms_fp _ _ _ _ _ _ I A) as [X R]. split; [auto | apply regv_ref; auto].
Qed.

(* ------------------------------------------------------------------ Latex* *)
Lemma latex_part_fp : forall tbl h b hc e p a h1 e1, fp_inv h b hc -> regr h b hc p ->
  latex_part tbl hc e p a = Some (h1, e1) -> fp_ext h b hc h1.
Proof.
  intros tbl h b hc e p a h1 e1 I R E. unfold latex_part in E. bindn E lx El. bindn E l Ea. bindn E ne En.
  destruct (alloc_atoms hc (fst ne)) as [h2 nl] eqn:A. bindn E h3 Es. inversion E; subst; clear E.
  destruct (alloc_atoms_fp _ _ _ _ _ _ I A) as [X1 R1].
  eapply fp_ext_trans; [exact X1|]. eapply setattr_ext_fp; [apply X1 | eapply fp_ext_regr; eauto | apply regv_ref; exact R1 | exact Es].
Qed.

Lemma latex_step_fp : forall tbl h b hc (e : bool) f h1 e1, fp_inv h b hc -> regr h b hc f -> True ->
  latex_step tbl hc e f = Some (h1, e1) -> fp_ext h b hc h1 /\ True.
Proof.
  intros tbl h b hc e f h1 e1 I R _ E. split; [|exact Logic.I]. unfold latex_step in E. bindn E v Ev.
  pose proof (getattr_regr _ _ _ _ _ _ I R Ev) as Gv.
  destruct v as [a|p].
  - bindn E x Ex. destruct x as [ne|]; [|inversion E; subst; apply fp_ext_refl; auto].
    bindn E h2 Es. inversion E; subst. exact (setattr_ext_fp _ _ _ _ _ _ _ I R (regv_atom _ _ _ _) Es).
  - apply regv_ref_inv in Gv.
    destruct (class_of hc p) as [c|]; [|inversion E; subst; apply fp_ext_refl; auto].
    destruct (Z.eqb c C_NameParts); [|inversion E; subst; apply fp_ext_refl; auto].
    bindn E x1 E1. destruct x1 as [h2 e2]. cbn [fst snd] in E. bindn E x2 E2. destruct x2 as [h3 e3]. cbn [fst snd] in E.
    bindn E x3 E3. destruct x3 as [h4 e4]. cbn [fst snd] in E.
    pose proof (latex_part_fp _ _ _ _ _ _ _ _ _ I Gv E1) as X1.
    pose proof (latex_part_fp _ _ _ _ _ _ _ _ _ (proj1 X1) (fp_ext_regr _ _ _ _ _ X1 Gv) E2) as X2.
    assert (X12 : fp_ext h b hc h3) by solve_ext.
    pose proof (latex_part_fp _ _ _ _ _ _ _ _ _ (proj1 X2) (fp_ext_regr _ _ _ _ _ X12 Gv) E3) as X3.
    assert (X13 : fp_ext h b hc h4) by solve_ext.
    pose proof (latex_part_fp _ _ _ _ _ _ _ _ _ (proj1 X3) (fp_ext_regr _ _ _ _ _ X13 Gv) E) as X4.
    solve_ext.
Qed.

Lemma fp_latex_entry : forall tbl, fp_fun (latex_entry tbl).
Proof.
  intros tbl h b h' res W B E. unfold latex_entry in E. pose proof (fp_init h b W) as I0. pose proof (regr_self h b B) as Rb.
  bindn E fs Ef. bindn E x Ex. destruct x as [h1 fl]. cbn [fst snd] in E.
  destruct (floop_fp _ (fun _ _ => True) h b (latex_step tbl) (latex_step_fp tbl h b)
              fs h false h1 fl I0 (entry_fields_reg _ _ _ _ _ I0 Rb Ef) Logic.I Ex) as [X1 _].
  destruct fl.
  - bindn E e Ee. destruct e as [h2 eb]. cbn [fst snd] in E. inversion E; subst; clear E.
    destruct (error_block_fp _ _ _ _ _ _ (proj1 X1) (fp_ext_regr _ _ _ _ _ X1 Rb) Ee) as [X2 Re].
    split; [apply X2|]. intros r [<-|[]]. exact Re.
  - inversion E; subst. split; [apply X1|]. apply (ret_one h b h h' b); [solve_ext | exact Rb].
Qed.

Lemma fp_latex_string : forall tbl, fp_fun (latex_string tbl).
Proof.
  intros tbl h b h' res W B E. unfold latex_string in E. pose proof (fp_init h b W) as I0. pose proof (regr_self h b B) as Rb.
  assert (K : forall hh rr, Some (h, ROne b) = Some (hh, rr) -> fp_inv h b hh /\ forall r, In r (result_blocks rr) -> regr h b hh r).
  { intros hh rr EE. inversion EE; subst hh rr. split; [auto|]. apply (ret_one h b h h b); [apply fp_ext_refl; auto | exact Rb]. }
  bindn E v Ev. destruct v as [a|p]; [|apply K; auto].
  bindn E x Ex. destruct x as [ne|]; [|apply K; auto].
  bindn E h1 Es. pose proof (setattr_ext_fp _ _ _ _ _ _ _ I0 Rb (regv_atom _ _ _ _) Es) as X1.
  destruct (snd ne).
  - bindn E e Ee. destruct e as [h2 eb]. cbn [fst snd] in E. inversion E; subst; clear E.
    destruct (error_block_fp _ _ _ _ _ _ (proj1 X1) (fp_ext_regr _ _ _ _ _ X1 Rb) Ee) as [X2 Re].
    split; [apply X2|]. intros r [<-|[]]. exact Re.
  - inversion E; subst. split; [apply X1|]. apply (ret_one h b h h' b); [solve_ext | exact Rb].
Qed.

(* ------------------------------------------------------------------ every shipped body, every argument *)
Lemma shipped_footprints : forall s, footprint_ok (shipped_body s).
Proof.
  intros [k t|k t|km k mo t|lo|r d k mv|nk t|nk t|nk t|nk t|t]; simpl;
    unfold remove_enclosing_body, add_enclosing_body, month_body, normalize_body, sort_fields_body, names_body, latex_body;
    apply fp_dispatch; try apply fp_keep.
  - apply fp_rm_entry.
  - apply fp_rm_string.
  - apply fp_add_entry.
  - apply fp_add_string.
  - apply fp_month_entry.
  - apply fp_norm_entry.
  - apply fp_sort_entry.
  - apply fp_names_entry, separate_ok.
  - apply fp_names_entry, merge_co_ok.
  - apply fp_names_entry, split_ok.
  - apply fp_names_entry, merge_parts_ok.
  - apply fp_latex_entry.
  - apply fp_latex_string.
Qed.

(* stacks of shipped middlewares *)
Definition shipped_mw_p (m : mw) : Prop :=
  match m with
  | MwBlock i bd => i = false /\ exists s, bd = shipped_body s
  | MwLibrary i => i = false
  | MwResolve i _ _ => i = false
  | MwSort _ => True
  end.
Lemma shipped_mw_ok : forall m, shipped_mw_p m -> mw_ok m.
Proof.
  intros [i bd|i|i bare k|perm]; simpl; intros H; split; simpl; auto; try apply H.
  destruct H as [_ [s ->]]. apply shipped_footprints.
Qed.
Lemma shipped_stack_ok : forall DC, dc_contract DC -> forall ms h lib h' lib',
  Forall shipped_mw_p ms -> ms <> [] -> wf_heap h -> In lib (dom h) ->
  run_stack DC ms h lib = Some (h', lib') -> no_alias h h' lib'.
Proof.
  intros DC C ms h lib h' lib' F. apply run_stack_ok; auto.
  eapply Forall_impl; [|exact F]. apply shipped_mw_ok.
Qed.
