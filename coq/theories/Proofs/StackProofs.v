(* Proofs for C20. *)
From Coq Require Import String List NArith ZArith Bool Lia.
From BP Require Import Base.Chars Model.Blocks Model.Writer Model.Stack Spec.C20.
Import ListNotations.

Lemma bind_val_r {A} (r : res A) : bind r Val = r.
Proof. destruct r; reflexivity. Qed.
Lemma bind_assoc {A B C} (r : res A) (f : A -> res B) (g : B -> res C) :
  bind (bind r f) g = bind r (fun x => bind (f x) g).
Proof. destruct r; reflexivity. Qed.

Section Order.
  Variable M : Type.
  Variable apply : M -> lib -> res lib.
  Variable dp du : list M.
  Variable split : str -> res lib.

  Lemma in_order_bind m rest l : in_order M apply (m :: rest) l = bind (apply m l) (in_order M apply rest).
  Proof. cbn [in_order]. destruct (apply m l); reflexivity. Qed.

  Lemma fold_in_order : forall ms r,
    fold_left (fun acc m => bind acc (apply m)) ms r = bind r (in_order M apply ms).
  Proof.
    induction ms as [|m ms IH]; intros r.
    - cbn [fold_left]. destruct r; reflexivity.
    - cbn [fold_left]. rewrite IH, bind_assoc. destruct r as [l| |]; cbn [bind]; [|reflexivity|reflexivity].
      rewrite in_order_bind. reflexivity.
  Qed.

  Lemma run_mws_in_order ms l : run_mws M apply ms l = in_order M apply ms l.
  Proof. unfold run_mws. rewrite fold_in_order. reflexivity. Qed.

  Lemma in_order_app : forall a b l, in_order M apply (a ++ b) l = bind (in_order M apply a l) (in_order M apply b).
  Proof.
    induction a as [|m a IH]; intros b l; [reflexivity|].
    cbn [app]. rewrite !in_order_bind, bind_assoc. destruct (apply m l); cbn [bind]; auto.
  Qed.

  Lemma parse_clauses t l : split t = Val l ->
    (forall ps, parse_string M apply dp split t (Some ps) None = in_order M apply ps l)
    /\ (forall am, parse_string M apply dp split t None (Some am) = bind (in_order M apply dp l) (in_order M apply am))
    /\ parse_string M apply dp split t None None = in_order M apply dp l
    /\ (forall ps am, parse_string M apply dp split t (Some ps) (Some am) = Raise EValueError).
  Proof.
    intros H. unfold parse_string. rewrite H. cbn [bind build_parse_stack]. repeat split; intros;
      rewrite ?run_mws_in_order, ?in_order_app; reflexivity.
  Qed.

  Lemma parse_split_raises t e ps am : split t = Raise e -> parse_string M apply dp split t ps am = Raise e.
  Proof. intros H. unfold parse_string. rewrite H. reflexivity. Qed.

  Definition the_fmt (f : option fmt) : fmt := match f with Some f' => f' | None => default_fmt end.

  Lemma write_clauses l f :
    (forall us, write_string M apply du l (Some us) None f = bind (in_order M apply us l) (write (the_fmt f)))
    /\ (forall pm, write_string M apply du l None (Some pm) f
                   = bind (bind (in_order M apply pm l) (in_order M apply du)) (write (the_fmt f)))
    /\ write_string M apply du l None None f = bind (in_order M apply du l) (write (the_fmt f))
    /\ (forall us pm, write_string M apply du l (Some us) (Some pm) f = Raise EValueError).
  Proof.
    unfold write_string, the_fmt. cbn [bind build_unparse_stack]. repeat split; intros;
      rewrite ?run_mws_in_order, ?in_order_app; reflexivity.
  Qed.

  Variable path enc world fobj : Type.
  Variable decode : path -> enc -> res str.
  Variable write_path : world -> path -> str -> res world.
  Variable write_obj : world -> fobj -> str -> res world.

  Definition sink (w : world) (tgt : target path fobj) (s : str) : res world :=
    match tgt with TPath _ _ p => write_path w p s | TObj _ _ o => write_obj w o s end.

  Lemma files_clauses :
    (forall p e ps am,
        parse_file M apply dp split path enc decode p e ps am
        = bind (decode p e) (fun t => parse_string M apply dp split t ps am))
    /\ (forall w tgt l ps am f,
        write_file M apply du path world fobj write_path write_obj w tgt l ps am f
        = bind (write_string M apply du l ps am f) (sink w tgt))
    /\ (forall w tgt l f s, write_string M apply du l None None f = Val s ->
        write_file M apply du path world fobj write_path write_obj w tgt l None None f = sink w tgt s)
    /\ (forall w tgt l us f,
        write_file M apply du path world fobj write_path write_obj w tgt l (Some us) None f
        = bind (bind (in_order M apply us l) (write (the_fmt f))) (sink w tgt))
    /\ (forall w tgt l pm f,
        write_file M apply du path world fobj write_path write_obj w tgt l None (Some pm) f
        = bind (bind (bind (in_order M apply pm l) (in_order M apply du)) (write (the_fmt f))) (sink w tgt)).
  Proof.
    split; [|split; [|split; [|split]]]; intros; unfold write_file, parse_file.
    - reflexivity.
    - destruct tgt; reflexivity.
    - rewrite H. destruct tgt; reflexivity.
    - destruct (write_clauses l f) as [H _]. rewrite H. destruct tgt; reflexivity.
    - destruct (write_clauses l f) as [_ [H _]]. rewrite H. destruct tgt; reflexivity.
  Qed.
End Order.

(* ---- the splice protocol *)
Lemma items_blocks_map bs : items_blocks (map IBlock bs) = Some bs.
Proof. induction bs as [|b bs IH]; [reflexivity|]. cbn [map items_blocks]. rewrite IH. reflexivity. Qed.

Lemma items_blocks_nonblock l : In INonBlock l -> items_blocks l = None.
Proof.
  induction l as [|[b|] l IH]; intros H; [destruct H | | reflexivity].
  destruct H as [H|H]; [discriminate|]. cbn [items_blocks]. rewrite (IH H). reflexivity.
Qed.

Lemma splice_legal rs reps : Forall2 legal rs reps -> splice rs = Val (concat reps).
Proof.
  induction 1 as [|r rep rs reps Hl _ IH]; [reflexivity|].
  destruct Hl; cbn [splice concat].
  - exact IH.
  - rewrite IH. reflexivity.
  - rewrite items_blocks_map, IH. reflexivity.
Qed.

Lemma splice_illegal rs : Exists illegal rs -> splice rs = Raise ETypeError.
Proof.
  induction 1 as [r rs Hi|r rs _ IH].
  - destruct Hi as [E|[l [E Hin]]]; subst; cbn [splice]; [reflexivity|].
    rewrite (items_blocks_nonblock _ Hin). reflexivity.
  - destruct r as [|b|l|]; cbn [splice]; rewrite ?IH; try reflexivity.
    destruct (items_blocks l); reflexivity.
Qed.

Lemma legal_or_illegal r : (exists bs, legal r bs) \/ illegal r.
Proof.
  destruct r as [|b|l|].
  - left. eexists. constructor.
  - left. eexists. constructor.
  - assert ((exists bs, l = map IBlock bs) \/ In INonBlock l) as [[bs E]|H].
    { induction l as [|[b|] l IH].
      - left. exists []. reflexivity.
      - destruct IH as [[bs E]|H]; [left; exists (b :: bs); subst; reflexivity | right; right; exact H].
      - right. left. reflexivity. }
    + left. exists bs. subst. constructor.
    + right. right. exists l. split; [reflexivity | exact H].
  - right. left. reflexivity.
Qed.

Lemma block_transform_legal f l reps :
  Forall2 legal (map f l) reps -> block_transform f l = Val (library_of (concat reps)).
Proof. intros H. unfold block_transform. rewrite (splice_legal _ _ H). reflexivity. Qed.

Lemma block_transform_illegal f l : Exists illegal (map f l) -> block_transform f l = Raise ETypeError.
Proof. intros H. unfold block_transform. rewrite (splice_illegal _ H). reflexivity. Qed.

(* transform_block: only the five parsed classes reach a handler; everything else is kept *)
Lemma transform_block_other fe fs fp fx fi b :
  is_failed_class b = true -> transform_block fe fs fp fx fi b = RBlock b.
Proof. destruct b; cbn; intros H; try discriminate; reflexivity. Qed.

(* ---- Library(blocks) *)
Definition seen_ok (kind : bool) (seen : list (str * block)) : Prop :=
  forall k p, dict_get seen k = Some p -> key_of p = Some (kind, k).

Lemma dict_get_cons {V} (d : list (str * V)) k k' v :
  dict_get ((k', v) :: d) k = if str_eqb k k' then Some v else dict_get d k.
Proof. reflexivity. Qed.

Lemma seen_ok_cons kind seen k b : seen_ok kind seen -> key_of b = Some (kind, k) -> seen_ok kind ((k, b) :: seen).
Proof.
  intros H Hb k' p. rewrite dict_get_cons. destruct (str_eqb k' k) eqn:E.
  - intros E2. inversion E2; subst. apply str_eqb_eq in E. subst. exact Hb.
  - apply H.
Qed.

Lemma add_blocks_shape : forall bs se ss, seen_ok true se -> seen_ok false ss ->
  Forall2 same_or_wrapped bs (add_blocks se ss bs).
Proof.
  induction bs as [|b bs IH]; intros se ss He Hs; [constructor|].
  destruct b as [h t k fs|h k v|h v|h c|h c|h e|h e i|h k p d|h ks e]; cbn [add_blocks];
    try (constructor; [left; reflexivity | apply IH; assumption]).
  - destruct (dict_get se k) as [prev|] eqn:E.
    + constructor; [|apply IH; assumption].
      right. exists true, k, prev. repeat split. apply He. exact E.
    + constructor; [left; reflexivity|]. apply IH; [|assumption]. apply seen_ok_cons; [assumption | reflexivity].
  - destruct (dict_get ss k) as [prev|] eqn:E.
    + constructor; [|apply IH; assumption].
      right. exists false, k, prev. repeat split. apply Hs. exact E.
    + constructor; [left; reflexivity|]. apply IH; [assumption|]. apply seen_ok_cons; [assumption | reflexivity].
Qed.

Lemma library_of_shape bs : Forall2 same_or_wrapped bs (library_of bs).
Proof. apply add_blocks_shape; intros k p H; discriminate. Qed.

Lemma library_of_length bs : List.length (library_of bs) = List.length bs.
Proof.
  assert (forall (P : block -> block -> Prop) a b, Forall2 P a b -> List.length b = List.length a) as H.
  { induction 1; cbn [List.length]; congruence. }
  apply (H _ _ _ (library_of_shape bs)).
Qed.

(* a library without keyed blocks (or of blocks none of which is an entry or @string) is kept as it is *)
Lemma add_blocks_unkeyed : forall bs se ss, Forall (fun b => key_of b = None) bs -> add_blocks se ss bs = bs.
Proof.
  induction bs as [|b bs IH]; intros se ss H; [reflexivity|].
  inversion H as [|? ? Hb Hr]; subst. destruct b; cbn in Hb; try discriminate; cbn [add_blocks]; rewrite IH; auto.
Qed.
