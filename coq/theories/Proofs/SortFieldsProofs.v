(* Proofs for C17: field sorting (alphabetical, custom), constructor check, key normalisation, frame, idempotence. *)
From Coq Require Import List NArith ZArith Bool Arith Lia Permutation Sorted.
From BP Require Import Base.Chars Base.StableSort Model.Blocks Model.LibRebuild Model.SortFields Model.FieldKeys Spec.C17
  Proofs.LibRebuildProofs.
Import ListNotations.

(* ================================================================ alphabetical *)
Lemma alpha_le_total f g : alpha_le f g = true \/ alpha_le g f = true.
Proof. apply str_leb_total. Qed.
Lemma alpha_le_trans f g h : alpha_le f g = true -> alpha_le g h = true -> alpha_le f h = true.
Proof. apply str_leb_trans. Qed.

Theorem sort_alpha_spec fs : alpha_spec fs (sort_alpha fs).
Proof.
  unfold alpha_spec, sort_alpha. split; [apply isort_perm|]. split.
  - exact (isort_sorted _ alpha_le alpha_le_total alpha_le_trans fs).
  - intros p. exact (isort_stable _ alpha_le alpha_le_trans p fs).
Qed.

(* the property determines the result: whatever stable sort CPython uses, it returns this list *)
Theorem alpha_spec_unique fs out : alpha_spec fs out -> out = sort_alpha fs.
Proof.
  intros H. exact (stable_sort_unique _ alpha_le alpha_le_total alpha_le_trans fs out H).
Qed.

Lemma sort_alpha_idem fs : sort_alpha (sort_alpha fs) = sort_alpha fs.
Proof. exact (isort_idem _ alpha_le alpha_le_total alpha_le_trans fs). Qed.

(* ================================================================ custom order *)
Lemma rank_position k ord :
  match index_of k ord with Some i => i | None => length ord end = position k ord.
Proof.
  induction ord as [|x r IH]; [reflexivity|]. cbn [index_of position length].
  destruct (str_eqb k x); [reflexivity|]. rewrite <- IH. destruct (index_of k r); reflexivity.
Qed.

Lemma custom_rank_pos cs ord f : custom_rank cs ord f = field_pos cs ord f.
Proof. unfold custom_rank, field_pos. apply rank_position. Qed.

Lemma custom_le_total cs ord f g : custom_le cs ord f g = true \/ custom_le cs ord g f = true.
Proof. apply nat_leb_total. Qed.
Lemma custom_le_trans cs ord f g h :
  custom_le cs ord f g = true -> custom_le cs ord g h = true -> custom_le cs ord f h = true.
Proof. apply nat_leb_trans. Qed.

Lemma eqv_custom_same_pos cs ord p f : eqv (custom_le cs ord) p f = same_pos cs ord p f.
Proof.
  unfold eqv, custom_le, same_pos. rewrite !custom_rank_pos.
  destruct (Nat.eqb_spec (field_pos cs ord p) (field_pos cs ord f)) as [E|E].
  - rewrite E, Nat.leb_refl. reflexivity.
  - destruct (Nat.leb_spec (field_pos cs ord p) (field_pos cs ord f));
      destruct (Nat.leb_spec (field_pos cs ord f) (field_pos cs ord p)); try reflexivity; lia.
Qed.

Theorem sort_custom_spec cs ord fs : custom_spec cs ord fs (sort_custom cs ord fs).
Proof.
  unfold custom_spec, sort_custom. split; [apply isort_perm|]. split.
  - eapply SS_impl; [|exact (isort_sorted _ _ (custom_le_total cs ord) (custom_le_trans cs ord) fs)].
    intros x y H. unfold leP, custom_le in H. rewrite !custom_rank_pos in H. apply Nat.leb_le. exact H.
  - intros p.
    rewrite (filter_ext_In (same_pos cs ord p) (eqv (custom_le cs ord) p)) by (intros; symmetry; apply eqv_custom_same_pos).
    rewrite (filter_ext_In (same_pos cs ord p) (eqv (custom_le cs ord) p) fs) by (intros; symmetry; apply eqv_custom_same_pos).
    exact (isort_stable _ _ (custom_le_trans cs ord) p fs).
Qed.

Theorem custom_spec_unique cs ord fs out : custom_spec cs ord fs out -> out = sort_custom cs ord fs.
Proof.
  intros (Hp & Hs & Hf). unfold sort_custom.
  apply (stable_sort_unique _ _ (custom_le_total cs ord) (custom_le_trans cs ord)). split; [exact Hp|]. split.
  - eapply SS_impl; [|exact Hs]. intros x y H. unfold leP, custom_le. rewrite !custom_rank_pos. apply Nat.leb_le. exact H.
  - intros p. rewrite !(filter_ext_In _ _ _ (fun x _ => eqv_custom_same_pos cs ord p x)). apply Hf.
Qed.

Lemma sort_custom_idem cs ord fs : sort_custom cs ord (sort_custom cs ord fs) = sort_custom cs ord fs.
Proof. exact (isort_idem _ _ (custom_le_total cs ord) (custom_le_trans cs ord) fs). Qed.

(* ---- position: what "index in the list, unlisted = length" means *)
Lemma position_listed k ord : In k ord ->
  nth_error ord (position k ord) = Some k /\ forall j, j < position k ord -> nth_error ord j <> Some k.
Proof.
  induction ord as [|x r IH]; intros Hin; [destruct Hin|]. cbn [position].
  destruct (str_eqb k x) eqn:E.
  - apply str_eqb_eq in E. subst x. split; [reflexivity | intros j Hj; lia].
  - apply str_eqb_neq in E. destruct Hin as [Hx|Hin]; [congruence|].
    destruct (IH Hin) as [H1 H2]. split; [exact H1|].
    intros [|j] Hj; cbn [nth_error]; [congruence | apply H2; lia].
Qed.

Lemma position_unlisted k ord : ~ In k ord <-> position k ord = length ord.
Proof.
  induction ord as [|x r IH]; cbn [position length In]; [tauto|].
  destruct (str_eqb k x) eqn:E.
  - apply str_eqb_eq in E. subst x. split; [intros H; exfalso; apply H; left; reflexivity | discriminate].
  - apply str_eqb_neq in E. split.
    + intros H. f_equal. apply IH. intros Hin; apply H; right; exact Hin.
    + intros H [Hx|Hin]; [congruence|]. injection H as H. apply IH in H. contradiction.
Qed.

Lemma position_le k ord : position k ord <= length ord.
Proof. induction ord as [|x r IH]; cbn [position length]; [lia|]. destruct (str_eqb k x); lia. Qed.

(* ---- the constructor *)
Lemma has_dup_false l : has_dup l = false <-> NoDup l.
Proof.
  induction l as [|x r IH]; cbn [has_dup]; [split; [constructor | reflexivity]|].
  rewrite orb_false_iff, IH, mem_str_false. split.
  - intros [H1 H2]; constructor; assumption.
  - intros H; inversion H; subst; split; assumption.
Qed.

Theorem custom_ctor_error cs order : custom_ctor cs order = None <-> ~ NoDup (map (folded cs) order).
Proof.
  unfold custom_ctor. change (fold_key cs) with (folded cs).
  destruct (has_dup (map (folded cs) order)) eqn:E; split; intros H; try reflexivity; try discriminate.
  - intros Hn. apply has_dup_false in Hn. congruence.
  - exfalso. apply H. apply has_dup_false. exact E.
Qed.

Theorem custom_ctor_ok cs order ord : custom_ctor cs order = Some ord -> ord = map (folded cs) order /\ NoDup ord.
Proof.
  unfold custom_ctor. change (fold_key cs) with (folded cs).
  destruct (has_dup (map (folded cs) order)) eqn:E; intros H; [discriminate|].
  injection H as H. subst ord. split; [reflexivity | apply has_dup_false; exact E].
Qed.

(* ---- explicit form *)
Section Partition.
  Variable A : Type.
  Variable le : A -> A -> bool.
  Variable m : A -> bool.                     (* the minimal class *)
  Hypothesis m_min : forall x y, m x = true -> le x y = true.
  Hypothesis m_strict : forall x y, m x = true -> m y = false -> le y x = false.

  Lemma insert_front x l : m x = true -> insert le x l = x :: l.
  Proof. intros Hx. destruct l as [|y r]; [reflexivity|]. cbn [insert]. rewrite (m_min x y Hx). reflexivity. Qed.

  Lemma insert_skip x l1 l2 : (forall y, In y l1 -> le x y = false) -> insert le x (l1 ++ l2) = l1 ++ insert le x l2.
  Proof.
    induction l1 as [|y r IH]; intros H; [reflexivity|]. cbn [app insert].
    rewrite (H y (or_introl eq_refl)). f_equal. apply IH. intros z Hz; apply H; right; exact Hz.
  Qed.

  Lemma isort_partition l : isort le l = filter m l ++ isort le (filter (fun x => negb (m x)) l).
  Proof.
    induction l as [|x l IH]; [reflexivity|]. cbn [isort filter]. rewrite IH.
    destruct (m x) eqn:Ex; cbn [negb].
    - rewrite insert_front by exact Ex. reflexivity.
    - cbn [isort]. apply insert_skip. intros y Hy. apply filter_In in Hy as [_ Hy]. apply m_strict; assumption.
  Qed.
End Partition.

Lemma isort_ext_In {A} (le le' : A -> A -> bool) l :
  (forall x y, In x l -> In y l -> le x y = le' x y) -> isort le l = isort le' l.
Proof.
  induction l as [|x l IH]; intros H; [reflexivity|]. cbn [isort].
  rewrite <- IH by (intros; apply H; right; assumption).
  assert (Hin : forall y, In y (isort le l) -> le x y = le' x y).
  { intros y Hy. apply H; [left; reflexivity | right]. eapply Permutation_in; [apply isort_perm | exact Hy]. }
  revert Hin. generalize (isort le l) as s. clear.
  induction s as [|y r IHr]; intros Hin; [reflexivity|]. cbn [insert].
  rewrite <- (Hin y (or_introl eq_refl)). destruct (le x y); [reflexivity|].
  f_equal. apply IHr. intros z Hz; apply Hin; right; exact Hz.
Qed.

Theorem sort_custom_explicit cs ord fs : NoDup ord -> sort_custom cs ord fs = custom_explicit cs ord fs.
Proof.
  unfold sort_custom, custom_explicit. revert fs.
  induction ord as [|k ord IH]; intros fs Hnd.
  - cbn [flat_map app]. rewrite filter_all by reflexivity.
    apply isort_sorted_id; [apply custom_le_total | apply custom_le_trans|].
    (* every rank is 0 *)
    assert (H : forall l : list field, StronglySorted (leP (custom_le cs [])) l).
    { induction l as [|x l IHl]; constructor; [exact IHl|]. apply Forall_forall. intros y _. reflexivity. }
    apply H.
  - inversion Hnd as [|? ? Hk Hnd']; subst.
    rewrite (isort_partition _ (custom_le cs (k :: ord)) (has_key cs k)).
    + cbn [flat_map]. rewrite <- app_assoc. f_equal.
      set (rest := filter (fun x => negb (has_key cs k x)) fs).
      assert (Hrest : forall x, In x rest -> has_key cs k x = false).
      { intros x Hx. apply filter_In in Hx as [_ Hx]. apply negb_true_iff in Hx. exact Hx. }
      rewrite (isort_ext_In (custom_le cs (k :: ord)) (custom_le cs ord) rest).
      2:{ intros x y Hx Hy. unfold custom_le. rewrite !custom_rank_pos. unfold field_pos. cbn [position].
          pose proof (Hrest x Hx) as Ex. pose proof (Hrest y Hy) as Ey. unfold has_key in Ex, Ey. rewrite Ex, Ey. reflexivity. }
      rewrite IH by exact Hnd'. f_equal.
      * (* listed buckets are untouched by removing the k-fields *)
        assert (Hfm : forall l, (forall k', In k' l -> k' <> k) ->
                  flat_map (fun k' => filter (has_key cs k') rest) l = flat_map (fun k' => filter (has_key cs k') fs) l).
        { induction l as [|k' l IHl]; intros Hl; [reflexivity|]. cbn [flat_map]. f_equal.
          - unfold rest. rewrite filter_filter_and. apply filter_ext_In. intros x _.
            unfold has_key. destruct (str_eqb (folded cs (fkey x)) k') eqn:E1; [|reflexivity].
            apply str_eqb_eq in E1. assert (Hne : k' <> k) by (apply Hl; left; reflexivity).
            assert (E2 : str_eqb (folded cs (fkey x)) k = false) by (apply str_eqb_neq; congruence).
            rewrite E2. reflexivity.
          - apply IHl. intros k'' Hk''. apply Hl. right; exact Hk''. }
        apply Hfm. intros k' Hk' ->. contradiction.
      * unfold rest. rewrite filter_filter_and. apply filter_ext_In. intros x _.
        unfold unlisted, has_key. cbn [mem_str]. rewrite negb_orb, andb_comm. reflexivity.
    + intros x y Hx. unfold custom_le. rewrite !custom_rank_pos. unfold field_pos. cbn [position].
      unfold has_key in Hx. rewrite Hx. reflexivity.
    + intros x y Hx Hy. unfold custom_le. rewrite !custom_rank_pos. unfold field_pos. cbn [position].
      unfold has_key in Hx, Hy. rewrite Hx, Hy. reflexivity.
Qed.

(* ================================================================ key normalisation *)
Lemma lower_ch_idem c : lower_ch (lower_ch c) = lower_ch c.
Proof.
  unfold lower_ch. change (asc 65) with 8342%N. change (asc 90) with 11542%N.
  destruct ((8342 <=? c)%N && (c <=? 11542)%N && (N.land c 127 =? 22)%N) eqn:E; [|rewrite E; reflexivity].
  apply andb_true_iff in E as [E _]. apply andb_true_iff in E as [E1 E2].
  apply N.leb_le in E1, E2.
  replace ((c + 4156 <=? 11542)%N) with false by (symmetry; apply N.leb_gt; lia).
  rewrite andb_false_r. reflexivity.
Qed.

Lemma lower_idem s : lower (lower s) = lower s.
Proof. unfold lower. rewrite map_map. apply map_ext. apply lower_ch_idem. Qed.

(* ---- keys of the loop = first occurrences *)
Definition add_key (ks : list str) (k : str) : list str := if mem_str k ks then ks else ks ++ [k].

Lemma norm_loop_keys fs : forall d, map fst (norm_loop d fs) = fold_left add_key (map lkey fs) (map fst d).
Proof.
  induction fs as [|f r IH]; intros d; [reflexivity|]. cbn [norm_loop map fold_left].
  rewrite IH, dict_keys_set. reflexivity.
Qed.

Lemma fold_add_key l : forall ks,
  fold_left add_key l ks = ks ++ filter (fun x => negb (mem_str x ks)) (keep_first l).
Proof.
  induction l as [|k r IH]; intros ks.
  - cbn. rewrite app_nil_r. reflexivity.
  - cbn [fold_left keep_first filter]. rewrite IH. unfold add_key.
    destruct (mem_str k ks) eqn:E; cbn [negb].
    + f_equal. rewrite filter_filter_and. apply filter_ext_In. intros x _.
      destruct (mem_str x ks) eqn:Ex; cbn [negb andb]; [reflexivity|].
      destruct (str_eqb x k) eqn:Exk; [|reflexivity]. apply str_eqb_eq in Exk. subst x. congruence.
    + rewrite <- app_assoc. cbn [app]. f_equal. f_equal.
      rewrite filter_filter_and. apply filter_ext_In. intros x _.
      assert (Hm : mem_str x (ks ++ [k]) = mem_str x ks || str_eqb x k).
      { clear. induction ks as [|y ks IHk]; cbn [app mem_str]; [rewrite orb_false_r; reflexivity|].
        rewrite IHk, orb_assoc. reflexivity. }
      rewrite Hm, negb_orb. reflexivity.
Qed.

Lemma normalize_keys fs : map fkey (normalize_fields fs) = keep_first (map lkey fs) /\
                          map fst (norm_loop [] fs) = keep_first (map lkey fs).
Proof.
  assert (H : map fst (norm_loop [] fs) = keep_first (map lkey fs)).
  { rewrite norm_loop_keys, fold_add_key. cbn [map app]. apply filter_all. reflexivity. }
  split; [|exact H].
  (* every stored field carries its dict key as its own key *)
  assert (Hwf : forall fs d, Forall (fun kv => fkey (snd kv) = fst kv) d ->
                             Forall (fun kv => fkey (snd kv) = fst kv) (norm_loop d fs)).
  { clear. induction fs as [|f r IH]; intros d Hd; [exact Hd|]. cbn [norm_loop]. apply IH.
    clear IH. induction d as [|[k0 v0] d IHd]; cbn [dict_set].
    - constructor; [reflexivity | constructor].
    - inversion Hd; subst. destruct (str_eqb (lower (fkey f)) k0) eqn:E.
      + constructor; [|assumption]. cbn. apply str_eqb_eq in E. exact E.
      + constructor; [assumption | apply IHd; assumption]. }
  rewrite <- H. unfold normalize_fields. specialize (Hwf fs [] (Forall_nil _)).
  clear H. revert Hwf. generalize (norm_loop [] fs) as d. clear.
  induction d as [|kv d IHd]; intros Hwf; [reflexivity|]. inversion Hwf; subst. cbn [map]. f_equal; auto.
Qed.

Lemma keep_first_nodup l : NoDup (keep_first l).
Proof.
  induction l as [|k r IH]; [constructor|]. cbn [keep_first]. constructor.
  - intros Hin. apply filter_In in Hin as [_ Hin]. rewrite str_eqb_refl in Hin. discriminate.
  - apply NoDup_filter. exact IH.
Qed.

Lemma keep_first_In x l : In x (keep_first l) <-> In x l.
Proof.
  induction l as [|k r IH]; [tauto|]. cbn [keep_first In]. rewrite filter_In, IH. split.
  - intros [H|[H _]]; auto.
  - intros [H|H]; [left; exact H|]. destruct (str_eqb x k) eqn:E; [left; apply str_eqb_eq in E; congruence|].
    right. split; [exact H | reflexivity].
Qed.

(* ---- values: each key holds the (lowered) last field with that key *)
Lemma norm_loop_get fs : forall d k,
  dict_get (norm_loop d fs) k = match last_with k fs with Some g => Some (lowered g) | None => dict_get d k end.
Proof.
  induction fs as [|f r IH]; intros d k; [reflexivity|]. cbn [norm_loop last_with].
  rewrite IH. destruct (last_with k r); [reflexivity|].
  rewrite dict_get_set. unfold lkey. rewrite (str_eqb_sym k). destruct (str_eqb (lower (fkey f)) k); reflexivity.
Qed.

Lemma norm_loop_nodup fs : forall d, NoDup (map fst d) -> NoDup (map fst (norm_loop d fs)).
Proof.
  induction fs as [|f r IH]; intros d H; [exact H|]. cbn [norm_loop]. apply IH. apply dict_keys_set_nodup. exact H.
Qed.

Lemma last_with_In k fs g : last_with k fs = Some g -> In g fs /\ lkey g = k.
Proof.
  induction fs as [|f r IH]; [discriminate|]. cbn [last_with]. destruct (last_with k r) as [g'|].
  - intros H. injection H as ->. destruct (IH eq_refl) as [H1 H2]. split; [right; exact H1 | exact H2].
  - destruct (str_eqb (lkey f) k) eqn:E; [|discriminate]. intros H. injection H as ->.
    apply str_eqb_eq in E. split; [left; reflexivity | exact E].
Qed.

Theorem normalize_fields_spec fs : normalize_spec fs (normalize_fields fs).
Proof.
  destruct (normalize_keys fs) as [Hk Hk'].
  assert (Hnd : NoDup (map fst (norm_loop [] fs))) by (apply norm_loop_nodup; constructor).
  assert (Hval : forall o, In o (normalize_fields fs) ->
                   exists g, last_with (fkey o) fs = Some g /\ o = lowered g).
  { intros o Ho. unfold normalize_fields in Ho. apply in_map_iff in Ho as ([k v] & Hv & Hin). cbn in Hv. subst v.
    pose proof (dict_get_In _ _ _ _ Hnd Hin) as Hg. rewrite norm_loop_get in Hg. cbn [dict_get] in Hg.
    destruct (last_with k fs) as [g|] eqn:El; [|discriminate]. injection Hg as Hg.
    destruct (last_with_In _ _ _ El) as [_ Hlk].
    exists g. split; [|congruence]. subst o. cbn [lowered fkey]. unfold lkey in Hlk. rewrite Hlk. exact El. }
  unfold normalize_spec. split; [exact Hk|]. split; [rewrite Hk; apply keep_first_nodup|]. split.
  - apply Forall_forall. intros o Ho. destruct (Hval o Ho) as (g & _ & ->). cbn [lowered fkey]. apply lower_idem.
  - intros o Ho. destruct (Hval o Ho) as (g & Hl & ->). exists g.
    destruct (last_with_In _ _ _ Hl) as [Hin _]. repeat split; try assumption.
Qed.

(* ---- idempotence *)
Lemma norm_loop_fresh l : forall d,
  NoDup (map fkey l) -> Forall (fun f => lower (fkey f) = fkey f) l -> (forall f, In f l -> ~ In (fkey f) (map fst d)) ->
  norm_loop d l = d ++ map (fun f => (fkey f, f)) l.
Proof.
  induction l as [|f r IH]; intros d Hnd Hlow Hdis; [cbn; rewrite app_nil_r; reflexivity|].
  cbn [norm_loop map]. inversion Hnd as [|? ? Hf Hnd']; subst. inversion Hlow as [|? ? Hlf Hlow']; subst.
  assert (El : lowered f = f) by (destruct f as [k v ln]; unfold lowered; cbn in *; rewrite Hlf; reflexivity).
  rewrite Hlf, El. rewrite dict_set_fresh by (apply Hdis; left; reflexivity).
  rewrite IH; [rewrite <- app_assoc; reflexivity | exact Hnd' | exact Hlow' |].
  intros g Hg. rewrite map_app, in_app_iff. cbn [map fst In]. intros [H|[H|[]]].
  - eapply Hdis; [right; exact Hg | exact H].
  - apply Hf. rewrite H. apply in_map. exact Hg.
Qed.

Theorem normalize_fields_idem fs : normalize_fields (normalize_fields fs) = normalize_fields fs.
Proof.
  destruct (normalize_fields_spec fs) as (_ & Hnd & Hlow & _).
  unfold normalize_fields at 1. rewrite norm_loop_fresh; try assumption; [|intros f _ []].
  cbn [app]. rewrite map_map. cbn [snd]. apply map_id.
Qed.

(* ================================================================ blocks and libraries *)
Lemma on_entry_frame_gen g s mk :
  (forall h, sl (g h) = sl h /\ raw (g h) = raw h /\ meta_frame mk (meta h) (meta (g h))) ->
  forall b, block_frame mk b (on_entry g s b).
Proof.
  intros Hg b. destruct b; cbn [block_frame on_entry]; try reflexivity.
  destruct (Hg h) as (H1 & H2 & H3). eexists _, _. split; [reflexivity|]. auto.
Qed.

Lemma set_meta_frame h k v :
  sl (set_meta h k v) = sl h /\ raw (set_meta h k v) = raw h /\ meta_frame (Some k) (meta h) (meta (set_meta h k v)).
Proof.
  split; [reflexivity|]. split; [reflexivity|]. cbn [meta_frame set_meta meta]. intros k' Hk.
  rewrite dict_get_set. assert (E : str_eqb k' k = false) by (apply str_eqb_neq; exact Hk). rewrite E. reflexivity.
Qed.

Lemma alpha_block_frame b : block_frame (Some alpha_meta_key) b (alpha_block b).
Proof. apply on_entry_frame_gen. intros h. apply set_meta_frame. Qed.
Lemma custom_block_frame cs tup ord b : block_frame (Some custom_meta_key) b (custom_block cs tup ord b).
Proof. apply on_entry_frame_gen. intros h. apply set_meta_frame. Qed.
Lemma normalize_block_frame b : block_frame None b (normalize_block b).
Proof. apply on_entry_frame_gen. intros h. cbn. auto. Qed.

Lemma set_meta_idem h k v : set_meta (set_meta h k v) k v = set_meta h k v.
Proof. unfold set_meta. cbn [sl raw meta]. rewrite dict_set_idem. reflexivity. Qed.

Lemma on_entry_idem g s : (forall h, g (g h) = g h) -> (forall fs, s (s fs) = s fs) ->
  forall b, on_entry g s (on_entry g s b) = on_entry g s b.
Proof. intros Hg Hs b. destruct b; cbn [on_entry]; try reflexivity. rewrite Hg, Hs. reflexivity. Qed.

Lemma alpha_block_idem b : alpha_block (alpha_block b) = alpha_block b.
Proof. apply on_entry_idem; [intros; apply set_meta_idem | apply sort_alpha_idem]. Qed.
Lemma custom_block_idem cs tup ord b : custom_block cs tup ord (custom_block cs tup ord b) = custom_block cs tup ord b.
Proof. apply on_entry_idem; [intros; apply set_meta_idem | apply sort_custom_idem]. Qed.
Lemma normalize_block_idem b : normalize_block (normalize_block b) = normalize_block b.
Proof. apply on_entry_idem; [reflexivity | apply normalize_fields_idem]. Qed.

Lemma on_entry_keys g s bs :
  entry_keys (map (on_entry g s) bs) = entry_keys bs /\ string_keys (map (on_entry g s) bs) = string_keys bs.
Proof.
  induction bs as [|b r [IH1 IH2]]; [split; reflexivity|].
  cbn [map entry_keys string_keys flat_map] in *. fold (entry_keys (map (on_entry g s) r)) (entry_keys r)
    (string_keys (map (on_entry g s) r)) (string_keys r). rewrite IH1, IH2. destruct b; split; reflexivity.
Qed.

(* library level, for a library satisfying Library's invariant: block for block *)
Theorem block_mw_ok g s bs : lib_ok bs -> block_mw (on_entry g s) bs = map (on_entry g s) bs.
Proof.
  intros [He Hs]. unfold block_mw. apply rebuild_ok. destruct (on_entry_keys g s bs) as [H1 H2].
  split; [rewrite H1 | rewrite H2]; assumption.
Qed.

Theorem block_mw_frame g s mk bs : lib_ok bs -> (forall b, block_frame mk b (on_entry g s b)) ->
  lib_frame mk bs (block_mw (on_entry g s) bs).
Proof.
  intros Hok Hf. rewrite block_mw_ok by exact Hok. unfold lib_frame.
  induction bs as [|b r IH]; cbn [map]; constructor; [apply Hf|]. apply IH.
  destruct Hok as [He Hs]. destruct b; cbn [entry_keys string_keys flat_map app] in *; split; try assumption;
    first [inversion He; assumption | inversion Hs; assumption].
Qed.

(* idempotence at library level, for ANY list of blocks *)
Theorem block_mw_idem g s bs : (forall b, on_entry g s (on_entry g s b) = on_entry g s b) ->
  block_mw (on_entry g s) (block_mw (on_entry g s) bs) = block_mw (on_entry g s) bs.
Proof.
  intros Hid. unfold block_mw.
  assert (Hfix : map (on_entry g s) (rebuild (map (on_entry g s) bs)) = rebuild (map (on_entry g s) bs)).
  { assert (H : Forall (fun b => on_entry g s b = b) (rebuild (map (on_entry g s) bs))).
    { apply rebuild_from_fixed.
      - intros b Hb. destruct b; try reflexivity. discriminate.
      - apply Forall_forall. intros b Hb. apply in_map_iff in Hb as (b0 & <- & _). apply Hid. }
    induction H as [|b l Hb Hl IH]; [reflexivity|]. cbn [map]. rewrite Hb, IH. reflexivity. }
  rewrite Hfix. apply rebuild_idem.
Qed.

(* ================================================================ assembled statements (Properties/C17.v) *)
Definition mw_alpha : list block -> list block := block_mw alpha_block.
Definition mw_custom (cs tup : bool) (ord : list str) : list block -> list block := block_mw (custom_block cs tup ord).
Definition mw_normalize : list block -> list block := block_mw normalize_block.

Theorem custom_explicit_after_ctor cs order ord fs :
  custom_ctor cs order = Some ord -> sort_custom cs ord fs = custom_explicit cs ord fs.
Proof. intros H. apply sort_custom_explicit. apply (custom_ctor_ok _ _ _ H). Qed.

Theorem position_meaning k ord :
  (In k ord -> nth_error ord (position k ord) = Some k /\ forall j, j < position k ord -> nth_error ord j <> Some k)
  /\ (~ In k ord <-> position k ord = length ord)
  /\ position k ord <= length ord.
Proof. split; [apply position_listed | split; [apply position_unlisted | apply position_le]]. Qed.

Theorem frame_all bs : lib_ok bs ->
  lib_frame (Some alpha_meta_key) bs (mw_alpha bs)
  /\ (forall cs tup ord, lib_frame (Some custom_meta_key) bs (mw_custom cs tup ord bs))
  /\ lib_frame None bs (mw_normalize bs).
Proof.
  intros H. split; [|split].
  - apply block_mw_frame; [exact H | apply alpha_block_frame].
  - intros cs tup ord. apply block_mw_frame; [exact H | apply custom_block_frame].
  - apply block_mw_frame; [exact H | apply normalize_block_frame].
Qed.

(* block for block; the fields of every entry are the sorted / normalised fields *)
Theorem blockwise_all bs : lib_ok bs ->
  mw_alpha bs = map alpha_block bs
  /\ (forall cs tup ord, mw_custom cs tup ord bs = map (custom_block cs tup ord) bs)
  /\ mw_normalize bs = map normalize_block bs.
Proof.
  intros H. split; [|split]; [| intros cs tup ord |]; apply block_mw_ok; exact H.
Qed.

Theorem entry_fields_all h t k fs :
  (exists h', alpha_block (BEntry h t k fs) = BEntry h' t k (sort_alpha fs))
  /\ (forall cs tup ord, exists h', custom_block cs tup ord (BEntry h t k fs) = BEntry h' t k (sort_custom cs ord fs))
  /\ normalize_block (BEntry h t k fs) = BEntry h t k (normalize_fields fs).
Proof. split; [|split]; [eexists; reflexivity | intros; eexists; reflexivity | reflexivity]. Qed.

Theorem idem_all bs :
  mw_alpha (mw_alpha bs) = mw_alpha bs
  /\ (forall cs tup ord, mw_custom cs tup ord (mw_custom cs tup ord bs) = mw_custom cs tup ord bs)
  /\ mw_normalize (mw_normalize bs) = mw_normalize bs.
Proof.
  split; [|split].
  - apply block_mw_idem. apply alpha_block_idem.
  - intros cs tup ord. apply block_mw_idem. apply custom_block_idem.
  - apply block_mw_idem. apply normalize_block_idem.
Qed.

Theorem idem_fields fs :
  sort_alpha (sort_alpha fs) = sort_alpha fs
  /\ (forall cs ord, sort_custom cs ord (sort_custom cs ord fs) = sort_custom cs ord fs)
  /\ normalize_fields (normalize_fields fs) = normalize_fields fs.
Proof. split; [apply sort_alpha_idem | split; [intros; apply sort_custom_idem | apply normalize_fields_idem]]. Qed.
