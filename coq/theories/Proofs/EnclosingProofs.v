(* Proofs for C10 (Model/Enclosing.v against Spec/C10.v). *)
From Coq Require Import List NArith ZArith Bool Lia String.
From BP Require Import Base.Chars Model.Blocks Model.LibAdd Gen.Constants Model.Enclosing Spec.C10 Proofs.LibAddProofs.
Import ListNotations.
Local Open Scope Z_scope.

(* ---------------------------------------------------------------- small facts *)
Lemma ceq_eq a b : ceq a b = true <-> a = b.
Proof. unfold ceq. apply N.eqb_eq. Qed.
Lemma ceq_refl a : ceq a a = true.
Proof. apply ceq_eq. reflexivity. Qed.

Lemma app_single_inv {T} (w : list T) x y : w ++ [x] = [y] -> w = [] /\ x = y.
Proof. destruct w as [|a [|b w]]; simpl; intros H; inversion H; auto. Qed.

Lemma snoc_cons_inv {T} (w : list T) x c r : r <> [] -> w ++ [x] = c :: r -> exists w', w = c :: w' /\ r = w' ++ [x].
Proof.
  intros Hr H. destruct w as [|a w]; simpl in H; inversion H; subst.
  - contradiction.
  - exists w. split; reflexivity.
Qed.

Lemma exists_last' {T} (l : list T) : l <> [] -> exists w x, l = w ++ [x].
Proof. intros H. destruct (exists_last H) as (w & x & E). exists w, x. exact E. Qed.

(* "the character before position |w| is a backslash", when the text w is preceded by a character that is a backslash iff pbs *)
Definition ends_bs' (pbs : bool) (w : str) : Prop := (w = [] /\ pbs = true) \/ ends_bs w.

Lemma ends_bs_nil : ~ ends_bs [].
Proof. intros [p H]. destruct p; discriminate. Qed.

Lemma ends_bs_cons c w : ends_bs (c :: w) <-> ends_bs' (ceq c c_bs) w.
Proof.
  unfold ends_bs', ends_bs. split.
  - intros [p H]. destruct p as [|a p]; simpl in H; inversion H; subst.
    + left. split; [reflexivity | apply ceq_refl].
    + right. exists p. reflexivity.
  - intros [[H1 H2]|[p H]].
    + subst. apply ceq_eq in H2. subst. exists []. reflexivity.
    + subst. exists (c :: p). reflexivity.
Qed.

Lemma ends_bs'_cons pbs c w : ends_bs' pbs (c :: w) <-> ends_bs' (ceq c c_bs) w.
Proof.
  unfold ends_bs' at 1. rewrite ends_bs_cons. split; [intros [[H _]|H]; [discriminate | exact H] | intros H; right; exact H].
Qed.

Lemma ends_bs'_false_nil : ~ ends_bs' false [].
Proof. intros [[_ H]|H]; [discriminate | exact (ends_bs_nil H)]. Qed.

(* ---------------------------------------------------------------- the brace scan *)
Definition BraceOK (pbs : bool) (d : Z) (s : str) : Prop :=
  (exists w, s = w ++ [c_rb] /\ ~ ends_bs' pbs w)
  /\ d + depth_from pbs s = 0
  /\ (forall p t, s = p ++ t -> t <> [] -> d + depth_from pbs p > 0).

Lemma BraceOK_single pbs d c : d > 0 -> (BraceOK pbs d [c] <-> pbs = false /\ c = c_rb /\ d = 1).
Proof.
  intros Hd. unfold BraceOK. split.
  - intros ((w & Hw & Hne) & Hz & _).
    symmetry in Hw. apply (app_single_inv w c_rb c) in Hw. destruct Hw as [-> <-].
    destruct pbs.
    + exfalso. apply Hne. left. split; reflexivity.
    + simpl in Hz. unfold delta in Hz. simpl in Hz. repeat split; lia.
  - intros (-> & -> & ->). split; [|split].
    + exists []. split; [reflexivity | apply ends_bs'_false_nil].
    + reflexivity.
    + intros p t H Ht. destruct p as [|a p]; simpl; [lia|].
      exfalso. simpl in H. inversion H as [[Ha Hp]]. symmetry in Hp. apply app_eq_nil in Hp. destruct Hp as [_ Hp]. contradiction.
Qed.

Lemma BraceOK_cons pbs d c r : d > 0 -> r <> [] ->
  (BraceOK pbs d (c :: r) <-> d + delta pbs c > 0 /\ BraceOK (ceq c c_bs) (d + delta pbs c) r).
Proof.
  intros Hd Hr. unfold BraceOK. split.
  - intros ((w & Hw & Hne) & Hz & Hp).
    assert (H1 : d + delta pbs c > 0).
    { specialize (Hp [c] r eq_refl Hr). simpl in Hp. lia. }
    split; [exact H1|].
    destruct (snoc_cons_inv w c_rb c r Hr (eq_sym Hw)) as (w' & -> & ->).
    repeat split.
    + exists w'. split; [reflexivity|]. intros H. apply Hne. apply ends_bs'_cons. exact H.
    + simpl in Hz. lia.
    + intros p t E Ht. specialize (Hp (c :: p) t). simpl in Hp. rewrite E in Hp. specialize (Hp eq_refl Ht). lia.
  - intros (H1 & (w & Hw & Hne) & Hz & Hp). repeat split.
    + exists (c :: w). split; [simpl; rewrite Hw; reflexivity|]. intros H. apply Hne. apply ends_bs'_cons in H. exact H.
    + simpl. lia.
    + intros p t E Ht. destruct p as [|a p]; simpl; [lia|].
      simpl in E. inversion E as [[Ha H2]]. specialize (Hp p t H2 Ht). rewrite <- Ha. lia.
Qed.

Lemma c_lb_ne_bs : ceq c_lb c_bs = false. Proof. reflexivity. Qed.
Lemma c_rb_ne_bs : ceq c_rb c_bs = false. Proof. reflexivity. Qed.
Lemma c_rb_ne_lb : ceq c_rb c_lb = false. Proof. reflexivity. Qed.

Lemma scan_brace s : forall pbs d, d > 0 -> (scan true false pbs d s = true <-> BraceOK pbs d s).
Proof.
  induction s as [|c r IH]; intros pbs d Hd.
  - simpl. split; [discriminate|]. intros ((w & Hw & _) & _). destruct w; discriminate.
  - destruct r as [|c2 r'].
    + (* single character *)
      rewrite (BraceOK_single pbs d c Hd). simpl.
      destruct pbs; [split; [discriminate | intros (H & _); discriminate]|].
      destruct (ceq c c_lb) eqn:E1.
      * apply ceq_eq in E1. subst. simpl. split; [discriminate | intros (_ & H & _); discriminate].
      * destruct (ceq c c_rb) eqn:E2.
        -- apply ceq_eq in E2. subst. rewrite andb_true_r.
           destruct (d - 1 =? 0) eqn:E3.
           ++ apply Z.eqb_eq in E3. split; intros _; [repeat split; lia | reflexivity].
           ++ apply Z.eqb_neq in E3. simpl. split; [discriminate | intros (_ & _ & H); lia].
        -- assert (c <> c_rb) by (intros ->; rewrite ceq_refl in E2; discriminate).
           simpl. rewrite andb_false_r. simpl.
           split; [discriminate | intros (_ & H1 & _); contradiction].
    + (* at least two characters: one step *)
      assert (Hr : c2 :: r' <> []) by discriminate.
      rewrite (BraceOK_cons pbs d c (c2 :: r') Hd Hr).
      change (scan true false pbs d (c :: c2 :: r')) with
        (if pbs then scan true false (ceq c c_bs) d (c2 :: r')
         else if ceq c c_lb then scan true false false (d + 1) (c2 :: r')
         else if ceq c c_rb then (if ((d - 1) =? 0) && true then false else scan true false false (d - 1) (c2 :: r'))
         else if ceq c c_quote && (d =? 0) && negb true && negb false && negb false then false
         else scan true false (ceq c c_bs) d (c2 :: r')).
      unfold delta. destruct pbs.
      * rewrite Z.add_0_r. rewrite (IH (ceq c c_bs) d Hd). tauto.
      * destruct (ceq c c_lb) eqn:E1.
        -- apply ceq_eq in E1. subst. rewrite c_lb_ne_bs. rewrite (IH false (d + 1)) by lia. split; [intros H; split; [lia | exact H] | tauto].
        -- destruct (ceq c c_rb) eqn:E2.
           ++ apply ceq_eq in E2. subst. rewrite c_rb_ne_bs. rewrite andb_true_r.
              destruct (d - 1 =? 0) eqn:E3.
              ** apply Z.eqb_eq in E3. split; [discriminate | intros [H _]; lia].
              ** apply Z.eqb_neq in E3. replace (d + -1) with (d - 1) by lia.
                 rewrite (IH false (d - 1)) by lia. split; [intros H; split; [lia | exact H] | tauto].
           ++ rewrite !andb_false_r. simpl. rewrite Z.add_0_r. rewrite (IH (ceq c c_bs) d Hd). tauto.
Qed.

(* ---------------------------------------------------------------- the quote scan *)
Definition QuoteOK (pbs : bool) (d : Z) (s : str) : Prop :=
  (forall w c, s = w ++ [c] -> ~ ends_bs' pbs w)
  /\ (forall a b, s = a ++ c_quote :: b -> b <> [] -> ends_bs' pbs a \/ d + depth_from pbs a <> 0).

Lemma QuoteOK_single pbs d c : QuoteOK pbs d [c] <-> pbs = false.
Proof.
  unfold QuoteOK. split.
  - intros [H _]. destruct pbs; [|reflexivity]. exfalso. apply (H [] c eq_refl). left. split; reflexivity.
  - intros ->. split.
    + intros w c' E. symmetry in E. apply app_single_inv in E. destruct E as [-> _]. apply ends_bs'_false_nil.
    + intros a b E Hb. exfalso. destruct a as [|x a]; simpl in E; inversion E as [[H1 H2]]; subst.
      * contradiction.
      * destruct a; discriminate.
Qed.

Lemma QuoteOK_cons pbs d c r : r <> [] ->
  (QuoteOK pbs d (c :: r) <-> ~ (pbs = false /\ c = c_quote /\ d = 0) /\ QuoteOK (ceq c c_bs) (d + delta pbs c) r).
Proof.
  intros Hr. unfold QuoteOK. split.
  - intros [H1 H2]. split; [|split].
    + intros (-> & -> & ->). destruct (H2 [] r eq_refl Hr) as [H|H].
      * exact (ends_bs'_false_nil H).
      * simpl in H. lia.
    + intros w c' E. specialize (H1 (c :: w) c'). simpl in H1. rewrite E in H1. specialize (H1 eq_refl).
      intros H. apply H1. apply ends_bs'_cons. exact H.
    + intros a b E Hb. specialize (H2 (c :: a) b). simpl in H2. rewrite E in H2. specialize (H2 eq_refl Hb).
      destruct H2 as [H2|H2]; [left; apply ends_bs'_cons in H2; exact H2 | right; lia].
  - intros (H0 & H1 & H2). split.
    + intros w c' E. destruct (snoc_cons_inv w c' c r Hr (eq_sym E)) as (w' & -> & Er).
      intros H. apply ends_bs'_cons in H. exact (H1 w' c' Er H).
    + intros a b E Hb. destruct a as [|x a]; simpl in E; inversion E as [[Hx Hrest]].
      * subst c. destruct pbs; [left; left; split; reflexivity|].
        right. simpl. intros Hd. apply H0. repeat split; lia.
      * subst x. destruct (H2 a b Hrest Hb) as [H|H]; [left; apply ends_bs'_cons; exact H | right; simpl; lia].
Qed.

Lemma c_quote_ne_bs : ceq c_quote c_bs = false. Proof. reflexivity. Qed.

Lemma scan_quote s : forall pbs d, s <> [] -> (scan false false pbs d s = true <-> QuoteOK pbs d s).
Proof.
  induction s as [|c r IH]; intros pbs d Hs; [contradiction|].
  destruct r as [|c2 r'].
  - rewrite QuoteOK_single. simpl. destruct pbs; [split; discriminate|].
    destruct (ceq c c_lb); [simpl; tauto|]. destruct (ceq c c_rb); [rewrite andb_false_r; simpl; tauto|].
    rewrite !andb_false_r. simpl. tauto.
  - assert (Hr : c2 :: r' <> []) by discriminate.
    rewrite (QuoteOK_cons pbs d c (c2 :: r') Hr).
    change (scan false false pbs d (c :: c2 :: r')) with
      (if pbs then scan false false (ceq c c_bs) d (c2 :: r')
       else if ceq c c_lb then scan false false false (d + 1) (c2 :: r')
       else if ceq c c_rb then (if ((d - 1) =? 0) && false then false else scan false false false (d - 1) (c2 :: r'))
       else if ceq c c_quote && (d =? 0) && negb false && negb false && negb false then false
       else scan false false (ceq c c_bs) d (c2 :: r')).
    unfold delta. destruct pbs.
    + rewrite Z.add_0_r. rewrite (IH (ceq c c_bs) d Hr). split; [intros H; split; [intros (H1 & _); discriminate | exact H] | tauto].
    + destruct (ceq c c_lb) eqn:E1.
      * apply ceq_eq in E1. subst. rewrite c_lb_ne_bs. rewrite (IH false (d + 1) Hr).
        split; [intros H; split; [intros (_ & H1 & _); discriminate | exact H] | tauto].
      * destruct (ceq c c_rb) eqn:E2.
        -- apply ceq_eq in E2. subst. rewrite c_rb_ne_bs. rewrite andb_false_r. replace (d + -1) with (d - 1) by lia.
           rewrite (IH false (d - 1) Hr). split; [intros H; split; [intros (_ & H1 & _); discriminate | exact H] | tauto].
        -- rewrite !andb_true_r. rewrite Z.add_0_r. destruct (ceq c c_quote) eqn:E3.
           ++ apply ceq_eq in E3. subst. rewrite c_quote_ne_bs. destruct (d =? 0) eqn:E4; cbn [andb].
              ** apply Z.eqb_eq in E4. split; [discriminate | intros [H _]; exfalso; apply H; repeat split; assumption].
              ** apply Z.eqb_neq in E4. rewrite (IH false d Hr). split; [intros H; split; [intros (_ & _ & H1); contradiction | exact H] | tauto].
           ++ cbn [andb]. rewrite (IH (ceq c c_bs) d Hr).
              split; [intros H; split; [intros (_ & H1 & _); subst; rewrite ceq_refl in E3; discriminate | exact H] | tauto].
Qed.

(* ---------------------------------------------------------------- _is_single_enclosed_piece against the spec *)
Lemma ends_bs'_false w : ends_bs' false w <-> ends_bs w.
Proof. unfold ends_bs'. split; [intros [[_ H]|H]; [discriminate | exact H] | intros H; right; exact H]. Qed.

Lemma depth_lb x : depth (c_lb :: x) = 1 + depth_from false x.
Proof. reflexivity. Qed.
Lemma depth_quote x : depth (c_quote :: x) = depth_from false x.
Proof. reflexivity. Qed.

Lemma last_snoc (w : str) x d : last (w ++ [x]) d = x.
Proof. induction w as [|a w IH]; [reflexivity|]. simpl. destruct (w ++ [x]) eqn:E; [destruct w; discriminate | exact IH]. Qed.

Lemma last_ch_snoc c w x : last_ch (c :: w ++ [x]) = x.
Proof. unfold last_ch. change (c :: w ++ [x]) with ((c :: w) ++ [x]). apply last_snoc. Qed.

Lemma inner_snoc c w x : inner (c :: w ++ [x]) = w.
Proof. unfold inner. simpl. apply removelast_last. Qed.

Lemma single_brace w : is_single_enclosed_piece (c_lb :: w ++ [c_rb]) = true <-> outer_brace (c_lb :: w ++ [c_rb]) w.
Proof.
  unfold is_single_enclosed_piece. rewrite last_ch_snoc. rewrite !ceq_refl. cbn [andb negb].
  change (scan (ceq c_lb c_lb) true false 0 (c_lb :: w ++ [c_rb])) with (scan true false false 1 (w ++ [c_rb])).
  rewrite (scan_brace (w ++ [c_rb]) false 1) by lia.
  unfold BraceOK, outer_brace. split.
  - intros ((w' & Hw & Hne) & Hz & Hp). apply app_inj_tail in Hw. destruct Hw as [<- _].
    split; [reflexivity|]. split; [rewrite <- ends_bs'_false; exact Hne|]. split; [rewrite depth_lb; lia|].
    intros p s E Hpn Hsn. destruct p as [|a p]; [contradiction|]. simpl in E. inversion E as [[Ha Hr]]. subst a.
    rewrite depth_lb. specialize (Hp p s Hr Hsn). lia.
  - intros (_ & Hne & Hz & Hp). split; [|split].
    + exists w. split; [reflexivity | rewrite ends_bs'_false; exact Hne].
    + rewrite depth_lb in Hz. lia.
    + intros p t E Ht. assert (Hq : c_lb :: p <> []) by discriminate.
      specialize (Hp (c_lb :: p) t). simpl in Hp. rewrite E in Hp. specialize (Hp eq_refl Hq Ht). rewrite depth_lb in Hp. lia.
Qed.

Lemma single_quote w : is_single_enclosed_piece (c_quote :: w ++ [c_quote]) = true <-> outer_quote (c_quote :: w ++ [c_quote]) w.
Proof.
  unfold is_single_enclosed_piece. rewrite last_ch_snoc. rewrite !ceq_refl.
  change (ceq c_quote c_lb) with false. cbn [andb negb].
  assert (Hne : w ++ [c_quote] <> []) by (destruct w; discriminate).
  assert (Hstep : scan false true false 0 (c_quote :: w ++ [c_quote]) = scan false false false 0 (w ++ [c_quote])).
  { destruct (w ++ [c_quote]) eqn:E; [contradiction | reflexivity]. }
  rewrite Hstep. rewrite (scan_quote (w ++ [c_quote]) false 0 Hne).
  unfold QuoteOK, outer_quote. split.
  - intros [H1 H2]. split; [reflexivity|]. split.
    + rewrite <- ends_bs'_false. exact (H1 w c_quote eq_refl).
    + intros a b E. subst w. destruct (H2 a (b ++ [c_quote])) as [H|H].
      * rewrite <- app_assoc. reflexivity.
      * destruct b; discriminate.
      * left. apply ends_bs'_false. exact H.
      * right. rewrite depth_quote. lia.
  - intros (_ & Hnb & Hq). split.
    + intros w' c' E. apply app_inj_tail in E. destruct E as [<- _]. rewrite ends_bs'_false. exact Hnb.
    + intros a b E Hb. destruct (exists_last' b Hb) as (b' & x & ->).
      change (a ++ c_quote :: b' ++ [x]) with (a ++ (c_quote :: b') ++ [x]) in E. rewrite app_assoc in E.
      apply app_inj_tail in E. destruct E as [E _]. destruct (Hq a b' E) as [H|H].
      * left. apply ends_bs'_false. exact H.
      * right. rewrite depth_quote in H. lia.
Qed.

(* a value of at least two characters, split into first, inner part and last *)
Lemma decompose c0 c1 r : c0 :: c1 :: r = c0 :: inner (c0 :: c1 :: r) ++ [last_ch (c0 :: c1 :: r)].
Proof.
  unfold inner, last_ch. f_equal. change (tl (c0 :: c1 :: r)) with (c1 :: r).
  change (last (c0 :: c1 :: r) 0%N) with (last (c1 :: r) 0%N).
  apply app_removelast_last. discriminate.
Qed.

(* the shape test at the top of _is_single_enclosed_piece *)
Lemma single_shape c0 c1 r : is_single_enclosed_piece (c0 :: c1 :: r) = true ->
  (c0 = c_lb /\ last_ch (c0 :: c1 :: r) = c_rb) \/ (c0 = c_quote /\ last_ch (c0 :: c1 :: r) = c_quote).
Proof.
  unfold is_single_enclosed_piece.
  destruct (ceq c0 c_lb && ceq (last_ch (c0 :: c1 :: r)) c_rb) eqn:E1.
  - apply andb_true_iff in E1. destruct E1 as [A B]. apply ceq_eq in A. apply ceq_eq in B. intros _. left. split; assumption.
  - destruct (ceq c0 c_quote && ceq (last_ch (c0 :: c1 :: r)) c_quote) eqn:E2.
    + apply andb_true_iff in E2. destruct E2 as [A B]. apply ceq_eq in A. apply ceq_eq in B. intros _. right. split; assumption.
    + cbn [negb andb]. discriminate.
Qed.

Lemma outer_brace_fun v w w' : outer_brace v w -> outer_brace v w' -> w = w'.
Proof. intros (E & _) (E' & _). rewrite E in E'. inversion E' as [H]. apply app_inj_tail in H. tauto. Qed.

Definition strip_core (v : str) : str * str :=
  match v with
  | c0 :: _ :: _ => if is_single_enclosed_piece v then (inner v, [c0]) else (v, no_enclosing)
  | _ => (v, no_enclosing)
  end.

Lemma strip_core_snoc c0 t x :
  strip_core (c0 :: t ++ [x]) =
  if is_single_enclosed_piece (c0 :: t ++ [x]) then (t, [c0]) else (c0 :: t ++ [x], no_enclosing).
Proof.
  unfold strip_core. destruct t as [|a t]; [reflexivity|].
  cbn [app]. change (c0 :: a :: t ++ [x]) with (c0 :: (a :: t) ++ [x]). rewrite inner_snoc. reflexivity.
Qed.

Lemma strip_core_spec v :
  (forall w, outer_brace v w -> strip_core v = (w, [c_lb]))
  /\ (forall w, outer_quote v w -> strip_core v = (w, [c_quote]))
  /\ ((forall w, ~ outer_brace v w) -> (forall w, ~ outer_quote v w) -> strip_core v = (v, no_enclosing)).
Proof.
  split; [|split].
  - intros w H. pose proof H as (E & _). subst v. rewrite strip_core_snoc.
    apply single_brace in H. rewrite H. reflexivity.
  - intros w H. pose proof H as (E & _). subst v. rewrite strip_core_snoc.
    apply single_quote in H. rewrite H. reflexivity.
  - intros Hb Hq. destruct v as [|c0 [|c1 r]]; try reflexivity.
    unfold strip_core.
    destruct (is_single_enclosed_piece (c0 :: c1 :: r)) eqn:E; [|reflexivity].
    exfalso. pose proof (decompose c0 c1 r) as D.
    destruct (single_shape c0 c1 r E) as [[-> Hl]|[-> Hl]]; rewrite Hl in D; rewrite D in E.
    + apply single_brace in E. rewrite <- D in E. exact (Hb _ E).
    + apply single_quote in E. rewrite <- D in E. exact (Hq _ E).
Qed.

Theorem strip_one_layer (value : str) :
  let v := strip value in
  (forall w, outer_brace v w -> strip_enclosing value = (w, [c_lb]))
  /\ (forall w, outer_quote v w -> strip_enclosing value = (w, [c_quote]))
  /\ ((forall w, ~ outer_brace v w) -> (forall w, ~ outer_quote v w) -> strip_enclosing value = (v, no_enclosing)).
Proof. exact (strip_core_spec (strip value)). Qed.

(* ---------------------------------------------------------------- adding back with reuse *)
Lemma enclose_reuse_none c w air : reuse c = true -> enclose c (VStr w) (Some (VStr no_enclosing)) air = Val (VStr w).
Proof. intros H. unfold enclose. cbn [fmt_value]. rewrite H. reflexivity. Qed.
Lemma enclose_reuse_lb c w air : reuse c = true -> enclose c (VStr w) (Some (VStr [c_lb])) air = Val (VStr (c_lb :: w ++ [c_rb])).
Proof. intros H. unfold enclose. cbn [fmt_value]. rewrite H. reflexivity. Qed.
Lemma enclose_reuse_quote c w air : reuse c = true -> enclose c (VStr w) (Some (VStr [c_quote])) air = Val (VStr (c_quote :: w ++ [c_quote])).
Proof. intros H. unfold enclose. cbn [fmt_value]. rewrite H. reflexivity. Qed.

Lemma reuse_restores_core c v air : reuse c = true ->
  enclose c (VStr (fst (strip_core v))) (Some (VStr (snd (strip_core v)))) air = Val (VStr v).
Proof.
  intros H. destruct v as [|c0 [|c1 r]]; try (apply enclose_reuse_none; exact H).
  unfold strip_core. destruct (is_single_enclosed_piece (c0 :: c1 :: r)) eqn:E; [|apply enclose_reuse_none; exact H].
  cbn [fst snd]. pose proof (decompose c0 c1 r) as D.
  destruct (single_shape c0 c1 r E) as [[-> Hl]|[-> Hl]]; rewrite Hl in D.
  - rewrite (enclose_reuse_lb c _ air H). rewrite <- D. reflexivity.
  - rewrite (enclose_reuse_quote c _ air H). rewrite <- D. reflexivity.
Qed.

Theorem reuse_restores_strip c value air : reuse c = true ->
  enclose c (VStr (fst (strip_enclosing value))) (Some (VStr (snd (strip_enclosing value)))) air = Val (VStr (strip value)).
Proof. intros H. exact (reuse_restores_core c (strip value) air H). Qed.

Theorem reuse_restores c v air : reuse c = true -> strip v = v ->
  enclose c (VStr (fst (strip_enclosing v))) (Some (VStr (snd (strip_enclosing v)))) air = Val (VStr v).
Proof. intros H E. rewrite (reuse_restores_strip c v air H). rewrite E. reflexivity. Qed.

(* ---------------------------------------------------------------- default enclosing and the integer rule *)
Definition wf_cfg (c : addcfg) : Prop := default_enclosing c = [c_lb] \/ default_enclosing c = [c_quote].

Lemma wrap_lb t : wrap c_lb t = c_lb :: t ++ [c_rb]. Proof. reflexivity. Qed.
Lemma wrap_quote t : wrap c_quote t = c_quote :: t ++ [c_quote]. Proof. reflexivity. Qed.

Lemma enclose_default c v txt air q :
  fmt_value v = Some txt -> default_enclosing c = [q] -> (q = c_lb \/ q = c_quote) ->
  forall md, (reuse c = false \/ not_none md = None) ->
  (air && negb (enclose_integers c) && is_integer v = false) ->
  enclose c v md air = Val (VStr (wrap q txt)).
Proof.
  intros Hf Hd Hq md Hmd Hint. unfold enclose. rewrite Hf.
  assert (Hsel : (if reuse c then not_none md else None) = None).
  { destruct Hmd as [H|H]; [rewrite H; reflexivity | rewrite H; destruct (reuse c); reflexivity]. }
  rewrite Hsel, Hint, Hd. destruct Hq as [-> | ->]; reflexivity.
Qed.

Lemma wrap_neq q txt : wrap q txt <> txt.
Proof. intros H. apply (f_equal (@List.length ch)) in H. unfold wrap in H. simpl in H. rewrite app_length in H. simpl in H. lia. Qed.

Theorem int_rule c v md : wf_cfg c -> (reuse c = false \/ not_none md = None) -> is_integer v = true ->
  (exists r, enclose c v md true = Val r)
  /\ (enclose c v md true = Val v <-> enclose_integers c = false)
  /\ (enclose_integers c = true ->
      exists txt q, fmt_value v = Some txt /\ default_enclosing c = [q] /\ enclose c v md true = Val (VStr (wrap q txt)))
  /\ (exists txt q, fmt_value v = Some txt /\ default_enclosing c = [q] /\ enclose c v md false = Val (VStr (wrap q txt))).
Proof.
  intros Hwf Hmd Hi.
  assert (Hf : exists txt, fmt_value v = Some txt).
  { destruct v; try discriminate; eexists; reflexivity. }
  destruct Hf as [txt Hf].
  assert (Hq : exists q, default_enclosing c = [q] /\ (q = c_lb \/ q = c_quote)).
  { destruct Hwf as [H|H]; [exists c_lb | exists c_quote]; split; auto. }
  destruct Hq as (q & Hd & Hq).
  assert (Hoff : enclose c v md false = Val (VStr (wrap q txt))).
  { apply (enclose_default c v txt false q Hf Hd Hq md Hmd). reflexivity. }
  destruct (enclose_integers c) eqn:Ei.
  - assert (Hon : enclose c v md true = Val (VStr (wrap q txt))).
    { apply (enclose_default c v txt true q Hf Hd Hq md Hmd). rewrite Ei. reflexivity. }
    split; [eexists; exact Hon|]. split; [|split].
    + rewrite Hon. split; [|discriminate]. intros H. exfalso. inversion H as [H1].
      destruct v; try discriminate. simpl in Hf. inversion Hf; subst. inversion H1 as [H2]. exact (wrap_neq _ _ H2).
    + intros _. exists txt, q. auto.
    + exists txt, q. auto.
  - assert (Hon : enclose c v md true = Val v).
    { unfold enclose. rewrite Hf.
      assert (Hsel : (if reuse c then not_none md else None) = None).
      { destruct Hmd as [H|H]; [rewrite H; reflexivity | rewrite H; destruct (reuse c); reflexivity]. }
      rewrite Hsel, Ei, Hi. reflexivity. }
    split; [eexists; exact Hon|]. split; [|split].
    + rewrite Hon. tauto.
    + discriminate.
    + exists txt, q. auto.
Qed.

(* a value that is not integer-like, or a field outside the numeric list, always gets the default enclosing *)
Theorem default_enclosing_rule c v txt md air : wf_cfg c -> (reuse c = false \/ not_none md = None) ->
  fmt_value v = Some txt -> (air = false \/ is_integer v = false) ->
  exists q, default_enclosing c = [q] /\ enclose c v md air = Val (VStr (wrap q txt)).
Proof.
  intros Hwf Hmd Hf Hn.
  assert (Hq : exists q, default_enclosing c = [q] /\ (q = c_lb \/ q = c_quote)).
  { destruct Hwf as [H|H]; [exists c_lb | exists c_quote]; split; auto. }
  destruct Hq as (q & Hd & Hq). exists q. split; [exact Hd|].
  apply (enclose_default c v txt air q Hf Hd Hq md Hmd).
  destruct Hn as [-> | ->]; [reflexivity | rewrite andb_false_r; reflexivity].
Qed.

(* ---------------------------------------------------------------- RemoveEnclosing on blocks: values, metadata, frame *)
Lemma str_eqb_sym a b : str_eqb a b = str_eqb b a.
Proof.
  destruct (str_eqb a b) eqn:E; symmetry.
  - apply str_eqb_eq in E. subst. apply str_eqb_refl.
  - apply str_eqb_neq. apply str_eqb_neq in E. congruence.
Qed.

Lemma dict_get_set {V} (d : list (str * V)) k v k' :
  dict_get (dict_set d k v) k' = if str_eqb k' k then Some v else dict_get d k'.
Proof.
  induction d as [|[k1 v1] d IH]; simpl; [reflexivity|].
  destruct (str_eqb k k1) eqn:E; simpl.
  - apply str_eqb_eq in E. subst k1. destruct (str_eqb k' k); reflexivity.
  - rewrite IH. destruct (str_eqb k' k1) eqn:E1; [|reflexivity].
    apply str_eqb_eq in E1. subst k1. rewrite str_eqb_sym, E. reflexivity.
Qed.

Lemma find_app {T} (p : T -> bool) a b : find p (a ++ b) = match find p a with Some x => Some x | None => find p b end.
Proof. induction a as [|x a IH]; simpl; [reflexivity|]. destruct (p x); [reflexivity | exact IH]. Qed.

Definition str_of (v : value) : str := match v with VStr s => s | _ => [] end.
Definition stripped_field (f f' : field) : Prop :=
  exists s, fval f = VStr s /\ f' = mkfield (fkey f) (VStr (fst (strip_enclosing s))) (fline f).
Definition recorded (f : field) : value := VStr (snd (strip_enclosing (str_of (fval f)))).

Lemma remove_fields_spec fs : forall md0 fs' md, remove_fields fs md0 = Val (fs', md) ->
  Forall2 stripped_field fs fs'
  /\ (forall k, dict_get md k = match last_field k fs with Some f => Some (recorded f) | None => dict_get md0 k end).
Proof.
  induction fs as [|f r IH]; intros md0 fs' md H; simpl in H.
  - inversion H; subst. split; [constructor | intros k; reflexivity].
  - destruct (fval f) as [s| | | | | | | |] eqn:Ev; simpl in H; try discriminate.
    destruct (strip_enclosing s) as [w e] eqn:Es.
    destruct (remove_fields r (dict_set md0 (fkey f) (VStr e))) as [[r' md']| |] eqn:Er; try discriminate.
    inversion H; subst. destruct (IH _ _ _ Er) as [F G]. split.
    + constructor; [|exact F]. exists s. split; [exact Ev|]. rewrite Es. reflexivity.
    + intros k. rewrite G. unfold last_field. simpl. rewrite find_app. simpl.
      destruct (find (fun f0 => str_eqb k (fkey f0)) (rev r)); [reflexivity|].
      rewrite dict_get_set. destruct (str_eqb k (fkey f)); [|reflexivity].
      unfold recorded. rewrite Ev. simpl. rewrite Es. reflexivity.
Qed.

Lemma Forall2_keys fs fs' : Forall2 stripped_field fs fs' -> map fkey fs' = map fkey fs /\ map fline fs' = map fline fs.
Proof.
  intros H. induction H as [|f f' r r' (s & _ & ->) _ [I1 I2]]; [split; reflexivity|].
  simpl. rewrite I1, I2. split; reflexivity.
Qed.

Theorem remove_entry_spec h t k fs b' : remove_block (BEntry h t k fs) = Val b' ->
  exists fs' md,
    b' = BEntry (set_meta h remove_enclosing_metadata_key (VDict md)) t k fs'
    /\ Forall2 stripped_field fs fs'
    /\ map fkey fs' = map fkey fs /\ map fline fs' = map fline fs
    /\ (forall k', dict_get md k' = match last_field k' fs with Some f => Some (recorded f) | None => None end).
Proof.
  simpl. destruct (remove_fields fs []) as [[fs' md]| |] eqn:E; try discriminate.
  intros H. inversion H; subst. destruct (remove_fields_spec _ _ _ _ E) as [F G].
  destruct (Forall2_keys _ _ F) as [K1 K2].
  exists fs', md. repeat split; try assumption.
Qed.

Theorem remove_string_spec h k v b' : remove_block (BString h k v) = Val b' ->
  exists s, v = VStr s
    /\ b' = BString (set_meta h remove_enclosing_metadata_key (VStr (snd (strip_enclosing s)))) k (VStr (fst (strip_enclosing s))).
Proof.
  simpl. destruct v as [s| | | | | | | |]; simpl; try discriminate.
  destruct (strip_enclosing s) as [w e] eqn:Es. intros H. inversion H; subst. exists s. rewrite Es. split; reflexivity.
Qed.

Theorem remove_other b : is_entry b = false -> is_string b = false -> remove_block b = Val b.
Proof. destruct b; simpl; try discriminate; reflexivity. Qed.

(* only the one metadata entry is touched *)
Theorem set_meta_frame h k v : sl (set_meta h k v) = sl h /\ raw (set_meta h k v) = raw h
  /\ dict_get (meta (set_meta h k v)) k = Some v
  /\ (forall k', k' <> k -> dict_get (meta (set_meta h k v)) k' = dict_get (meta h) k').
Proof.
  unfold set_meta. simpl. repeat split.
  - rewrite dict_get_set, str_eqb_refl. reflexivity.
  - intros k' Hk. rewrite dict_get_set. apply str_eqb_neq in Hk. rewrite Hk. reflexivity.
Qed.

(* remove never raises on text values *)
Theorem remove_fields_total fs : Forall (fun f => is_vstr (fval f) = true) fs -> forall md0, exists r, remove_fields fs md0 = Val r.
Proof.
  induction 1 as [|f r Hf _ IH]; intros md0; simpl; [eexists; reflexivity|].
  destruct (fval f); try discriminate. simpl. destruct (strip_enclosing s) as [w e].
  destruct (IH (dict_set md0 (fkey f) (VStr e))) as [[r' md'] E]. rewrite E. eexists. reflexivity.
Qed.

(* ---------------------------------------------------------------- library level *)
Lemma map_res_Forall2 {T U} (f : T -> res U) l : forall l', map_res f l = Val l' -> Forall2 (fun x y => f x = Val y) l l'.
Proof.
  induction l as [|x l IH]; intros l' H; simpl in H.
  - inversion H. constructor.
  - destruct (f x) eqn:E; try discriminate. destruct (map_res f l) eqn:E2; try discriminate.
    inversion H; subst. constructor; [exact E | apply IH; reflexivity].
Qed.

Lemma remove_block_keys b b' : remove_block b = Val b' -> ekey b' = ekey b /\ skey b' = skey b.
Proof.
  destruct b; simpl; intros H; try (inversion H; subst; split; reflexivity).
  - destruct (remove_fields fields []) as [[fs' md]| |]; try discriminate. inversion H; subst. split; reflexivity.
  - destruct (strip_value v) as [[s e]| |]; try discriminate. inversion H; subst. split; reflexivity.
Qed.

(* on the blocks of a library, the middleware is the block-wise map: Library(blocks=...) re-wraps nothing *)
Theorem remove_lib_blockwise bs bs' : wf_blocks bs -> remove_lib bs = Val bs' ->
  Forall2 (fun b b' => remove_block b = Val b') bs bs'.
Proof.
  intros W H. unfold remove_lib, block_mw in H.
  destruct (map_res remove_block bs) as [l| |] eqn:E; try discriminate.
  pose proof (map_res_Forall2 _ _ _ E) as F.
  assert (W' : wf_blocks l) by (apply (wf_Forall2 _ bs l remove_block_keys F W)).
  rewrite (rebuild_id l W') in H. inversion H; subst. exact F.
Qed.

Lemma add_block_keys c b b' : add_block_encl c b = Val b' -> ekey b' = ekey b /\ skey b' = skey b.
Proof.
  destruct b; simpl; intros H; try (inversion H; subst; split; reflexivity).
  - destruct (add_fields c _ fields); try discriminate. inversion H; subst. split; reflexivity.
  - destruct (enclose c v _ _); try discriminate. inversion H; subst. split; reflexivity.
Qed.

Theorem add_lib_blockwise c bs bs' : wf_blocks bs -> add_lib c bs = Val bs' ->
  Forall2 (fun b b' => add_block_encl c b = Val b') bs bs'.
Proof.
  intros W H. unfold add_lib, block_mw in H.
  destruct (map_res (add_block_encl c) bs) as [l| |] eqn:E; try discriminate.
  pose proof (map_res_Forall2 _ _ _ E) as F.
  assert (W' : wf_blocks l) by (apply (wf_Forall2 _ bs l (add_block_keys c) F W)).
  rewrite (rebuild_id l W') in H. inversion H; subst. exact F.
Qed.

(* AddEnclosing on an entry: frame *)
Lemma add_fields_frame c md fs : forall fs', add_fields c md fs = Val fs' ->
  map fkey fs' = map fkey fs /\ map fline fs' = map fline fs
  /\ Forall2 (fun f f' => exists prev, md_lookup md (fkey f) = Val prev
                          /\ enclose c (fval f) prev (mem_str (fkey f) entry_potentially_int_fields) = Val (fval f')) fs fs'.
Proof.
  induction fs as [|f r IH]; intros fs' H; cbn [add_fields] in H.
  - inversion H. repeat split; constructor.
  - destruct (md_lookup md (fkey f)) as [prev| |] eqn:E1; try discriminate.
    destruct (enclose c (fval f) prev _) as [v'| |] eqn:E2; try discriminate.
    destruct (add_fields c md r) as [r'| |] eqn:E3; try discriminate.
    inversion H; subst. destruct (IH _ eq_refl) as (K1 & K2 & F). cbn [map fkey fline]. rewrite K1, K2.
    repeat split. constructor; [|exact F]. exists prev. split; [exact E1 | exact E2].
Qed.

Theorem add_entry_frame c h t k fs b' : add_block_encl c (BEntry h t k fs) = Val b' ->
  exists fs', b' = BEntry (del_meta h remove_enclosing_metadata_key) t k fs'
    /\ map fkey fs' = map fkey fs /\ map fline fs' = map fline fs.
Proof.
  simpl. destruct (add_fields c _ fs) as [fs'| |] eqn:E; try discriminate.
  intros H. inversion H; subst. destruct (add_fields_frame _ _ _ _ E) as (K1 & K2 & _).
  exists fs'. repeat split; assumption.
Qed.

(* remove then add-with-reuse on an entry whose field keys are pairwise distinct restores every (stripped) value *)
Lemma last_field_nodup fs f : NoDup (map fkey fs) -> In f fs -> last_field (fkey f) fs = Some f.
Proof.
  induction fs as [|g r IH]; intros Hn Hi; [contradiction|].
  unfold last_field. simpl. rewrite find_app. simpl in Hn. inversion Hn as [|x l Hnot Hnd]; subst.
  destruct Hi as [->|Hi].
  - assert (E : find (fun f0 => str_eqb (fkey f) (fkey f0)) (rev r) = None).
    { destruct (find _ (rev r)) eqn:E; [|reflexivity]. exfalso. apply find_some in E. destruct E as [E1 E2].
      apply str_eqb_eq in E2. apply Hnot. rewrite E2. apply in_map. apply in_rev. exact E1. }
    rewrite E. simpl. rewrite str_eqb_refl. reflexivity.
  - fold (last_field (fkey f) r). rewrite (IH Hnd Hi). reflexivity.
Qed.

Theorem entry_reuse_restores c h t k fs b1 : reuse c = true -> NoDup (map fkey fs) ->
  remove_block (BEntry h t k fs) = Val b1 ->
  exists h', add_block_encl c b1 = Val (BEntry h' t k (map (fun f => mkfield (fkey f) (VStr (strip (str_of (fval f)))) (fline f)) fs))
             /\ sl h' = sl h /\ raw h' = raw h.
Proof.
  intros Hr Hn H. destruct (remove_entry_spec _ _ _ _ _ H) as (fs' & md & -> & F & K1 & K2 & G).
  cbn [add_block_encl]. destruct (set_meta_frame h remove_enclosing_metadata_key (VDict md)) as (S1 & S2 & S3 & _).
  rewrite S3.
  assert (A : add_fields c (Some (VDict md)) fs' = Val (map (fun f => mkfield (fkey f) (VStr (strip (str_of (fval f)))) (fline f)) fs)).
  { assert (Hsub : forall f, In f fs -> dict_get md (fkey f) = Some (recorded f)).
    { intros f Hf. rewrite G. rewrite (last_field_nodup fs f Hn Hf). reflexivity. }
    clear G K1 K2 H Hn. induction F as [|f f' r r' (s & Ev & ->) _ IH]; [reflexivity|].
    cbn [add_fields map fkey fval fline md_lookup not_none]. rewrite (Hsub f (or_introl eq_refl)). unfold recorded. rewrite Ev. cbn [str_of].
    rewrite (reuse_restores_strip c s _ Hr). rewrite IH; [reflexivity|]. intros g Hg. apply Hsub. right. exact Hg. }
  rewrite A. eexists. split; [reflexivity|]. split; assumption.
Qed.

(* the numeric-field list read from the running module is the one the property names; @string values are never left bare *)
Theorem numeric_fields_ok :
  entry_potentially_int_fields = map lit ["year"; "month"; "volume"; "number"; "pages"; "edition"; "chapter"; "issue"]%string
  /\ strings_can_be_unescaped_ints = false
  /\ remove_enclosing_metadata_key = lit "removed_enclosing" /\ removed_enclosing_key = lit "removed_enclosing".
Proof. repeat split; vm_compute; reflexivity. Qed.
