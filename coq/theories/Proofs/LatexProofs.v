(* Proofs for C18 (Model/LatexWrap.v against Spec/C18.v). *)
From Coq Require Import List NArith ZArith Bool Lia.
From BP Require Import Base.Chars Model.Blocks Model.LibAdd Model.LatexWrap Spec.C18 Proofs.LibAddProofs.
Import ListNotations.

Section Wrapper.
  Variable conv : str -> str * str.
  Let g (s : str) : str := fst (conv s).
  Let e (s : str) : str := snd (conv s).

  Lemma conv_field_value_eq v : conv_field_value conv v = (map_value g v, map e (visited_value v)).
  Proof.
    destruct v; try reflexivity. cbn [conv_field_value conv_all visited_value map_value].
    rewrite !map_app. reflexivity.
  Qed.

  Lemma conv_fields_eq fs :
    conv_fields conv fs = (map (fun f => mkfield (fkey f) (map_value g (fval f)) (fline f)) fs,
                           map e (flat_map (fun f => visited_value (fval f)) fs)).
  Proof.
    induction fs as [|f r IH]; [reflexivity|].
    cbn [conv_fields]. rewrite conv_field_value_eq, IH. cbn [map flat_map]. rewrite map_app. reflexivity.
  Qed.

  (* the wrapper in one line: convert every visited text; the block is wrapped into an error block iff some message is
     non-empty; the reasons are the non-empty messages in visiting order *)
  Theorem latex_block_eq b :
    latex_block conv b =
    let p := map_block g b in
    let errs := filter nonempty (map e (visited b)) in
    (match errs with [] => p | _ => error_block p end, errs).
  Proof.
    destruct b; try reflexivity.
    - cbn [latex_block]. rewrite conv_fields_eq. cbn [visited map_block]. cbv zeta.
      destruct (filter nonempty (map e (flat_map (fun f => visited_value (fval f)) fields))); reflexivity.
    - destruct v; try reflexivity. cbn [latex_block visited map_block map filter]. cbv zeta.
      unfold g, e. destruct (conv s) as [r m]. cbn [fst snd]. destruct (nonempty m); reflexivity.
  Qed.

  Lemma map_value_scope f v : vscope v (map_value f v).
  Proof.
    destruct v; try reflexivity.
    - eexists. reflexivity.
    - cbn [vscope map_value]. do 4 eexists. split; [reflexivity|]. rewrite !map_length. repeat split; reflexivity.
  Qed.

  Lemma map_block_scope f b : bscope b (map_block f b).
  Proof.
    destruct b; try reflexivity.
    - cbn [bscope map_block]. eexists. split; [reflexivity|].
      induction fields as [|x r IH]; constructor; [|exact IH].
      repeat split. apply map_value_scope.
    - destruct v; cbn [bscope map_block]; eexists; (split; [reflexivity|]); try reflexivity. eexists. reflexivity.
  Qed.

  Lemma bscope_hdr b p : bscope b p -> bhdr p = bhdr b.
  Proof.
    destruct b; cbn [bscope]; try (intros ->; reflexivity).
    - intros (fs' & -> & _). reflexivity.
    - intros (v' & -> & _). reflexivity.
  Qed.

  (* C18_scope *)
  Theorem latex_scope b : exists p, bscope b p
    /\ (fst (latex_block conv b) = p \/ fst (latex_block conv b) = BMwErr (mkhdr (sl (bhdr b)) (raw (bhdr b)) []) EPartial p).
  Proof.
    exists (map_block g b). split; [apply map_block_scope|].
    rewrite latex_block_eq. cbv zeta. cbn [fst].
    destruct (filter nonempty (map e (visited b))); [left; reflexivity|].
    right. unfold error_block. rewrite (bscope_hdr b _ (map_block_scope g b)). reflexivity.
  Qed.

  (* C18_errors *)
  Lemma filter_nonempty_nil l : filter nonempty l = [] <-> forall m, In m l -> m = [].
  Proof.
    induction l as [|x l IH]; simpl; [split; [intros _ m [] | reflexivity]|].
    destruct x as [|c x]; simpl.
    - rewrite IH. split; [intros H m [<-|Hm]; [reflexivity | exact (H m Hm)] | intros H m Hm; apply H; right; exact Hm].
    - split; [discriminate|]. intros H. specialize (H (c :: x) (or_introl eq_refl)). discriminate.
  Qed.

  Theorem latex_errors_iff b :
    (exists s, In s (visited b) /\ snd (conv s) <> [])
    <-> fst (latex_block conv b) = error_block (map_block g b) /\ snd (latex_block conv b) <> [].
  Proof.
    rewrite latex_block_eq. cbv zeta. cbn [fst snd]. split.
    - intros (s & Hs & Hne).
      destruct (filter nonempty (map e (visited b))) eqn:E; [|split; [reflexivity | discriminate]].
      exfalso. apply Hne. rewrite filter_nonempty_nil in E. apply E. apply in_map_iff. exists s. split; [reflexivity | exact Hs].
    - intros [_ H]. destruct (filter nonempty (map e (visited b))) as [|m l] eqn:E; [contradiction|].
      assert (Hin : In m (filter nonempty (map e (visited b)))) by (rewrite E; left; reflexivity).
      apply filter_In in Hin. destruct Hin as [Hin Hm]. apply in_map_iff in Hin. destruct Hin as (s & <- & Hs).
      exists s. split; [exact Hs|]. unfold e in Hm. destruct (snd (conv s)); [discriminate | discriminate].
  Qed.

  Theorem latex_clean b : (forall s, In s (visited b) -> snd (conv s) = []) -> latex_block conv b = (map_block g b, []).
  Proof.
    intros H. rewrite latex_block_eq. cbv zeta.
    assert (E : filter nonempty (map e (visited b)) = []).
    { apply filter_nonempty_nil. intros m Hm. apply in_map_iff in Hm. destruct Hm as (s & <- & Hs). apply H. exact Hs. }
    rewrite E. reflexivity.
  Qed.

  (* library level *)
  Lemma NoDup_app_incl {T} (x y y' : list T) : NoDup (x ++ y) -> NoDup y' -> incl y' y -> NoDup (x ++ y').
  Proof.
    intros H Hy Hi. induction x as [|a x IH]; simpl in *; [exact Hy|].
    inversion H as [|a' l Hnot Hnd]; subst. constructor; [|apply IH; exact Hnd].
    rewrite in_app_iff in *. intros [A|A]; [tauto | apply Hnot; right; apply Hi; exact A].
  Qed.

  Lemma keys_shrink (kf : block -> list str) (R : block -> block -> Prop) bs bs' :
    (forall b b', R b b' -> kf b' = kf b \/ kf b' = []) -> Forall2 R bs bs' ->
    NoDup (flat_map kf bs) -> NoDup (flat_map kf bs') /\ incl (flat_map kf bs') (flat_map kf bs).
  Proof.
    intros HR F. induction F as [|b b' l l' Hb _ IH]; intros Hn; simpl; [split; [constructor | intros x []]|].
    simpl in Hn. assert (Hn' : NoDup (flat_map kf l)).
    { clear - Hn. induction (kf b) as [|a x IHx]; simpl in Hn; [exact Hn|]. inversion Hn; subst. apply IHx. assumption. }
    destruct (IH Hn') as [N I]. destruct (HR _ _ Hb) as [E|E]; rewrite E.
    - split; [apply (NoDup_app_incl _ _ _ Hn N I) | apply incl_app; [apply incl_appl, incl_refl | apply incl_appr; exact I]].
    - simpl. split; [exact N | apply incl_appr; exact I].
  Qed.

  Lemma latex_block_keys b : (ekey (fst (latex_block conv b)) = ekey b \/ ekey (fst (latex_block conv b)) = [])
                             /\ (skey (fst (latex_block conv b)) = skey b \/ skey (fst (latex_block conv b)) = []).
  Proof.
    rewrite latex_block_eq. cbv zeta. cbn [fst].
    destruct (filter nonempty (map e (visited b))); [|split; right; reflexivity].
    destruct b; try (split; left; reflexivity). destruct v; split; left; reflexivity.
  Qed.

  Theorem latex_lib_blockwise bs : wf_blocks bs ->
    latex_lib conv bs = map (fun b => fst (latex_block conv b)) bs /\ wf_blocks (latex_lib conv bs).
  Proof.
    intros [W1 W2]. unfold latex_lib.
    assert (F : Forall2 (fun b b' => b' = fst (latex_block conv b)) bs (map (fun b => fst (latex_block conv b)) bs)).
    { clear. induction bs; simpl; constructor; [reflexivity | assumption]. }
    assert (W' : wf_blocks (map (fun b => fst (latex_block conv b)) bs)).
    { split.
      - apply (keys_shrink ekey _ _ _ (fun b b' H => eq_ind_r (fun x => ekey x = ekey b \/ ekey x = []) (proj1 (latex_block_keys b)) H) F W1).
      - apply (keys_shrink skey _ _ _ (fun b b' H => eq_ind_r (fun x => skey x = skey b \/ skey x = []) (proj2 (latex_block_keys b)) H) F W2). }
    rewrite (rebuild_id _ W'). split; [reflexivity | exact W'].
  Qed.
End Wrapper.

(* ---------------------------------------------------------------- the shipped try/except around the converter *)
Theorem py_wrap_fails f s : snd (py_wrap f s) <> [] <-> fails f s.
Proof.
  unfold py_wrap, fails. destruct (f s) as [r|msg c0 cls]; cbn [snd].
  - split; [intros H; contradiction H; reflexivity | intros (m & c & l & H); discriminate].
  - split; [intros _; do 3 eexists; reflexivity | intros _; destruct msg; discriminate].
Qed.

Theorem py_wrap_text f s : fst (py_wrap f s) = outcome_text f s.
Proof. unfold py_wrap, outcome_text. destruct (f s); reflexivity. Qed.

(* an exception without message is reported under its class name *)
Theorem py_wrap_empty_message f s c0 cls : f s = Fail [] c0 cls -> py_wrap f s = (s, c0 :: cls).
Proof. intros H. unfold py_wrap. rewrite H. reflexivity. Qed.

Lemma map_block_ext f1 f2 b : (forall s, f1 s = f2 s) -> map_block f1 b = map_block f2 b.
Proof.
  intros H. destruct b; try reflexivity.
  - cbn [map_block]. f_equal. apply map_ext. intros x. f_equal.
    destruct (fval x); try reflexivity; cbn [map_value]; [rewrite H; reflexivity|].
    f_equal; apply map_ext; exact H.
  - destruct v; try reflexivity. cbn [map_block]. rewrite H. reflexivity.
Qed.

(* EVERY failure is contained: some visited text makes the converter raise  <->  the result is the error block that
   holds the block with every text converted or, where the conversion failed, left as it was *)
Theorem latex_errors_all f b :
  (exists s, In s (visited b) /\ fails f s)
  <-> fst (latex_block (py_wrap f) b) = error_block (map_block (outcome_text f) b) /\ snd (latex_block (py_wrap f) b) <> [].
Proof.
  rewrite <- (map_block_ext (fun s => fst (py_wrap f s)) (outcome_text f) b (py_wrap_text f)).
  rewrite <- latex_errors_iff. split; intros (s & Hs & H); exists s; (split; [exact Hs|]); apply py_wrap_fails; exact H.
Qed.

Theorem latex_no_failure f b : (forall s, In s (visited b) -> ~ fails f s) ->
  latex_block (py_wrap f) b = (map_block (outcome_text f) b, []).
Proof.
  intros H. rewrite <- (map_block_ext (fun s => fst (py_wrap f s)) (outcome_text f) b (py_wrap_text f)).
  apply latex_clean. intros s Hs. destruct (snd (py_wrap f s)) eqn:E; [reflexivity|].
  exfalso. apply (H s Hs). apply py_wrap_fails. rewrite E. discriminate.
Qed.

(* ---------------------------------------------------------------- conditional round trip *)
Lemma visited_map_block f b : visited (map_block f b) = map f (visited b).
Proof.
  destruct b; try reflexivity.
  - cbn [visited map_block]. induction fields as [|x r IH]; [reflexivity|].
    cbn [map flat_map fval]. rewrite map_app, IH. f_equal.
    destruct (fval x); try reflexivity. cbn [map_value visited_value]. rewrite !map_app. reflexivity.
  - destruct v; reflexivity.
Qed.

Lemma map_id_on {T} (f : T -> T) l : (forall x, In x l -> f x = x) -> map f l = l.
Proof. induction l as [|a l IH]; intros H; simpl; [reflexivity|]. rewrite (H a (or_introl eq_refl)), IH; [reflexivity|]. intros x Hx. apply H. right. exact Hx. Qed.

Lemma map_value_inv f1 f2 v : (forall s, In s (visited_value v) -> f2 (f1 s) = s) -> map_value f2 (map_value f1 v) = v.
Proof.
  destruct v; try reflexivity; cbn [map_value visited_value]; intros H.
  - rewrite H; [reflexivity | left; reflexivity].
  - rewrite !map_map. f_equal; apply map_id_on; intros x Hx; apply H; rewrite !in_app_iff; tauto.
Qed.

Lemma map_block_inv f1 f2 b : (forall s, In s (visited b) -> f2 (f1 s) = s) -> map_block f2 (map_block f1 b) = b.
Proof.
  destruct b; try reflexivity.
  - cbn [visited map_block]. intros H. f_equal. rewrite map_map. cbn [fkey fval fline].
    induction fields as [|x r IH]; [reflexivity|]. cbn [map]. rewrite IH.
    + rewrite map_value_inv; [destruct x; reflexivity|]. intros s Hs. apply H. cbn [flat_map]. apply in_or_app. left. exact Hs.
    + intros s Hs. apply H. cbn [flat_map]. apply in_or_app. right. exact Hs.
  - destruct v; try reflexivity. cbn [visited map_block]. intros H. rewrite H; [reflexivity | left; reflexivity].
Qed.

Lemma clean_lib conv bs : wf_blocks bs -> (forall b s, In b bs -> In s (visited b) -> snd (conv s) = []) ->
  latex_lib conv bs = map (map_block (fun s => fst (conv s))) bs.
Proof.
  intros W H. rewrite (proj1 (latex_lib_blockwise conv bs W)). apply map_ext_in. intros b Hb.
  rewrite (latex_clean conv b (fun s Hs => H b s Hb Hs)). reflexivity.
Qed.

Theorem roundtrip_conditional (enc dec : str -> str * str) (P : str -> Prop) :
  (forall s, P s -> snd (enc s) = [] /\ dec (fst (enc s)) = (s, [])) ->
  forall bs, wf_blocks bs -> all_texts P bs ->
  latex_lib dec (latex_lib enc bs) = bs
  /\ latex_errors enc bs = map (fun _ => []) bs.
Proof.
  intros Hrt bs W HP.
  assert (Henc : latex_lib enc bs = map (map_block (fun s => fst (enc s))) bs).
  { apply clean_lib; [exact W|]. intros b s Hb Hs. exact (proj1 (Hrt s (HP b s Hb Hs))). }
  pose proof (proj2 (latex_lib_blockwise enc bs W)) as W1. rewrite Henc in *.
  split.
  - rewrite clean_lib; [| exact W1 |].
    + rewrite map_map. apply map_id_on. intros b Hb. apply map_block_inv. intros s Hs.
      rewrite (proj2 (Hrt s (HP b s Hb Hs))). reflexivity.
    + intros b' s' Hb' Hs'. apply in_map_iff in Hb'. destruct Hb' as (b & <- & Hb).
      rewrite visited_map_block in Hs'. apply in_map_iff in Hs'. destruct Hs' as (s & <- & Hs).
      rewrite (proj2 (Hrt s (HP b s Hb Hs))). reflexivity.
  - unfold latex_errors. apply map_ext_in. intros b Hb.
    rewrite (latex_clean enc b); [reflexivity|]. intros s Hs. exact (proj1 (Hrt s (HP b s Hb Hs))).
Qed.

