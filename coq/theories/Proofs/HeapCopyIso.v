(* The executable deep copy is a GRAPH ISOMORPHISM onto fresh objects.

   Proofs/HeapProofs.v and Proofs/HeapCopyTotal.v show that `deepcopy_exec` completes and meets the contract C07 needs
   (old objects untouched, the result shares nothing with them).  That contract would also be met by a "copy" that
   returned one fresh empty object.  Here: the copy has the CONTENT of the original and the SHARING of the original -
   there is an injective renaming (the memo) of the objects reachable from the root onto fresh objects such that the copy
   of every object is that object with every reference renamed; atoms are kept.  Consequences used elsewhere:
   - a library equals its deep copy object by object (what "the input is equal to its prior deep copy" relies on);
   - links inside the copied graph stay links inside the copy: the copy of a duplicate-key wrapper points at the copy of
     the first block, which is the member of the copied block list (C09: library-level copies keep previous_block live). *)
From Coq Require Import List ZArith Bool Arith Lia.
From BP Require Import Model.Heap Proofs.HeapProofs Proofs.HeapCopyTotal.
Import ListNotations.

(* renaming of one value under a memo *)
Inductive renrel (m : memo) : pv -> pv -> Prop :=
| rr_atom : forall a, renrel m (PAtom a) (PAtom a)
| rr_ref : forall q q', memo_get m q = Some q' -> renrel m (PRef q) (PRef q').

(* the object v of h is the finished copy of the object k of h0 *)
Definition copied (h0 h : heap) (m : memo) (k v : nat) : Prop :=
  exists ob l', lookup h0 k = Some ob /\ lookup h v = Some (rebuild ob l') /\ Forall2 (renrel m) (obj_pvs ob) l'.
(* the copy of k has been created and registered, its content is still to come (k is on the recursion stack) *)
Definition pending (h0 h : heap) (k v : nat) : Prop :=
  exists ob, lookup h0 k = Some ob /\ lookup h v = Some (shell ob).

Definition mext (m m' : memo) : Prop := forall k v, memo_get m k = Some v -> memo_get m' k = Some v.

Record inv (h0 h : heap) (m : memo) : Prop := {
  i_unch : unchanged h0 h;
  i_keys : forall k v, memo_get m k = Some v -> In k (dom h0) /\ ~ In v (dom h0) /\ In v (dom h);
  i_inj : forall k1 k2 v, memo_get m k1 = Some v -> memo_get m k2 = Some v -> k1 = k2;
  i_state : forall k v, memo_get m k = Some v -> pending h0 h k v \/ copied h0 h m k v
}.

Lemma mext_refl : forall m, mext m m.
Proof. intros m k v H; exact H. Qed.
Lemma mext_trans : forall a b c, mext a b -> mext b c -> mext a c.
Proof. intros a b c X Y k v H; auto. Qed.

Lemma renrel_mono : forall m m' a b, mext m m' -> renrel m a b -> renrel m' a b.
Proof. intros m m' a b X R. destruct R; constructor; auto. Qed.

Lemma forall2_renrel_mono : forall m m' l l', mext m m' -> Forall2 (renrel m) l l' -> Forall2 (renrel m') l l'.
Proof. intros m m' l l' X F. induction F; constructor; eauto using renrel_mono. Qed.

Lemma copied_mono : forall h0 h h' m m' k v,
  mext m m' -> lookup h' v = lookup h v -> copied h0 h m k v -> copied h0 h' m' k v.
Proof.
  intros h0 h h' m m' k v X L (ob & l' & A & B & C). exists ob, l'.
  split; [exact A|]. split; [rewrite L; exact B | eapply forall2_renrel_mono; eauto].
Qed.

Lemma pending_same : forall h0 h h' k v, lookup h' v = lookup h v -> pending h0 h k v -> pending h0 h' k v.
Proof. intros h0 h h' k v L (ob & A & B). exists ob. split; [exact A | rewrite L; exact B]. Qed.

(* what one recursive call guarantees *)
Definition iso_spec (h0 : heap) (rec : heap -> memo -> nat -> heap * memo * nat * bool) : Prop :=
  forall h m o h' m' o', inv h0 h m -> In o (dom h0) -> rec h m o = (h', m', o', true) ->
    inv h0 h' m' /\ mext m m' /\ memo_get m' o = Some o'
    /\ (forall k v, memo_get m k = Some v -> lookup h' v = lookup h v)
    /\ (forall k v, memo_get m' k = Some v -> memo_get m k = None -> copied h0 h' m' k v)
    /\ (forall p, In p (dom h) -> In p (dom h')).

Lemma copy_pvs_iso : forall h0 rec, iso_spec h0 rec -> forall l h m h2 m2 l',
  inv h0 h m -> (forall q, In (PRef q) l -> In q (dom h0)) -> copy_pvs rec l h m = (h2, m2, l', true) ->
  inv h0 h2 m2 /\ mext m m2 /\ Forall2 (renrel m2) l l'
  /\ (forall k v, memo_get m k = Some v -> lookup h2 v = lookup h v)
  /\ (forall k v, memo_get m2 k = Some v -> memo_get m k = None -> copied h0 h2 m2 k v)
  /\ (forall p, In p (dom h) -> In p (dom h2)).
Proof.
  intros h0 rec R l. induction l as [|[a|q] r IH]; simpl; intros h m h2 m2 l' I D E.
  - inversion E; subst. split; [exact I|]. split; [apply mext_refl|]. split; [constructor|].
    split; [reflexivity|]. split; [|auto]. intros k v A B. rewrite A in B. discriminate.
  - destruct (copy_pvs rec r h m) as [[[h3 m3] r'] ok] eqn:E1. inversion E; subst.
    destruct (IH h m h2 m2 r' I (fun q Iq => D q (or_intror Iq)) E1) as (I2 & X2 & F2 & U2 & N2 & D2).
    split; [exact I2|]. split; [exact X2|]. split; [constructor; [constructor | exact F2]|]. auto.
  - destruct (rec h m q) as [[[h1 m1] q'] ok1] eqn:E0.
    destruct (copy_pvs rec r h1 m1) as [[[h3 m3] r'] ok2] eqn:E1. inversion E; subst.
    apply andb_true_iff in H3. destruct H3 as [-> ->].
    destruct (R h m q h1 m1 q' I (D q (or_introl eq_refl)) E0) as (I1 & X1 & G1 & U1 & N1 & D1).
    destruct (IH h1 m1 h2 m2 r' I1 (fun q0 Iq => D q0 (or_intror Iq)) E1) as (I2 & X2 & F2 & U2 & N2 & D2).
    split; [exact I2|]. split; [eapply mext_trans; eauto|].
    split; [constructor; [constructor; apply X2; exact G1 | exact F2]|].
    split; [intros k v A; rewrite (U2 k v (X1 k v A)); apply (U1 k v A)|].
    split; [|auto].
    intros k v A B. destruct (memo_get m1 k) as [v1|] eqn:E2.
    + assert (v1 = v) by (apply X2 in E2; rewrite E2 in A; inversion A; auto). subst v1.
      eapply copied_mono; [exact X2 | apply (U2 k v E2) | apply (N1 k v E2 B)].
    + apply (N2 k v A E2).
Qed.

Lemma memo_get_cons : forall m o o' k, memo_get ((o, o') :: m) k = if Nat.eqb o k then Some o' else memo_get m k.
Proof. reflexivity. Qed.

Lemma dc_iso : forall h0, wf_heap h0 -> forall fuel, iso_spec h0 (dc fuel).
Proof.
  intros h0 W fuel. induction fuel as [|f IH]; intros h m o h' m' o' I Do E; simpl in E; [inversion E|].
  destruct (memo_get m o) as [v|] eqn:EM.
  - inversion E; subst. split; [exact I|]. split; [apply mext_refl|]. split; [exact EM|].
    split; [reflexivity|]. split; [|auto]. intros k v0 A B. rewrite A in B. discriminate.
  - destruct (lookup h o) as [ob|] eqn:EL; [|inversion E].
    set (o1 := fresh h) in *.
    destruct (copy_pvs (dc f) (obj_pvs ob) (set_obj h o1 (shell ob)) ((o, o1) :: m)) as [[[h2 m2] l'] ok] eqn:EC.
    inversion E; subst; clear E.
    destruct I as [Iu Ik Ii Is].
    assert (L0 : lookup h0 o = Some ob) by (rewrite <- (Iu o Do); exact EL).
    assert (Nh : ~ In o1 (dom h)) by apply fresh_not_in.
    assert (N0 : ~ In o1 (dom h0)) by (intros X; apply Nh; eapply unchanged_dom; eauto).
    assert (Xa : mext m ((o, o1) :: m)).
    { intros k v A. rewrite memo_get_cons. destruct (Nat.eqb o k) eqn:Eq; [|exact A].
      apply Nat.eqb_eq in Eq. subst k. rewrite EM in A. discriminate. }
    assert (Ia : inv h0 (set_obj h o1 (shell ob)) ((o, o1) :: m)).
    { constructor.
      - apply unchanged_set_new; auto.
      - intros k v A. rewrite memo_get_cons in A. destruct (Nat.eqb o k) eqn:Eq.
        + apply Nat.eqb_eq in Eq. inversion A; subst. split; [exact Do|]. split; [exact N0|]. apply dom_set. auto.
        + destruct (Ik k v A) as (A1 & A2 & A3). split; [exact A1|]. split; [exact A2|]. apply dom_set. auto.
      - intros k1 k2 v A B. rewrite memo_get_cons in A, B.
        destruct (Nat.eqb o k1) eqn:E1; destruct (Nat.eqb o k2) eqn:E2.
        + apply Nat.eqb_eq in E1, E2. congruence.
        + inversion A; subst. destruct (Ik k2 o1 B) as (_ & _ & X). contradiction.
        + inversion B; subst. destruct (Ik k1 o1 A) as (_ & _ & X). contradiction.
        + eapply Ii; eauto.
      - intros k v A. rewrite memo_get_cons in A. destruct (Nat.eqb o k) eqn:Eq.
        + apply Nat.eqb_eq in Eq. inversion A; subst. left. exists ob. split; [exact L0 | apply lookup_set_same].
        + assert (v <> o1) by (intros ->; destruct (Ik k o1 A) as (_ & _ & X); contradiction).
          assert (Lv : lookup (set_obj h o1 (shell ob)) v = lookup h v) by (apply lookup_set_other; auto).
          destruct (Is k v A) as [P|C]; [left; eapply pending_same; eauto | right; eapply copied_mono; eauto]. }
    assert (Dr : forall q, In (PRef q) (obj_pvs ob) -> In q (dom h0)).
    { intros q Iq. eapply W; [exact L0 | apply pvs_refs; exact Iq]. }
    destruct (copy_pvs_iso h0 (dc f) IH _ _ _ _ _ _ Ia Dr EC) as (I2 & X2 & F2 & U2 & N2 & D2).
    assert (G2 : memo_get m' o = Some o1) by (apply X2; rewrite memo_get_cons, Nat.eqb_refl; reflexivity).
    destruct I2 as [I2u I2k I2i I2s].
    assert (Other : forall k v, memo_get m' k = Some v -> k <> o -> v <> o1).
    { intros k v A Nk ->. apply Nk. eapply I2i; eauto. }
    split.
    { constructor.
      - apply unchanged_set_new; auto.
      - intros k v A. destruct (I2k k v A) as (A1 & A2 & A3). split; [exact A1|]. split; [exact A2|]. apply dom_set. auto.
      - exact I2i.
      - intros k v A. destruct (Nat.eq_dec k o) as [->|Nk].
        + rewrite G2 in A. inversion A; subst. right. exists ob, l'.
          split; [exact L0|]. split; [apply lookup_set_same | exact F2].
        + assert (Lv : lookup (set_obj h2 o1 (rebuild ob l')) v = lookup h2 v)
            by (apply lookup_set_other; intros X; apply (Other k v A Nk); auto).
          destruct (I2s k v A) as [P|C]; [left; eapply pending_same; eauto | right; eapply copied_mono; [apply mext_refl | exact Lv | exact C]]. }
    split; [eapply mext_trans; eauto|]. split; [exact G2|].
    split.
    { intros k v A. assert (v <> o1) by (intros ->; destruct (Ik k o1 A) as (_ & _ & X); contradiction).
      rewrite lookup_set_other by auto. rewrite (U2 k v (Xa k v A)). apply lookup_set_other; auto. }
    split.
    { intros k v A B. destruct (Nat.eq_dec k o) as [->|Nk].
      - rewrite G2 in A. inversion A; subst. exists ob, l'. split; [exact L0|]. split; [apply lookup_set_same | exact F2].
      - assert (Ba : memo_get ((o, o1) :: m) k = None).
        { rewrite memo_get_cons. destruct (Nat.eqb o k) eqn:Eq; [apply Nat.eqb_eq in Eq; congruence | exact B]. }
        eapply copied_mono; [apply mext_refl | | apply (N2 k v A Ba)].
        apply lookup_set_other. intros X. apply (Other k v A Nk). auto. }
    intros p Ip. apply dom_set. right. apply D2. apply dom_set. auto.
Qed.

(* ------------------------------------------------------------------ the top-level statement *)
Lemma inv_init : forall h, inv h h [].
Proof.
  intros h. constructor; [apply unchanged_refl | | |]; intros; simpl in *; discriminate.
Qed.

Definition is_copy_of (h h' : heap) (m : memo) (p p' : nat) : Prop :=
  exists ob l', lookup h p = Some ob /\ lookup h' p' = Some (rebuild ob l') /\ Forall2 (renrel m) (obj_pvs ob) l'.

Lemma forall2_ref_in : forall m l l' q, Forall2 (renrel m) l l' -> In (PRef q) l -> exists q', memo_get m q = Some q' /\ In (PRef q') l'.
Proof.
  intros m l l' q F. induction F as [|a b l l' R F IH]; intros I; [inversion I|].
  destruct I as [->|I].
  - inversion R; subst. eexists; split; [eassumption | left; reflexivity].
  - destruct (IH I) as (q' & A & B). exists q'. split; [exact A | right; exact B].
Qed.

Lemma refs_pvs : forall ob q, In q (refs_of ob) -> In (PRef q) (obj_pvs ob).
Proof.
  intros ob q I. unfold refs_of in I. apply in_flat_map in I. destruct I as [v [Iv Q]].
  destruct v as [a|o]; simpl in Q; [contradiction|]. destruct Q as [->|[]]. exact Iv.
Qed.

Theorem deepcopy_exec_iso : forall h r h' r', wf_heap h -> In r (dom h) -> deepcopy_exec h r = (h', r') ->
  exists m,
    memo_get m r = Some r'
    (* every object reachable from the root has a copy: itself with every reference renamed, atoms kept *)
    /\ (forall p, reach h r p -> exists p', memo_get m p = Some p' /\ is_copy_of h h' m p p')
    (* distinct objects have distinct copies; every copy is a new object; the old heap is untouched *)
    /\ (forall k1 k2 v, memo_get m k1 = Some v -> memo_get m k2 = Some v -> k1 = k2)
    /\ (forall k v, memo_get m k = Some v -> ~ In v (dom h) /\ In v (dom h'))
    /\ unchanged h h'.
Proof.
  intros h r h' r' W D E.
  destruct (dc_completes h r W D) as (h1 & m1 & r1 & E1).
  assert (h1 = h' /\ r1 = r') as [-> ->] by (unfold deepcopy_exec in E; rewrite E1 in E; inversion E; auto).
  destruct (dc_iso h W (S (length h)) h [] r h' m1 r' (inv_init h) D E1) as ([Iu Ik Ii Is] & _ & G & _ & N & _).
  assert (All : forall k v, memo_get m1 k = Some v -> is_copy_of h h' m1 k v).
  { intros k v A. destruct (N k v A eq_refl) as (ob & l' & A1 & A2 & A3). exists ob, l'. auto. }
  exists m1. split; [exact G|]. split.
  - assert (Cl : forall k p, reach h k p -> forall v, memo_get m1 k = Some v ->
                  exists p', memo_get m1 p = Some p' /\ is_copy_of h h' m1 p p');
      [| intros p R; exact (Cl r p R r' G)].
    intros k p R. induction R as [r0|r0 ob q p L Iq R IH]; intros v Gv.
    + exists v. split; [exact Gv | apply All; exact Gv].
    + destruct (All r0 v Gv) as (ob1 & l' & A1 & A2 & A3). rewrite L in A1. inversion A1; subst ob1.
      destruct (forall2_ref_in m1 _ _ q A3 (refs_pvs ob q Iq)) as (q' & Gq & _).
      exact (IH q' Gq).
  - split; [exact Ii|]. split; [|exact Iu]. intros k v A. destruct (Ik k v A) as (_ & A2 & A3). auto.
Qed.

(* ------------------------------------------------------------------ consequences *)
From BP Require Import Model.HeapMw.

Lemma map_snd_combine : forall (A B : Type) (ks : list A) (l : list B), length l = length ks -> map snd (combine ks l) = l.
Proof.
  intros A B ks. induction ks as [|k ks IH]; intros [|x l] H; simpl in *; try reflexivity; try discriminate.
  f_equal. apply IH. lia.
Qed.

Lemma obj_pvs_rebuild : forall ob l, length l = length (obj_pvs ob) -> obj_pvs (rebuild ob l) = l.
Proof.
  intros [l0|d|c a] l H; simpl in *; [reflexivity| |]; apply map_snd_combine; rewrite map_length in *; exact H.
Qed.

Lemma forall2_length : forall (A B : Type) (R : A -> B -> Prop) l l', Forall2 R l l' -> length l = length l'.
Proof. intros A B R l l' F. induction F; simpl; auto. Qed.

Lemma forall2_ref_in_rev : forall m l l' q', Forall2 (renrel m) l l' -> In (PRef q') l' ->
  exists q, memo_get m q = Some q' /\ In (PRef q) l.
Proof.
  intros m l l' q' F. induction F as [|a b l l' R F IH]; intros I; [inversion I|].
  destruct I as [->|I].
  - inversion R; subst. eexists; split; [eassumption | left; reflexivity].
  - destruct (IH I) as (q & A & B). exists q. split; [exact A | right; exact B].
Qed.

(* nothing else is in the copy: every object reachable from the new root is the copy of an object reachable from the old one *)
Theorem deepcopy_exec_iso_onto : forall h r h' r', wf_heap h -> In r (dom h) -> deepcopy_exec h r = (h', r') ->
  exists m, memo_get m r = Some r'
    /\ (forall p', reach h' r' p' -> exists p, reach h r p /\ memo_get m p = Some p').
Proof.
  intros h r h' r' W D E.
  destruct (deepcopy_exec_iso h r h' r' W D E) as (m & G & C & Inj & Fr & U).
  exists m. split; [exact G|].
  assert (Cl : forall v p', reach h' v p' -> forall k, reach h r k -> memo_get m k = Some v ->
                 exists p, reach h r p /\ memo_get m p = Some p').
  { intros v p' R. induction R as [v0|v0 ob' q' p' L Iq R IH]; intros k Rk Gk.
    - exists k. auto.
    - destruct (C k Rk) as (v1 & G1 & ob & l' & A1 & A2 & A3).
      rewrite Gk in G1. inversion G1; subst v1. rewrite L in A2. inversion A2; subst ob'.
      apply refs_pvs in Iq. rewrite obj_pvs_rebuild in Iq by (symmetry; eapply forall2_length; eauto).
      destruct (forall2_ref_in_rev m _ _ q' A3 Iq) as (q & Gq & Iq0).
      apply (IH q); [|exact Gq].
      eapply reach_trans; [exact Rk|]. eapply reach_step; [exact A1 | apply pvs_refs; exact Iq0 | apply reach_here]. }
  intros p' R. exact (Cl r' p' R r (reach_here h r) G).
Qed.

(* attributes and list elements of a copy are the renamed attributes and elements of the original *)
Lemma aget_combine_ren : forall m (d : list (Z * pv)) l' a v,
  Forall2 (renrel m) (map snd d) l' -> aget d a = Some v ->
  exists v', aget (combine (map fst d) l') a = Some v' /\ renrel m v v'.
Proof.
  intros m d. induction d as [|[k x] d IH]; intros l' a v F A; simpl in *; [discriminate|].
  inversion F as [|x0 y l0 l1 R F']; subst. simpl.
  destruct (Z.eqb k a); [inversion A; subst; exists y; auto | apply IH; auto].
Qed.

Lemma copy_getattr : forall h h' m p p' a v, is_copy_of h h' m p p' -> getattr h p a = Some v ->
  exists v', getattr h' p' a = Some v' /\ renrel m v v'.
Proof.
  intros h h' m p p' a v (ob & l' & A1 & A2 & A3) G. unfold getattr in *. rewrite A1 in G. rewrite A2.
  destruct ob as [l|d|c ats]; try discriminate. simpl in *. eapply aget_combine_ren; eauto.
Qed.

Lemma copy_get_list : forall h h' m p p' l, is_copy_of h h' m p p' -> get_list h p = Some l ->
  exists l', get_list h' p' = Some l' /\ Forall2 (renrel m) l l'.
Proof.
  intros h h' m p p' l (ob & l' & A1 & A2 & A3) G. unfold get_list in *. rewrite A1 in G. rewrite A2.
  destruct ob as [l0|d|c ats]; try discriminate. inversion G; subst. simpl in *. exists l'. auto.
Qed.

Lemma forall2_nth_ref : forall m l l' i q, Forall2 (renrel m) l l' -> nth_error l i = Some (PRef q) ->
  exists q', memo_get m q = Some q' /\ nth_error l' i = Some (PRef q').
Proof.
  intros m l l' i q F. revert i. induction F as [|a b l l' R F IH]; intros [|i] N; simpl in *; try discriminate.
  - inversion N; subst. inversion R; subst. eauto.
  - apply IH; auto.
Qed.

(* C09 at heap level: a library-level deep copy keeps the link from a duplicate-key wrapper to the first block INSIDE the
   copy.  If in the library `lib` the i-th block is the wrapper w, the j-th block is b, and w.previous_block is b, then in
   the copy the i-th block is w', the j-th block is b' and w'.previous_block is b' - the member of the copied block list,
   not a private copy and not the original. *)
Theorem deepcopy_keeps_previous_block_live : forall h lib h' lib' bl xs i j w b,
  wf_heap h -> In lib (dom h) -> deepcopy_exec h lib = (h', lib') ->
  attr_list h lib A_blocks = Some (bl, xs) -> nth_error xs i = Some (PRef w) -> nth_error xs j = Some (PRef b) ->
  getattr h w A_previous_block = Some (PRef b) ->
  exists bl' xs' w' b',
    attr_list h' lib' A_blocks = Some (bl', xs') /\ nth_error xs' i = Some (PRef w') /\ nth_error xs' j = Some (PRef b')
    /\ getattr h' w' A_previous_block = Some (PRef b')
    /\ ~ In b' (dom h) /\ ~ In w' (dom h).
Proof.
  intros h lib h' lib' bl xs i j w b W D E AL Ni Nj GP.
  destruct (deepcopy_exec_iso h lib h' lib' W D E) as (m & G & C & Inj & Fr & U).
  unfold attr_list in AL.
  destruct (getattr h lib A_blocks) as [vb|] eqn:GB; [|discriminate]. simpl in AL.
  destruct vb as [a|bl0]; [discriminate|]. simpl in AL.
  destruct (get_list h bl0) as [xs0|] eqn:GL; [|discriminate]. inversion AL; subst bl0 xs0. clear AL.
  destruct (C lib (reach_here h lib)) as (lib1 & G1 & CL). rewrite G in G1. inversion G1; subst lib1.
  destruct (copy_getattr _ _ _ _ _ _ _ CL GB) as (vb' & GB' & Rb). inversion Rb as [|q q' Mq]; subst.
  assert (Rbl : reach h lib bl).
  { destruct CL as (ob & _ & A1 & _). unfold getattr in GB. rewrite A1 in GB. destruct ob as [l|d|c ats]; try discriminate.
    eapply reach_step; [exact A1 | | apply reach_here].
    apply pvs_refs. simpl. clear - GB. induction ats as [|[k x] ats IH]; simpl in *; [discriminate|].
    destruct (Z.eqb k A_blocks); [inversion GB; subst; left; reflexivity | right; auto]. }
  destruct (C bl Rbl) as (bl1 & G2 & CB). rewrite Mq in G2. inversion G2; subst bl1.
  destruct (copy_get_list _ _ _ _ _ _ CB GL) as (xs' & GL' & F).
  destruct (forall2_nth_ref m xs xs' i w F Ni) as (w' & Mw & Ni').
  destruct (forall2_nth_ref m xs xs' j b F Nj) as (b' & Mb & Nj').
  assert (Rw : reach h lib w).
  { eapply reach_trans; [exact Rbl|]. unfold get_list in GL. destruct (lookup h bl) as [[l| |]|] eqn:LB; try discriminate.
    inversion GL; subst. eapply reach_step; [exact LB | | apply reach_here].
    apply pvs_refs. simpl. eapply nth_error_In; eauto. }
  destruct (C w Rw) as (w1 & G3 & CW). rewrite Mw in G3. inversion G3; subst w1.
  destruct (copy_getattr _ _ _ _ _ _ _ CW GP) as (vp' & GP' & Rp). inversion Rp as [|q0 q0' Mq0]; subst.
  rewrite Mb in Mq0. inversion Mq0; subst q0'.
  exists q', xs', w', b'. split.
  - unfold attr_list. rewrite GB'. simpl. rewrite GL'. reflexivity.
  - split; [exact Ni'|]. split; [exact Nj'|]. split; [exact GP'|].
    split; [apply (Fr b b' Mb) | apply (Fr w w' Mw)].
Qed.
