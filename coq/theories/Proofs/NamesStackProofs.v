(* C14, middleware level: the round trip through the four name middlewares on an entry is, field by field, the
   function-level round trip  split -> parse -> merge -> join -> split -> parse. *)
From Coq Require Import List NArith ZArith Bool Lia.
From BP Require Import Base.Chars Model.Blocks Gen.Constants Model.Names Spec.C12 Spec.C13 Spec.C14 Proofs.NamesParseProofs.
Import ListNotations.

(* per-field description of one middleware pass *)
Definition field_step (nf : list str) (mw : nmw) (f f' : field) : Prop :=
  fkey f' = fkey f /\ fline f' = fline f /\
  if mem_str (fkey f) nf then transform_value mw (fval f) = VOk (fval f') else fval f' = fval f.

Lemma tf_ok_iff nf mw fs fs' : transform_fields nf mw fs = FOk fs' <-> Forall2 (field_step nf mw) fs fs'.
Proof.
  revert fs'. induction fs as [|f r IH]; intros fs'; split; intros H.
  - simpl in H. inversion H; subst. constructor.
  - inversion H; subst. reflexivity.
  - cbn [transform_fields] in H. unfold field_step.
    destruct (mem_str (fkey f) nf) eqn:Em.
    + destruct (transform_value mw (fval f)) as [v'| | |] eqn:Ev; try discriminate.
      destruct (transform_fields nf mw r) as [r'| | |] eqn:Er; try discriminate.
      inversion H; subst. constructor; [|apply IH; reflexivity].
      cbn. rewrite Em. auto.
    + destruct (transform_fields nf mw r) as [r'| | |] eqn:Er; try discriminate.
      inversion H; subst. constructor; [|apply IH; reflexivity].
      cbn. rewrite Em. auto.
  - inversion H as [|? f' ? r' Hf Hr]; subst. apply IH in Hr. cbn [transform_fields]. rewrite Hr.
    destruct Hf as (Hk & Hl & Hv). destruct f' as [k' v' l']. simpl in *. subst k' l'.
    destruct (mem_str (fkey f) nf).
    + rewrite Hv. reflexivity.
    + subst v'. destruct f; reflexivity.
Qed.

Lemma name_entry_ok_iff nf mw h t k fs b' :
  name_entry nf mw (BEntry h t k fs) = NBVal b' /\ is_entry b' = true
  <-> exists fs', b' = BEntry h t k fs' /\ Forall2 (field_step nf mw) fs fs'.
Proof.
  unfold name_entry. split.
  - intros [H He]. destruct (transform_fields nf mw fs) as [fs'|c|fs'|] eqn:E; try discriminate.
    + inversion H; subst. exists fs'. split; [reflexivity|]. apply tf_ok_iff. exact E.
    + inversion H; subst. discriminate.
  - intros (fs' & -> & HF). apply tf_ok_iff in HF. rewrite HF. split; reflexivity.
Qed.

(* the values a name field takes along the way *)
Lemma v_of_parts_inj p q : v_of_parts p = v_of_parts q -> p = q.
Proof. destruct p, q. unfold v_of_parts. cbn. intros H. injection H as -> -> -> ->. reflexivity. Qed.

Lemma parse_all_ok l ps : parse_all (map VStr l) = VOk (VList (map v_of_parts ps)) <-> map split1 l = map POk ps.
Proof.
  revert ps. induction l as [|n l IH]; intros ps; cbn [map parse_all]; split; intros H.
  - destruct ps; [reflexivity|]. inversion H.
  - destruct ps; [reflexivity|]. inversion H.
  - unfold split1 at 1. destruct (parse_name true n) as [p|e] eqn:E; [|discriminate].
    destruct (parse_all_strs l) as [(ps' & Ea & _)|(e & n' & Ea & _)]; rewrite Ea in H; [|discriminate].
    destruct ps as [|p0 ps]; [discriminate|]. cbn [map] in H. injection H as F1 F2 F3 F4 H2.
    assert (p = p0) by (destruct p, p0; cbn in *; subst; reflexivity).
    subst p0. cbn [map]. f_equal. apply IH. rewrite Ea, H2. reflexivity.
  - destruct ps as [|p ps]; [discriminate|]. cbn [map] in H. injection H as H1 H2.
    unfold split1 in H1. rewrite H1. apply IH in H2. rewrite H2. reflexivity.
Qed.

Lemma merge_all_parts ps : merge_all_chk (map v_of_parts ps) = true /\
  merge_all 0 (map v_of_parts ps) = VOk (VList (map VStr (map merge1 ps))).
Proof.
  induction ps as [|p ps [I1 I2]]; [split; reflexivity|]. cbn [map merge_all merge_all_chk v_of_parts].
  split; [exact I1|]. rewrite I2. destruct p; reflexivity.
Qed.

Lemma all_strs_map l : all_strs (map VStr l) = Some l.
Proof. induction l as [|x l IH]; [reflexivity|]. cbn [map all_strs]. rewrite IH. reflexivity. Qed.

(* a name field through  SeparateCoAuthors ; SplitNameParts *)
Lemma parse_side_field v v1 v2 :
  transform_value MwSeparate v = VOk v1 -> transform_value MwSplitParts v1 = VOk v2 ->
  exists s ps, v = VStr s /\ v1 = VList (map VStr (split_names s)) /\ v2 = VList (map v_of_parts ps) /\ persons_of s = map POk ps.
Proof.
  intros H1 H2. destruct v; try discriminate. cbn in H1. inversion H1; subst. cbn in H2.
  destruct (parse_all_strs (split_names s)) as [(ps & E & F)|(e & n & E & _)]; rewrite E in H2; [|discriminate].
  inversion H2; subst. exists s, ps. repeat split. unfold persons_of. apply parse_all_ok. exact E.
Qed.

Definition stack_field_law (s : str) : Prop :=
  forall ps, persons_of s = map POk ps -> persons_of (merge_names (map merge1 ps)) = map POk ps.

Lemma Forall2_compose {A} (R1 R2 R3 : A -> A -> Prop) l1 l2 l3 :
  (forall a b c, In a l1 -> R1 a b -> R2 b c -> R3 a c) -> Forall2 R1 l1 l2 -> Forall2 R2 l2 l3 -> Forall2 R3 l1 l3.
Proof.
  intros H F1. revert l3. induction F1 as [|a b l1 l2 Hab F1 IH]; intros l3 F2; inversion F2; subst; constructor.
  - eapply H; [left; reflexivity | eassumption | eassumption].
  - apply IH; [|assumption]. intros ? ? ? Hin. apply H. right. exact Hin.
Qed.

(* the stack-level inverse law follows from the list-level law of every name field *)
Lemma stack_from_lists nf h t k fs :
  (forall f s, In f fs -> mem_str (fkey f) nf = true -> fval f = VStr s -> stack_field_law s) ->
  stack_inverse_at nf (BEntry h t k fs).
Proof.
  intros Hlaw b1 b2 H1 He1 H2.
  unfold name_stack, parse_side, write_side in *. cbn [fold_left] in *.
  (* first pass: Separate then SplitParts *)
  destruct (name_entry nf MwSeparate (BEntry h t k fs)) as [ba| |] eqn:Ea; try discriminate.
  assert (Hea : is_entry ba = true).
  { destruct ba; try (rewrite name_entry_other in H1 by reflexivity; inversion H1; subst; discriminate). reflexivity. }
  destruct (proj1 (name_entry_ok_iff nf MwSeparate h t k fs ba) (conj Ea Hea)) as (fa & -> & Fa).
  destruct (proj1 (name_entry_ok_iff nf MwSplitParts h t k fa b1) (conj H1 He1)) as (f1 & -> & F1).
  (* write side *)
  destruct (name_entry nf (MwMergeParts 0) (BEntry h t k f1)) as [bm| |] eqn:Em; try discriminate.
  (* construct the write side explicitly *)
  assert (Hfields : Forall2 (fun f f1' => fkey f1' = fkey f /\ fline f1' = fline f /\
             if mem_str (fkey f) nf
             then exists s ps, fval f = VStr s /\ fval f1' = VList (map v_of_parts ps) /\ persons_of s = map POk ps /\ stack_field_law s
             else fval f1' = fval f) fs f1).
  { eapply Forall2_compose; [|exact Fa|exact F1].
    intros a b c Hin (K1 & L1 & V1) (K2 & L2 & V2). rewrite K1 in *.
    split; [congruence|]. split; [congruence|].
    destruct (mem_str (fkey a) nf) eqn:Ema.
    - destruct (parse_side_field _ _ _ V1 V2) as (s & ps & E0 & E1 & E2 & E3).
      exists s, ps. repeat split; try assumption. eapply Hlaw; eassumption.
    - congruence. }
  clear Fa F1 Ea H1 Hlaw fa Hea He1.
  set (mrg := fun f1' : field => if mem_str (fkey f1') nf
                                 then match fval f1' with VList l => VList (map VStr (map merge1 (map (fun v => match v with VParts a b c d => mkparts a b c d | _ => parts0 end) l))) | v => v end
                                 else fval f1').
  assert (Fm : exists fm, Forall2 (field_step nf (MwMergeParts 0)) f1 fm /\
               Forall2 (fun f f' => fkey f' = fkey f /\ fline f' = fline f /\
                  if mem_str (fkey f) nf
                  then exists s ps, fval f = VStr s /\ fval f' = VList (map VStr (map merge1 ps)) /\ persons_of s = map POk ps /\ stack_field_law s
                  else fval f' = fval f) fs fm).
  { clear Em H2 bm b2 mrg. induction Hfields as [|f f1' fs f1 Hf Hr IH].
    - exists []. split; constructor.
    - destruct IH as (fm & I1 & I2). destruct Hf as (K & L & V).
      destruct (mem_str (fkey f) nf) eqn:Emf.
      + destruct V as (s & ps & E0 & E1 & E3 & E4).
        exists (mkfield (fkey f1') (VList (map VStr (map merge1 ps))) (fline f1') :: fm). split; constructor; try assumption.
        * unfold field_step. cbn. rewrite K, Emf. repeat split. rewrite E1. cbn.
          destruct (merge_all_parts ps) as [M1 M2]. rewrite M1. exact M2.
        * cbn. rewrite Emf. repeat split; try assumption. exists s, ps. auto.
      + exists (f1' :: fm). split; constructor; try assumption.
        * unfold field_step. rewrite K, Emf. auto.
        * rewrite Emf. auto. }
  destruct Fm as (fm & Fm1 & Fm2).
  assert (Ebm : bm = BEntry h t k fm).
  { destruct (proj2 (name_entry_ok_iff nf (MwMergeParts 0) h t k f1 (BEntry h t k fm))) as [E _]; [exists fm; auto|].
    rewrite E in Em. inversion Em. reflexivity. }
  subst bm. clear Em Fm1.
  assert (Fc : exists fc, Forall2 (field_step nf MwMergeCo) fm fc /\
               Forall2 (fun f f' => fkey f' = fkey f /\ fline f' = fline f /\
                  if mem_str (fkey f) nf
                  then exists s ps, fval f = VStr s /\ fval f' = VStr (merge_names (map merge1 ps)) /\ persons_of s = map POk ps /\ stack_field_law s
                  else fval f' = fval f) fs fc).
  { clear H2 b2 mrg Hfields. induction Fm2 as [|f f' fs fm Hf Hr IH].
    - exists []. split; constructor.
    - destruct IH as (fc & I1 & I2). destruct Hf as (K & L & V).
      destruct (mem_str (fkey f) nf) eqn:Emf.
      + destruct V as (s & ps & E0 & E1 & E3 & E4).
        exists (mkfield (fkey f') (VStr (merge_names (map merge1 ps))) (fline f') :: fc). split; constructor; try assumption.
        * unfold field_step. cbn. rewrite K, Emf. repeat split. rewrite E1. cbn. rewrite all_strs_map. reflexivity.
        * cbn. rewrite Emf. repeat split; try assumption. exists s, ps. auto.
      + exists (f' :: fc). split; constructor; try assumption.
        * unfold field_step. rewrite K, Emf. auto.
        * rewrite Emf. auto. }
  destruct Fc as (fc & Fc1 & Fc2).
  assert (Eb2 : b2 = BEntry h t k fc).
  { destruct (proj2 (name_entry_ok_iff nf MwMergeCo h t k fm (BEntry h t k fc))) as [E _]; [exists fc; auto|].
    rewrite E in H2. inversion H2. reflexivity. }
  subst b2. clear H2 Fc1 Fm2 mrg.
  (* parse side again *)
  assert (Fs : exists fsep, Forall2 (field_step nf MwSeparate) fc fsep /\ Forall2 (field_step nf MwSplitParts) fsep f1).
  { clear - Hfields Fc2. revert fc Fc2.
    induction Hfields as [|f f1' fs f1 Hf Hr IH]; intros fc Fc2; inversion Fc2 as [|? c ? fc' Hc Hcr]; subst.
    - exists []. split; constructor.
    - destruct (IH _ Hcr) as (fsep & I1 & I2). destruct Hf as (K & L & V). destruct Hc as (Kc & Lc & Vc).
      destruct (mem_str (fkey f) nf) eqn:Emf.
      + destruct V as (s & ps & E0 & E1 & E3 & E4). destruct Vc as (s' & ps' & E0' & E1' & E3' & _).
        rewrite E0 in E0'. inversion E0'; subst s'. rewrite E3 in E3'.
        assert (ps' = ps).
        { clear - E3'. revert ps' E3'. induction ps as [|p ps IHp]; intros [|p' ps'] E; try discriminate; [reflexivity|].
          cbn in E. inversion E; subst. f_equal. apply IHp. assumption. }
        subst ps'.
        exists (mkfield (fkey c) (VList (map VStr (split_names (merge_names (map merge1 ps))))) (fline c) :: fsep).
        split; constructor; try assumption.
        * unfold field_step. cbn. rewrite Kc, Emf. repeat split. rewrite E1'. reflexivity.
        * unfold field_step. cbn. rewrite Kc, Emf. split; [congruence|]. split; [congruence|].
          rewrite E1. apply parse_all_ok. apply E4. exact E3.
      + exists (c :: fsep). split; constructor; try assumption.
        * unfold field_step. rewrite Kc, Emf. auto.
        * unfold field_step. rewrite Kc, Emf. split; [congruence|]. split; congruence. }
  destruct Fs as (fsep & S1 & S2).
  destruct (proj2 (name_entry_ok_iff nf MwSeparate h t k fc (BEntry h t k fsep))) as [E1 _]; [exists fsep; auto|].
  rewrite E1.
  destruct (proj2 (name_entry_ok_iff nf MwSplitParts h t k fsep (BEntry h t k f1))) as [E2 _]; [exists f1; auto|].
  exact E2.
Qed.
