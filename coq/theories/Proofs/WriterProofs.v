(* Proofs for C06: the writer model meets the BibtexFormat contract of Spec/C06.v. *)
From Coq Require Import String List NArith ZArith Bool Lia.
From BP Require Import Base.Chars Model.Blocks Gen.Constants Model.Writer Spec.C06.
Import ListNotations.

(* ---- the constant read from the running module is the ' = ' of the property text *)
Lemma val_sep_ok : val_sep = eq_sign.
Proof. reflexivity. Qed.
Lemma val_sep_len : List.length val_sep = 3.
Proof. reflexivity. Qed.

(* ---- padding and columns *)
Definition width_of (col : nat) (key : str) : nat := col - List.length key - 3.

Lemma pad_spaces col key : pad col key = spaces (width_of col key).
Proof. unfold pad, spaces, width_of. rewrite val_sep_len. reflexivity. Qed.

Lemma width_of_ok col key : pad_width_ok col key (width_of col key).
Proof. unfold pad_width_ok, width_of. lia. Qed.

Lemma pad_width_unique col key p : pad_width_ok col key p -> p = width_of col key.
Proof. unfold pad_width_ok, width_of. lia. Qed.

Lemma spaces_length n : List.length (spaces n) = n.
Proof. apply repeat_length. Qed.

Lemma value_start_eq indent key p : value_start indent key p = List.length indent + List.length key + p + 3.
Proof. unfold value_start. rewrite !app_length, spaces_length. change (List.length eq_sign) with 3. lia. Qed.

(* key short enough: the value starts exactly at len(indent)+col; longer key: no padding at all *)
Lemma column_short indent col key :
  List.length key + 3 <= col -> List.length (indent ++ key ++ pad col key ++ val_sep) = List.length indent + col.
Proof.
  intros H. rewrite !app_length, pad_spaces, spaces_length, val_sep_len. unfold width_of. lia.
Qed.
Lemma column_long col key : col <= List.length key + 3 -> pad col key = [].
Proof. intros H. rewrite pad_spaces. unfold width_of. replace (col - List.length key - 3) with 0 by lia. reflexivity. Qed.

(* ---- "".join *)
Lemma join_pieces_cons s r : join_pieces (PStr s :: r) = option_map (app s) (join_pieces r).
Proof. reflexivity. Qed.

Lemma join_pieces_app a b :
  join_pieces (a ++ b) = match join_pieces a with Some x => option_map (app x) (join_pieces b) | None => None end.
Proof.
  induction a as [|[s|] a IH].
  - cbn [app join_pieces]. destruct (join_pieces b); reflexivity.
  - rewrite <- app_comm_cons, !join_pieces_cons, IH.
    destruct (join_pieces a) as [x|]; [|reflexivity].
    destruct (join_pieces b) as [y|]; [|reflexivity].
    cbn [option_map]. rewrite app_assoc. reflexivity.
  - reflexivity.
Qed.

Lemma join_pieces_strs (l : list str) : join_pieces (map PStr l) = Some (concat l).
Proof.
  induction l as [|s l IH]; [reflexivity|].
  cbn [map concat]. rewrite join_pieces_cons, IH. reflexivity.
Qed.

(* ---- field lines *)
Lemma str_fields_length fs kvs : str_fields fs = Some kvs -> List.length kvs = List.length fs.
Proof.
  revert kvs; induction fs as [|f fs IH]; intros kvs H; cbn [str_fields] in H.
  - inversion H; reflexivity.
  - destruct (fval f); try discriminate. destruct (str_fields fs) as [k'|]; [|discriminate].
    inversion H; subst. cbn [List.length]. f_equal. apply IH. reflexivity.
Qed.

Lemma field_pieces_str indent col tr last f v :
  fval f = VStr v ->
  join_pieces (field_pieces indent col tr last f)
  = Some (field_line indent (fkey f) (width_of col (fkey f)) v (tr || negb last)).
Proof.
  intros H. unfold field_pieces, field_line. rewrite H, pad_spaces, val_sep_ok.
  destruct (tr || negb last); reflexivity.
Qed.

Definition lines_from (indent : str) (col : nat) (tr : bool) (n i : nat) (kvs : list (str * str)) : str :=
  concat (map (fun ikv => field_line indent (fst (snd ikv)) (width_of col (fst (snd ikv))) (snd (snd ikv))
                                     (comma_rule tr (fst ikv) n))
              (combine (seq i (List.length kvs)) kvs)).

Lemma fields_pieces_str indent col tr :
  forall fs kvs i n, str_fields fs = Some kvs -> n = i + List.length fs ->
  join_pieces (fields_pieces indent col tr fs) = Some (lines_from indent col tr n i kvs).
Proof.
  induction fs as [|f rest IH]; intros kvs i n H Hn; cbn [str_fields] in H.
  - inversion H; subst. reflexivity.
  - destruct (fval f) as [v| | | | | | | |] eqn:Hv; try discriminate.
    destruct (str_fields rest) as [kvs'|] eqn:Hr; [|discriminate].
    inversion H; subst kvs; clear H.
    cbn [fields_pieces]. rewrite join_pieces_app, (field_pieces_str _ _ _ _ _ v Hv).
    rewrite (IH kvs' (S i) n eq_refl) by (cbn [List.length] in Hn; lia).
    cbn [option_map]. f_equal. unfold lines_from. cbn [List.length seq combine map concat fst snd].
    f_equal. f_equal. unfold comma_rule. f_equal.
    cbn [List.length] in Hn. destruct rest as [|g rest'].
    + cbn [negb List.length] in *. symmetry. apply Nat.ltb_ge. lia.
    + cbn [negb List.length] in *. symmetry. apply Nat.ltb_lt. lia.
Qed.

Lemma lines_from_spec indent col tr kvs :
  lines_from indent col tr (List.length kvs) 0 kvs = field_lines indent (width_of col) tr kvs.
Proof. reflexivity. Qed.

(* ---- str.splitlines *)
Lemma is_break_boundary c : is_break c = true <-> boundary c.
Proof.
  unfold is_break, boundary. set (k := code c). split.
  - intros H. rewrite !orb_true_iff, !andb_true_iff, !N.leb_le, !N.eqb_eq in H.
    assert (k = 10 \/ k = 11 \/ k = 12 \/ k = 13 \/ k = 28 \/ k = 29 \/ k = 30 \/ k = 133 \/ k = 8232 \/ k = 8233)%N as E by lia.
    cbn [In]. intuition.
  - cbn [In]. intros H.
    repeat (destruct H as [H|H]; [rewrite <- H; reflexivity|]). contradiction.
Qed.

Lemma not_break_not_boundary c : is_break c = false -> ~ boundary c.
Proof. intros H B. apply is_break_boundary in B. congruence. Qed.

Lemma no_boundary_rev l : no_boundary l -> no_boundary (rev l).
Proof. unfold no_boundary. apply Forall_rev. Qed.

Lemma splitlines_acc_Lines : forall n s cur,
  List.length s <= n -> no_boundary cur -> Lines (rev cur ++ s) (splitlines_acc s cur).
Proof.
  induction n as [|n IH]; intros s cur Hlen Hcur.
  - destruct s; [|cbn [List.length] in Hlen; lia].
    cbn [splitlines_acc]. rewrite app_nil_r. destruct cur as [|c cur].
    + constructor.
    + apply L_last; [|apply no_boundary_rev; exact Hcur].
      cbn [rev]. intros E. apply app_eq_nil in E. destruct E; discriminate.
  - destruct s as [|c r].
    + cbn [splitlines_acc]. rewrite app_nil_r. destruct cur as [|c cur].
      * constructor.
      * apply L_last; [|apply no_boundary_rev; exact Hcur].
        cbn [rev]. intros E. apply app_eq_nil in E. destruct E; discriminate.
    + cbn [List.length] in Hlen. cbn [splitlines_acc].
      destruct (is_break c) eqn:Hb.
      * assert (boundary c) as Bc by (apply is_break_boundary; exact Hb).
        destruct (is_cr c) eqn:Hcr.
        -- unfold is_cr in Hcr. apply N.eqb_eq in Hcr.
           destruct r as [|c2 r'].
           ++ apply (L_break (rev cur) c [] []); [apply no_boundary_rev; exact Hcur | exact Bc | | constructor].
              intros [_ [c2 [r [E _]]]]. discriminate.
           ++ destruct (is_lf c2) eqn:Hlf.
              ** unfold is_lf in Hlf. apply N.eqb_eq in Hlf.
                 apply L_crlf; [apply no_boundary_rev; exact Hcur | exact Hcr | exact Hlf |].
                 apply (IH r' []); [cbn [List.length] in Hlen; lia | constructor].
              ** apply L_break; [apply no_boundary_rev; exact Hcur | exact Bc | |].
                 --- intros [_ [c3 [r3 [E E2]]]]. inversion E; subst. unfold is_lf in Hlf. apply N.eqb_neq in Hlf. contradiction.
                 --- apply (IH (c2 :: r') []); [lia | constructor].
        -- apply L_break; [apply no_boundary_rev; exact Hcur | exact Bc | |].
           ++ intros [E _]. unfold is_cr in Hcr. apply N.eqb_neq in Hcr. contradiction.
           ++ apply (IH r []); [lia | constructor].
      * replace (rev cur ++ c :: r) with (rev (c :: cur) ++ r) by (cbn [rev]; rewrite <- app_assoc; reflexivity).
        apply IH; [lia|]. constructor; [apply not_break_not_boundary; exact Hb | exact Hcur].
Qed.

Lemma splitlines_Lines s : Lines s (splitlines s).
Proof. apply (splitlines_acc_Lines (List.length s) s []); [lia | constructor]. Qed.

(* ---- the comment template *)
Lemma expand_complete n t o : Format n t o -> expand t n = Some o.
Proof.
  induction 1 as [|c t o H1 H2 _ IH|t o _ IH|t o _ IH|t o _ IH].
  - reflexivity.
  - cbn [expand]. unfold ceq. rewrite (proj2 (N.eqb_neq _ _) H1), (proj2 (N.eqb_neq _ _) H2), IH. reflexivity.
  - cbn [expand]. unfold ceq. rewrite N.eqb_refl, IH. reflexivity.
  - cbn [expand]. unfold ceq. change (c_rb =? c_lb)%N with false. cbn iota. rewrite N.eqb_refl, IH. reflexivity.
  - cbn [expand]. unfold ceq, c_n. rewrite N.eqb_refl. change (asc 110 =? c_lb)%N with false. cbn iota.
    rewrite !N.eqb_refl, IH. reflexivity.
Qed.

(* ---- one block *)
Definition joined (r : res (list piece)) : option str :=
  match r with Val p => join_pieces p | _ => None end.

Lemma treat_failed_text indent width tr failed b :
  is_failed_class b = true -> raw (bhdr b) <> None -> template_ok failed ->
  exists t, joined (treat_failed failed (bhdr b)) = Some t /\ block_text indent width tr failed b t.
Proof.
  intros Hf Hr Ht. destruct (raw (bhdr b)) as [r|] eqn:Er; [|contradiction].
  destruct (Ht (decimal (List.length (splitlines r)))) as [cmt Hc].
  exists (cmt ++ [c_nl] ++ r ++ [c_nl]). split.
  - unfold treat_failed. rewrite Er. change (dec_of_N (N.of_nat (List.length (splitlines r)))) with (decimal (List.length (splitlines r))).
    rewrite (expand_complete _ _ _ Hc). cbn [joined]. rewrite !join_pieces_cons. cbn [join_pieces option_map].
    rewrite app_nil_r. reflexivity.
  - eapply BT_failed; [exact Hf | exact Er | apply splitlines_Lines | exact Hc].
Qed.

Lemma treat_block_text indent col tr failed b :
  writable b -> (is_failed_class b = true -> template_ok failed) ->
  exists t, joined (treat_block indent col tr failed b) = Some t /\ block_text indent (width_of col) tr failed b t.
Proof.
  intros Hw Ht. destruct b as [h t k fs|h k v|h v|h c|h c|h e|h e i|h k p d|h ks e]; cbn [writable] in Hw.
  - destruct (str_fields fs) as [kvs|] eqn:Hs; [|contradiction].
    eexists. split; [|apply (BT_entry _ _ _ _ h t k fs kvs Hs)].
    cbn [treat_block joined app]. rewrite !join_pieces_cons, join_pieces_app.
    rewrite (fields_pieces_str indent col tr fs kvs 0 (List.length fs) Hs eq_refl).
    rewrite <- (str_fields_length _ _ Hs), lines_from_spec.
    cbn [join_pieces option_map]. rewrite app_nil_r. reflexivity.
  - destruct v; try discriminate. eexists. split; [|apply BT_string].
    cbn [treat_block joined piece_of_value]. rewrite !join_pieces_cons. cbn [join_pieces option_map].
    rewrite app_nil_r, val_sep_ok. reflexivity.
  - eexists. split; [|apply BT_preamble]. cbn [treat_block joined]. rewrite join_pieces_cons. cbn [join_pieces option_map].
    rewrite app_nil_r. reflexivity.
  - eexists. split; [|apply BT_expl]. cbn [treat_block joined]. rewrite !join_pieces_cons. cbn [join_pieces option_map].
    rewrite app_nil_r. reflexivity.
  - eexists. split; [|apply BT_impl]. cbn [treat_block joined]. rewrite !join_pieces_cons. cbn [join_pieces option_map].
    rewrite app_nil_r. reflexivity.
  - apply (treat_failed_text indent (width_of col) tr failed (BFailed h e)); auto.
  - apply (treat_failed_text indent (width_of col) tr failed (BMwErr h e i)); auto.
  - apply (treat_failed_text indent (width_of col) tr failed (BDupKey h k p d)); auto.
  - apply (treat_failed_text indent (width_of col) tr failed (BDupField h ks e)); auto.
Qed.

(* ---- the loop: separator between consecutive blocks, none after the last *)
Lemma write_pieces_text indent col tr failed sep : forall bs,
  Forall writable bs -> (has_failed bs -> template_ok failed) ->
  exists ps texts,
    write_pieces indent col tr failed sep bs = Val ps /\ join_pieces ps = Some (join sep texts)
    /\ Forall2 (block_text indent (width_of col) tr failed) bs texts.
Proof.
  induction bs as [|b rest IH]; intros Hw Ht.
  - exists [], []. repeat split; constructor.
  - inversion Hw as [|? ? Hb Hrest]; subst.
    destruct (treat_block_text indent col tr failed b Hb) as [t [Hj Hbt]].
    { intros Hf. apply Ht. exists b. split; [left; reflexivity | exact Hf]. }
    destruct IH as [q [texts [Hq [Hjq Hf2]]]]; [exact Hrest | |].
    { intros [b' [Hin Hf]]. apply Ht. exists b'. split; [right; exact Hin | exact Hf]. }
    cbn [write_pieces]. destruct (treat_block indent col tr failed b) as [p| |]; cbn [joined] in Hj; try discriminate.
    rewrite Hq. eexists. exists (t :: texts). split; [reflexivity|]. split; [|constructor; assumption].
    rewrite !join_pieces_app, Hj. destruct rest as [|b2 rest'].
    + inversion Hf2; subst. cbn [write_pieces] in Hq. inversion Hq; subst.
      cbn [join_pieces option_map join]. rewrite app_nil_r. reflexivity.
    + inversion Hf2 as [|? t2 ? texts' ? ?]; subst.
      rewrite join_pieces_cons. cbn [join_pieces option_map app]. rewrite Hjq. cbn [option_map join]. rewrite app_nil_r. reflexivity.
Qed.

(* ---- 'auto' *)
Lemma fold_max_spec : forall (ks : list str) (a : nat),
  let m := fold_left (fun m k => Nat.max m (List.length k)) ks a in
  a <= m /\ (forall k, In k ks -> List.length k <= m) /\ (m = a \/ exists k, In k ks /\ List.length k = m).
Proof.
  induction ks as [|k ks IH]; intros a; cbn [fold_left].
  - repeat split; [lia | intros k [] | left; reflexivity].
  - destruct (IH (Nat.max a (List.length k))) as [H1 [H2 H3]]. repeat split.
    + lia.
    + intros k' [E|Hin]; [subst; lia | apply H2; exact Hin].
    + destruct H3 as [E|[k' [Hin E]]].
      * destruct (Nat.max_spec a (List.length k)) as [[_ E2]|[_ E2]].
        -- right. exists k. split; [left; reflexivity | lia].
        -- left. lia.
      * right. exists k'. split; [right; exact Hin | exact E].
Qed.

Lemma fold_left_flat_map {A B C} (f : A -> B -> A) (g : C -> list B) : forall l a,
  fold_left f (flat_map g l) a = fold_left (fun a x => fold_left f (g x) a) l a.
Proof.
  induction l as [|x l IH]; intros a; [reflexivity|].
  cbn [flat_map fold_left]. rewrite fold_left_app. apply IH.
Qed.

Lemma max_key_len_keys bs : max_key_len bs = fold_left (fun m k => Nat.max m (List.length k)) (lib_keys bs) 0.
Proof. unfold max_key_len, lib_keys. rewrite fold_left_flat_map. reflexivity. Qed.

Lemma max_key_len_is_max bs : is_max_len (max_key_len bs) (lib_keys bs).
Proof.
  rewrite max_key_len_keys. destruct (fold_max_spec (lib_keys bs) 0) as [_ [H2 H3]].
  set (m := fold_left (fun m k => Nat.max m (List.length k)) (lib_keys bs) 0) in *.
  repeat split.
  - exact H2.
  - intros E. unfold m. rewrite E. reflexivity.
  - intros Hne. destruct H3 as [E|H3]; [|exact H3].
    destruct (lib_keys bs) as [|k ks] eqn:Ek; [contradiction|].
    exists k. split; [left; reflexivity|]. specialize (H2 k (or_introl eq_refl)). lia.
Qed.

Lemma auto_column_eq bs : auto_column bs = max_key_len bs + 3.
Proof. unfold auto_column. rewrite val_sep_len. reflexivity. Qed.

Lemma resolve_width_ok f bs : width_ok f bs (width_of (resolve_column f bs)).
Proof.
  unfold width_ok, resolve_column. destruct (f_column f) as [n|].
  - intros k. apply width_of_ok.
  - exists (max_key_len bs). split; [apply max_key_len_is_max|].
    intros k. rewrite auto_column_eq. apply width_of_ok.
Qed.

(* ---- the whole writer *)
Lemma write_structure f bs :
  Forall writable bs -> (has_failed bs -> template_ok (f_failed f)) ->
  exists out, write f bs = Val out /\ written f bs out.
Proof.
  intros Hw Ht.
  destruct (write_pieces_text (f_indent f) (resolve_column f bs) (f_trailing f) (f_failed f) (f_sep f) bs Hw Ht)
    as [ps [texts [Hp [Hj Hf2]]]].
  exists (join (f_sep f) texts). split.
  - unfold write. rewrite Hp, Hj. reflexivity.
  - exists (width_of (resolve_column f bs)), texts. split; [apply resolve_width_ok|]. split; [exact Hf2 | reflexivity].
Qed.

(* the texts are determined by the contract: any two outputs satisfying [written] for the same width are equal is not
   needed; what the reader needs is that the width itself is determined *)
Lemma width_determined f bs w1 w2 : width_ok f bs w1 -> width_ok f bs w2 -> forall k, w1 k = w2 k.
Proof.
  unfold width_ok. destruct (f_column f) as [n|].
  - intros H1 H2 k. rewrite (pad_width_unique _ _ _ (H1 k)), (pad_width_unique _ _ _ (H2 k)). reflexivity.
  - intros [m1 [M1 H1]] [m2 [M2 H2]] k.
    assert (m1 = m2) as E.
    { destruct M1 as [A1 [B1 C1]], M2 as [A2 [B2 C2]].
      destruct (lib_keys bs) as [|k0 ks] eqn:Ek.
      - rewrite B1, B2; reflexivity.
      - destruct C1 as [k1 [I1 L1]]; [discriminate|]. destruct C2 as [k2 [I2 L2]]; [discriminate|].
        specialize (A1 k2 I2). specialize (A2 k1 I1). lia. }
    subst. rewrite (pad_width_unique _ _ _ (H1 k)), (pad_width_unique _ _ _ (H2 k)). reflexivity.
Qed.

(* field line and column facts, stated on the spec's own notions *)
Lemma field_line_shape indent key p value comma :
  field_line indent key p value comma
  = indent ++ key ++ spaces p ++ eq_sign ++ value ++ (if comma then [c_comma] else []) ++ [c_nl].
Proof. reflexivity. Qed.

Lemma column_of_short_key indent col key p :
  pad_width_ok col key p -> List.length key + 3 <= col -> value_start indent key p = List.length indent + col.
Proof. intros [H _] Hs. rewrite value_start_eq. specialize (H Hs). lia. Qed.

Lemma column_of_long_key indent col key p :
  pad_width_ok col key p -> col <= List.length key + 3 ->
  p = 0 /\ value_start indent key p = List.length indent + List.length key + 3.
Proof. intros [_ H] Hs. specialize (H Hs). subst. split; [reflexivity|]. rewrite value_start_eq. lia. Qed.

(* auto: one common column for every field of every entry of the library, and the smallest such column *)
Lemma auto_common_minimal f bs width indent :
  f_column f = ColAuto -> width_ok f bs width ->
  exists col,
    (forall k, In k (lib_keys bs) -> value_start indent k (width k) = List.length indent + col)
    /\ (lib_keys bs <> [] -> exists k, In k (lib_keys bs) /\ width k = 0)
    /\ (forall col', (forall k, In k (lib_keys bs) -> List.length k + 3 <= col') -> lib_keys bs <> [] -> col <= col')
    /\ col = resolve_column f bs.
Proof.
  intros Ha Hw. unfold width_ok in Hw. rewrite Ha in Hw. destruct Hw as [m [[A [B C]] Hp]].
  assert (m = max_key_len bs) as Em.
  { destruct (max_key_len_is_max bs) as [A' [B' C']].
    destruct (lib_keys bs) as [|k0 ks] eqn:Ek.
    - rewrite B, B'; reflexivity.
    - destruct C as [k1 [I1 L1]]; [discriminate|]. destruct C' as [k2 [I2 L2]]; [discriminate|].
      specialize (A k2 I2). specialize (A' k1 I1). lia. }
  exists (m + 3). repeat split.
  - intros k Hin. apply (column_of_short_key indent (m + 3) k (width k) (Hp k)). specialize (A k Hin). lia.
  - intros Hne. destruct (C Hne) as [k [Hin Hl]]. exists k. split; [exact Hin|].
    destruct (Hp k) as [_ H0]. apply H0. lia.
  - intros col' Hall Hne. destruct (C Hne) as [k [Hin Hl]]. specialize (Hall k Hin). lia.
  - unfold resolve_column. rewrite Ha, auto_column_eq, Em. reflexivity.
Qed.

(* non-str values: the final join raises TypeError (when no block raised before) *)
Lemma write_nonstr f bs ps :
  write_pieces (f_indent f) (resolve_column f bs) (f_trailing f) (f_failed f) (f_sep f) bs = Val ps ->
  In PBad ps -> write f bs = Raise ETypeError.
Proof.
  intros Hp Hin. unfold write. rewrite Hp.
  assert (join_pieces ps = None) as E.
  { clear Hp. induction ps as [|[s|] ps IH]; [destruct Hin | | reflexivity].
    destruct Hin as [E|Hin]; [discriminate|]. rewrite join_pieces_cons, (IH Hin). reflexivity. }
  rewrite E. reflexivity.
Qed.

(* the text of an entry: header line, one field line per field (by position), closing line *)
Lemma entry_text indent col tr failed h t k fs kvs :
  str_fields fs = Some kvs ->
  joined (treat_block indent col tr failed (BEntry h t k fs))
  = Some ([c_at] ++ t ++ [c_lb] ++ k ++ [c_comma; c_nl] ++ field_lines indent (width_of col) tr kvs ++ [c_rb; c_nl]).
Proof.
  intros Hs. cbn [treat_block joined app]. rewrite !join_pieces_cons, join_pieces_app.
  rewrite (fields_pieces_str indent col tr fs kvs 0 (List.length fs) Hs eq_refl).
  rewrite <- (str_fields_length _ _ Hs), lines_from_spec.
  cbn [join_pieces option_map]. rewrite app_nil_r. reflexivity.
Qed.

Lemma comma_rule_spec tr i n : i < n -> (comma_rule tr i n = true <-> tr = true \/ S i <> n).
Proof.
  intros Hi. unfold comma_rule. rewrite orb_true_iff, Nat.ltb_lt. split; intros [H|H]; auto; right; lia.
Qed.

(* the i-th field line of an entry *)
Lemma field_lines_app indent w tr : forall kvs1 kv kvs2,
  exists pre post,
    field_lines indent w tr (kvs1 ++ kv :: kvs2)
    = pre ++ field_line indent (fst kv) (w (fst kv)) (snd kv)
                        (comma_rule tr (List.length kvs1) (List.length (kvs1 ++ kv :: kvs2))) ++ post.
Proof.
  intros kvs1 kv kvs2. unfold field_lines.
  set (n := List.length (kvs1 ++ kv :: kvs2)).
  set (g := fun ikv : nat * (str * str) =>
              field_line indent (fst (snd ikv)) (w (fst (snd ikv))) (snd (snd ikv)) (comma_rule tr (fst ikv) n)).
  assert (forall (l1 : list (str * str)) i l2,
            exists pre post, concat (map g (combine (seq i (List.length (l1 ++ kv :: l2))) (l1 ++ kv :: l2)))
                             = pre ++ g (i + List.length l1, kv) ++ post) as H.
  { induction l1 as [|x l1 IH]; intros i l2.
    - exists [], (concat (map g (combine (seq (S i) (List.length l2)) l2))).
      cbn [app List.length seq combine map concat]. rewrite Nat.add_0_r. reflexivity.
    - destruct (IH (S i) l2) as [pre [post E]].
      exists (g (i, x) ++ pre), post.
      cbn [app List.length seq combine map concat]. rewrite E.
      replace (S i + List.length l1) with (i + S (List.length l1)) by lia. rewrite <- app_assoc. reflexivity. }
  destruct (H kvs1 0 kvs2) as [pre [post E]]. exists pre, post. exact E.
Qed.

(* separator placement *)
Lemma join_cons2 sep x y r : join sep (x :: y :: r) = x ++ sep ++ join sep (y :: r).
Proof. reflexivity. Qed.
Lemma join_app sep : forall l1 l2, l1 <> [] -> l2 <> [] -> join sep (l1 ++ l2) = join sep l1 ++ sep ++ join sep l2.
Proof.
  induction l1 as [|x l1 IH]; intros l2 H1 H2; [contradiction|].
  destruct l1 as [|y l1].
  - destruct l2 as [|z l2]; [contradiction|]. reflexivity.
  - change ((x :: y :: l1) ++ l2) with (x :: y :: (l1 ++ l2)). rewrite !join_cons2.
    change (y :: l1 ++ l2) with ((y :: l1) ++ l2). rewrite IH by (auto; discriminate).
    rewrite <- !app_assoc. reflexivity.
Qed.
Lemma join_last sep l x : l <> [] -> join sep (l ++ [x]) = join sep l ++ sep ++ x.
Proof. intros H. apply join_app; [exact H | discriminate]. Qed.
