(* C05, totality: on a well-formed duplicate-free document every step of the round trip returns a value, so the
   hypotheses of roundtrip_content / roundtrip_fixpoint_doc are never vacuous. *)
From Coq Require Import List NArith ZArith Bool Lia String.
From BP Require Import Base.Chars Model.Blocks Model.LibAdd Gen.Constants Model.Enclosing Model.Writer
  Model.Lexer Model.Splitter Model.Interpolate Model.Grammar Model.Pipeline Spec.C05
  Proofs.LibAddProofs Proofs.EnclosingProofs Proofs.InterpolateProofs Proofs.DupProofs Proofs.SplitGrammar
  Proofs.RoundTrip Proofs.RoundTrip2 Proofs.RoundTrip3 Proofs.RoundTrip4 Proofs.RoundTrip5 Proofs.RoundTrip6.
Import ListNotations.

Lemma remove_block_total b : allstr1 b = true -> exists b', remove_block b = EVal b'.
Proof.
  destruct b as [h t k fs|h k v|h v|h c|h c|h e|h e i|h k p d|h ks e]; intros A; try (eexists; reflexivity).
  - cbn [allstr1] in A. cbn [remove_block].
    assert (F : Forall (fun f => is_vstr (fval f) = true) fs) by (apply Forall_forall; rewrite forallb_forall in A; exact A).
    destruct (remove_fields_total fs F []) as ([fs' md] & E). rewrite E. eexists. reflexivity.
  - cbn [allstr1] in A. destruct v; try discriminate. cbn [remove_block strip_value].
    destruct (strip_enclosing s). eexists. reflexivity.
Qed.

Lemma map_res_remove_total xs : allstr xs = true -> exists l, map_res remove_block xs = EVal l.
Proof.
  induction xs as [|b r IH]; intros A; [exists []; reflexivity|]. cbn [allstr forallb] in A.
  apply andb_true_iff in A as [A1 A2]. destruct (remove_block_total b A1) as (b' & E). destruct (IH A2) as (l & El).
  exists (b' :: l). cbn [map_res]. rewrite E, El. reflexivity.
Qed.

Lemma resolve_block_allstr bs b : allstr bs = true -> allstr1 b = true ->
  allstr1 (resolve_block (strs (lib_of bs)) b) = true.
Proof.
  intros A A1. destruct b; try exact A1. rewrite resolve_block_entry. cbn [allstr1] in *. rewrite resolve_fields_fst.
  rewrite forallb_forall in *. intros f I. apply in_map_iff in I as (f0 & <- & I0).
  destruct (resolve_field_val bs f0 A (A1 _ I0)) as [_ V]. rewrite V. reflexivity.
Qed.

Lemma default_stack_total bs : wf_blocks bs -> allstr bs = true -> exists l, default_stack bs = EVal l.
Proof.
  intros W A. unfold default_stack, remove_lib, block_mw, resolve_lib, resolve_on.
  change (lblocks (lib_of bs)) with (rebuild bs). rewrite (rebuild_id bs W).
  assert (A' : allstr (map (resolve_block (strs (lib_of bs))) bs) = true).
  { unfold allstr in *. rewrite forallb_forall in *. intros x I. apply in_map_iff in I as (b & <- & I0).
    apply resolve_block_allstr; [apply forallb_forall; exact A | apply A, I0]. }
  destruct (map_res_remove_total _ A') as (l & E). rewrite E. eexists. reflexivity.
Qed.

Theorem parse_render_total d : wf_doc d -> nodup_doc d -> exists l, parse_default (render d) = PVal l.
Proof.
  intros W N. pose proof (nodup_doc_wf d N) as Wb. destruct N as (Nf & _).
  unfold parse_default. rewrite (split_is_flagged _ _ (split_render d W Nf)), <- rebuild_flag_all, (rebuild_id _ Wb).
  destruct (default_stack_total (expected d) Wb (allstr_exp _ _)) as (l & E). rewrite E. eexists. reflexivity.
Qed.

Lemma clean_written f cs l1 : wf_fmt f -> wf_cs false cs -> content l1 = ccontent cs -> wf_blocks l1 -> md_ok l1 = true ->
  write_default f l1 = PVal (render (ast_fmt f cs)) /\ wf_doc (ast_fmt f cs) /\ nodup_doc (ast_fmt f cs).
Proof.
  intros Hf Wcs E Wb Hm.
  assert (Hnf : no_failed l1 = true) by (rewrite no_failed_content, E; apply ccontent_no_other).
  split; [rewrite (write_default_c f l1 Wb Hnf Hm), E; apply cwrite_render|]. split; [apply wf_ast_fmt; assumption|].
  destruct Wb as [We Ws]. rewrite ekeys_content, E in We. rewrite skeys_content, E in Ws. apply nodup_ast_fmt; assumption.
Qed.

(* C05 in one statement: the first parse succeeds, and outside K7 the whole round trip succeeds, preserves the
   content and reproduces the written text *)
Theorem C05_roundtrip_total : forall d f, wf_doc d -> nodup_doc d -> wf_fmt f ->
  exists l1, parse_default (render d) = PVal l1 /\
    (known_K7 l1 = false ->
     exists t1 l2, roundtrip f (render d) = PVal (t1, l2, t1) /\ content l2 = content l1).
Proof.
  intros d f Wd Nd Hf. destruct (parse_render_total d Wd Nd) as (l1 & P1). exists l1. split; [exact P1|]. intros K.
  pose proof (parse_render_content d l1 Wd Nd P1) as C1. pose proof K as K0.
  rewrite known_K7_c, C1 in K. destruct (first_parse_clean d Wd Nd K) as (cs & Wcs & Ecs).
  destruct (parse_default_props _ _ P1) as [Wb Hm].
  assert (E : content l1 = ccontent cs) by congruence.
  destruct (clean_written f cs l1 Hf Wcs E Wb Hm) as (Hw & Wd' & Nd').
  destruct (parse_render_total _ Wd' Nd') as (l2 & P2).
  destruct (clean_roundtrip f cs l1 _ l2 Hf Wcs E Wb Hm Hw P2) as (_ & _ & C2 & Hw2).
  exists (render (ast_fmt f cs)), l2. split; [|exact C2].
  unfold roundtrip. rewrite P1, Hw, P2, Hw2. reflexivity.
Qed.
Print Assumptions C05_roundtrip_total.
