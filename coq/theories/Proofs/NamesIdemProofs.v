(* C12 idempotence for brace-balanced text:  split (merge (split s)) = split s.
   By exactness (Proofs/NamesExactProofs.v) this is a statement about the reference splitter:
   normalising every separator of the run list to " and " does not change the walk, and the marks of the
   normalised text are the normalised marks. *)
From Coq Require Import List NArith ZArith Bool Lia PeanoNat.
From BP Require Import Base.Chars Model.Blocks Gen.Constants Model.Names Spec.C12 Proofs.NamesSplitProofs Proofs.NamesExactProofs.
Import ListNotations.

Definition run := (bool * str)%type.
Definition sp_s : str := [c_sp].
Definition and_w : str := [asc 97; asc 110; asc 100].

Lemma and_sep_eq : and_sep = sp_s ++ and_w ++ sp_s.
Proof. reflexivity. Qed.
Lemma and_w_is_and : is_and_word and_w = true.
Proof. vm_compute. reflexivity. Qed.

(* ---------------------------------------------------------------- normalising the separators of a run list *)
Fixpoint nw (l : list run) (cne : bool) (gap : option str) : list run :=
  match l with
  | [] => []
  | (true, g) :: r => nw r cne (Some g)
  | (false, w) :: r =>
      if is_and_word w && cne && has_word r then (true, sp_s) :: (false, and_w) :: (true, sp_s) :: nw r false None
      else (if cne then match gap with Some g => [(true, g)] | None => [] end else []) ++ (false, w) :: nw r true None
  end.

Lemma has_word_nw l : forall c go, has_word (nw l c go) = has_word l.
Proof.
  induction l as [|[[|] w] r IH]; intros c go; cbn [nw]; [reflexivity | apply IH |].
  destruct (is_and_word w && c && has_word r); [reflexivity|].
  unfold has_word. rewrite existsb_app. cbn [existsb fst negb]. rewrite orb_true_r. reflexivity.
Qed.

Lemma ref_walk_gap_irrel l : forall g g', ref_walk l [] g = ref_walk l [] g'.
Proof.
  induction l as [|[[|] w] r IH]; intros g g'; cbn [ref_walk nonempty andb]; [reflexivity | reflexivity |].
  rewrite andb_false_r. reflexivity.
Qed.

Definition texts_ne (l : list run) : Prop := Forall (fun x : run => snd x <> []) l.

Lemma ref_walk_nw l : texts_ne l -> forall cur go gap,
  ref_walk (nw l (nonempty cur) go) cur gap = ref_walk l cur (match go with Some g => g | None => gap end).
Proof.
  intros Hne. induction Hne as [|[[|] w] r Hw Hne IH]; intros cur go gap; cbn [nw].
  - reflexivity.
  - rewrite IH. reflexivity.
  - cbn [snd] in Hw. cbn [ref_walk].
    destruct (is_and_word w && nonempty cur && has_word r) eqn:Ecl.
    + cbn [ref_walk]. rewrite and_w_is_and.
      apply andb_true_iff in Ecl. destruct Ecl as [Ecl1 Ehw]. apply andb_true_iff in Ecl1. destruct Ecl1 as [_ Ecne].
      rewrite Ecne. unfold has_word at 1. cbn [existsb fst negb orb]. fold (has_word (nw r false None)).
      rewrite has_word_nw, Ehw. cbn [andb]. f_equal.
      change false with (nonempty []). rewrite IH. apply ref_walk_gap_irrel.
    + destruct (nonempty cur) eqn:Ecne.
      * destruct go as [g|]; cbn [app ref_walk]; rewrite has_word_nw, ?Ecne, Ecl.
        -- assert (nonempty (cur ++ g ++ w) = true) as E by (destruct cur; [discriminate | reflexivity]).
           rewrite <- E at 1. rewrite IH. reflexivity.
        -- assert (nonempty (cur ++ gap ++ w) = true) as E by (destruct cur; [discriminate | reflexivity]).
           rewrite <- E at 1. rewrite IH. reflexivity.
      * cbn [app ref_walk]. rewrite ?Ecne, andb_false_r. cbn [andb].
        assert (nonempty w = true) as E by (destruct w; [contradiction | reflexivity]).
        rewrite <- E at 1. rewrite IH. reflexivity.
Qed.

(* the text of a run list *)
Definition ftext (l : list run) : str := concat (map snd l).

Lemma rw_ne l : texts_ne l -> forall cur gap, (cur <> [] \/ has_word l = true) -> ref_walk l cur gap <> [].
Proof.
  intros Hne. induction Hne as [|[[|] w] r Hw Hne IH]; intros cur gap H.
  - cbn. destruct H as [H|H]; [|discriminate]. destruct cur; [contradiction | discriminate].
  - cbn [ref_walk]. apply IH. exact H.
  - cbn [ref_walk snd] in *. destruct (is_and_word w && nonempty cur && has_word r); [discriminate|].
    apply IH. left. destruct (nonempty cur) eqn:E; [destruct cur; [discriminate | discriminate] | exact Hw].
Qed.

Lemma join_cons_ne (sep x : str) (l : list str) : l <> [] -> join sep (x :: l) = x ++ sep ++ join sep l.
Proof. destruct l; [contradiction | reflexivity]. Qed.

Definition gapof (go : option str) : str := match go with Some g => g | None => [] end.

(* the normalised text is the pieces joined by " and " *)
Lemma ftext_nw l : texts_ne l -> forall cur go,
  join and_sep (ref_walk l cur (gapof go)) = cur ++ ftext (nw l (nonempty cur) go).
Proof.
  intros Hne. induction Hne as [|[[|] w] r Hw Hne IH]; intros cur go.
  - cbn. destruct (nonempty cur) eqn:E; cbn; [rewrite app_nil_r; reflexivity | destruct cur; [reflexivity | discriminate]].
  - cbn [nw ref_walk]. apply (IH cur (Some w)).
  - cbn [snd] in Hw. cbn [nw ref_walk].
    destruct (is_and_word w && nonempty cur && has_word r) eqn:Ecl.
    + apply andb_true_iff in Ecl. destruct Ecl as [_ Ehw].
      rewrite join_cons_ne by (apply rw_ne; [exact Hne | right; exact Ehw]).
      unfold ftext. cbn [map concat snd]. fold (ftext (nw r false None)). rewrite and_sep_eq, <- !app_assoc.
      f_equal. f_equal. f_equal. f_equal.
      pose proof (IH [] None) as IH'. cbn [gapof nonempty app] in IH'. exact IH'.
    + destruct (nonempty cur) eqn:Ecne.
      * assert (E : forall g, nonempty (cur ++ g ++ w) = true) by (intros g; destruct cur; [discriminate | reflexivity]).
        destruct go as [g|]; cbn [gapof app].
        -- pose proof (IH (cur ++ g ++ w) None) as IH'. cbn [gapof] in IH'. rewrite E in IH'. rewrite IH'.
           unfold ftext. cbn [map concat snd app]. rewrite <- !app_assoc. reflexivity.
        -- assert (E0 : nonempty (cur ++ w) = true) by (destruct cur; [discriminate | reflexivity]).
           pose proof (IH (cur ++ w) None) as IH'. cbn [gapof] in IH'. rewrite E0 in IH'. rewrite IH'.
           unfold ftext. cbn [map concat snd app]. rewrite <- !app_assoc. reflexivity.
      * assert (E : nonempty w = true) by (destruct w; [contradiction | reflexivity]).
        destruct cur; [|discriminate]. cbn [app].
        pose proof (IH w None) as IH'. cbn [gapof] in IH'. rewrite E in IH'. rewrite IH'.
        unfold ftext. cbn [map concat snd app]. reflexivity.
Qed.

(* ---------------------------------------------------------------- alternating run lists and their marks *)
Definition flat (l : list run) : list mk := concat (map (fun x : run => map (fun c => (c, fst x)) (snd x)) l).
Lemma flat_cons_f w r : flat ((false, w) :: r) = wm w ++ flat r.
Proof. reflexivity. Qed.
Lemma flat_cons_t g r : flat ((true, g) :: r) = gm g ++ flat r.
Proof. reflexivity. Qed.

Definition hdpol (l : list run) : option bool := match l with [] => None | (b, _) :: _ => Some b end.
Fixpoint altr (l : list run) : Prop :=
  match l with
  | [] => True
  | (b, _) :: r => hdpol r <> Some b /\ altr r
  end.

Lemma starts_false_hd r : hdpol r <> Some true -> starts_false r.
Proof. destruct r as [|[[|] t] tl]; cbn; intros H; [exact I | apply H; reflexivity | exact I]. Qed.

Lemma runs_flat l : altr l -> texts_ne l -> runs (flat l) = l.
Proof.
  induction l as [|[[|] w] r IH]; intros Ha Hn; [reflexivity| |]; cbn [altr] in Ha; destruct Ha as [Hh Ha];
    inversion Hn as [|? ? Hw Hn']; subst; cbn [snd] in Hw.
  - rewrite flat_cons_t. rewrite runs_gm; [rewrite IH by assumption; reflexivity | exact Hw |].
    rewrite IH by assumption. apply starts_false_hd. exact Hh.
  - rewrite flat_cons_f. rewrite runs_wm by exact Hw. rewrite IH by assumption.
    unfold wapp. destruct r as [|[[|] t] tl]; try reflexivity. exfalso. apply Hh. reflexivity.
Qed.

Lemma runs_props M : altr (runs M) /\ texts_ne (runs M) /\ flat (runs M) = M.
Proof.
  induction M as [|[c b] M (IA & IN & IFl)]; [split; [exact I | split; [constructor | reflexivity]]|].
  destruct b.
  - rewrite runs_cons_t. unfold gcons. destruct (runs M) as [|[[|] t] tl] eqn:E.
    + split; [cbn; split; [discriminate | exact I]|]. split; [constructor; [discriminate | constructor]|]. rewrite <- IFl. reflexivity.
    + cbn [altr] in IA. destruct IA as [I1 I2]. apply Forall_cons_iff in IN. destruct IN as [Ht IN'].
      split; [cbn [altr]; split; assumption|]. split; [constructor; [discriminate | assumption]|]. rewrite <- IFl. reflexivity.
    + split; [cbn [altr hdpol]; split; [discriminate | exact IA]|]. split; [constructor; [discriminate | exact IN]|].
      rewrite <- IFl. reflexivity.
  - rewrite runs_cons_f. unfold wcons. destruct (runs M) as [|[[|] t] tl] eqn:E.
    + split; [cbn; split; [discriminate | exact I]|]. split; [constructor; [discriminate | constructor]|]. rewrite <- IFl. reflexivity.
    + split; [cbn [altr hdpol]; split; [discriminate | exact IA]|]. split; [constructor; [discriminate | exact IN]|].
      rewrite <- IFl. reflexivity.
    + cbn [altr] in IA. destruct IA as [I1 I2]. apply Forall_cons_iff in IN. destruct IN as [Ht IN'].
      split; [cbn [altr]; split; assumption|]. split; [constructor; [discriminate | assumption]|]. rewrite <- IFl. reflexivity.
Qed.

(* the normalised run list still alternates *)
Lemma nw_altr l : altr l -> forall c go,
  altr (nw l c go)
  /\ (c = false -> hdpol (nw l c go) <> Some true)
  /\ (c = true -> (go <> None \/ hdpol l <> Some false) -> hdpol (nw l c go) <> Some false).
Proof.
  induction l as [|[[|] w] r IH]; intros Ha c go; cbn [altr] in Ha.
  - cbn. split; [exact I|]. split; intros; discriminate.
  - destruct Ha as [Hh Ha]. cbn [nw]. destruct (IH Ha c (Some w)) as (I1 & I2 & I3).
    split; [exact I1|]. split; [exact I2|]. intros Hc _. apply I3; [exact Hc | left; discriminate].
  - destruct Ha as [Hh Ha]. cbn [nw].
    destruct (is_and_word w && c && has_word r) eqn:Ecl.
    + destruct (IH Ha false None) as (I1 & I2 & _).
      split.
      * cbn [altr hdpol]. repeat (split; [discriminate|]). split; [apply I2; reflexivity | exact I1].
      * split; [|intros; cbn [hdpol]; discriminate].
        intros Hc. subst c. rewrite andb_false_r in Ecl. discriminate.
    + destruct (IH Ha true None) as (I1 & _ & I3).
      assert (Hnext : hdpol (nw r true None) <> Some false) by (apply I3; [reflexivity | right; exact Hh]).
      destruct c.
      * destruct go as [g|]; cbn [app].
        -- split; [cbn [altr hdpol]; split; [discriminate | split; [exact Hnext | exact I1]]|].
           split; intros; cbn [hdpol]; discriminate.
        -- split; [cbn [altr hdpol]; split; [exact Hnext | exact I1]|].
           split; [intros; discriminate|]. intros _ [H|H]; [contradiction | exfalso; apply H; reflexivity].
      * cbn [app]. split; [cbn [altr hdpol]; split; [exact Hnext | exact I1]|].
        split; intros; cbn [hdpol]; discriminate.
Qed.

Lemma nw_texts_ne l : texts_ne l -> forall c go, (forall g, go = Some g -> g <> []) -> texts_ne (nw l c go).
Proof.
  intros Hn. induction Hn as [|[[|] w] r Hw Hn IH]; intros c go Hgo; cbn [nw]; [constructor | |]; cbn [snd] in Hw.
  - apply IH. intros g E. inversion E; subst. exact Hw.
  - destruct (is_and_word w && c && has_word r).
    + repeat (constructor; [discriminate|]). apply IH. intros g E; discriminate.
    + apply Forall_app. split.
      * destruct c; [|constructor]. destruct go as [g|]; [|constructor]. constructor; [apply (Hgo g eq_refl) | constructor].
      * constructor; [exact Hw|]. apply IH. intros g E; discriminate.
Qed.

(* ---------------------------------------------------------------- segments that scan cleanly *)
Definition seg (x : run) : list mk := map (fun c => (c, fst x)) (snd x).
Lemma flat_cons x r : flat (x :: r) = seg x ++ flat r.
Proof. reflexivity. Qed.
Lemma seg_text x : map fst (seg x) = snd x.
Proof. unfold seg. rewrite map_map. cbn [fst]. apply map_id. Qed.

(* scanning the segment from depth 0 ends at depth 0 with no pending escape, whatever follows *)
Definition item_ok (x : run) : Prop :=
  forall rest, marks_go (snd x ++ rest) 0 = seg x ++ marks_go rest 0
               /\ balanced_go (snd x ++ rest) 0 = balanced_go rest 0.
Definition last_ok (x : run) : Prop := marks_go (snd x) 0 = seg x /\ balanced_go (snd x) 0 = true.

Lemma item_last x : item_ok x -> last_ok x.
Proof. intros H. destruct (H []) as [H1 H2]. rewrite !app_nil_r in *. split; assumption. Qed.

Fixpoint sok (L : list run) : Prop :=
  match L with
  | [] => True
  | x :: r => match r with [] => last_ok x | _ => item_ok x /\ sok r end
  end.

Lemma sok_cons x L : item_ok x -> sok L -> sok (x :: L).
Proof. intros Hx HL. cbn [sok]. destruct L; [apply item_last; exact Hx | split; assumption]. Qed.

Lemma sok_consistent L : sok L -> marks_go (ftext L) 0 = flat L /\ balanced_go (ftext L) 0 = true.
Proof.
  induction L as [|x r IH]; intros H; [split; reflexivity|].
  unfold ftext. cbn [map concat]. fold (ftext r). rewrite flat_cons.
  cbn [sok] in H. destruct r as [|y r'].
  - unfold ftext. cbn. rewrite !app_nil_r. exact H.
  - destruct H as [Hx Hr]. destruct (Hx (ftext (y :: r'))) as [E1 E2]. destruct (IH Hr) as [I1 I2].
    rewrite E1, E2, I1, I2. split; reflexivity.
Qed.

(* a plain character at depth 0 *)
Lemma plain_char c b rest : ceq c c_bs = false -> ceq c c_lb = false -> ceq c c_rb = false -> b = ws_split c ->
  marks_go (c :: rest) 0 = (c, b) :: marks_go rest 0 /\ balanced_go (c :: rest) 0 = balanced_go rest 0.
Proof. intros H1 H2 H3 ->. cbn [marks_go balanced_go]. rewrite H1, H2, H3. split; reflexivity. Qed.

Lemma ws_plain c : ws_split c = true -> ceq c c_bs = false /\ ceq c c_lb = false /\ ceq c c_rb = false.
Proof.
  intros H. destruct special_facts as (_ & _ & _ & _ & _ & _ & Wb & Wl & Wr).
  repeat split; apply N.eqb_neq; intros ->; congruence.
Qed.
Lemma letter_plain c : (is_aA c = true \/ is_nN c = true \/ is_dD c = true) ->
  ceq c c_bs = false /\ ceq c c_lb = false /\ ceq c c_rb = false /\ ws_split c = false.
Proof.
  intros H. pose proof (letters_not_ws c H) as Hw.
  unfold is_aA, is_nN, is_dD in H.
  repeat (match goal with H : _ \/ _ |- _ => destruct H as [H|H] end);
    apply orb_true_iff in H; destruct H as [H|H]; apply N.eqb_eq in H; subst c; vm_compute; auto.
Qed.

Lemma gap_item_ok g : allws g -> item_ok (true, g).
Proof.
  unfold allws. induction g as [|c g IH]; intros H rest; [split; reflexivity|].
  cbn [forallb] in H. apply andb_true_iff in H. destruct H as [Hc Hg].
  destruct (ws_plain c Hc) as (P1 & P2 & P3).
  cbn [snd app]. destruct (plain_char c true (g ++ rest) P1 P2 P3 (eq_sym Hc)) as [E1 E2].
  rewrite E1, E2. destruct (IH Hg rest) as [I1 I2]. cbn [snd] in I1, I2. rewrite I1, I2. split; reflexivity.
Qed.

Lemma and_item_ok : item_ok (false, and_w) /\ item_ok (true, sp_s).
Proof.
  split.
  - intros rest. cbn [snd and_w app].
    assert (H : forall c r, (is_aA c = true \/ is_nN c = true \/ is_dD c = true) ->
              marks_go (c :: r) 0 = (c, false) :: marks_go r 0 /\ balanced_go (c :: r) 0 = balanced_go r 0).
    { intros c r Hc. destruct (letter_plain c Hc) as (P1 & P2 & P3 & P4). apply plain_char; auto. }
    destruct (H (asc 97) (asc 110 :: asc 100 :: rest) ltac:(left; reflexivity)) as [A1 A2].
    destruct (H (asc 110) (asc 100 :: rest) ltac:(right; left; reflexivity)) as [B1 B2].
    destruct (H (asc 100) rest ltac:(right; right; reflexivity)) as [C1 C2].
    rewrite A1, A2, B1, B2, C1, C2. split; reflexivity.
  - apply gap_item_ok. reflexivity.
Qed.

(* the text before a separator character scans cleanly *)
Lemma prefix_clean : forall n s d A c B, (length s <= n)%nat ->
  marks_go s d = A ++ (c, true) :: B -> balanced_go s d = true ->
  forall rest, marks_go (map fst A ++ rest) d = A ++ marks_go rest 0
               /\ balanced_go (map fst A ++ rest) d = balanced_go rest 0.
Proof.
  induction n as [|n IH]; intros s d A c B Hn Hm Hb rest.
  { destruct s; [|simpl in Hn; lia]. destruct A; discriminate. }
  destruct s as [|a r]; [destruct A; discriminate|].
  cbn [marks_go balanced_go] in Hm, Hb.
  destruct (ceq a c_bs) eqn:Ebs.
  { destruct r as [|e r']; [destruct A as [|? [|? ?]]; discriminate|].
    destruct A as [|x1 [|x2 A'']]; try discriminate.
    cbn [app] in Hm. inversion Hm as [[E1 E2 E3]]. subst x1 x2.
    cbn [map fst app]. apply N.eqb_eq in Ebs. subst a.
    cbn [marks_go balanced_go]. replace (ceq c_bs c_bs) with true by reflexivity.
    destruct (IH r' d A'' c B ltac:(simpl in Hn; lia) E3 Hb rest) as [I1 I2]. rewrite I1, I2. split; reflexivity. }
  destruct (ceq a c_lb) eqn:Elb.
  { destruct A as [|x1 A']; [discriminate|]. cbn [app] in Hm. inversion Hm as [[E1 E2]]. subst x1.
    cbn [map fst app marks_go balanced_go]. rewrite Ebs, Elb.
    destruct (IH r (d + 1)%N A' c B ltac:(simpl in Hn; lia) E2 Hb rest) as [I1 I2]. rewrite I1, I2. split; reflexivity. }
  destruct (ceq a c_rb) eqn:Erb.
  { destruct (d =? 0)%N eqn:Ed; [discriminate|].
    destruct A as [|x1 A']; [discriminate|]. cbn [app] in Hm. inversion Hm as [[E1 E2]]. subst x1.
    cbn [map fst app marks_go balanced_go]. rewrite Ebs, Elb, Erb, Ed.
    destruct (IH r (N.pred d) A' c B ltac:(simpl in Hn; lia) E2 Hb rest) as [I1 I2]. rewrite I1, I2. split; reflexivity. }
  destruct A as [|x1 A'].
  - cbn [app] in Hm. inversion Hm as [[E1 E2 E3]]. apply andb_true_iff in E2. destruct E2 as [Ed _].
    apply N.eqb_eq in Ed. subst d. split; reflexivity.
  - cbn [app] in Hm. inversion Hm as [[E1 E2]]. subst x1.
    cbn [map fst app marks_go balanced_go]. rewrite Ebs, Elb, Erb.
    destruct (IH r d A' c B ltac:(simpl in Hn; lia) E2 Hb rest) as [I1 I2]. rewrite I1, I2. split; reflexivity.
Qed.

Lemma marks_true_ws : forall n s d c, (length s <= n)%nat -> In (c, true) (marks_go s d) -> ws_split c = true.
Proof.
  induction n as [|n IH]; intros s d c Hn Hin; [destruct s; [contradiction | simpl in Hn; lia]|].
  destruct s as [|a r]; [contradiction|]. cbn [marks_go] in Hin.
  destruct (ceq a c_bs).
  - destruct r as [|e r']; [destruct Hin as [H|H]; [discriminate | contradiction]|].
    destruct Hin as [H|[H|H]]; try discriminate. apply (IH r' d); [simpl in Hn; lia | exact H].
  - destruct (ceq a c_lb); [destruct Hin as [H|H]; [discriminate | apply (IH r (d + 1)%N); [simpl in Hn; lia | exact H]]|].
    destruct (ceq a c_rb); [destruct Hin as [H|H]; [discriminate | apply (IH r (N.pred d)); [simpl in Hn; lia | exact H]]|].
    destruct Hin as [H|H]; [|apply (IH r d); [simpl in Hn; lia | exact H]].
    injection H as E1 E2. subst a. apply andb_true_iff in E2. exact (proj2 E2).
Qed.

Lemma sok_of_runs R : altr R -> texts_ne R ->
  (forall g, In (true, g) R -> allws g) ->
  marks_go (ftext R) 0 = flat R -> balanced_go (ftext R) 0 = true -> sok R.
Proof.
  induction R as [|x R IH]; intros Ha Hn Hws Hm Hb; [exact I|].
  destruct R as [|y R'].
  - cbn [sok]. unfold ftext, flat in Hm, Hb. cbn in Hm, Hb. rewrite ?app_nil_r in Hm. rewrite ?app_nil_r in Hb. rewrite ?app_nil_r in Hm. split; [exact Hm | exact Hb].
  - assert (Hx : item_ok x).
    { destruct x as [[|] w].
      - apply gap_item_ok. apply Hws. left. reflexivity.
      - cbn [altr hdpol] in Ha. destruct Ha as [Hh _]. destruct y as [[|] g]; [|exfalso; apply Hh; reflexivity].
        inversion Hn as [|? ? _ Hn']; subst. inversion Hn' as [|? ? Hg _]; subst. cbn [snd] in Hg.
        destruct g as [|c0 g']; [contradiction|].
        intros rest.
        pose proof (prefix_clean (length (ftext ((false, w) :: (true, c0 :: g') :: R'))) (ftext ((false, w) :: (true, c0 :: g') :: R')) 0%N
                                 (wm w) c0 (gm g' ++ flat R') (le_n _)) as PC.
        assert (Hm' : marks_go (ftext ((false, w) :: (true, c0 :: g') :: R')) 0 = wm w ++ (c0, true) :: gm g' ++ flat R') by exact Hm.
        specialize (PC Hm' Hb rest).
        assert (Ew : map fst (wm w) = w) by (unfold wm; rewrite map_map; apply map_id).
        rewrite Ew in PC. exact PC. }
    cbn [sok]. split; [exact Hx|].
    assert (Eft : ftext (x :: y :: R') = snd x ++ ftext (y :: R')) by reflexivity.
    rewrite Eft in Hm, Hb.
    destruct (Hx (ftext (y :: R'))) as [E1 E2]. rewrite flat_cons in Hm. rewrite E1 in Hm. apply app_inv_head in Hm.
    rewrite E2 in Hb.
    apply IH; [destruct x as [bx wx]; cbn [altr] in Ha; apply Ha | inversion Hn; assumption | intros g Hg; apply Hws; right; exact Hg | exact Hm | exact Hb].
Qed.

Lemma sok_nw R : sok R -> forall c go, (forall g, go = Some g -> item_ok (true, g)) -> sok (nw R c go).
Proof.
  destruct and_item_ok as [Hand Hsp].
  induction R as [|[[|] w] r IH]; intros HS c go Hgo; cbn [nw]; [exact I| |].
  - destruct r as [|y r']; [exact I|]. cbn [sok] in HS. destruct HS as [Hx Hr].
    apply IH; [exact Hr|]. intros g E. inversion E; subst. exact Hx.
  - destruct (is_and_word w && c && has_word r) eqn:Ecl.
    + destruct r as [|y r']; [rewrite andb_false_r in Ecl; discriminate|].
      cbn [sok] in HS. destruct HS as [_ Hr].
      apply sok_cons; [exact Hsp|]. apply sok_cons; [exact Hand|]. apply sok_cons; [exact Hsp|].
      apply IH; [exact Hr | intros g E; discriminate].
    + assert (Hmain : sok ((false, w) :: nw r true None)).
      { destruct r as [|y r']; [exact HS|]. cbn [sok] in HS. destruct HS as [Hx Hr].
        apply sok_cons; [exact Hx|]. apply IH; [exact Hr | intros g E; discriminate]. }
      destruct c; [|exact Hmain]. destruct go as [g|]; [|exact Hmain].
      cbn [app]. apply sok_cons; [apply (Hgo g eq_refl) | exact Hmain].
Qed.

(* ---------------------------------------------------------------- assembly *)
Lemma ftext_flat L : map fst (flat L) = ftext L.
Proof.
  induction L as [|x r IH]; [reflexivity|]. rewrite flat_cons, map_app, seg_text.
  change (ftext (x :: r)) with (snd x ++ ftext r). f_equal. exact IH.
Qed.

Lemma in_flat g R c : In (true, g) R -> In c g -> In (c, true) (flat R).
Proof.
  intros HR Hc. induction R as [|x r IH]; [contradiction|]. rewrite flat_cons. apply in_or_app.
  destruct HR as [->|HR]; [left | right; apply IH; exact HR].
  unfold seg. cbn [fst snd]. apply in_map_iff. exists c. auto.
Qed.

Definition hdc (l : str) : ch := hd 0%N l.
Definition lastc (l : str) : ch := last l 0%N.

Lemma hdc_app (a b : str) : a <> [] -> hdc (a ++ b) = hdc a.
Proof. destruct a; [contradiction | reflexivity]. Qed.
Lemma lastc_app (a b : str) : b <> [] -> lastc (a ++ b) = lastc b.
Proof.
  intros Hb. unfold lastc. induction a as [|x a IH]; [reflexivity|]. cbn [app].
  destruct (a ++ b) eqn:E; [apply app_eq_nil in E; destruct E; contradiction|]. exact IH.
Qed.

Lemma interleave_ends X : forall seps, X <> [] -> Forall (fun p : str => p <> []) X -> length seps = pred (length X) ->
  interleave X seps <> [] /\ hdc (interleave X seps) = hdc (hd [] X) /\ lastc (interleave X seps) = lastc (last X []).
Proof.
  induction X as [|p X IH]; intros seps Hne HF HL; [contradiction|].
  inversion HF as [|? ? Hp HF']; subst.
  destruct X as [|p2 X].
  - cbn. repeat split; auto.
  - destruct seps as [|s seps]; [simpl in HL; discriminate|].
    destruct (IH seps ltac:(discriminate) HF' ltac:(simpl in *; lia)) as (I1 & I2 & I3).
    change (interleave (p :: p2 :: X) (s :: seps)) with (p ++ s ++ interleave (p2 :: X) seps).
    split; [intros E; apply app_eq_nil in E; destruct E; contradiction|].
    split; [apply hdc_app; exact Hp|].
    rewrite lastc_app; [|intros E; apply app_eq_nil in E; destruct E; contradiction].
    rewrite lastc_app by exact I1. exact I3.
Qed.

Lemma join_ends sep X : X <> [] -> Forall (fun p : str => p <> []) X ->
  join sep X <> [] /\ hdc (join sep X) = hdc (hd [] X) /\ lastc (join sep X) = lastc (last X []).
Proof.
  induction X as [|p X IH]; intros Hne HF; [contradiction|].
  inversion HF as [|? ? Hp HF']; subst.
  destruct X as [|p2 X].
  - cbn. repeat split; auto.
  - destruct (IH ltac:(discriminate) HF') as (I1 & I2 & I3).
    change (join sep (p :: p2 :: X)) with (p ++ sep ++ join sep (p2 :: X)).
    split; [intros E; apply app_eq_nil in E; destruct E; contradiction|].
    split; [apply hdc_app; exact Hp|].
    rewrite lastc_app; [|intros E; apply app_eq_nil in E; destruct E as [_ E]; contradiction].
    rewrite lastc_app by exact I1. exact I3.
Qed.

Lemma strip_id p (l : str) : l <> [] -> p (hdc l) = false -> p (lastc l) = false -> strip_set p l = l.
Proof.
  intros Hne Hh Hl. unfold strip_set.
  assert (E1 : lstrip_set p l = l) by (destruct l; [contradiction|]; cbn in *; rewrite Hh; reflexivity).
  rewrite E1.
  assert (E2 : lstrip_set p (rev l) = rev l).
  { destruct (exists_last Hne) as (l' & x & ->). unfold lastc in Hl. rewrite last_last in Hl.
    rewrite rev_app_distr. cbn. rewrite Hl. reflexivity. }
  rewrite E2. apply rev_involutive.
Qed.

Theorem split_idempotent s : C12.balanced (strip4 s) = true -> idempotent_on s.
Proof.
  intros Hb. unfold idempotent_on.
  pose proof (split_conserved s) as (seps & HL & Ht & Hseps & Hpne).
  pose proof (strip_set_head ws_split s) as Hhead. pose proof (strip_set_last ws_split s) as Hlast.
  fold (strip4 s) in Hhead, Hlast.
  set (X := split_names s) in *.
  destruct (strip4 s) as [|c0 t0] eqn:Et.
  { (* nothing but whitespace *)
    assert (X = []) as -> by (unfold X, split_names, split_names_seps; rewrite Et; reflexivity). reflexivity. }
  assert (HXne : X <> []) by (intros E; rewrite E in Ht; discriminate).
  set (t := c0 :: t0) in *.
  set (M := marks t). set (R := runs M).
  destruct (runs_props M) as (IA & IN & IFl). fold R in IA, IN, IFl.
  assert (EtM : map fst M = t) by (unfold M, marks; apply (marks_text _ _ 0%N (le_n _))).
  assert (EfR : ftext R = t) by (rewrite <- ftext_flat, IFl; exact EtM).
  assert (HmR : marks_go (ftext R) 0 = flat R) by (rewrite EfR, IFl; reflexivity).
  assert (HbR : balanced_go (ftext R) 0 = true) by (rewrite EfR; exact Hb).
  assert (Hgaps : forall g, In (true, g) R -> allws g).
  { intros g Hg. unfold allws. apply forallb_forall. intros c Hc.
    apply (marks_true_ws (length t) t 0%N c (le_n _)). fold (marks t). fold M. rewrite <- IFl. eapply in_flat; eassumption. }
  pose proof (sok_of_runs R IA IN Hgaps HmR HbR) as HsokR.
  set (N := nw R false None).
  pose proof (sok_nw R HsokR false None ltac:(intros g E; discriminate)) as HsokN. fold N in HsokN.
  destruct (sok_consistent N HsokN) as [HmN HbN].
  assert (EX : X = ref_walk R [] []).
  { unfold X. rewrite (split_exact s) by (rewrite Et; exact Hb). unfold ref_split. rewrite Et. reflexivity. }
  assert (EtN : merge_names X = ftext N).
  { unfold merge_names. rewrite EX. pose proof (ftext_nw R IN [] None) as E. cbn [gapof nonempty app] in E. exact E. }
  (* the merged text is already stripped *)
  destruct (interleave_ends X seps HXne Hpne HL) as (_ & Hh1 & Hl1).
  destruct (join_ends and_sep X HXne Hpne) as (Hjne & Hh2 & Hl2). fold (merge_names X) in Hjne, Hh2, Hl2.
  assert (Estrip : strip4 (merge_names X) = merge_names X).
  { apply strip_id; [exact Hjne | |].
    - rewrite Hh2, <- Hh1, <- Ht. exact Hhead.
    - rewrite Hl2, <- Hl1, <- Ht. exact Hlast. }
  rewrite (split_exact (merge_names X)) by (rewrite Estrip, EtN; exact HbN).
  unfold ref_split. rewrite Estrip, EtN. unfold marks. rewrite HmN.
  destruct (nw_altr R IA false None) as (HaN & _ & _). fold N in HaN.
  rewrite (runs_flat N HaN (nw_texts_ne R IN false None ltac:(intros g E; discriminate))).
  unfold N. change false with (nonempty []). rewrite (ref_walk_nw R IN [] None []). symmetry. exact EX.
Qed.
