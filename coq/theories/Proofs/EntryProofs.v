(* Proofs for C19: the entry operations refine an insertion-ordered dictionary; views; reserved names;
   Python == of fields and blocks is structural equality. *)
From Coq Require Import List NArith ZArith Bool Lia.
From BP Require Import Base.Chars Model.Blocks Model.Entry Spec.C19.
Import ListNotations.

Lemma str_eqb_sym a b : str_eqb a b = str_eqb b a.
Proof.
  destruct (str_eqb a b) eqn:E.
  - apply str_eqb_eq in E; subst; symmetry; apply str_eqb_refl.
  - symmetry. apply str_eqb_neq. apply str_eqb_neq in E. congruence.
Qed.

(* ------------------------------------------------------------------ dictionaries *)
Lemma dict_get_lookup (m : omap) k : dict_get m k = om_lookup m k.
Proof. induction m as [|[k' f] r IH]; simpl; auto. rewrite IH; reflexivity. Qed.

Lemma dict_set_new {V} (d : list (str * V)) k v : ~ In k (map fst d) -> dict_set d k v = d ++ [(k, v)].
Proof.
  induction d as [|[k' v'] r IH]; simpl; intros H; auto.
  destruct (str_eqb k k') eqn:E.
  - apply str_eqb_eq in E. subst. exfalso. apply H. left; reflexivity.
  - rewrite IH; auto.
Qed.

Lemma fields_dict_acc fs : forall d, NoDup (map fkey fs) -> (forall f, In f fs -> ~ In (fkey f) (map fst d)) ->
  fold_left (fun d f => dict_set d (fkey f) f) fs d = d ++ abs_fields fs.
Proof.
  induction fs as [|f r IH]; intros d Hnd Hd; simpl.
  - rewrite app_nil_r; reflexivity.
  - inversion Hnd as [|x l Hnotin Hnd']; subst.
    rewrite dict_set_new by (apply Hd; left; reflexivity).
    rewrite IH; auto.
    + rewrite <- app_assoc. reflexivity.
    + intros g Hg. rewrite map_app, in_app_iff. simpl. intros [H|[H|[]]].
      * apply (Hd g); [right; assumption | assumption].
      * apply Hnotin. rewrite H. apply in_map. assumption.
Qed.

Lemma fields_dict_abs fs : NoDup (map fkey fs) -> fields_dict fs = abs_fields fs.
Proof. intros H. unfold fields_dict. rewrite fields_dict_acc; auto. Qed.

Lemma abs_keys fs : map fst (abs_fields fs) = map fkey fs.
Proof. unfold abs_fields. rewrite map_map. reflexivity. Qed.

Lemma has_index fs k :
  match om_lookup (abs_fields fs) k with
  | Some _ => exists i, index_of k (map fkey fs) = Some i
  | None => index_of k (map fkey fs) = None
  end.
Proof.
  induction fs as [|g r IH]; simpl; auto.
  destruct (str_eqb k (fkey g)); eauto.
  destruct (om_lookup (abs_fields r) k).
  - destruct IH as [i Hi]. rewrite Hi. eauto.
  - rewrite IH. reflexivity.
Qed.

Lemma set_nth_abs fs f :
  match index_of (fkey f) (map fkey fs) with
  | Some i => abs_fields (set_nth i f fs)
  | None => abs_fields (fs ++ [f])
  end = om_set (abs_fields fs) (fkey f) f.
Proof.
  induction fs as [|g r IH]; simpl; auto.
  destruct (str_eqb (fkey f) (fkey g)) eqn:E.
  - apply str_eqb_eq in E. simpl. rewrite E. reflexivity.
  - destruct (index_of (fkey f) (map fkey r)); simpl; rewrite <- IH; reflexivity.
Qed.

Lemma set_field_abs fs f : NoDup (map fkey fs) ->
  abs_fields (fst (set_field fs f)) = om_set (abs_fields fs) (fkey f) f /\ snd (set_field fs f) = RNone.
Proof.
  intros Hnd. unfold set_field, dict_has. rewrite fields_dict_abs by assumption. rewrite dict_get_lookup.
  pose proof (has_index fs (fkey f)) as Hi. pose proof (set_nth_abs fs f) as Hs.
  destruct (om_lookup (abs_fields fs) (fkey f)).
  - destruct Hi as [i Hi]. rewrite Hi in *. simpl. auto.
  - rewrite Hi in *. simpl. auto.
Qed.

Lemma filter_notin k r : ~ In k (map fkey r) -> filter (fun g => negb (str_eqb (fkey g) k)) r = r.
Proof.
  induction r as [|g r IH]; simpl; intros H; auto.
  destruct (str_eqb (fkey g) k) eqn:E.
  - apply str_eqb_eq in E. exfalso. apply H. left. assumption.
  - simpl. rewrite IH; auto.
Qed.

Lemma filter_abs fs k : NoDup (map fkey fs) ->
  abs_fields (filter (fun g => negb (str_eqb (fkey g) k)) fs) = om_remove (abs_fields fs) k.
Proof.
  induction fs as [|g r IH]; simpl; intros Hnd; auto.
  inversion Hnd as [|x l Hnotin Hnd']; subst.
  rewrite (str_eqb_sym k (fkey g)).
  destruct (str_eqb (fkey g) k) eqn:E; simpl.
  - apply str_eqb_eq in E. rewrite filter_notin; [reflexivity | rewrite <- E; assumption].
  - rewrite IH; auto.
Qed.

Lemma om_remove_absent (m : omap) k : om_lookup m k = None -> om_remove m k = m.
Proof.
  induction m as [|[k' f] r IH]; simpl; auto.
  destruct (str_eqb k k'); [discriminate|]. intros H. rewrite IH; auto.
Qed.

Lemma om_set_in (m : omap) k f x : In x (map fst (om_set m k f)) -> x = k \/ In x (map fst m).
Proof.
  induction m as [|[k' f'] r IH]; simpl.
  - intros [H|[]]; auto.
  - destruct (str_eqb k k'); simpl; intros [H|H]; auto. apply IH in H. tauto.
Qed.
Lemma om_set_nodup (m : omap) k f : NoDup (map fst m) -> NoDup (map fst (om_set m k f)).
Proof.
  induction m as [|[k' f'] r IH]; simpl; intros H.
  - constructor; [intros [] | constructor].
  - inversion H as [|x l Hn Hr]; subst. destruct (str_eqb k k') eqn:E; simpl.
    + constructor; assumption.
    + constructor; [|apply IH; assumption]. intros Hin. apply om_set_in in Hin. destruct Hin as [Hin|Hin]; [|contradiction].
      subst. rewrite str_eqb_refl in E. discriminate.
Qed.
Lemma om_remove_in (m : omap) k x : In x (map fst (om_remove m k)) -> In x (map fst m).
Proof.
  induction m as [|[k' f'] r IH]; simpl; auto.
  destruct (str_eqb k k'); simpl; intros H; auto. destruct H; auto.
Qed.
Lemma om_remove_nodup (m : omap) k : NoDup (map fst m) -> NoDup (map fst (om_remove m k)).
Proof.
  induction m as [|[k' f'] r IH]; simpl; intros H; auto.
  inversion H as [|x l Hn Hr]; subst. destruct (str_eqb k k'); simpl; auto.
  constructor; auto. intros Hin. apply om_remove_in in Hin. contradiction.
Qed.

(* ------------------------------------------------------------------ one call *)
Lemma step_state e o : distinct_keys e ->
  abs (fst (step e o)) = fst (spec_step (abs e) o) /\ distinct_keys (fst (step e o))
  /\ etyp (fst (step e o)) = etyp e /\ ekey (fst (step e o)) = ekey e.
Proof.
  unfold distinct_keys, abs. intros Hnd.
  assert (Hset : forall f, abs_fields (fst (set_field (efields e) f)) = om_set (abs_fields (efields e)) (fkey f) f
                          /\ NoDup (map fkey (fst (set_field (efields e) f)))).
  { intros f. destruct (set_field_abs (efields e) f Hnd) as [H1 _]. split; [assumption|].
    rewrite <- abs_keys, H1. apply om_set_nodup. rewrite abs_keys. assumption. }
  assert (Hpop : forall k d, abs_fields (fst (pop (efields e) k d)) = om_remove (abs_fields (efields e)) k
                            /\ NoDup (map fkey (fst (pop (efields e) k d)))).
  { intros k d. unfold pop. rewrite fields_dict_abs by assumption. rewrite dict_get_lookup.
    destruct (om_lookup (abs_fields (efields e)) k) eqn:El; simpl.
    - rewrite filter_abs by assumption. split; [reflexivity|].
      rewrite <- abs_keys, filter_abs by assumption. apply om_remove_nodup. rewrite abs_keys; assumption.
    - rewrite om_remove_absent by assumption. auto. }
  destruct o as [f|k v|k d|k|k d|k|k]; simpl.
  - destruct (Hset f) as [H1 H2]. destruct (set_field (efields e) f) as [fs r]; simpl in *. auto.
  - destruct (Hset (mkfield k v None)) as [H1 H2]. destruct (set_field (efields e) (mkfield k v None)) as [fs r]; simpl in *. auto.
  - destruct (Hpop k d) as [H1 H2]. unfold pop in *. rewrite fields_dict_abs in * by assumption. rewrite dict_get_lookup in *.
    destruct (om_lookup (abs_fields (efields e)) k) eqn:El; simpl in *; auto.
  - destruct (Hpop k None) as [H1 H2]. destruct (pop (efields e) k None) as [fs r]; simpl in *. auto.
  - auto.
  - auto.
  - auto.
Qed.

Lemma step_result e o : distinct_keys e ->
  (forall k, o = OGetItem k -> k <> k_entrytype /\ k <> k_id) ->
  snd (step e o) = snd (spec_step (abs e) o).
Proof.
  unfold distinct_keys, abs. intros Hnd Hres.
  destruct o as [f|k v|k d|k|k d|k|k]; simpl.
  - destruct (set_field_abs (efields e) f Hnd) as [_ H]. destruct (set_field (efields e) f); simpl in *; assumption.
  - destruct (set_field_abs (efields e) (mkfield k v None) Hnd) as [_ H].
    destruct (set_field (efields e) (mkfield k v None)); simpl in *; assumption.
  - unfold pop. rewrite fields_dict_abs by assumption. rewrite dict_get_lookup.
    destruct (om_lookup (abs_fields (efields e)) k); reflexivity.
  - destruct (pop (efields e) k None); reflexivity.
  - unfold get. rewrite fields_dict_abs by assumption. rewrite dict_get_lookup. reflexivity.
  - unfold contains, dict_has. rewrite fields_dict_abs by assumption. rewrite dict_get_lookup. reflexivity.
  - destruct (Hres k eq_refl) as [H1 H2]. unfold getitem.
    apply str_eqb_neq in H1. apply str_eqb_neq in H2. rewrite H1, H2.
    rewrite fields_dict_abs by assumption. rewrite dict_get_lookup. reflexivity.
Qed.

(* ------------------------------------------------------------------ histories *)
Lemma run_state ops : forall e, distinct_keys e ->
  abs (fst (run ops e)) = fst (run_spec ops (abs e)) /\ distinct_keys (fst (run ops e))
  /\ etyp (fst (run ops e)) = etyp e /\ ekey (fst (run ops e)) = ekey e.
Proof.
  induction ops as [|o r IH]; intros e Hnd; simpl; auto.
  destruct (step_state e o Hnd) as (H1 & H2 & H3 & H4).
  destruct (step e o) as [e1 x] eqn:Es. simpl in *.
  destruct (spec_step (abs e) o) as [m1 y] eqn:Em. simpl in *. subst m1.
  destruct (IH e1 H2) as (I1 & I2 & I3 & I4).
  destruct (run r e1) as [e2 xs]. destruct (run_spec r (abs e1)) as [m2 ys]. simpl in *.
  repeat split; congruence.
Qed.

Lemma refines ops : forall e, distinct_keys e -> no_reserved ops ->
  snd (run ops e) = snd (run_spec ops (abs e)) /\ abs (fst (run ops e)) = fst (run_spec ops (abs e)).
Proof.
  intros e Hnd Hres. split; [|apply run_state; assumption].
  revert e Hnd Hres. induction ops as [|o r IH]; intros e Hnd Hres; simpl; auto.
  destruct (step_state e o Hnd) as (H1 & H2 & _).
  assert (Hr : snd (step e o) = snd (spec_step (abs e) o)).
  { apply step_result; auto. intros k Hk. apply Hres. left. assumption. }
  destruct (step e o) as [e1 x]. destruct (spec_step (abs e) o) as [m1 y]. simpl in *. subst m1 y.
  assert (IHr := IH e1 H2 (fun k Hk => Hres k (or_intror Hk))).
  destruct (run r e1) as [e2 xs]. destruct (run_spec r (abs e1)) as [m2 ys]. simpl in *. congruence.
Qed.

Lemma views ops e : distinct_keys e ->
  let e' := fst (run ops e) in
  fields_dict (efields e') = map (fun f => (fkey f, f)) (efields e')
  /\ items e' = (k_entrytype, VStr (etyp e)) :: (k_id, VStr (ekey e)) :: map (fun f => (fkey f, fval f)) (efields e')
  /\ distinct_keys e'.
Proof.
  intros Hnd e'. destruct (run_state ops e Hnd) as (_ & H2 & H3 & H4). fold e' in H2, H3, H4.
  repeat split; auto.
  - apply fields_dict_abs. assumption.
  - unfold items. rewrite H3, H4. reflexivity.
Qed.

Lemma run_frame ops : forall e, etyp (fst (run ops e)) = etyp e /\ ekey (fst (run ops e)) = ekey e.
Proof.
  induction ops as [|o r IH]; intros e; simpl; auto.
  assert (H : etyp (fst (step e o)) = etyp e /\ ekey (fst (step e o)) = ekey e).
  { destruct o; simpl; auto;
      try (destruct (set_field (efields e) _)); try (destruct (pop (efields e) _ _)); simpl; auto. }
  destruct (step e o) as [e1 x]. simpl in H. destruct (IH e1) as [I1 I2]. destruct (run r e1). simpl in *.
  destruct H; split; congruence.
Qed.

Lemma reserved ops e :
  getitem (fst (run ops e)) k_entrytype = RVal (VStr (etyp e)) /\ getitem (fst (run ops e)) k_id = RVal (VStr (ekey e)).
Proof.
  destruct (run_frame ops e) as [H1 H2]. unfold getitem. rewrite H1, H2.
  rewrite str_eqb_refl. replace (str_eqb k_id k_entrytype) with false by (vm_compute; reflexivity).
  rewrite str_eqb_refl. auto.
Qed.

(* ------------------------------------------------------------------ generic facts about insertion-ordered dicts *)
Lemma dict_get_in {V} (m : list (str * V)) k v : dict_get m k = Some v -> In (k, v) m.
Proof.
  induction m as [|[k' v'] r IH]; simpl; [discriminate|].
  destruct (str_eqb k k') eqn:E.
  - apply str_eqb_eq in E. intros H; inversion H; subst. left; reflexivity.
  - intros H. right. auto.
Qed.
Lemma dict_get_none {V} (m : list (str * V)) k : dict_get m k = None <-> ~ In k (map fst m).
Proof.
  induction m as [|[k' v'] r IH]; simpl; [tauto|].
  destruct (str_eqb k k') eqn:E.
  - apply str_eqb_eq in E. subst. split; [discriminate | intros H; exfalso; apply H; left; reflexivity].
  - apply str_eqb_neq in E. rewrite IH. split; intros H; [intros [H1|H1]; [congruence | contradiction] | tauto].
Qed.
Lemma dict_get_nodup {V} (m : list (str * V)) k v : NoDup (map fst m) -> In (k, v) m -> dict_get m k = Some v.
Proof.
  induction m as [|[k' v'] r IH]; simpl; intros Hnd Hin; [contradiction|].
  inversion Hnd as [|x l Hn Hr]; subst.
  destruct Hin as [Hin|Hin].
  - inversion Hin; subst. rewrite str_eqb_refl. reflexivity.
  - destruct (str_eqb k k') eqn:E.
    + apply str_eqb_eq in E. subst. exfalso. apply Hn. change k' with (fst (k', v)). apply in_map. assumption.
    + auto.
Qed.

(* ------------------------------------------------------------------ equality *)
Section ValueInd.
  Variable P : value -> Prop.
  Hypothesis Hstr : forall s, P (VStr s).
  Hypothesis Hint : forall z, P (VInt z).
  Hypothesis Hlist : forall l, Forall P l -> P (VList l).
  Hypothesis Hparts : forall a b c d, P (VParts a b c d).
  Hypothesis Hnone : P VNone.
  Hypothesis Hbool : forall b, P (VBool b).
  Hypothesis Hother : forall n, P (VOther n).
  Hypothesis Htuple : forall l, Forall P l -> P (VTuple l).
  Hypothesis Hdict : forall d, Forall (fun kv => P (snd kv)) d -> P (VDict d).
  Fixpoint value_ind' (v : value) : P v :=
    match v with
    | VStr s => Hstr s
    | VInt z => Hint z
    | VList l => Hlist l ((fix go (l : list value) : Forall P l :=
                             match l with [] => Forall_nil P | x :: r => Forall_cons x (value_ind' x) (go r) end) l)
    | VParts a b c d => Hparts a b c d
    | VNone => Hnone
    | VBool b => Hbool b
    | VOther n => Hother n
    | VTuple l => Htuple l ((fix go (l : list value) : Forall P l :=
                               match l with [] => Forall_nil P | x :: r => Forall_cons x (value_ind' x) (go r) end) l)
    | VDict d => Hdict d ((fix go (d : list (str * value)) : Forall (fun kv => P (snd kv)) d :=
                             match d with [] => Forall_nil _ | kv :: r => Forall_cons kv (value_ind' (snd kv)) (go r) end) d)
    end.
End ValueInd.

Lemma strs_eqb_eq a b : strs_eqb a b = true <-> a = b.
Proof.
  unfold strs_eqb. revert b. induction a as [|x a IH]; intros [|y b]; simpl; split; intros H; try congruence; try discriminate.
  - apply andb_true_iff in H as [H1 H2]. apply str_eqb_eq in H1. apply IH in H2. congruence.
  - inversion H; subst. rewrite str_eqb_refl. simpl. apply IH. reflexivity.
Qed.

(* the element-wise comparison used for lists and tuples *)
Lemma list_eqb_same (l : list value) :
  Forall (fun a => value_modelled a = true -> forall b, value_eqb a b = true <-> value_same a b) l ->
  (fix go (l : list value) : bool := match l with [] => true | x :: r => value_modelled x && go r end) l = true ->
  forall m,
  (fix go (l m : list value) : bool :=
     match l, m with [] , [] => true | x :: l', y :: m' => value_eqb x y && go l' m' | _, _ => false end) l m = true
  <-> (fix go (l m : list value) : Prop :=
         match l, m with [], [] => True | x :: l', y :: m' => value_same x y /\ go l' m' | _, _ => False end) l m.
Proof.
  intros HF. induction HF as [|x l Hx HF IH]; intros Hm [|y m]; simpl; try tauto; try (split; [discriminate | contradiction]).
  apply andb_true_iff in Hm as [Hm1 Hm2].
  rewrite andb_true_iff, (Hx Hm1 y), (IH Hm2 m). tauto.
Qed.

Lemma value_eqb_same a : value_modelled a = true -> forall b, value_eqb a b = true <-> value_same a b.
Proof.
  induction a using value_ind'; intros Hm y; try discriminate Hm.
  - destruct y; simpl; try (split; [discriminate | contradiction]). apply str_eqb_eq.
  - destruct y; simpl; try (split; [discriminate | contradiction]); apply Z.eqb_eq.
  - destruct y; try (simpl; split; [discriminate | contradiction]). apply list_eqb_same; assumption.
  - destruct y; simpl; try (split; [discriminate | contradiction]).
    rewrite !andb_true_iff, !strs_eqb_eq. tauto.
  - destruct y; simpl; try (split; [discriminate | contradiction]). tauto.
  - destruct y; simpl; try (split; [discriminate | contradiction]); [apply Z.eqb_eq | apply eqb_true_iff].
  - destruct y; try (simpl; split; [discriminate | contradiction]). apply list_eqb_same; assumption.
Qed.

Lemma optZ_eqb_eq a b : optZ_eqb a b = true <-> a = b.
Proof. destruct a, b; simpl; split; intros H; try congruence; try discriminate.
  - apply Z.eqb_eq in H; congruence.
  - inversion H; apply Z.eqb_refl.
Qed.
Lemma optstr_eqb_eq a b : optstr_eqb a b = true <-> a = b.
Proof. destruct a, b; simpl; split; intros H; try congruence; try discriminate.
  - apply str_eqb_eq in H; congruence.
  - inversion H; apply str_eqb_refl.
Qed.

Lemma field_eq_same a b : field_modelled a = true -> (field_py_eq a b = true <-> field_same a b).
Proof.
  intros Hm. unfold field_py_eq, field_same. rewrite !andb_true_iff, optZ_eqb_eq, str_eqb_eq, (value_eqb_same _ Hm). tauto.
Qed.

Lemma fields_eq_same a : forallb field_modelled a = true -> forall b, fields_py_eq a b = true <-> list_same field_same a b.
Proof.
  induction a as [|x a IH]; intros Hm [|y b]; simpl; try tauto; try (split; [discriminate | contradiction]).
  simpl in Hm. apply andb_true_iff in Hm as [H1 H2].
  rewrite andb_true_iff, (field_eq_same x y H1), (IH H2 b). tauto.
Qed.

Lemma meta_eq_same m1 m2 : meta_modelled m1 = true -> NoDup (map fst m1) -> NoDup (map fst m2) ->
  (meta_py_eq m1 m2 = true <-> meta_same m1 m2).
Proof.
  intros Hm N1 N2. unfold meta_py_eq, meta_same. rewrite andb_true_iff, Nat.eqb_eq, forallb_forall. split.
  - intros [Hlen Hall] k.
    assert (Hincl : incl (map fst m1) (map fst m2)).
    { intros x Hx. apply in_map_iff in Hx as [[k1 v1] [E Hin]]. simpl in E; subst.
      specialize (Hall _ Hin). simpl in Hall. destruct (dict_get m2 x) eqn:G; [|discriminate].
      apply dict_get_in in G. change x with (fst (x, v)). apply in_map; assumption. }
    destruct (dict_get m1 k) as [v|] eqn:G1.
    + apply dict_get_in in G1. specialize (Hall _ G1). simpl in Hall.
      destruct (dict_get m2 k) as [w|]; [|discriminate].
      apply value_eqb_same; [|assumption].
      unfold meta_modelled in Hm. rewrite forallb_forall in Hm. apply (Hm _ G1).
    + destruct (dict_get m2 k) as [w|] eqn:G2; [|exact I].
      apply dict_get_none in G1. apply G1.
      assert (Hincl' : incl (map fst m2) (map fst m1)).
      { apply NoDup_length_incl; auto. rewrite !map_length. lia. }
      apply Hincl'. apply dict_get_in in G2. change k with (fst (k, w)). apply in_map; assumption.
  - intros Hs.
    assert (I12 : incl (map fst m1) (map fst m2)).
    { intros x Hx. specialize (Hs x). destruct (dict_get m1 x) eqn:G1.
      - destruct (dict_get m2 x) eqn:G2; [|contradiction]. apply dict_get_in in G2. change x with (fst (x, v0)). apply in_map; assumption.
      - apply dict_get_none in G1. contradiction. }
    assert (I21 : incl (map fst m2) (map fst m1)).
    { intros x Hx. specialize (Hs x). destruct (dict_get m2 x) eqn:G2.
      - destruct (dict_get m1 x) eqn:G1; [|contradiction]. apply dict_get_in in G1. change x with (fst (x, v0)). apply in_map; assumption.
      - apply dict_get_none in G2. contradiction. }
    split.
    + pose proof (NoDup_incl_length N1 I12) as L1. pose proof (NoDup_incl_length N2 I21) as L2.
      rewrite !map_length in L1, L2. lia.
    + intros [k v] Hin. simpl. specialize (Hs k). rewrite (dict_get_nodup m1 k v N1 Hin) in Hs.
      destruct (dict_get m2 k) as [w|]; [|contradiction].
      apply value_eqb_same; [|assumption].
      unfold meta_modelled in Hm. rewrite forallb_forall in Hm. apply (Hm _ Hin).
Qed.

Lemma hdr_eq_same h1 h2 : meta_modelled (meta h1) = true -> NoDup (map fst (meta h1)) -> NoDup (map fst (meta h2)) ->
  (hdr_py_eq h1 h2 = true <-> hdr_same h1 h2).
Proof.
  intros Hm N1 N2. unfold hdr_py_eq, hdr_same.
  rewrite !andb_true_iff, optZ_eqb_eq, optstr_eqb_eq, (meta_eq_same _ _ Hm N1 N2). tauto.
Qed.

Lemma block_eq_same a b : block_modelled a = true -> meta_wf a -> meta_wf b ->
  (block_py_eq a b = true <-> block_same a b).
Proof.
  unfold block_modelled, meta_wf. intros Hm N1 N2. apply andb_true_iff in Hm as [Hmm Hmv].
  destruct a, b; simpl in *; try (split; [discriminate | contradiction]); try discriminate Hmv.
  - rewrite !andb_true_iff, (hdr_eq_same _ _ Hmm N1 N2), !str_eqb_eq, (fields_eq_same _ Hmv). tauto.
  - rewrite !andb_true_iff, (hdr_eq_same _ _ Hmm N1 N2), str_eqb_eq, (value_eqb_same _ Hmv). tauto.
  - rewrite !andb_true_iff, (hdr_eq_same _ _ Hmm N1 N2), str_eqb_eq. tauto.
  - rewrite !andb_true_iff, (hdr_eq_same _ _ Hmm N1 N2), str_eqb_eq. tauto.
  - rewrite !andb_true_iff, (hdr_eq_same _ _ Hmm N1 N2), str_eqb_eq. tauto.
Qed.

(* ------------------------------------------------------------------ copies compare equal *)
Lemma value_eqb_refl v : value_eqb v v = true.
Proof.
  induction v using value_ind'; simpl; auto using str_eqb_refl, Z.eqb_refl, eqb_reflx.
  - induction H as [|x l Hx HF IH]; simpl; auto. rewrite Hx, IH. reflexivity.
  - rewrite !(proj2 (strs_eqb_eq _ _) eq_refl). reflexivity.
  - induction H as [|x l Hx HF IH]; simpl; auto. rewrite Hx, IH. reflexivity.
  - induction H as [|[k x] l Hx HF IH]; simpl in *; auto. rewrite str_eqb_refl, Hx, IH. reflexivity.
Qed.
Lemma field_py_eq_refl f : field_py_eq f f = true.
Proof. unfold field_py_eq. rewrite (proj2 (optZ_eqb_eq _ _) eq_refl), str_eqb_refl, value_eqb_refl. reflexivity. Qed.
Lemma fields_py_eq_refl fs : fields_py_eq fs fs = true.
Proof. induction fs; simpl; auto. rewrite field_py_eq_refl. assumption. Qed.
Lemma meta_py_eq_refl m : NoDup (map fst m) -> meta_py_eq m m = true.
Proof.
  intros N. unfold meta_py_eq. rewrite Nat.eqb_refl. simpl. apply forallb_forall. intros [k v] Hin. simpl.
  rewrite (dict_get_nodup m k v N Hin). apply value_eqb_refl.
Qed.
Lemma hdr_py_eq_refl h : NoDup (map fst (meta h)) -> hdr_py_eq h h = true.
Proof.
  intros N. unfold hdr_py_eq. rewrite (proj2 (optZ_eqb_eq _ _) eq_refl), (proj2 (optstr_eqb_eq _ _) eq_refl), meta_py_eq_refl; auto.
Qed.
Lemma block_py_eq_refl a : is_failed_class a = false -> meta_wf a -> block_py_eq a a = true.
Proof.
  unfold meta_wf. intros Hc N. destruct a; simpl in *; try discriminate Hc;
    rewrite (hdr_py_eq_refl _ N), ?str_eqb_refl, ?fields_py_eq_refl, ?value_eqb_refl; reflexivity.
Qed.

(* ------------------------------------------------------------------ for bool-free values "same" is equality *)
Definition plain_list : list value -> bool :=
  fix go (l : list value) : bool := match l with [] => true | x :: r => value_plain x && go r end.

Lemma list_same_eq (l : list value) :
  Forall (fun a => value_plain a = true -> forall b, value_plain b = true -> (value_same a b <-> a = b)) l ->
  plain_list l = true -> forall m, plain_list m = true ->
  ((fix go (l m : list value) : Prop :=
      match l, m with [], [] => True | x :: l', y :: m' => value_same x y /\ go l' m' | _, _ => False end) l m
   <-> l = m).
Proof.
  intros HF. induction HF as [|x l Hx HF IH]; intros Hp [|y m] Hq; simpl; try (split; [contradiction | discriminate]); [tauto|].
  simpl in Hp, Hq. apply andb_true_iff in Hp as [H1 H2]. apply andb_true_iff in Hq as [Q1 Q2].
  rewrite (Hx H1 y Q1), (IH H2 m Q2). split; [intros [A B]; congruence | intros E; inversion E; auto].
Qed.

Lemma value_same_plain a : value_plain a = true -> forall b, value_plain b = true -> (value_same a b <-> a = b).
Proof.
  induction a using value_ind'; intros Hp y Hq; try discriminate Hp;
    destruct y; try discriminate Hq; simpl; try (split; [contradiction | discriminate]).
  - split; congruence.
  - split; congruence.
  - rewrite (list_same_eq l H Hp l0 Hq). split; congruence.
  - split; [intros (A & B & C & D); congruence | intros E; inversion E; auto].
  - tauto.
  - rewrite (list_same_eq l H Hp l0 Hq). split; congruence.
Qed.

(* ------------------------------------------------------------------ witnesses for the non-vacuity examples *)
From Coq Require Import String.
Definition ex_entry : ent :=
  mkent (lit "article") (lit "k")
        [mkfield (lit "A") (VStr (lit "x")) (Some 1%Z); mkfield (lit "a") (VStr (lit "y")) (Some 2%Z);
         mkfield (lit "ab") (VInt 3) None].
Definition ex_ops : list eop :=
  [OSetItem (lit "a") (VStr (lit "new")); OPop (lit "A") None; OSetField (mkfield (lit "A") VNone (Some 9%Z));
   ODel (lit "zz"); OGetItem (lit "zz"); OGet (lit "ab") None; OIn (lit "a"); OGetItem (lit "a")].

Lemma example_hypotheses : distinct_keys ex_entry /\ no_reserved ex_ops.
Proof.
  split.
  - unfold distinct_keys. simpl. repeat constructor; simpl; intros H; repeat (destruct H as [H|H]; try discriminate H); assumption.
  - intros k Hin. simpl in Hin.
    repeat (destruct Hin as [Hin|Hin]; [try discriminate Hin; inversion Hin; subst; split; intros E; discriminate E|]).
    contradiction.
Qed.
(* replace kept the position of "a", the re-added "A" went to the end, the absent lookup raised KeyError *)
Lemma example_run :
  map fkey (efields (fst (run ex_ops ex_entry))) = [lit "a"; lit "ab"; lit "A"]
  /\ nth 4 (snd (run ex_ops ex_entry)) RNone = RKeyError
  /\ nth 7 (snd (run ex_ops ex_entry)) RNone = RVal (VStr (lit "new")).
Proof. vm_compute. repeat split; reflexivity. Qed.

Definition ex_block (v : value) : block :=
  BEntry (mkhdr (Some 3%Z) (Some (lit "@article{k}")) [(lit "m", VInt 1)]) (lit "article") (lit "k")
         [mkfield (lit "t") v (Some 4%Z)].
Lemma example_eq :
  block_modelled (ex_block (VStr (lit "x"))) = true /\ meta_wf (ex_block (VStr (lit "x")))
  /\ block_py_eq (ex_block (VStr (lit "x"))) (ex_block (VStr (lit "x"))) = true
  /\ block_py_eq (ex_block (VStr (lit "x"))) (ex_block (VStr (lit "y"))) = false
  /\ block_py_eq (ex_block (VStr (lit "1"))) (ex_block (VInt 1)) = false.
Proof.
  repeat split; try (vm_compute; reflexivity).
  unfold meta_wf. simpl. repeat constructor. intros [].
Qed.
