(* C10, the re-parse clause: AddEnclosing's default enclosing around a brace-balanced value, written into an
   entry and split again, is one entry with one field holding exactly that text, and RemoveEnclosing gives the
   value back.  The value is the render of a grammar AST (Model/Grammar.v):
     - brace default: [braced] content with [wf_braced false b] (no active unbalanced brace character, does
       not end in a backslash) and side condition G towards the closing brace, [noat v [c_rb]] (this is
       exactly the exclusion of finding K2: no '@' word* blank* '{' inside the value);
     - quote default: [quoted] content with [wf_quoted false q] (no active quote anywhere, which is the
       quantifier's restriction "no bare quote outside braces" plus the exclusion of finding K4, an active
       quote inside braces) and [noat v [c_quote]].
   Composition of: Proofs/SplitGrammar.v (split_render), Model/Enclosing.v (enclose, strip_enclosing),
   Model/Pipeline.v (parse_default). *)
From Coq Require Import List NArith ZArith Bool Lia String.
From BP Require Import Base.Chars Model.Blocks Model.Lexer Model.LibAdd Model.Splitter Spec.C03 Model.Grammar
  Proofs.SplitGrammar Model.Enclosing Model.Interpolate Model.Pipeline Proofs.EnclosingProofs Spec.C11 Proofs.InterpolateProofs.
Import ListNotations.
Local Open Scope Z_scope.

(* ------------------------------------------------------------------ the scan of _is_single_enclosed_piece
   over the render of well-formed braced / quoted content *)
Lemma delim_lb_rb pb c : match delim pb c with Some MLB | Some MRB => false | _ => true end = true ->
  pb = false -> ceq c c_lb = false /\ ceq c c_rb = false.
Proof.
  intros H ->. unfold delim in H. unfold ceq.
  destruct (c =? c_nl)%N eqn:E1.
  - apply N.eqb_eq in E1. subst. split; reflexivity.
  - cbn [negb] in H. destruct (c =? c_lb)%N; [discriminate|]. destruct (c =? c_rb)%N; [discriminate|]. split; reflexivity.
Qed.

Lemma scan_braced b : forall pb d k, wf_braced pb b = true -> k <> [] -> d > 0 ->
  scan true false pb d (render_braced b ++ k) = scan true false false d k.
Proof.
  induction b as [|c b IH|g IHg b IH]; intros pb d k W Hk Hd.
  - cbn in W. destruct pb; [discriminate | reflexivity].
  - cbn [wf_braced] in W. apply andb_true_iff in W as [W1 W2].
    cbn [render_braced app scan].
    assert (Hl : match render_braced b ++ k with [] => true | _ => false end = false)
      by (destruct (render_braced b); destruct k; try reflexivity; contradiction).
    rewrite Hl. destruct pb.
    + apply IH; assumption.
    + destruct (delim_lb_rb false c W1 eq_refl) as [A B]. rewrite A, B. cbn [negb]. rewrite !andb_false_r. apply IH; assumption.
  - cbn [wf_braced] in W. apply andb_true_iff in W as [W W3]. apply andb_true_iff in W as [W1 W2].
    destruct pb; [discriminate|].
    cbn [render_braced app scan]. rewrite ceq_refl.
    rewrite <- app_assoc. rewrite IHg; [|exact W2|discriminate|lia].
    cbn [app scan]. rewrite c_rb_ne_lb, ceq_refl.
    replace (d + 1 - 1) with d by lia.
    assert (E0 : (d =? 0) = false) by (apply Z.eqb_neq; lia). rewrite E0. cbn [andb].
    apply IH; assumption.
Qed.

Lemma delim_lb_rb_q pb c : match delim pb c with Some MLB | Some MRB | Some MQ => false | _ => true end = true ->
  pb = false -> ceq c c_lb = false /\ ceq c c_rb = false /\ ceq c c_quote = false.
Proof.
  intros H ->. unfold delim in H. unfold ceq.
  destruct (c =? c_nl)%N eqn:E1.
  - apply N.eqb_eq in E1. subst. repeat split; reflexivity.
  - cbn [negb] in H. destruct (c =? c_lb)%N; [discriminate|]. destruct (c =? c_rb)%N; [discriminate|].
    destruct (c =? c_quote)%N; [discriminate|]. repeat split; reflexivity.
Qed.

Lemma scan_quoted q : forall pb d k, wf_quoted pb q = true -> k <> [] ->
  scan false false pb d (render_quoted q ++ k) = scan false false false d k.
Proof.
  induction q as [|c q IH|g IHg q IH]; intros pb d k W Hk.
  - cbn in W. destruct pb; [discriminate | reflexivity].
  - cbn [wf_quoted] in W. apply andb_true_iff in W as [W1 W2].
    cbn [render_quoted app scan].
    assert (Hl : match render_quoted q ++ k with [] => true | _ => false end = false)
      by (destruct (render_quoted q); destruct k; try reflexivity; contradiction).
    rewrite Hl. destruct pb.
    + apply IH; assumption.
    + destruct (delim_lb_rb_q false c W1 eq_refl) as (A & B & C). rewrite A, B, C. cbn [andb]. apply IH; assumption.
  - cbn [wf_quoted] in W. apply andb_true_iff in W as [W W3]. apply andb_true_iff in W as [W1 W2].
    destruct pb; [discriminate|].
    cbn [render_quoted app scan]. rewrite ceq_refl.
    rewrite <- app_assoc. rewrite IHg; [|exact W2|discriminate].
    cbn [app scan]. rewrite c_rb_ne_lb, ceq_refl. rewrite andb_false_r.
    replace (d + 1 - 1) with d by lia.
    apply IH; assumption.
Qed.

(* {v} is one braced piece, "v" is one quoted piece *)
Lemma single_braced b : wf_braced false b = true ->
  is_single_enclosed_piece (c_lb :: render_braced b ++ [c_rb]) = true.
Proof.
  intros W. unfold is_single_enclosed_piece. rewrite last_ch_snoc, !ceq_refl. cbn [andb negb].
  change (scan true true false 0 (c_lb :: render_braced b ++ [c_rb]))
    with (scan true false false 1 (render_braced b ++ [c_rb])).
  rewrite scan_braced; [reflexivity | exact W | discriminate | lia].
Qed.

Lemma single_quoted q : wf_quoted false q = true ->
  is_single_enclosed_piece (c_quote :: render_quoted q ++ [c_quote]) = true.
Proof.
  intros W. unfold is_single_enclosed_piece. rewrite last_ch_snoc, !ceq_refl.
  change (ceq c_quote c_lb) with false. cbn [andb negb].
  assert (Hstep : scan false true false 0 (c_quote :: render_quoted q ++ [c_quote])
                  = scan false false false 0 (render_quoted q ++ [c_quote])).
  { destruct (render_quoted q ++ [c_quote]) eqn:E; [destruct (render_quoted q); discriminate | reflexivity]. }
  rewrite Hstep, scan_quoted; [reflexivity | exact W | discriminate].
Qed.

Lemma strip_wrapped c0 t x : isspace c0 = false -> isspace x = false -> strip (c0 :: t ++ [x]) = c0 :: t ++ [x].
Proof.
  intros H0 Hx.
  assert (T : tight (c0 :: t ++ [x]) = true).
  { apply tight_intro; [exists c0, (t ++ [x]); split; [reflexivity | exact H0] | exists (c0 :: t), x; split; [reflexivity | exact Hx]]. }
  pose proof (strip_tight [] (c0 :: t ++ [x]) [] eq_refl eq_refl T) as E.
  cbn [app] in E. rewrite app_nil_r in E. exact E.
Qed.

Lemma strip_enclosing_wrapped c0 t x : isspace c0 = false -> isspace x = false ->
  is_single_enclosed_piece (c0 :: t ++ [x]) = true -> strip_enclosing (c0 :: t ++ [x]) = (t, [c0]).
Proof.
  intros H0 Hx S. change (strip_enclosing (c0 :: t ++ [x])) with (strip_core (strip (c0 :: t ++ [x]))).
  rewrite strip_wrapped by assumption. rewrite strip_core_snoc, S. reflexivity.
Qed.

(* RemoveEnclosing on the enclosed text gives the value back, exactly (the content is not stripped) *)
Theorem strip_enclosing_braced b : wf_braced false b = true ->
  strip_enclosing (c_lb :: render_braced b ++ [c_rb]) = (render_braced b, [c_lb]).
Proof. intros W. apply strip_enclosing_wrapped; [reflexivity | reflexivity | apply single_braced; exact W]. Qed.

Theorem strip_enclosing_quoted q : wf_quoted false q = true ->
  strip_enclosing (c_quote :: render_quoted q ++ [c_quote]) = (render_quoted q, [c_quote]).
Proof. intros W. apply strip_enclosing_wrapped; [reflexivity | reflexivity | apply single_quoted; exact W]. Qed.

(* ------------------------------------------------------------------ side condition G in the one-field entry *)
Definition noatch (s : str) : bool := forallb (fun c => negb (c =? c_at)%N) s.

Lemma noat_free t rest : noatch t = true -> noat t rest = true.
Proof.
  induction t as [|c t IH]; [reflexivity|]. cbn [noatch forallb noat]. intros H. apply andb_true_iff in H as [H1 H2].
  rewrite H1. cbn [orb andb]. apply IH. exact H2.
Qed.

Lemma drop_while_stop p r c X : p c = false -> drop_while p (r ++ c :: X) = drop_while p r ++ c :: X.
Proof.
  intros Hc. induction r as [|a r IH]; cbn [app drop_while].
  - rewrite Hc. reflexivity.
  - destruct (p a); [exact IH | reflexivity].
Qed.

(* the look-ahead of the mark regex does not see past a character that is neither a word character nor a blank *)
Lemma at_ok_stop r c X : isword c = false -> is_sptab c = false -> at_ok (r ++ c :: X) = at_ok (r ++ [c]).
Proof.
  intros Hw Hs. unfold at_ok. rewrite !(drop_while_stop isword r c) by exact Hw.
  rewrite !(drop_while_stop is_sptab _ c) by exact Hs.
  destruct (drop_while is_sptab (drop_while isword r)); reflexivity.
Qed.

Lemma noat_stop t c X : isword c = false -> is_sptab c = false -> noat t (c :: X) = noat t [c].
Proof.
  intros Hw Hs. induction t as [|a t IH]; [reflexivity|]. cbn [noat]. rewrite IH, (at_ok_stop t c X Hw Hs). reflexivity.
Qed.

Lemma typ_noatch typ : typ_ok typ = true -> noatch typ = true.
Proof.
  unfold typ_ok, noatch. intros H. apply andb_true_iff in H as [_ H].
  rewrite forallb_forall in *. intros c Hc. specialize (H c Hc). apply andb_true_iff in H as [H _].
  destruct (c =? c_at)%N eqn:E; [|reflexivity]. apply N.eqb_eq in E. subst. discriminate.
Qed.

Lemma ws_noatch w : is_ws w = true -> noatch w = true.
Proof.
  unfold is_ws, noatch. rewrite !forallb_forall. intros H c Hc. specialize (H c Hc).
  destruct (c =? c_at)%N eqn:E; [|reflexivity]. apply N.eqb_eq in E. subst. discriminate.
Qed.

Lemma noatch_app a b : noatch (a ++ b) = noatch a && noatch b.
Proof. apply forallb_app. Qed.

(* ------------------------------------------------------------------ the entry a value is written into *)
(* '@' typ '{' key ',' pre name w1 '=' w2 value post '}' *)
Definition entry_text (typ key pre name w1 w2 val post : str) : str :=
  c_at :: typ ++ c_lb :: key ++ c_comma :: pre ++ name ++ w1 ++ c_eq :: w2 ++ val ++ post ++ [c_rb].

Definition one_field (pre name w1 w2 : str) (p : piece) (post : str) : gfield := mkgf pre name w1 w2 (mkgv p []) post.
Definition one_item (typ key pre name w1 w2 : str) (p : piece) (post : str) : item :=
  IEntry typ [] [] key [] (EComma (FLast (one_field pre name w1 w2 p post))).
Definition one_doc (typ key pre name w1 w2 : str) (p : piece) (post : str) : doc :=
  mkdoc [] [(one_item typ key pre name w1 w2 p post, [])].

Lemma render_one_doc typ key pre name w1 w2 p post :
  render (one_doc typ key pre name w1 w2 p post) = entry_text typ key pre name w1 w2 (render_piece p) post.
Proof.
  unfold render, one_doc, one_item, one_field, entry_text. cbn.
  unfold entry_head, render_field, field_head, render_value. cbn.
  rewrite !app_nil_r. repeat (rewrite <- ?app_assoc; cbn [app]). reflexivity.
Qed.

(* the frame around the value: an entry type (a word that is not comment/preamble/string), a key and a field name
   (key characters, no '@', not ending in a backslash), white space elsewhere *)
Definition frame_ok (typ key pre name w1 w2 post : str) : bool :=
  typ_ok typ && negb (starts_with s_comment (lower typ)) && negb (starts_with s_preamble (lower typ))
  && negb (starts_with s_string (lower typ))
  && name_ok key && negb (Grammar.ends_bs false key) && noatch key
  && is_ws pre && name_ok name && is_ws w1 && negb (Grammar.ends_bs false (name ++ w1)) && noatch name
  && is_ws w2 && is_ws post.

Lemma one_doc_wf typ key pre name w1 w2 p post :
  frame_ok typ key pre name w1 w2 post = true -> wf_piece p = true ->
  Grammar.ends_bs false (render_piece p) = false -> noat (render_piece p) (post ++ [c_rb]) = true ->
  wf_doc (one_doc typ key pre name w1 w2 p post) /\ nodup_fields (one_doc typ key pre name w1 w2 p post).
Proof.
  intros F Wp Eb Na. unfold frame_ok in F.
  repeat match goal with H : _ && _ = true |- _ => apply andb_true_iff in H; destruct H end.
  split; [|reflexivity].
  unfold wf_doc, wf_doc_b, one_doc. cbn [d_gap0 d_items is_ws forallb wf_items andb].
  assert (Wf : wf_field (one_field pre name w1 w2 p post) = true).
  { unfold wf_field, one_field. cbn [g_pre g_name g_w1 g_w2 g_val g_post].
    unfold wf_value, render_value. cbn [v_first v_more wf_more render_more]. rewrite app_nil_r.
    rewrite (ends_bs_app (render_piece p)), Eb. rewrite (ends_bs_ws post false) by (assumption || reflexivity).
    repeat match goal with H : ?x = true |- context [?x] => rewrite H end. reflexivity. }
  assert (Wi : wf_item (one_item typ key pre name w1 w2 p post) = true).
  { unfold wf_item, one_item. cbn [wf_etail wf_fields is_hws is_ws forallb]. rewrite app_nil_r.
    repeat match goal with H : ?x = true |- context [?x] => rewrite H end. reflexivity. }
  rewrite Wi. cbn [andb is_free one_item negb render_items]. rewrite andb_true_r, app_nil_r.
  (* side condition G *)
  unfold one_item, render_body, render_etail, render_fields, entry_head, render_field, field_head, one_field, render_value.
  cbn [g_pre g_name g_w1 g_w2 g_val g_post v_first v_more render_more app]. rewrite !app_nil_r.
  assert (N1 : noatch (typ ++ c_lb :: key) = true).
  { rewrite noatch_app, (typ_noatch typ) by assumption. cbn [noatch forallb]. change (forallb (fun c => negb (c =? c_at)%N)) with noatch.
    match goal with H : noatch key = true |- _ => rewrite H end. reflexivity. }
  assert (N2 : noatch (c_comma :: (pre ++ name ++ w1) ++ c_eq :: w2) = true).
  { cbn [noatch forallb]. change (forallb (fun c => negb (c =? c_at)%N)) with noatch.
    rewrite !noatch_app. cbn [noatch forallb]. change (forallb (fun c => negb (c =? c_at)%N)) with noatch.
    rewrite (ws_noatch pre), (ws_noatch w1), (ws_noatch w2) by assumption.
    match goal with H : noatch name = true |- _ => rewrite H end. reflexivity. }
  replace ((typ ++ c_lb :: key) ++ c_comma :: ((pre ++ name ++ w1) ++ c_eq :: w2 ++ render_piece p ++ post) ++ [c_rb])
    with ((typ ++ c_lb :: key) ++ (c_comma :: (pre ++ name ++ w1) ++ c_eq :: w2) ++ render_piece p ++ (post ++ [c_rb])).
  2:{ repeat (rewrite <- ?app_assoc; cbn [app]). reflexivity. }
  set (A := typ ++ c_lb :: key) in *. set (B := c_comma :: (pre ++ name ++ w1) ++ c_eq :: w2) in *.
  rewrite (noat_app A), (noat_app B), (noat_app (render_piece p)).
  rewrite (noat_free _ _ N1), (noat_free _ _ N2). rewrite app_nil_r, Na.
  rewrite noat_free; [reflexivity|]. rewrite noatch_app, ws_noatch by assumption. reflexivity.
Qed.

(* ------------------------------------------------------------------ split and default parse of the entry *)
Definition fline_of (typ key pre name w1 : str) : Z :=
  0 + count_nl (entry_head typ [] [] key []) + count_nl (pre ++ name ++ w1).

Lemma one_doc_split typ key pre name w1 w2 p post :
  frame_ok typ key pre name w1 w2 post = true -> wf_piece p = true ->
  Grammar.ends_bs false (render_piece p) = false -> noat (render_piece p) (post ++ [c_rb]) = true ->
  let text := entry_text typ key pre name w1 w2 (render_piece p) post in
  split_raw text = Blocks [BEntry (mkhdr (Some 0) (Some text) []) (lower typ) key
                             [mkfield name (VStr (render_piece p)) (Some (fline_of typ key pre name w1))]].
Proof.
  intros F Wp Eb Na text. destruct (one_doc_wf typ key pre name w1 w2 p post F Wp Eb Na) as [W N].
  pose proof (split_render _ W N) as S. rewrite render_one_doc in S. fold text in S. rewrite S. clear S.
  unfold expected, one_doc. cbn [d_gap0 d_items exp_items count_nl block_of one_item exp_fields].
  unfold exp_field, one_field, render_value, field_head. cbn [g_name g_val g_pre g_w1 v_first v_more render_more].
  rewrite app_nil_r.
  change (render_item (IEntry typ [] [] key [] (EComma (FLast (mkgf pre name w1 w2 (mkgv p []) post)))))
    with (render_item (one_item typ key pre name w1 w2 p post)).
  assert (R : render_item (one_item typ key pre name w1 w2 p post) = text).
  { pose proof (render_one_doc typ key pre name w1 w2 p post) as R. unfold render, one_doc in R.
    cbn [d_gap0 d_items render_items app] in R. rewrite !app_nil_r in R. exact R. }
  rewrite R. reflexivity.
Qed.

Lemma parse_one_entry text h t k name val fl v e :
  nonstring_or_enclosed (VStr val) = true -> strip_enclosing val = (v, e) ->
  split_raw text = Blocks [BEntry h t k [mkfield name (VStr val) fl]] ->
  parse_default text =
  PVal [BEntry (set_meta h Gen.Constants.remove_enclosing_metadata_key (VDict [(name, VStr e)])) t k [mkfield name (VStr v) fl]].
Proof.
  intros En Es S. unfold parse_default, split. rewrite S.
  change (rebuild [BEntry h t k [mkfield name (VStr val) fl]]) with [BEntry h t k [mkfield name (VStr val) fl]].
  unfold default_stack, resolve_lib, resolve_on.
  change (lblocks (lib_of [BEntry h t k [mkfield name (VStr val) fl]])) with [BEntry h t k [mkfield name (VStr val) fl]].
  cbn [map resolve_block resolve_fields fval]. rewrite En.
  unfold remove_lib, block_mw. cbn [map_res remove_block remove_fields fval strip_value]. rewrite Es.
  cbn [remove_fields dict_set fkey fline]. reflexivity.
Qed.

Lemma wrapped_enclosed_b c0 c1 t : (c0 = c_lb /\ c1 = c_rb) \/ (c0 = c_quote /\ c1 = c_quote) ->
  nonstring_or_enclosed (VStr (c0 :: t ++ [c1])) = true.
Proof.
  intros H. apply enclosed_b. unfold enclosed, starts, ends.
  destruct H as [[-> ->]|[-> ->]]; [right | left].
  - split; [eexists; reflexivity | exists (c_lb :: t); reflexivity].
  - split; [eexists; reflexivity | exists (c_quote :: t); reflexivity].
Qed.

(* side condition G for the wrapped value from the one for the content *)
Lemma noat_wrapped c0 c1 v rest : (c0 =? c_at)%N = false -> (c1 =? c_at)%N = false ->
  isword c1 = false -> is_sptab c1 = false -> noat v [c1] = true -> noat (c0 :: v ++ [c1]) rest = true.
Proof.
  intros H0 H1 Hw Hs Hv. cbn [noat]. rewrite H0. cbn [negb orb andb].
  rewrite noat_app. cbn [app noat]. pose proof (noat_stop v c1 rest Hw Hs) as Q. rewrite Q, H1. cbn [negb orb andb]. rewrite andb_true_r. exact Hv.
Qed.

Lemma ends_bs_wrapped c0 v c1 : (c1 =? c_bs)%N = false -> Grammar.ends_bs false (c0 :: v ++ [c1]) = false.
Proof. intros H. change (c0 :: v ++ [c1]) with ((c0 :: v) ++ [c1]). rewrite ends_bs_app. cbn. exact H. Qed.

(* ------------------------------------------------------------------ C10, re-parse clause, brace default *)
Theorem C10_reparse_brace : forall (b : braced) typ key pre name w1 w2 post,
  frame_ok typ key pre name w1 w2 post = true ->
  wf_braced false b = true ->                          (* brace-balanced, no active brace outside a group, no final backslash *)
  noat (render_braced b) [c_rb] = true ->              (* not in K2: no '@' word* blank* '{' in the value *)
  let v := render_braced b in
  let ev := c_lb :: v ++ [c_rb] in
  let text := entry_text typ key pre name w1 w2 ev post in
  (forall md air, enclose (mkadd false true [c_lb]) (VStr v) md air = Enclosing.Val (VStr ev))
  /\ split_raw text = Blocks [BEntry (mkhdr (Some 0) (Some text) []) (lower typ) key
                                [mkfield name (VStr ev) (Some (fline_of typ key pre name w1))]]
  /\ strip_enclosing ev = (v, [c_lb])
  /\ parse_default text =
     PVal [BEntry (mkhdr (Some 0) (Some text) [(Gen.Constants.remove_enclosing_metadata_key, VDict [(name, VStr [c_lb])])])
             (lower typ) key [mkfield name (VStr v) (Some (fline_of typ key pre name w1))]].
Proof.
  intros b typ key pre name w1 w2 post F W Na v ev text.
  assert (S : split_raw text = Blocks [BEntry (mkhdr (Some 0) (Some text) []) (lower typ) key
                                [mkfield name (VStr ev) (Some (fline_of typ key pre name w1))]]).
  { apply (one_doc_split typ key pre name w1 w2 (PBraced b) post F W).
    - apply ends_bs_wrapped. reflexivity.
    - apply noat_wrapped; try reflexivity. exact Na. }
  pose proof (strip_enclosing_braced b W) as E. fold v in E. fold ev in E.
  split; [intros md air; destruct air; reflexivity|]. split; [exact S|]. split; [exact E|].
  assert (En : nonstring_or_enclosed (VStr ev) = true) by (apply wrapped_enclosed_b; left; split; reflexivity).
  rewrite (parse_one_entry text _ _ _ _ ev _ v [c_lb] En E S). reflexivity.
Qed.
Print Assumptions C10_reparse_brace.

(* ------------------------------------------------------------------ C10, re-parse clause, quote default *)
Theorem C10_reparse_quote : forall (q : quoted) typ key pre name w1 w2 post,
  frame_ok typ key pre name w1 w2 post = true ->
  wf_quoted false q = true ->                          (* brace-balanced, no active quote at all (outside braces: the
                                                          quantifier; inside braces: not in K4), no final backslash *)
  noat (render_quoted q) [c_quote] = true ->           (* not in K2 *)
  let v := render_quoted q in
  let ev := c_quote :: v ++ [c_quote] in
  let text := entry_text typ key pre name w1 w2 ev post in
  (forall md air, enclose (mkadd false true [c_quote]) (VStr v) md air = Enclosing.Val (VStr ev))
  /\ split_raw text = Blocks [BEntry (mkhdr (Some 0) (Some text) []) (lower typ) key
                                [mkfield name (VStr ev) (Some (fline_of typ key pre name w1))]]
  /\ strip_enclosing ev = (v, [c_quote])
  /\ parse_default text =
     PVal [BEntry (mkhdr (Some 0) (Some text) [(Gen.Constants.remove_enclosing_metadata_key, VDict [(name, VStr [c_quote])])])
             (lower typ) key [mkfield name (VStr v) (Some (fline_of typ key pre name w1))]].
Proof.
  intros q typ key pre name w1 w2 post F W Na v ev text.
  assert (S : split_raw text = Blocks [BEntry (mkhdr (Some 0) (Some text) []) (lower typ) key
                                [mkfield name (VStr ev) (Some (fline_of typ key pre name w1))]]).
  { apply (one_doc_split typ key pre name w1 w2 (PQuoted q) post F W).
    - apply ends_bs_wrapped. reflexivity.
    - apply noat_wrapped; try reflexivity. exact Na. }
  pose proof (strip_enclosing_quoted q W) as E. fold v in E. fold ev in E.
  split; [intros md air; destruct air; reflexivity|]. split; [exact S|]. split; [exact E|].
  assert (En : nonstring_or_enclosed (VStr ev) = true) by (apply wrapped_enclosed_b; right; split; reflexivity).
  rewrite (parse_one_entry text _ _ _ _ ev _ v [c_quote] En E S). reflexivity.
Qed.
Print Assumptions C10_reparse_quote.

(* ------------------------------------------------------------------ the exclusions are needed (findings K2, K4) *)
Definition blocks_of (o : outcome) : list block := match o with Blocks bs => bs | Raised => [] end.
Definition ex_frame (val : str) : str := entry_text (lit "article") (lit "k") (lit " ") (lit "t") (lit " ") (lit " ") val [].

(* K2: the brace-balanced value a @b{c} contains a block-start pattern; enclosed in braces and written into an
   entry it re-parses as three blocks (a failed block, an entry @b{c}, an implicit comment) *)
Definition k2_b : braced := bs_ (lit "a @b") (BGroup (bs_ (lit "c") BNil) BNil).
Theorem C10_reparse_brace_refuted_K2 :
  render_braced k2_b = lit "a @b{c}"
  /\ frame_ok (lit "article") (lit "k") (lit " ") (lit "t") (lit " ") (lit " ") [] = true
  /\ wf_braced false k2_b = true /\ noat (render_braced k2_b) [c_rb] = false
  /\ ex_frame (c_lb :: render_braced k2_b ++ [c_rb]) = lit "@article{k, t = {a @b{c}}}"
  /\ map class_of (blocks_of (split_raw (ex_frame (c_lb :: render_braced k2_b ++ [c_rb])))) = [CFailed; CEntry; CImpl]
  /\ forall h t k fs, split_raw (ex_frame (c_lb :: render_braced k2_b ++ [c_rb])) <> Blocks [BEntry h t k fs].
Proof.
  repeat (split; [vm_compute; reflexivity|]).
  intros h t k fs H. apply (f_equal (fun o => List.length (blocks_of o))) in H. vm_compute in H. discriminate.
Qed.

(* K4: the brace-balanced value {"} (an active quote inside braces); with the quote default it is written "{"}" and
   the splitter closes the value at the inner quote: the field holds "{" and the rest becomes an implicit comment.
   With the brace default the same value is fine (it is well-formed braced content). *)
Definition k4_q : quoted := QGroup (QChar c_quote QNil) QNil.
Definition k4_b : braced := BGroup (BChar c_quote BNil) BNil.
Theorem C10_reparse_quote_refuted_K4 :
  render_quoted k4_q = [c_lb; c_quote; c_rb] /\ render_braced k4_b = [c_lb; c_quote; c_rb]
  /\ wf_braced false k4_b = true /\ noat (render_braced k4_b) [c_rb] = true
  /\ wf_quoted false k4_q = false /\ noat (render_quoted k4_q) [c_quote] = true
  /\ map class_of (blocks_of (split_raw (ex_frame (c_quote :: render_quoted k4_q ++ [c_quote])))) = [CEntry; CImpl]
  /\ (forall h t k n fl, split_raw (ex_frame (c_quote :: render_quoted k4_q ++ [c_quote]))
                         <> Blocks [BEntry h t k [mkfield n (VStr (c_quote :: render_quoted k4_q ++ [c_quote])) fl]])
  /\ match blocks_of (split_raw (ex_frame (c_quote :: render_quoted k4_q ++ [c_quote]))) with
     | BEntry _ _ _ [f] :: _ => fval f = VStr [c_quote; c_lb; c_quote]
     | _ => False
     end.
Proof.
  repeat (split; [vm_compute; reflexivity|]). split.
  - intros h t k n fl H. apply (f_equal (fun o => List.length (blocks_of o))) in H. vm_compute in H. discriminate.
  - vm_compute. reflexivity.
Qed.
Print Assumptions C10_reparse_brace_refuted_K2.
Print Assumptions C10_reparse_quote_refuted_K4.

(* ------------------------------------------------------------------ non-vacuity: concrete instances *)
(* brace default: nested group, a quote and an escaped brace inside, an '@' that starts no block, white space at both ends *)
Definition ex_b : braced := bs_ (lit " A ") (BGroup (bs_ (lit "B=""x") BNil) (bs_ (lit " c, d\} e@f ") BNil)).
Example ex_b_text : ex_frame (c_lb :: render_braced ex_b ++ [c_rb]) = lit "@article{k, t = { A {B=""x} c, d\} e@f }}".
Proof. vm_compute. reflexivity. Qed.
Example ex_b_hyps : frame_ok (lit "article") (lit "k") (lit " ") (lit "t") (lit " ") (lit " ") [] = true
  /\ wf_braced false ex_b = true /\ noat (render_braced ex_b) [c_rb] = true.
Proof. vm_compute. repeat split. Qed.
Example ex_b_reparse :
  parse_default (ex_frame (c_lb :: render_braced ex_b ++ [c_rb])) =
  PVal [BEntry (mkhdr (Some 0) (Some (ex_frame (c_lb :: render_braced ex_b ++ [c_rb])))
                  [(Gen.Constants.remove_enclosing_metadata_key, VDict [(lit "t", VStr [c_lb])])])
          (lit "article") (lit "k") [mkfield (lit "t") (VStr (lit " A {B=""x} c, d\} e@f ")) (Some 0)]].
Proof.
  destruct ex_b_hyps as (F & W & N).
  destruct (C10_reparse_brace ex_b _ _ _ _ _ _ _ F W N) as (_ & _ & _ & P). unfold ex_frame. rewrite P. vm_compute. reflexivity.
Qed.
(* the same, checked against the executable model directly *)
Example ex_b_reparse_computed :
  match parse_default (ex_frame (c_lb :: render_braced ex_b ++ [c_rb])) with
  | PVal [BEntry _ _ _ [f]] => fval f = VStr (render_braced ex_b)
  | _ => False
  end.
Proof. vm_compute. reflexivity. Qed.

(* quote default: escaped quotes, a group, an unbalanced-looking escaped brace *)
Definition ex_q : quoted := qs_ (lit "say \""hi\"", ") (QGroup (qs_ (lit "o k") QNil) (qs_ (lit " \{ ") QNil)).
Example ex_q_text : ex_frame (c_quote :: render_quoted ex_q ++ [c_quote]) = lit "@article{k, t = ""say \""hi\"", {o k} \{ ""}".
Proof. vm_compute. reflexivity. Qed.
Example ex_q_hyps : wf_quoted false ex_q = true /\ noat (render_quoted ex_q) [c_quote] = true.
Proof. vm_compute. repeat split. Qed.
Example ex_q_reparse :
  parse_default (ex_frame (c_quote :: render_quoted ex_q ++ [c_quote])) =
  PVal [BEntry (mkhdr (Some 0) (Some (ex_frame (c_quote :: render_quoted ex_q ++ [c_quote])))
                  [(Gen.Constants.remove_enclosing_metadata_key, VDict [(lit "t", VStr [c_quote])])])
          (lit "article") (lit "k") [mkfield (lit "t") (VStr (lit "say \""hi\"", {o k} \{ ")) (Some 0)]].
Proof.
  destruct ex_b_hyps as (F & _ & _). destruct ex_q_hyps as (W & N).
  destruct (C10_reparse_quote ex_q _ _ _ _ _ _ _ F W N) as (_ & _ & _ & P). unfold ex_frame. rewrite P. vm_compute. reflexivity.
Qed.
Example ex_q_reparse_computed :
  match parse_default (ex_frame (c_quote :: render_quoted ex_q ++ [c_quote])) with
  | PVal [BEntry _ _ _ [f]] => fval f = VStr (render_quoted ex_q)
  | _ => False
  end.
Proof. vm_compute. reflexivity. Qed.
