(* C13, tokeniser layer: the single pass of parse_single_name_into_parts (strict mode) computes exactly the
   compositional Spec.C13 (atoms / sections / words / word_case), and fails exactly on the invalid names.

   Part 1  characters -> atoms          (the iterator/escape mechanism)
   Part 2  the pass on atoms  ~  a one-pass reference [gstep] that carries atoms instead of registers
   Part 3  the one-pass reference  =  the nested cuts and word_case of the spec
   Part 4  assembly *)
From Coq Require Import List NArith ZArith Bool Lia PeanoNat.
From BP Require Import Base.Chars Model.Blocks Gen.Constants Model.Names Spec.C13 Proofs.NamesPartProofs Proofs.NamesParseProofs.
Import ListNotations.

(* ---------------------------------------------------------------- facts about the generated character sets *)
Lemma ws_parse_facts e : ws_parse e = true ->
  ceq e c_lb = false /\ ceq e c_rb = false /\ ceq e c_bs = false /\ ceq e c_comma = false /\ isalpha e = false.
Proof.
  unfold ws_parse, in_set, names_ws_parse. cbn [existsb]. rewrite orb_false_r.
  intros H. repeat (apply orb_true_iff in H; destruct H as [H|H]); apply N.eqb_eq in H; subst e; vm_compute; auto.
Qed.

Lemma bs_facts : ceq c_bs c_lb = false /\ ceq c_bs c_rb = false /\ ceq c_bs c_comma = false /\ ws_parse c_bs = false
                 /\ isalpha c_bs = false.
Proof. vm_compute. auto. Qed.

Lemma upd_case_nonalpha k c : isalpha c = false -> upd_case k c = k.
Proof. unfold upd_case. intros ->. rewrite andb_false_r. reflexivity. Qed.

(* ---------------------------------------------------------------- Part 1: characters -> atoms *)
Definition parse_pair (st : pst) (c : ch) : pres pst :=
  if p_bracestart st then
    POk (mkpst (p_secs st) (p_cases st) (c :: c_bs :: p_word st) (p_case st) (p_level st) false (isalpha c) true false)
  else
    POk (mkpst (p_secs st) (p_cases st) (c :: c_bs :: p_word st) (upd_case (p_case st) c) (p_level st) false
               (p_controlseq st) (p_specialchar st) false).

Definition astep (strict : bool) (acc : pres pst) (a : atom) : pres pst :=
  match acc with
  | PErr e => PErr e
  | POk st => match a with AChar c => parse_norm strict st c | APair c => parse_pair st c end
  end.

Definition finish_esc (strict : bool) (r : pres pst) : pres pst :=
  match r with
  | PErr e => PErr e
  | POk st => if p_esc st then parse_norm strict (set_esc st false) c_bs else POk st
  end.

Lemma afold_err strict l e : fold_left (astep strict) l (PErr e) = PErr e.
Proof. induction l; [reflexivity|]. simpl. assumption. Qed.

Lemma norm_esc_false strict st c st' : parse_norm strict st c = POk st' -> p_esc st' = false.
Proof.
  unfold parse_norm. intros H.
  repeat (match type of H with context[if ?b then _ else _] => destruct b end; try discriminate;
          try (inversion H; subst; reflexivity)).
  all: destruct (p_word st); repeat (match type of H with context[if ?b then _ else _] => destruct b end; try discriminate);
       inversion H; subst; reflexivity.
Qed.
Lemma pair_esc_false st c st' : parse_pair st c = POk st' -> p_esc st' = false.
Proof. unfold parse_pair. destruct (p_bracestart st); intros H; inversion H; reflexivity. Qed.

Lemma set_esc_id st : p_esc st = false -> set_esc st false = st.
Proof. destruct st. simpl. intros ->. reflexivity. Qed.
Lemma set_esc_twice st b : set_esc (set_esc st b) false = set_esc st false.
Proof. reflexivity. Qed.

(* a backslash before whitespace: appending it silently and then handling the whitespace is the same as handling
   the backslash as an ordinary character first *)
Lemma bs_then_ws strict st e : ws_parse e = true ->
  parse_norm strict (mkpst (p_secs st) (p_cases st) (c_bs :: p_word st) (p_case st) (p_level st) (p_bracestart st)
                           (p_controlseq st) (p_specialchar st) false) e
  = match parse_norm strict st c_bs with POk st1 => parse_norm strict st1 e | PErr er => PErr er end.
Proof.
  intros Hws. destruct (ws_parse_facts e Hws) as (E1 & E2 & E3 & E4 & E5).
  destruct bs_facts as (B1 & B2 & B3 & B4 & B5).
  unfold parse_norm at 2. rewrite B1, B2, B3, B4. cbn [orb].
  destruct (negb (p_level st =? 0)%N) eqn:El.
  - unfold parse_norm. rewrite E1, E2. cbn [p_level p_controlseq p_specialchar p_case p_word p_secs p_cases]. rewrite El.
    rewrite B5, E5. rewrite !upd_case_nonalpha by assumption.
    destruct (p_controlseq st), (p_specialchar st); reflexivity.
  - unfold parse_norm. rewrite E1, E2. cbn [p_level p_controlseq p_specialchar p_case p_word p_secs p_cases]. rewrite El.
    rewrite Hws, orb_true_r. rewrite upd_case_nonalpha by exact B5. reflexivity.
Qed.

Lemma both_err strict r l e :
  finish_esc strict (fold_left (parse_step strict) r (PErr e)) = fold_left (astep strict) l (PErr e).
Proof. rewrite fold_err, afold_err. reflexivity. Qed.

Lemma chars_atoms strict : forall n s st, (length s <= n)%nat -> p_esc st = false ->
  finish_esc strict (fold_left (parse_step strict) s (POk st)) = fold_left (astep strict) (atoms s) (POk st).
Proof.
  induction n as [|n IH]; intros s st Hn He.
  - destruct s; [|simpl in Hn; lia]. simpl. rewrite He. reflexivity.
  - destruct s as [|c r]; [simpl; rewrite He; reflexivity|].
    cbn [fold_left atoms]. unfold parse_step at 2. rewrite He.
    destruct (ceq c c_bs) eqn:Ec.
    + apply N.eqb_eq in Ec. subst c.
      destruct r as [|e r'].
      * cbn [fold_left finish_esc p_esc set_esc]. cbn [astep]. rewrite set_esc_twice, set_esc_id by exact He. reflexivity.
      * cbn [fold_left]. unfold parse_step at 2. cbn [p_esc set_esc]. rewrite set_esc_twice, set_esc_id by exact He.
        unfold parse_esc. destruct (ws_parse e) eqn:Ews.
        -- rewrite bs_then_ws by exact Ews. cbn [fold_left astep].
           destruct (parse_norm strict st c_bs) as [st1|er] eqn:E1.
           ++ cbn [astep]. destruct (parse_norm strict st1 e) as [st2|er] eqn:E2.
              ** apply IH; [simpl in Hn; lia | eapply norm_esc_false; exact E2].
              ** cbn [astep]. apply both_err.
           ++ cbn [astep]. apply both_err.
        -- cbn [fold_left astep]. fold (parse_pair st e).
           destruct (parse_pair st e) as [st2|er] eqn:E2.
           ++ apply IH; [simpl in Hn; lia | eapply pair_esc_false; exact E2].
           ++ unfold parse_pair in E2. destruct (p_bracestart st); discriminate.
    + cbn [fold_left astep]. destruct (parse_norm strict st c) as [st1|er] eqn:E1.
      * apply IH; [simpl in Hn; lia | eapply norm_esc_false; exact E1].
      * cbn [astep]. apply both_err.
Qed.

(* ---------------------------------------------------------------- Part 2: the one-pass reference on atoms *)
Definition kst := (option wcase * wmode * N)%type.
Definition kk (s : kst) : option wcase := fst (fst s).
Definition km (s : kst) : wmode := snd (fst s).
Definition kd (s : kst) : N := snd s.
Definition k0 : kst := (None, MTop, 0%N).

Definition kupd (k : option wcase) (c : ch) : option wcase :=
  match k with Some _ => k | None => if isalpha c then Some (letter_case c) else None end.

(* word_case_go as a left fold (it keeps running after the case is known; the case no longer changes) *)
Definition case_step (st : kst) (a : atom) : kst :=
  let k := kk st in let m := km st in let d := kd st in
  if is_open a then (k, MStart, (d + 1)%N)
  else if is_close a then (k, leave d, N.pred d)
  else match a, m with
       | APair c, MStart => (k, if isalpha c then MCtrl else MSpecial, d)
       | APair c, _ => (kupd k c, m, d)
       | AChar c, MTop => (kupd k c, MTop, d)
       | AChar c, MStart => (k, MGroup, d)
       | AChar c, MGroup => (k, MGroup, d)
       | AChar c, MCtrl => (k, if isalpha c then MCtrl else MSpecial, d)
       | AChar c, MSpecial => (kupd k c, MSpecial, d)
       end.
Definition kres (k : option wcase) : wcase := match k with Some x => x | None => Caseless end.

Lemma word_case_fold l : forall k m d,
  kres (kk (fold_left case_step l (k, m, d))) = match k with Some x => x | None => word_case_go l m d end.
Proof.
  induction l as [|a l IH]; intros k m d.
  - destruct k; reflexivity.
  - cbn [fold_left word_case_go]. unfold case_step at 2. cbn [kk km kd fst snd].
    destruct (is_open a); [rewrite IH; reflexivity|].
    destruct (is_close a); [rewrite IH; reflexivity|].
    destruct a as [c|c], m, k as [x|]; cbn [kupd]; try (rewrite IH; reflexivity);
      destruct (isalpha c); rewrite IH; reflexivity.
Qed.

Definition gword := (list atom * option wcase)%type.
Record gst := mkgst { g_secs : list (list gword); g_word : list atom; g_k : kst }.
Inductive gres := GOk (g : gst) | GErr (e : nerr).
Definition g0 : gst := mkgst [[]] [] k0.

Definition gpush (g : gst) : list (list gword) :=
  match g_word g with [] => g_secs g | _ => push_last (rev (g_word g), kk (g_k g)) (g_secs g) end.
Definition gcons (g : gst) (a : atom) : gres := GOk (mkgst (g_secs g) (a :: g_word g) (case_step (g_k g) a)).

Definition gstep (g : gst) (a : atom) : gres :=
  if is_open a then gcons g a
  else if is_close a then (if (kd (g_k g) =? 0)%N then GErr NUnmatched else gcons g a)
  else match a with
       | APair _ => gcons g a
       | AChar c =>
           if negb (kd (g_k g) =? 0)%N then gcons g a
           else if ceq c c_comma then
             (if (length (gpush g) <? 3)%nat then GOk (mkgst ([] :: gpush g) [] k0) else GErr NTooMany)
           else if ws_parse c then GOk (mkgst (gpush g) [] k0)
           else gcons g a
       end.
Definition gfold (acc : gres) (a : atom) : gres := match acc with GOk g => gstep g a | GErr e => GErr e end.

(* text of a reversed atom list, reversed *)
Fixpoint rtext (l : list atom) : str :=
  match l with [] => [] | a :: r => rev (atom_text a) ++ rtext r end.
Lemma rtext_rev l : rev (rtext l) = text (rev l).
Proof.
  unfold text. induction l as [|a l IH]; [reflexivity|]. cbn [rtext]. rewrite rev_app_distr, rev_involutive, IH.
  cbn [rev]. rewrite map_app, concat_app. cbn. rewrite app_nil_r. reflexivity.
Qed.
Lemma rtext_nil l : rtext l = [] -> l = [].
Proof. destruct l as [|a l]; [reflexivity|]. destruct a; cbn; discriminate. Qed.

Definition zc (k : option wcase) : Z := match k with None => (-1)%Z | Some Upper => 1%Z | Some Lower => 0%Z | Some Caseless => (-1)%Z end.
Lemma zc_kupd k c : (forall x, k = Some x -> x <> Caseless) -> zc (kupd k c) = upd_case (zc k) c.
Proof.
  intros Hk. unfold kupd, upd_case. destruct k as [[| |]|]; cbn; try reflexivity.
  - exfalso. eapply Hk; reflexivity.
  - destruct (isalpha c); [|reflexivity]. unfold letter_case. destruct (isupper c); reflexivity.
Qed.
Definition knc (k : option wcase) : Prop := forall x, k = Some x -> x <> Caseless.
Lemma knc_kupd k c : knc k -> knc (kupd k c).
Proof.
  unfold knc, kupd. intros H x. destruct k; [apply H|]. destruct (isalpha c); [|discriminate].
  intros E. inversion E. unfold letter_case. destruct (isupper c); discriminate.
Qed.

Definition mode_rel (s : kst) (st : pst) : Prop :=
  match km s with
  | MTop => kd s = 0%N /\ p_bracestart st = false
  | MStart => kd s <> 0%N /\ p_bracestart st = true /\ p_controlseq st = false /\ p_specialchar st = false
  | MGroup => kd s <> 0%N /\ p_bracestart st = false /\ p_controlseq st = false /\ p_specialchar st = false
  | MCtrl => kd s <> 0%N /\ p_bracestart st = false /\ p_controlseq st = true /\ p_specialchar st = true
  | MSpecial => kd s <> 0%N /\ p_bracestart st = false /\ p_controlseq st = false /\ p_specialchar st = true
  end.

Definition gtext (x : gword) : str := text (fst x).
Definition gcase (x : gword) : Z := zc (snd x).

Record Rel (st : pst) (g : gst) : Prop := mkRel {
  r_secs : p_secs st = map (map gtext) (g_secs g);
  r_cases : p_cases st = map (map gcase) (g_secs g);
  r_word : p_word st = rtext (g_word g);
  r_level : p_level st = kd (g_k g);
  r_case : p_case st = zc (kk (g_k g));
  r_knc : knc (kk (g_k g));
  r_mode : mode_rel (g_k g) st;
  r_esc : p_esc st = false;
  r_fresh : g_word g = [] -> g_k g = k0
}.

Lemma rel0 : Rel pst0 g0.
Proof. constructor; try reflexivity. - intros x H; discriminate. - split; reflexivity. Qed.

Ltac relcons HR Ek :=
  constructor; cbn [p_secs p_cases p_word p_case p_level p_bracestart p_controlseq p_specialchar p_esc g_secs g_word g_k rtext atom_text rev app];
  [ exact (r_secs _ _ HR) | exact (r_cases _ _ HR) | rewrite (r_word _ _ HR); reflexivity | .. ].

Ltac relfin HR :=
  constructor; cbn [p_secs p_cases p_word p_case p_level p_bracestart p_controlseq p_specialchar p_esc g_secs g_word g_k rtext map kk km kd fst snd];
  first [ reflexivity | assumption | exact (r_secs _ _ HR) | exact (r_cases _ _ HR)
        | (rewrite (r_secs _ _ HR); reflexivity) | (rewrite (r_cases _ _ HR); reflexivity)
        | (intros ? ?; discriminate) | (unfold mode_rel; cbn; auto) | (intros; reflexivity) ].

Lemma sim_step st g a : Rel st g ->
  match gstep g a with
  | GOk g' => exists st', astep true (POk st) a = POk st' /\ Rel st' g'
  | GErr e => astep true (POk st) a = PErr e
  end.
Proof.
  intros HR.
  pose proof (r_level _ _ HR) as Hlev. pose proof (r_case _ _ HR) as Hcase. pose proof (r_knc _ _ HR) as Hknc.
  pose proof (r_mode _ _ HR) as Hmode. pose proof (r_word _ _ HR) as Hword.
  destruct (g_k g) as [[k m] d] eqn:Ek. cbn [kk km kd fst snd] in *.
  unfold gstep, gcons. rewrite Ek. cbn [kk km kd fst snd].
  destruct a as [c|c].
  - (* an escape pair *)
    cbn [is_open is_close astep]. unfold parse_pair.
    unfold mode_rel in Hmode. cbn [km kd fst snd] in Hmode.
    destruct m; cbn [case_step]; unfold case_step; cbn [kk km kd fst snd is_open is_close].
    + destruct Hmode as [Hd Hb]. rewrite Hb. eexists. split; [reflexivity|].
      relcons HR Ek; try reflexivity; try assumption.
      * rewrite Hcase. symmetry. apply zc_kupd. exact Hknc.
      * apply knc_kupd. exact Hknc.
      * unfold mode_rel. cbn. auto.
      * discriminate.
    + destruct Hmode as (Hd & Hb & Hc & Hs). rewrite Hb. eexists. split; [reflexivity|].
      relcons HR Ek; try reflexivity; try assumption.
      * unfold mode_rel. cbn. destruct (isalpha c); cbn; auto.
      * discriminate.
    + destruct Hmode as (Hd & Hb & Hc & Hs). rewrite Hb. eexists. split; [reflexivity|].
      relcons HR Ek; try reflexivity; try assumption.
      * rewrite Hcase. symmetry. apply zc_kupd. exact Hknc.
      * apply knc_kupd. exact Hknc.
      * unfold mode_rel. cbn. auto.
      * discriminate.
    + destruct Hmode as (Hd & Hb & Hc & Hs). rewrite Hb. eexists. split; [reflexivity|].
      relcons HR Ek; try reflexivity; try assumption.
      * rewrite Hcase. symmetry. apply zc_kupd. exact Hknc.
      * apply knc_kupd. exact Hknc.
      * unfold mode_rel. cbn. auto.
      * discriminate.
    + destruct Hmode as (Hd & Hb & Hc & Hs). rewrite Hb. eexists. split; [reflexivity|].
      relcons HR Ek; try reflexivity; try assumption.
      * rewrite Hcase. symmetry. apply zc_kupd. exact Hknc.
      * apply knc_kupd. exact Hknc.
      * unfold mode_rel. cbn. auto.
      * discriminate.
  - (* a single character *)
    cbn [is_open is_close astep]. unfold parse_norm.
    destruct (ceq c c_lb) eqn:Elb.
    { eexists. split; [reflexivity|].
      relcons HR Ek; unfold case_step; cbn [kk km kd fst snd is_open]; rewrite ?Elb; cbn [kk km kd fst snd].
      - rewrite Hlev. reflexivity.
      - exact Hcase.
      - exact Hknc.
      - unfold mode_rel. cbn. repeat split. lia.
      - reflexivity.
      - discriminate. }
    destruct (ceq c c_rb) eqn:Erb.
    { rewrite Hlev. destruct (d =? 0)%N eqn:Ed; cbn [negb]; [reflexivity|].
      eexists. split; [reflexivity|].
      relcons HR Ek; unfold case_step; cbn [kk km kd fst snd is_open is_close]; rewrite ?Elb, ?Erb; cbn [kk km kd fst snd].
      - reflexivity.
      - exact Hcase.
      - exact Hknc.
      - unfold mode_rel, leave. cbn. destruct (N.pred d =? 0)%N eqn:Ep; cbn.
        + apply N.eqb_eq in Ep. auto.
        + apply N.eqb_neq in Ep. auto.
      - reflexivity.
      - discriminate. }
    rewrite Hlev. destruct (d =? 0)%N eqn:Ed; cbn [negb].
    2:{ (* inside braces *)
      apply N.eqb_neq in Ed.
      unfold mode_rel in Hmode. cbn [km kd fst snd] in Hmode.
      eexists. split; [reflexivity|].
      destruct m; [destruct Hmode; contradiction| | | |]; destruct Hmode as (_ & Hb & Hc & Hs); rewrite Hc, Hs;
        (relcons HR Ek; unfold case_step; cbn [kk km kd fst snd is_open is_close]; rewrite ?Elb, ?Erb; cbn [kk km kd fst snd];
         [ reflexivity | try exact Hcase | try exact Hknc | .. | reflexivity | discriminate ]).
      - unfold mode_rel. cbn. auto.
      - unfold mode_rel. cbn. auto.
      - unfold mode_rel. cbn. destruct (isalpha c); cbn; auto.
      - rewrite Hcase. symmetry. apply zc_kupd. exact Hknc.
      - apply knc_kupd. exact Hknc.
      - unfold mode_rel. cbn. auto. }
    apply N.eqb_eq in Ed. rewrite Ed in *. clear Ed.
    assert (Hm : m = MTop).
    { unfold mode_rel in Hmode. cbn [km kd fst snd] in Hmode. destruct m; [reflexivity| | | |]; destruct Hmode as [H _]; contradiction. }
    subst m.
    assert (Hpush : p_word st <> [] ->
              push_last (rev (p_word st)) (p_secs st) = map (map gtext) (push_last (rev (g_word g), k) (g_secs g))
              /\ push_last (p_case st) (p_cases st) = map (map gcase) (push_last (rev (g_word g), k) (g_secs g))).
    { intros _. rewrite (r_secs _ _ HR), (r_cases _ _ HR).
      destruct (g_secs g) as [|x xs]; cbn [push_last map]; unfold gtext, gcase; cbn [fst snd];
        rewrite <- rtext_rev, <- Hword, Hcase; auto. }
    assert (Hgp : gpush g = match p_word st with [] => g_secs g | _ => push_last (rev (g_word g), k) (g_secs g) end).
    { unfold gpush. rewrite Ek. cbn [kk fst]. rewrite Hword. destruct (g_word g) as [|x w]; [reflexivity|].
      destruct x; reflexivity. }
    destruct (ceq c c_comma) eqn:Ecomma; cbn [orb].
    { (* a comma at depth 0 *)
      rewrite Hgp.
      destruct (p_word st) as [|x w] eqn:Ew.
      - cbn [p_secs p_cases p_case p_controlseq p_specialchar].
        replace (length (p_secs st)) with (length (g_secs g)) by (rewrite (r_secs _ _ HR), map_length; reflexivity).
        destruct (length (g_secs g) <? 3)%nat; [|reflexivity].
        eexists. split; [reflexivity|].
        assert (Hk0 : g_k g = k0) by (apply (r_fresh _ _ HR); apply rtext_nil; rewrite <- Hword; reflexivity).
        rewrite Ek in Hk0. inversion Hk0; subst k.
        relfin HR.
      - destruct (Hpush ltac:(discriminate)) as [P1 P2].
        cbn [p_secs p_cases p_case p_controlseq p_specialchar].
        rewrite P1, P2, map_length.
        match goal with |- context[(?x <? 3)%nat] => destruct (x <? 3)%nat end; [|reflexivity].
        eexists. split; [reflexivity|].
        relfin HR. }
    destruct (ws_parse c) eqn:Ews.
    { (* whitespace at depth 0 *)
      rewrite Hgp.
      destruct (p_word st) as [|x w] eqn:Ew.
      - eexists. split; [reflexivity|].
        assert (Hk0 : g_k g = k0) by (apply (r_fresh _ _ HR); apply rtext_nil; rewrite <- Hword; reflexivity).
        rewrite Ek in Hk0. inversion Hk0; subst k.
        relfin HR.
      - destruct (Hpush ltac:(discriminate)) as [P1 P2].
        eexists. split; [reflexivity|].
        relfin HR. }
    (* an ordinary character at depth 0 *)
    eexists. split; [reflexivity|].
    relcons HR Ek; unfold case_step; cbn [kk km kd fst snd is_open is_close]; rewrite ?Elb, ?Erb; cbn [kk km kd fst snd].
    + reflexivity.
    + rewrite Hcase. symmetry. apply zc_kupd. exact Hknc.
    + apply knc_kupd. exact Hknc.
    + unfold mode_rel. cbn. auto.
    + reflexivity.
    + discriminate.
Qed.

Lemma sim_fold A : forall st g, Rel st g ->
  match fold_left gfold A (GOk g) with
  | GOk g' => exists st', fold_left (astep true) A (POk st) = POk st' /\ Rel st' g'
  | GErr e => fold_left (astep true) A (POk st) = PErr e
  end.
Proof.
  induction A as [|a A IH]; intros st g HR.
  - exists st. split; [reflexivity | exact HR].
  - cbn [fold_left]. pose proof (sim_step st g a HR) as Hs. cbn [gfold].
    destruct (gstep g a) as [g1|e].
    + destruct Hs as (st1 & E1 & R1). change (astep true (POk st) a) with (astep true (POk st) a). rewrite E1. apply IH. exact R1.
    + rewrite Hs. rewrite afold_err.
      assert (forall l, fold_left gfold l (GErr e) = GErr e) as Hg by (induction l; [reflexivity | assumption]).
      rewrite Hg. reflexivity.
Qed.

(* ---------------------------------------------------------------- Part 3: the reference pass = the nested cuts *)
Definition cst := (list (list atom) * N * list atom)%type.
Definition dupd (d : N) (a : atom) : N := if is_open a then (d + 1)%N else if is_close a then N.pred d else d.
Definition is_sep (sep : ch -> bool) (d : N) (a : atom) : bool :=
  negb (is_open a) && negb (is_close a) && match a with AChar c => (d =? 0)%N && sep c | APair _ => false end.
Definition cstep (sep : ch -> bool) (st : cst) (a : atom) : cst :=
  let '(done, d, cur) := st in
  if is_sep sep d a then (rev cur :: done, d, []) else (done, dupd d a, a :: cur).

Lemma cut_go_step sep a l d cur :
  cut_go sep (a :: l) d cur = if is_sep sep d a then rev cur :: cut_go sep l d [] else cut_go sep l (dupd d a) (a :: cur).
Proof.
  cbn [cut_go]. unfold is_sep, dupd. destruct (is_open a); [reflexivity|]. destruct (is_close a); [reflexivity|].
  cbn [negb andb]. destruct a as [c|c]; [reflexivity|]. destruct ((d =? 0)%N && sep c); reflexivity.
Qed.

Lemma cut_go_fold sep l : forall done d cur,
  rev done ++ cut_go sep l d cur =
  (let '(done', _, cur') := fold_left (cstep sep) l (done, d, cur) in rev (rev cur' :: done')).
Proof.
  induction l as [|a l IH]; intros done d cur.
  - cbn. reflexivity.
  - rewrite cut_go_step. cbn [fold_left cstep]. destruct (is_sep sep d a).
    + rewrite <- IH. cbn [rev]. rewrite <- app_assoc. reflexivity.
    + rewrite <- IH. reflexivity.
Qed.

Lemma cut_fold sep l : cut sep l = (let '(done, _, cur) := fold_left (cstep sep) l ([], 0%N, []) in rev (rev cur :: done)).
Proof. unfold cut. rewrite <- cut_go_fold. reflexivity. Qed.

Definition is_ne (w : list atom) : bool := match w with [] => false | _ => true end.
Definition wc (w : list atom) : gword := (w, kk (fold_left case_step w k0)).
Definition comma (c : ch) : bool := ceq c c_comma.

Lemma words_eq sec : words sec = filter is_ne (cut ws_parse sec).
Proof. reflexivity. Qed.

Definition sec_words (sec : list atom) : list gword := rev (map wc (words sec)).
Definition cur_words (wdone : list (list atom)) : list gword := map wc (filter is_ne wdone).

Record J (A : list atom) (g : gst) : Prop := mkJ {
  j_sdone : list (list atom); j_scur : list atom; j_wdone : list (list atom);
  j_comma : fold_left (cstep comma) A ([], 0%N, []) = (j_sdone, kd (g_k g), j_scur);
  j_ws : fold_left (cstep ws_parse) (rev j_scur) ([], 0%N, []) = (j_wdone, kd (g_k g), g_word g);
  j_case : g_k g = fold_left case_step (rev (g_word g)) k0;
  j_secs : g_secs g = cur_words j_wdone :: map sec_words j_sdone
}.

Lemma kd_case_step K a : kd (case_step K a) = dupd (kd K) a.
Proof.
  unfold case_step, dupd. destruct (is_open a); [reflexivity|]. destruct (is_close a); [reflexivity|].
  destruct a, (km K); reflexivity.
Qed.

Lemma j0 : J [] g0.
Proof. refine (mkJ _ _ [] [] [] _ _ _ _); reflexivity. Qed.

Lemma filter_rev {A} (f : A -> bool) l : filter f (rev l) = rev (filter f l).
Proof.
  induction l as [|x l IH]; [reflexivity|]. cbn [rev filter]. rewrite filter_app, IH. cbn [filter].
  destruct (f x); cbn [rev]; [reflexivity | apply app_nil_r].
Qed.

(* the completed words of a section, from the state of its whitespace cut *)
Lemma sec_words_of scur wdone d word :
  fold_left (cstep ws_parse) scur ([], 0%N, []) = (wdone, d, word) ->
  sec_words scur = cur_words (rev word :: wdone).
Proof.
  intros H. unfold sec_words, cur_words. rewrite words_eq, cut_fold, H.
  rewrite filter_rev, map_rev, rev_involutive. reflexivity.
Qed.

Lemma cur_words_push word wdone K : K = fold_left case_step (rev word) k0 ->
  cur_words (rev word :: wdone) = match word with [] => cur_words wdone | _ => (rev word, kk K) :: cur_words wdone end.
Proof.
  intros HK. unfold cur_words. cbn [filter]. destruct word as [|a w]; [reflexivity|].
  assert (is_ne (rev (a :: w)) = true) as ->.
  { cbn [rev]. destruct (rev w); reflexivity. }
  cbn [map]. unfold wc at 1. rewrite <- HK. reflexivity.
Qed.

Lemma gpush_eq g wdone : g_k g = fold_left case_step (rev (g_word g)) k0 ->
  forall tl, g_secs g = cur_words wdone :: tl -> gpush g = cur_words (rev (g_word g) :: wdone) :: tl.
Proof.
  intros HK tl Hs. unfold gpush. rewrite (cur_words_push _ _ _ HK), Hs.
  destruct (g_word g); reflexivity.
Qed.

Lemma j_cons A g a : J A g -> is_sep comma (kd (g_k g)) a = false -> is_sep ws_parse (kd (g_k g)) a = false ->
  J (A ++ [a]) (mkgst (g_secs g) (a :: g_word g) (case_step (g_k g) a)).
Proof.
  intros [sdone scur wdone Hc Hw Hk Hs] S1 S2.
  refine (mkJ _ _ sdone (a :: scur) wdone _ _ _ _); cbn [g_secs g_word g_k].
  - rewrite fold_left_app, Hc. cbn [fold_left cstep]. rewrite S1, kd_case_step. reflexivity.
  - cbn [rev]. rewrite fold_left_app, Hw. cbn [fold_left cstep]. rewrite S2, kd_case_step. reflexivity.
  - cbn [rev]. rewrite fold_left_app, <- Hk. reflexivity.
  - exact Hs.
Qed.

Lemma j_step A g a g' : J A g -> gstep g a = GOk g' -> J (A ++ [a]) g'.
Proof.
  intros HJ. unfold gstep, gcons.
  destruct (is_open a) eqn:Eo.
  { intros H; inversion H; subst. apply j_cons; [exact HJ| |]; unfold is_sep; rewrite Eo; reflexivity. }
  destruct (is_close a) eqn:Ec.
  { destruct (kd (g_k g) =? 0)%N; [discriminate|].
    intros H; inversion H; subst. apply j_cons; [exact HJ| |]; unfold is_sep; rewrite Eo, Ec; reflexivity. }
  destruct a as [c|c].
  { intros H; inversion H; subst. apply j_cons; [exact HJ| |]; reflexivity. }
  destruct (kd (g_k g) =? 0)%N eqn:Ed; cbn [negb].
  2:{ intros H; inversion H; subst. apply j_cons; [exact HJ| |]; unfold is_sep; rewrite Eo, Ec, Ed; reflexivity. }
  destruct HJ as [sdone scur wdone Hc Hw Hk Hs].
  apply N.eqb_eq in Ed.
  destruct (ceq c c_comma) eqn:Ecomma.
  { (* a comma at depth 0: the section is complete *)
    destruct (length (gpush g) <? 3)%nat; [|discriminate]. intros H; inversion H; subst g'; clear H.
    refine (mkJ _ _ (rev scur :: sdone) [] [] _ _ _ _); cbn [g_secs g_word g_k kd k0 snd].
    - rewrite fold_left_app, Hc. cbn [fold_left cstep]. unfold is_sep. rewrite Eo, Ec, Ed. unfold comma. rewrite Ecomma.
      cbn. reflexivity.
    - reflexivity.
    - reflexivity.
    - rewrite (gpush_eq g wdone Hk _ Hs). cbn [map].
      rewrite (sec_words_of (rev scur) wdone _ _ Hw). reflexivity. }
  destruct (ws_parse c) eqn:Ews.
  { (* whitespace at depth 0: the word is complete *)
    intros H; inversion H; subst g'; clear H.
    refine (mkJ _ _ sdone (AChar c :: scur) (rev (g_word g) :: wdone) _ _ _ _); cbn [g_secs g_word g_k kd k0 snd].
    - rewrite fold_left_app, Hc. cbn [fold_left cstep]. unfold is_sep. rewrite Eo, Ec, Ed. unfold comma. rewrite Ecomma.
      cbn. unfold dupd. rewrite Eo, Ec. reflexivity.
    - cbn [rev]. rewrite fold_left_app, Hw. cbn [fold_left cstep]. unfold is_sep. rewrite Eo, Ec, Ed, Ews. cbn. reflexivity.
    - reflexivity.
    - apply (gpush_eq g wdone Hk _ Hs). }
  intros H; inversion H; subst.
  apply j_cons; [econstructor; eassumption| |]; unfold is_sep; rewrite Eo, Ec; unfold comma; rewrite ?Ecomma, ?Ews, ?andb_false_r; reflexivity.
Qed.

Lemma j_fold A : forall A0 g g', J A0 g -> fold_left gfold A (GOk g) = GOk g' -> J (A0 ++ A) g'.
Proof.
  induction A as [|a A IH]; intros A0 g g' HJ H.
  - cbn in H. inversion H; subst. rewrite app_nil_r. exact HJ.
  - cbn [fold_left gfold] in H. destruct (gstep g a) as [g1|e] eqn:E.
    + replace (A0 ++ a :: A) with ((A0 ++ [a]) ++ A) by (rewrite <- app_assoc; reflexivity).
      eapply IH; [|exact H]. eapply j_step; eassumption.
    + assert (forall l, fold_left gfold l (GErr e) = GErr e) as Hg by (induction l; [reflexivity | assumption]).
      rewrite Hg in H. discriminate.
Qed.

(* ---------------------------------------------------------------- Part 4: assembly *)
Lemma gfold_err l e : fold_left gfold l (GErr e) = GErr e.
Proof. induction l; [reflexivity | assumption]. Qed.

(* brace balance along the reference pass *)
Lemma bal_step g a g' X : gstep g a = GOk g' ->
  balanced_from (a :: X) (kd (g_k g)) = balanced_from X (kd (g_k g')).
Proof.
  unfold gstep, gcons. cbn [balanced_from].
  destruct (is_open a) eqn:Eo.
  { intros H; inversion H; subst. cbn [g_k]. rewrite kd_case_step. unfold dupd. rewrite Eo. reflexivity. }
  destruct (is_close a) eqn:Ec.
  { destruct (kd (g_k g) =? 0)%N; [discriminate|].
    intros H; inversion H; subst. cbn [g_k]. rewrite kd_case_step. unfold dupd. rewrite Eo, Ec. reflexivity. }
  assert (Hcons : balanced_from X (kd (g_k g)) = balanced_from X (kd (case_step (g_k g) a))).
  { rewrite kd_case_step. unfold dupd. rewrite Eo, Ec. reflexivity. }
  destruct a as [c|c]; [intros H; inversion H; subst; exact Hcons|].
  destruct (kd (g_k g) =? 0)%N eqn:Ed; cbn [negb]; [|intros H; inversion H; subst; exact Hcons].
  apply N.eqb_eq in Ed.
  destruct (ceq c c_comma).
  { destruct (length (gpush g) <? 3)%nat; [|discriminate]. intros H; inversion H; subst. rewrite Ed. reflexivity. }
  destruct (ws_parse c); intros H; inversion H; subst; [rewrite Ed; reflexivity | exact Hcons].
Qed.

Lemma bal_fold A : forall g g' X, fold_left gfold A (GOk g) = GOk g' ->
  balanced_from (A ++ X) (kd (g_k g)) = balanced_from X (kd (g_k g')).
Proof.
  induction A as [|a A IH]; intros g g' X H.
  - cbn in H. inversion H; subst. reflexivity.
  - cbn [fold_left gfold] in H. destruct (gstep g a) as [g1|e] eqn:E; [|rewrite gfold_err in H; discriminate].
    rewrite <- app_comm_cons. rewrite (bal_step g a g1 _ E). apply IH. exact H.
Qed.

(* the number of sections stays between 1 and 3 *)
Definition glen (g : gst) : Prop := (1 <= length (g_secs g) <= 3)%nat.
Lemma gpush_len g : g_secs g <> [] -> length (gpush g) = length (g_secs g).
Proof. unfold gpush. intros H. destruct (g_word g); [reflexivity|]. destruct (g_secs g); [contradiction | reflexivity]. Qed.
Lemma glen_step g a g' : glen g -> gstep g a = GOk g' -> glen g'.
Proof.
  unfold glen, gstep, gcons. intros HL.
  assert (Hne : g_secs g <> []) by (destruct (g_secs g); [simpl in HL; lia | discriminate]).
  destruct (is_open a). { intros H; inversion H; subst; exact HL. }
  destruct (is_close a). { destruct (kd (g_k g) =? 0)%N; [discriminate|]. intros H; inversion H; subst; exact HL. }
  destruct a as [c|c]. { intros H; inversion H; subst; exact HL. }
  destruct (negb (kd (g_k g) =? 0)%N). { intros H; inversion H; subst; exact HL. }
  destruct (ceq c c_comma).
  { destruct (length (gpush g) <? 3)%nat eqn:E; [|discriminate]. intros H; inversion H; subst. cbn [g_secs length].
    apply Nat.ltb_lt in E. rewrite gpush_len in E by exact Hne. rewrite gpush_len by exact Hne. lia. }
  destruct (ws_parse c); intros H; inversion H; subst; cbn [g_secs]; rewrite ?gpush_len by exact Hne; exact HL.
Qed.

Lemma glen_fold A : forall g g', glen g -> fold_left gfold A (GOk g) = GOk g' -> glen g'.
Proof.
  induction A as [|a A IH]; intros g g' HL H.
  - cbn in H. inversion H; subst. exact HL.
  - cbn [fold_left gfold] in H. destruct (gstep g a) as [g1|e] eqn:E; [|rewrite gfold_err in H; discriminate].
    eapply IH; [|exact H]. eapply glen_step; eassumption.
Qed.

Lemma gfold_split A : forall g e, fold_left gfold A (GOk g) = GErr e ->
  exists A1 a A2 g1, A = A1 ++ a :: A2 /\ fold_left gfold A1 (GOk g) = GOk g1 /\ gstep g1 a = GErr e.
Proof.
  induction A as [|a A IH]; intros g e H; [discriminate|].
  cbn [fold_left gfold] in H. destruct (gstep g a) as [g1|e1] eqn:E.
  - destruct (IH _ _ H) as (A1 & b & A2 & g2 & -> & F & S). exists (a :: A1), b, A2, g2.
    cbn [fold_left gfold]. rewrite E. auto.
  - rewrite gfold_err in H. inversion H; subst. exists [], a, A, g. auto.
Qed.

Lemma cstep_mono sep l : forall done d cur done' d' cur',
  fold_left (cstep sep) l (done, d, cur) = (done', d', cur') -> (length done <= length done')%nat.
Proof.
  induction l as [|a l IH]; intros done d cur done' d' cur' H.
  - cbn in H. inversion H; subst. lia.
  - cbn [fold_left cstep] in H. destruct (is_sep sep d a); apply IH in H; simpl in *; lia.
Qed.

Lemma gstep_err g a e : gstep g a = GErr e ->
  (e = NUnmatched /\ is_open a = false /\ is_close a = true /\ kd (g_k g) = 0%N)
  \/ (e = NTooMany /\ is_sep comma (kd (g_k g)) a = true /\ kd (g_k g) = 0%N /\ (3 <= length (gpush g))%nat).
Proof.
  unfold gstep, gcons.
  destruct (is_open a) eqn:Eo; [discriminate|].
  destruct (is_close a) eqn:Ec.
  { destruct (kd (g_k g) =? 0)%N eqn:Ed; [|discriminate]. intros H; inversion H; subst. left. apply N.eqb_eq in Ed. auto. }
  destruct a as [c|c]; [discriminate|].
  destruct (kd (g_k g) =? 0)%N eqn:Ed; cbn [negb]; [|discriminate].
  destruct (ceq c c_comma) eqn:Ecm.
  - destruct (length (gpush g) <? 3)%nat eqn:El; [discriminate|]. intros H; inversion H; subst. right.
    apply Nat.ltb_ge in El. apply N.eqb_eq in Ed. repeat split; try assumption.
    unfold is_sep. rewrite Eo, Ec. unfold comma. rewrite Ecm, Ed. reflexivity.
  - destruct (ws_parse c); discriminate.
Qed.

Lemma sections_fold A : sections A = (let '(done, _, cur) := fold_left (cstep comma) A ([], 0%N, []) in rev (rev cur :: done)).
Proof. unfold sections. apply (cut_fold comma). Qed.

Lemma err_invalid s e : fold_left gfold (atoms s) (GOk g0) = GErr e -> invalid_name s = true.
Proof.
  intros H. destruct (gfold_split _ _ _ H) as (A1 & a & A2 & g1 & EA & F & HS).
  pose proof (j_fold A1 [] g0 g1 j0 F) as HJ. cbn [app] in HJ.
  pose proof (glen_fold A1 g0 g1 ltac:(unfold glen; simpl; lia) F) as HL.
  unfold invalid_name.
  destruct (gstep_err _ _ _ HS) as [(-> & Eo & Ec & Ed)|(-> & Es & Ed & Hlen)].
  - (* a closing brace at depth 0 *)
    assert (unbalanced s = true) as ->; [|reflexivity].
    unfold unbalanced, balanced. rewrite EA.
    change 0%N with (kd (g_k g0)). rewrite (bal_fold A1 g0 g1 _ F). rewrite Ed.
    cbn [balanced_from]. rewrite Eo, Ec. reflexivity.
  - (* a third comma at depth 0 *)
    assert (too_many_commas s = true) as ->; [|apply orb_true_r || (rewrite orb_true_r; reflexivity)].
    unfold too_many_commas. rewrite sections_fold, EA, fold_left_app.
    destruct HJ as [sdone scur wdone Hc Hw Hk Hs]. rewrite Hc. cbn [fold_left cstep]. rewrite Es.
    destruct (fold_left (cstep comma) A2 (rev scur :: sdone, kd (g_k g1), [])) as [[done' d'] cur'] eqn:Ef.
    apply cstep_mono in Ef. rewrite rev_length. cbn [length] in *.
    assert (length (g_secs g1) = S (length sdone)) by (rewrite Hs; cbn; rewrite map_length; reflexivity).
    rewrite gpush_len in Hlen by (rewrite Hs; discriminate).
    apply Nat.ltb_lt. lia.
Qed.

(* everything parse_sections does after the loop *)
Definition parse_tail (strict : bool) (st : pst) : pres (list (list str) * list (list Z)) :=
  if negb (p_level st =? 0)%N && strict then PErr NUnterminated
  else
    let word := repeat_ch c_rb (N.to_nat (p_level st)) ++ p_word st in
    let secs := match word with [] => p_secs st | _ => push_last (rev word) (p_secs st) end in
    let cases := match word with [] => p_cases st | _ => push_last (p_case st) (p_cases st) end in
    match secs, cases with
    | [] :: rs, _ :: rc =>
        if (1 <? length secs)%nat && strict then PErr NTrailing
        else POk (rev (map (@rev str) rs), rev (map (@rev Z) rc))
    | _, _ => POk (rev (map (@rev str) secs), rev (map (@rev Z) cases))
    end.

Lemma parse_sections_tail strict s :
  parse_sections strict s =
  match finish_esc strict (fold_left (parse_step strict) s (POk pst0)) with
  | PErr e => PErr e
  | POk st => parse_tail strict st
  end.
Proof.
  unfold parse_sections, finish_esc, parse_tail.
  destruct (fold_left (parse_step strict) s (POk pst0)) as [st0|e]; [|reflexivity].
  destruct (p_esc st0); [|reflexivity].
  destruct (parse_norm strict (set_esc st0 false) c_bs); reflexivity.
Qed.

Lemma rel_push st g : Rel st g ->
  (match p_word st with [] => p_secs st | _ => push_last (rev (p_word st)) (p_secs st) end) = map (map gtext) (gpush g)
  /\ (match p_word st with [] => p_cases st | _ => push_last (p_case st) (p_cases st) end) = map (map gcase) (gpush g).
Proof.
  intros HR. unfold gpush. rewrite (r_word _ _ HR).
  destruct (g_word g) as [|a w] eqn:Ew.
  - cbn [rtext]. split; [exact (r_secs _ _ HR) | exact (r_cases _ _ HR)].
  - assert (rtext (a :: w) <> []) as Hne by (intros E; apply rtext_nil in E; discriminate).
    destruct (rtext (a :: w)) as [|x r] eqn:Er; [contradiction|].
    rewrite (r_secs _ _ HR), (r_cases _ _ HR), (r_case _ _ HR).
    rewrite <- Er, rtext_rev.
    destruct (g_secs g) as [|y ys]; cbn [push_last map]; unfold gtext, gcase; cbn [fst snd]; auto.
Qed.

Definition gtail (g : gst) : pres (list (list str) * list (list Z)) :=
  if negb (kd (g_k g) =? 0)%N then PErr NUnterminated
  else match gpush g with
       | [] :: rs => if (1 <? length (gpush g))%nat then PErr NTrailing
                     else POk (rev (map (@rev str) (map (map gtext) rs)), rev (map (@rev Z) (map (map gcase) rs)))
       | W => POk (rev (map (@rev str) (map (map gtext) W)), rev (map (@rev Z) (map (map gcase) W)))
       end.

Lemma tail_rel st g : Rel st g -> parse_tail true st = gtail g.
Proof.
  intros HR. unfold parse_tail, gtail. rewrite (r_level _ _ HR), andb_true_r.
  destruct (kd (g_k g) =? 0)%N eqn:Ed; cbn [negb]; [|reflexivity].
  apply N.eqb_eq in Ed. rewrite Ed. cbn [N.to_nat repeat_ch app].
  destruct (rel_push st g HR) as [P1 P2]. rewrite P1, P2.
  destruct (gpush g) as [|[|x w] rs]; cbn [map]; try reflexivity.
  rewrite andb_true_r. cbn [length]. rewrite map_length. reflexivity.
Qed.

(* strict parse of a text = the reference pass on its atoms, then the common tail *)
Lemma sections_via_g s :
  parse_sections true s =
  match fold_left gfold (atoms s) (GOk g0) with GOk g => gtail g | GErr e => PErr e end.
Proof.
  rewrite parse_sections_tail, (chars_atoms true (length s) s pst0 (le_n _) eq_refl).
  pose proof (sim_fold (atoms s) pst0 g0 rel0) as H.
  destruct (fold_left gfold (atoms s) (GOk g0)) as [g|e].
  - destruct H as (st & E & HR). rewrite E. apply tail_rel. exact HR.
  - rewrite H. reflexivity.
Qed.

(* ---- the words of the reference pass, as (text, case) pairs *)
Definition gz (x : gword) : zw := (gtext x, gcase x).

Lemma c2w_zc k : c2w (zc k) = kres k.
Proof. destruct k as [[| |]|]; reflexivity. Qed.

Lemma cw_gz_wc w : cw (gz (wc w)) = (text w, word_case w).
Proof.
  unfold cw, gz, wc, gtext, gcase. cbn [fst snd]. rewrite c2w_zc. f_equal.
  unfold word_case. rewrite <- (word_case_fold w None MTop 0%N). reflexivity.
Qed.

Definition F (sec : list atom) : list cword := map (fun wd => (text wd, word_case wd)) (words sec).

Lemma name_sections_eq s : name_sections s = map F (sections (atoms s)).
Proof. reflexivity. Qed.

Lemma F_sec_words sec : map cw (map gz (rev (sec_words sec))) = F sec.
Proof.
  unfold sec_words, F. rewrite rev_involutive, !map_map. apply map_ext. intros w. apply cw_gz_wc.
Qed.

Lemma text_ne w : w <> [] -> text w <> [].
Proof. destruct w as [|a w]; [contradiction|]. intros _. unfold text. cbn. destruct a; discriminate. Qed.

Lemma words_ne sec : Forall (fun w => w <> []) (words sec).
Proof.
  unfold words. apply Forall_forall. intros w Hin. apply filter_In in Hin. destruct Hin as [_ H]. destruct w; [discriminate | discriminate].
Qed.

Lemma sec_words_ne sec : Forall (fun x : zw => fst x <> []) (map gz (rev (sec_words sec))).
Proof.
  unfold sec_words. rewrite rev_involutive, map_map. apply Forall_map.
  eapply Forall_impl; [|apply words_ne]. intros w Hw. unfold gz, wc, gtext. cbn [fst]. apply text_ne. exact Hw.
Qed.

(* the zipped sections of the final state *)
Definition Zfinal (W : list (list gword)) : list (list zw) := rev (map (@rev zw) (map (map gz) W)).

Lemma Zfinal_fst W : rev (map (@rev str) (map (map gtext) W)) = map (map fst) (Zfinal W).
Proof.
  unfold Zfinal. rewrite map_rev, !map_map. f_equal. apply map_ext. intros l.
  rewrite map_rev, map_map. reflexivity.
Qed.
Lemma Zfinal_snd W : rev (map (@rev Z) (map (map gcase) W)) = map (map snd) (Zfinal W).
Proof.
  unfold Zfinal. rewrite map_rev, !map_map. f_equal. apply map_ext. intros l.
  rewrite map_rev, map_map. reflexivity.
Qed.
Lemma Zfinal_secs L : map (map cw) (Zfinal (map sec_words L)) = map F (rev L).
Proof.
  unfold Zfinal. rewrite map_rev, !map_map, map_rev. f_equal. apply map_ext. intros sec.
  rewrite <- map_rev. apply F_sec_words.
Qed.
Lemma Zfinal_ne L : words_nonempty (Zfinal (map sec_words L)).
Proof.
  unfold Zfinal, words_nonempty. apply Forall_rev. rewrite !map_map. apply Forall_map. apply Forall_forall. intros sec _.
  rewrite <- map_rev. apply sec_words_ne.
Qed.

Lemma last_snoc {A} (l : list A) x d : last (l ++ [x]) d = x.
Proof. induction l as [|y l IH]; [reflexivity|]. cbn [app]. destruct (l ++ [x]) eqn:E; [destruct l; discriminate|]. exact IH. Qed.

Lemma forallb_nil_map {A B} (f : A -> B) (Zs : list (list A)) :
  forallb is_nil (map (map f) Zs) = forallb is_nil Zs.
Proof. induction Zs as [|z Zs IH]; [reflexivity|]. cbn. rewrite IH. destruct z; reflexivity. Qed.

(* the agreement of the strict parse with the compositional specification *)
Lemma parse_name_spec s :
  match parse_name true s with
  | POk p => spec_parse s = Some p
  | PErr _ => invalid_name s = true
  end.
Proof.
  unfold parse_name. rewrite sections_via_g.
  destruct (fold_left gfold (atoms s) (GOk g0)) as [g|e] eqn:Ef; [|apply (err_invalid s e Ef)].
  pose proof (j_fold (atoms s) [] g0 g j0 Ef) as HJ. cbn [app] in HJ.
  pose proof (glen_fold (atoms s) g0 g ltac:(unfold glen; simpl; lia) Ef) as HL.
  pose proof (bal_fold (atoms s) g0 g [] Ef) as HB. rewrite app_nil_r in HB. cbn [balanced_from] in HB.
  change (kd (g_k g0)) with 0%N in HB. fold (balanced (atoms s)) in HB.
  destruct HJ as [sdone scur wdone Hc Hw Hk Hs].
  set (L := rev scur :: sdone).
  assert (HW : gpush g = map sec_words L).
  { rewrite (gpush_eq g wdone Hk _ Hs). unfold L. cbn [map]. rewrite (sec_words_of (rev scur) wdone _ _ Hw). reflexivity. }
  assert (Hsec : sections (atoms s) = rev L) by (rewrite sections_fold, Hc; reflexivity).
  assert (HlenL : (1 <= length L <= 3)%nat).
  { unfold glen in HL. rewrite <- (gpush_len g) in HL by (rewrite Hs; discriminate). rewrite HW, map_length in HL. exact HL. }
  assert (Htm : too_many_commas s = false).
  { unfold too_many_commas. rewrite Hsec, rev_length. apply Nat.ltb_ge. lia. }
  assert (Hns : name_sections s = map F (rev L)) by (rewrite name_sections_eq, Hsec; reflexivity).
  assert (Hlast : last (name_sections s) [] = F (rev scur)).
  { rewrite Hns. unfold L. cbn [rev]. rewrite map_app. cbn [map]. apply last_snoc. }
  unfold gtail.
  destruct (kd (g_k g) =? 0)%N eqn:Ed; cbn [negb].
  2:{ unfold invalid_name, unbalanced. rewrite HB. reflexivity. }
  assert (Hunb : unbalanced s = false) by (unfold unbalanced; rewrite HB; reflexivity).
  rewrite HW.
  destruct (sec_words (rev scur)) as [|x0 w0] eqn:Ehead.
  - (* the last section has no word *)
    assert (HFnil : F (rev scur) = []).
    { rewrite <- F_sec_words, Ehead. reflexivity. }
    unfold L. cbn [map]. rewrite Ehead. cbn [length]. rewrite map_length.
    destruct (1 <? S (length sdone))%nat eqn:E1.
    + unfold invalid_name, trailing_comma. rewrite Hlast, HFnil, Hns, map_length, rev_length. unfold L. cbn [length].
      rewrite E1. cbn. apply orb_true_r.
    + assert (sdone = []) as ->.
      { apply Nat.ltb_ge in E1. destruct sdone; [reflexivity | simpl in E1; lia]. }
      cbn. unfold spec_parse, invalid_name, trailing_comma. rewrite Hunb, Htm, Hns. unfold L. cbn. rewrite HFnil. reflexivity.
  - (* the last section has words *)
    remember (map sec_words L) as W eqn:EW.
    assert (HWf : exists x w rs, W = (x :: w) :: rs) by (subst W; unfold L; cbn [map]; rewrite Ehead; eauto).
    destruct HWf as (x1 & w1 & rs1 & EWf). rewrite EWf. cbv iota beta. rewrite <- EWf. subst W.
    rewrite Zfinal_fst, Zfinal_snd.
    set (Zs := Zfinal (map sec_words L)).
    assert (Hall : forallb (fun sec : list str => match sec with [] => true | _ => false end) (map (map fst) Zs) = forallb is_nil Zs).
    { clear. induction Zs as [|z Zs IH]; [reflexivity|]. simpl. rewrite IH. destruct z; reflexivity. }
    rewrite Hall.
    assert (Hzs : map (map cw) Zs = name_sections s) by (unfold Zs; rewrite Zfinal_secs, Hns; reflexivity).
    assert (Htr : trailing_comma s = false).
    { unfold trailing_comma. rewrite Hlast. rewrite <- F_sec_words, Ehead.
      assert (is_nil (map cw (map gz (rev (x0 :: w0)))) = false) as -> by (cbn [rev]; destruct (rev w0); reflexivity).
      apply andb_false_r. }
    unfold spec_parse, invalid_name. rewrite Hunb, Htm, Htr. cbn [orb].
    rewrite <- Hzs, forallb_nil_map.
    destruct (forallb is_nil Zs); [reflexivity|].
    rewrite partition_eq by apply Zfinal_ne. reflexivity.
Qed.

Theorem tokeniser_agreement s :
  (forall p, spec_parse s = Some p <-> parse_name true s = POk p)
  /\ (invalid_name s = true <-> exists e, parse_name true s = PErr e).
Proof.
  pose proof (parse_name_spec s) as H.
  assert (Hinv : invalid_name s = true -> spec_parse s = None) by (unfold spec_parse; intros ->; reflexivity).
  assert (Hval : invalid_name s = false -> exists p, spec_parse s = Some p).
  { unfold spec_parse. intros ->. destruct (forallb is_nil (name_sections s)); eexists; reflexivity. }
  destruct (parse_name true s) as [p|e].
  - split.
    + intros q. rewrite H. split; intros E; inversion E; reflexivity.
    + split; [|intros [e E]; discriminate]. intros Hi. rewrite (Hinv Hi) in H. discriminate.
  - split.
    + intros q. split; [|discriminate]. rewrite (Hinv H). discriminate.
    + split; [intros _; eexists; reflexivity | intros _; exact H].
Qed.

Lemma tok_partition s p : spec_parse s = Some p <-> parse_name true s = POk p.
Proof. exact (proj1 (tokeniser_agreement s) p). Qed.
Lemma tok_invalid s : invalid_name s = true <-> exists e, parse_name true s = PErr e.
Proof. exact (proj2 (tokeniser_agreement s)). Qed.
Lemma tok_word_case_local s p : parse_name true s = POk p ->
  p = if forallb is_nil (name_sections s) then parts0 else partition_spec (name_sections s).
Proof.
  intros H. apply tok_partition in H. unfold spec_parse in H.
  destruct (invalid_name s); [discriminate|]. destruct (forallb is_nil (name_sections s)); inversion H; reflexivity.
Qed.
