(* middlewares/sorting_blocks.py: SortBlocksByTypeAndKeyMiddleware.transform on the list of blocks of the
   (deep-copied) library.  list.sort is CPython's stable sort, modelled by Base/StableSort.isort.
   Definitions only. *)
From Coq Require Import List NArith ZArith Bool Arith.
From BP Require Import Base.Chars Base.StableSort Model.Blocks Model.LibRebuild.
Import ListNotations.

(* classes as numbered on the wire (enc.py, constants B_xxx); an order list may also name classes no block has
   exactly (e.g. the abstract Block = 9): such an item matches nothing *)
Definition class_code (c : bclass) : N :=
  match c with
  | CEntry => 0 | CString => 1 | CPreamble => 2 | CExpl => 3 | CImpl => 4
  | CFailed => 5 | CMwErr => 6 | CDupKey => 7 | CDupField => 8
  end%N.

Fixpoint index_N (x : N) (l : list N) : option nat :=
  match l with
  | [] => None
  | y :: r => if N.eqb x y then Some O else match index_N x r with Some i => Some (S i) | None => None end
  end.

(* block_type_order.index(cls), or len(block_type_order) on ValueError: EXACT class *)
Definition type_rank (order : list N) (c : bclass) : nat :=
  match index_N (class_code c) order with Some i => i | None => length order end.

Definition is_comment (b : block) : bool :=
  match b with BExpl _ _ | BImpl _ _ => true | _ => false end.

(* block.key where the attribute exists: Entry, String, DuplicateBlockKeyBlock *)
Definition key_attr (b : block) : option str :=
  match b with
  | BEntry _ _ k _ => Some k
  | BString _ k _ => Some k
  | BDupKey _ k _ _ => Some k
  | _ => None
  end.

(* _BlockJunk *)
Record junk := mkjunk { jkey : str; jblocks : list block }.

(* _block_junks: [ck]/[cb] are current_junk.sort_key / current_junk.blocks *)
Fixpoint junks_loop (ck : str) (cb : list block) (bs : list block) : list junk :=
  match bs with
  | [] => match cb with [] => [] | _ => [mkjunk ck cb] end
  | b :: r =>
      let cb' := cb ++ [b] in
      let ck' := match key_attr b with Some k => k | None => ck end in
      if is_comment b then junks_loop ck' cb' r
      else mkjunk ck' cb' :: junks_loop [] [] r
  end.
Definition block_junks (bs : list block) : list junk := junks_loop [] [] bs.

(* main_block_type: type(self.blocks[-1]); an empty junk raises RuntimeError (never built by junks_loop) *)
Definition junk_rank (order : list N) (j : junk) : option nat :=
  match rev (jblocks j) with
  | [] => None
  | b :: _ => Some (type_rank order (class_of b))
  end.
Definition junk_sort_key (order : list N) (j : junk) : nat * str :=
  (match junk_rank order j with Some r => r | None => O end, jkey j).
Definition junk_le (order : list N) (i j : junk) : bool := lex_leb (junk_sort_key order i) (junk_sort_key order j).

(* without comment preservation: getattr(block, "key", "") *)
Definition block_sort_key (order : list N) (b : block) : nat * str :=
  (type_rank order (class_of b), match key_attr b with Some k => k | None => [] end).
Definition block_le (order : list N) (a b : block) : bool := lex_leb (block_sort_key order a) (block_sort_key order b).

(* the list handed to Library(blocks=...) *)
Definition sorted_blocks (preserve : bool) (order : list N) (bs : list block) : list block :=
  if preserve then concat (map jblocks (isort (junk_le order) (block_junks bs)))
  else isort (block_le order) bs.

(* transform(library).blocks *)
Definition sort_transform (preserve : bool) (order : list N) (bs : list block) : list block :=
  rebuild (sorted_blocks preserve order bs).
