(* C07 - the transform_entry / transform_string bodies of every SHIPPED BlockMiddleware, at the granularity of
   allocations and attribute writes.  Definitions only (proofs: Proofs/HeapBodiesProofs.v).

   What happens to strings (the stripped text, the month name, the LaTeX encoding, how a name splits, whether it is
   invalid, how keys sort) is not the heap model's business: every such string-level result enters as a finite table
   over atoms, computed by the harness with the implementation's own string helpers.  What IS modelled: which objects
   are read, which attribute of which object is written, what is newly allocated, what is returned.
   None = the Python code raises on this heap (wrong value type, atom missing from a table).
   Transient containers that are never stored (seen-key sets, error lists, the dict behind Entry.fields_dict) are
   not allocated: they are unreachable afterwards and invisible to the comparison. *)
From Coq Require Import List ZArith Bool Arith.
From BP Require Import Model.Heap Model.HeapMw.
Import ListNotations.
Local Open Scope Z_scope.

Definition C_MiddlewareErrorBlock := 10.  Definition C_NameParts := 13.
Definition A_first := 17.  Definition A_von := 18.  Definition A_last := 19.  Definition A_jr := 20.
Definition AT_True := 2.

(* ------------------------------------------------------------------ tables *)
Fixpoint zget {T} (t : list (Z * T)) (k : Z) : option T :=
  match t with [] => None | (k', v) :: r => if Z.eqb k' k then Some v else zget r k end.
Definition zl_eqb (a b : list Z) : bool := list_eqb Z.eqb a b.
Fixpoint lget {T} (t : list (list Z * T)) (k : list Z) : option T :=
  match t with [] => None | (k', v) :: r => if zl_eqb k' k then Some v else lget r k end.
Fixpoint llget {T} (t : list (list (list Z) * T)) (k : list (list Z)) : option T :=
  match t with [] => None | (k', v) :: r => if list_eqb zl_eqb k' k then Some v else llget r k end.

(* ------------------------------------------------------------------ shared pieces *)
Fixpoint as_atoms (l : list pv) : option (list Z) :=
  match l with
  | [] => Some []
  | PAtom a :: r => do r' <- as_atoms r; Some (a :: r')
  | PRef _ :: _ => None
  end.
Definition as_atom (v : pv) : option Z := match v with PAtom a => Some a | PRef _ => None end.

(* for field in entry.fields: ...   (state threaded: heap and an accumulator) *)
Fixpoint floop {A} (step : heap -> A -> nat -> option (heap * A)) (h : heap) (a : A) (fs : list nat) : option (heap * A) :=
  match fs with
  | [] => Some (h, a)
  | f :: r => do x <- step h a f; floop step (fst x) (snd x) r
  end.

Definition entry_fields (h : heap) (b : nat) : option (list nat) :=
  do fl <- attr_list h b A_fields; as_refs (snd fl).

(* block.parser_metadata[k] = v *)
Definition meta_set (h : heap) (b : nat) (k : Z) (v : pv) : option heap :=
  do mdv <- getattr h b A_parser_metadata; do md <- as_ref mdv; do d <- get_dict h md;
  Some (set_obj h md (ODict (aset d k v))).

(* MiddlewareErrorBlock(block, error):  Block.__init__(start_line, raw) -> {} ; _error ; _ignore_error_block *)
Definition error_block (h : heap) (b : nat) : option (heap * nat) :=
  do sl <- getattr h b A_start_line_in_file;
  do raw <- getattr h b A_raw;
  let '(h1, md) := alloc h (ODict []) in
  let '(h2, eb) := alloc h1 (OInst C_MiddlewareErrorBlock
        [(A_start_line_in_file, sl); (A_raw, raw); (A_parser_metadata, PRef md); (A_error, PAtom AT_Exc);
         (A_ignore_error_block, PRef b)]) in
  Some (h2, eb).

Definition alloc_atoms (h : heap) (l : list Z) : heap * nat := alloc h (OList (map PAtom l)).

(* transform_block's isinstance dispatch; the shipped bodies never look at the library *)
Definition dispatch (fe fs : heap -> nat -> option (heap * result)) : body := fun h lib b =>
  if is_entry h b then fe h b else if is_string h b then fs h b else Some (h, ROne b).
Definition keep_block : heap -> nat -> option (heap * result) := fun h b => Some (h, ROne b).

(* ------------------------------------------------------------------ RemoveEnclosingMiddleware
   tbl: value atom -> (stripped atom, enclosing atom)   (absent: not a str -> AttributeError) *)
Definition rm_step (tbl : list (Z * (Z * Z))) (h : heap) (d : list (Z * pv)) (f : nat) : option (heap * list (Z * pv)) :=
  do v <- getattr h f A_value; do a <- as_atom v; do se <- zget tbl a;
  do h1 <- setattr h f A_value (PAtom (fst se));                     (* field.value = stripped *)
  do kv <- getattr h1 f A_key; do k <- as_atom kv;
  Some (h1, aset d k (PAtom (snd se))).                               (* metadata[field.key] = enclosing *)
Definition rm_entry (kmeta : Z) (tbl : list (Z * (Z * Z))) : heap -> nat -> option (heap * result) := fun h b =>
  do fs <- entry_fields h b;
  do x <- floop (rm_step tbl) h [] fs;
  let '(h1, md) := alloc (fst x) (ODict (snd x)) in                  (* metadata = dict() *)
  do h2 <- meta_set h1 b kmeta (PRef md);                             (* entry.parser_metadata[key] = metadata *)
  Some (h2, ROne b).
Definition rm_string (kmeta : Z) (tbl : list (Z * (Z * Z))) : heap -> nat -> option (heap * result) := fun h b =>
  do v <- getattr h b A_value; do a <- as_atom v; do se <- zget tbl a;
  do h1 <- setattr h b A_value (PAtom (fst se));
  do h2 <- meta_set h1 b kmeta (PAtom (snd se));
  Some (h2, ROne b).
Definition remove_enclosing_body kmeta tbl : body := dispatch (rm_entry kmeta tbl) (rm_string kmeta tbl).

(* ------------------------------------------------------------------ AddEnclosingMiddleware
   tbl: [value atom; previous enclosing atom (None atom if there is none); field key atom (0 for @string)] -> new atom *)
Definition add_step (tbl : list (list Z * Z)) (prev : list (Z * pv)) (h : heap) (u : unit) (f : nat) : option (heap * unit) :=
  do v <- getattr h f A_value; do a <- as_atom v;
  do kv <- getattr h f A_key; do k <- as_atom kv;
  do p <- match aget prev k with None => Some AT_None | Some pvv => as_atom pvv end;
  do n <- lget tbl [a; p; k];
  do h1 <- setattr h f A_value (PAtom n);                            (* field.value = self._enclose(...) *)
  Some (h1, tt).
Definition add_entry (kmeta : Z) (tbl : list (list Z * Z)) : heap -> nat -> option (heap * result) := fun h b =>
  do mdv <- getattr h b A_parser_metadata; do md <- as_ref mdv; do d <- get_dict h md;
  let h0 := set_obj h md (ODict (adel d kmeta)) in                   (* entry.parser_metadata.pop(key, None) *)
  do prev <- match aget d kmeta with
             | None => Some []
             | Some (PRef pd) => get_dict h0 pd
             | Some (PAtom a) => if Z.eqb a AT_None then Some [] else None
             end;
  do fs <- entry_fields h0 b;
  do x <- floop (add_step tbl prev) h0 tt fs;
  Some (fst x, ROne b).
Definition add_string (kmeta : Z) (tbl : list (list Z * Z)) : heap -> nat -> option (heap * result) := fun h b =>
  do mdv <- getattr h b A_parser_metadata; do md <- as_ref mdv; do d <- get_dict h md;
  do p <- match aget d kmeta with None => Some AT_None | Some pvv => as_atom pvv end;    (* .get(key): not popped *)
  do v <- getattr h b A_value; do a <- as_atom v;
  do n <- lget tbl [a; p; 0];
  do h1 <- setattr h b A_value (PAtom n);
  Some (h1, ROne b).
Definition add_enclosing_body kmeta tbl : body := dispatch (add_entry kmeta tbl) (add_string kmeta tbl).

(* ------------------------------------------------------------------ the three month middlewares
   tbl: value atom -> (new value atom, metadata message atom);  m_other: the message for a value that is no atom *)
Fixpoint last_with_key (h : heap) (kmonth : Z) (fs : list nat) (acc : option nat) : option (option nat) :=
  match fs with
  | [] => Some acc
  | f :: r => do kv <- getattr h f A_key; do k <- as_atom kv;       (* entry.fields_dict: {field.key: field} *)
              last_with_key h kmonth r (if Z.eqb k kmonth then Some f else acc)
  end.
Definition month_entry (kmonth kmeta m_other : Z) (tbl : list (Z * (Z * Z))) : heap -> nat -> option (heap * result) := fun h b =>
  do fs <- entry_fields h b;
  do mf <- last_with_key h kmonth fs None;
  match mf with
  | None => Some (h, ROne b)                                          (* KeyError: return entry *)
  | Some f =>
      do v <- getattr h f A_value;
      do nm <- match v with
               | PAtom a => do r <- zget tbl a; Some (PAtom (fst r), snd r)
               | PRef _ => Some (v, m_other)
               end;
      do h1 <- setattr h f A_value (fst nm);                          (* month.value = new_val *)
      do h2 <- meta_set h1 b kmeta (PAtom (snd nm));                  (* entry.parser_metadata[key] = meta *)
      Some (h2, ROne b)
  end.
Definition month_body kmonth kmeta m_other tbl : body := dispatch (month_entry kmonth kmeta m_other tbl) keep_block.

(* ------------------------------------------------------------------ NormalizeFieldKeys     lower: key atom -> lowered key atom *)
Definition norm_step (lower : list (Z * Z)) (h : heap) (d : list (Z * pv)) (f : nat) : option (heap * list (Z * pv)) :=
  do kv <- getattr h f A_key; do k <- as_atom kv; do k' <- zget lower k;
  do h1 <- setattr h f A_key (PAtom k');                              (* field.key = normalized_key *)
  Some (h1, aset d k' (PRef f)).                                       (* new_fields_dict[normalized_key] = field *)
Definition norm_entry (lower : list (Z * Z)) : heap -> nat -> option (heap * result) := fun h b =>
  do fs <- entry_fields h b;
  do x <- floop (norm_step lower) h [] fs;
  let '(h1, nl) := alloc (fst x) (OList (map snd (snd x))) in        (* list(new_fields_dict.values()) *)
  do h2 <- setattr h1 b A_fields (PRef nl);                           (* entry.fields = new_fields *)
  Some (h2, ROne b).
Definition normalize_body lower : body := dispatch (norm_entry lower) keep_block.

(* ------------------------------------------------------------------ SortFieldsAlphabetically / SortFieldsCustom
   rank: key atom -> sort rank (absent: dflt);  sorted() is stable: insertion sort by rank *)
Fixpoint insert_ranked (x : nat * nat) (l : list (nat * nat)) : list (nat * nat) :=
  match l with
  | [] => [x]
  | y :: r => if Nat.leb (fst x) (fst y) then x :: l else y :: insert_ranked x r
  end.
Definition sort_ranked (l : list (nat * nat)) : list (nat * nat) := fold_right insert_ranked [] l.
(* NB fold_right inserts the LAST element first, so every x is earlier in the source order than all elements already
   placed: inserting it before the first element of greater OR EQUAL rank keeps equal ranks in source order *)

Inductive metaval := MVAtom (a : Z) | MVList (l : list Z).

Fixpoint ranks (rank : list (Z * nat)) (dflt : nat) (h : heap) (fs : list nat) : option (list (nat * nat)) :=
  match fs with
  | [] => Some []
  | f :: r => do kv <- getattr h f A_key; do k <- as_atom kv; do r' <- ranks rank dflt h r;
              Some ((match zget rank k with Some n => n | None => dflt end, f) :: r')
  end.
Definition sort_entry (rank : list (Z * nat)) (dflt : nat) (kmeta : Z) (mv : metaval) : heap -> nat -> option (heap * result) := fun h b =>
  do fs <- entry_fields h b;
  do rk <- ranks rank dflt h fs;
  let '(h1, nl) := alloc h (OList (map (fun x => PRef (snd x)) (sort_ranked rk))) in      (* sorted(entry.fields, key=...) *)
  do h2 <- setattr h1 b A_fields (PRef nl);                                                (* entry.fields = ... *)
  do h3 <- match mv with
           | MVAtom a => meta_set h2 b kmeta (PAtom a)                                     (* = True  /  copy(tuple) is the tuple *)
           | MVList l => let '(h2', ol) := alloc_atoms h2 l in meta_set h2' b kmeta (PRef ol)   (* = copy(self._order) *)
           end;
  Some (h3, ROne b).
Definition sort_fields_body rank dflt kmeta mv : body := dispatch (sort_entry rank dflt kmeta mv) keep_block.

(* ------------------------------------------------------------------ the name middlewares (_NameTransformerMiddleware)
   valf: the new value of one name field; inner None = InvalidNameError *)
Definition valfun := heap -> pv -> option (heap * option pv).
Definition names_step (name_keys : list Z) (valf : valfun) (h : heap) (failed : bool) (f : nat) : option (heap * bool) :=
  if failed then Some (h, true)                                       (* already returned the error block *)
  else
    do kv <- getattr h f A_key; do k <- as_atom kv;
    if existsb (Z.eqb k) name_keys then                               (* if field.key in self.name_fields *)
      do v <- getattr h f A_value;
      do r <- valf h v;
      match snd r with
      | Some v' => do h1 <- setattr (fst r) f A_value v'; Some (h1, false)     (* field.value = ... *)
      | None => Some (fst r, true)                                              (* except InvalidNameError *)
      end
    else Some (h, false).
Definition names_entry (name_keys : list Z) (valf : valfun) : heap -> nat -> option (heap * result) := fun h b =>
  do fs <- entry_fields h b;
  do x <- floop (names_step name_keys valf) h false fs;
  if snd x then do e <- error_block (fst x) b; Some (fst e, ROne (snd e))      (* return MiddlewareErrorBlock(entry, e) *)
  else Some (fst x, ROne b).
Definition names_body name_keys valf : body := dispatch (names_entry name_keys valf) keep_block.

(* SeparateCoAuthors: tbl: name string atom -> the separate names *)
Definition separate_val (tbl : list (Z * list Z)) : valfun := fun h v =>
  do a <- as_atom v; do l <- zget tbl a;
  let '(h1, nl) := alloc_atoms h l in Some (h1, Some (PRef nl)).
(* MergeCoAuthors: tbl: the list of names -> ' and '.join;  a value that is no list is kept *)
Definition merge_co_val (tbl : list (list Z * Z)) : valfun := fun h v =>
  match v with
  | PAtom _ => Some (h, Some v)
  | PRef r =>
      match lookup h r with
      | Some (OList xs) => do l <- as_atoms xs; do a <- lget tbl l; Some (h, Some (PAtom a))
      | _ => Some (h, Some v)
      end
  end.
(* SplitNameParts: tbl: name atom -> Some [first; von; last; jr] | None (InvalidNameError) *)
Definition alloc_parts (h : heap) (p : list (list Z)) : option (heap * nat) :=
  match p with
  | [fi; vo; la; jr] =>
      let '(h1, l1) := alloc_atoms h fi in let '(h2, l2) := alloc_atoms h1 vo in
      let '(h3, l3) := alloc_atoms h2 la in let '(h4, l4) := alloc_atoms h3 jr in
      let '(h5, np) := alloc h4 (OInst C_NameParts [(A_first, PRef l1); (A_von, PRef l2); (A_last, PRef l3); (A_jr, PRef l4)]) in
      Some (h5, np)
  | _ => None
  end.
Fixpoint alloc_parts_list (h : heap) (ps : list (list (list Z))) : option (heap * list pv) :=
  match ps with
  | [] => Some (h, [])
  | p :: r => do x <- alloc_parts h p; do y <- alloc_parts_list (fst x) r; Some (fst y, PRef (snd x) :: snd y)
  end.
Fixpoint split_lookup (tbl : list (Z * option (list (list Z)))) (l : list Z) : option (option (list (list (list Z)))) :=
  match l with
  | [] => Some (Some [])
  | a :: r => do x <- zget tbl a;
              match x with
              | None => Some None                                     (* the first invalid name raises *)
              | Some p => do y <- split_lookup tbl r; Some (match y with Some ps => Some (p :: ps) | None => None end)
              end
  end.
Definition split_val (tbl : list (Z * option (list (list Z)))) : valfun := fun h v =>
  do r <- as_ref v; do xs <- get_list h r; do l <- as_atoms xs;      (* not a list: ValueError *)
  do sp <- split_lookup tbl l;
  match sp with
  | None => Some (h, None)
  | Some ps => do x <- alloc_parts_list h ps;
               let '(h1, nl) := alloc (fst x) (OList (snd x)) in Some (h1, Some (PRef nl))
  end.
(* MergeNameParts: tbl: [first; von; last; jr] -> merged string atom *)
Definition read_parts (h : heap) (p : nat) : option (list (list Z)) :=
  match class_of h p with
  | Some c => if Z.eqb c C_NameParts then
                do a <- attr_list h p A_first; do a' <- as_atoms (snd a);
                do b <- attr_list h p A_von; do b' <- as_atoms (snd b);
                do c0 <- attr_list h p A_last; do c' <- as_atoms (snd c0);
                do d <- attr_list h p A_jr; do d' <- as_atoms (snd d);
                Some [a'; b'; c'; d']
              else None
  | None => None
  end.
Fixpoint merge_lookup (tbl : list (list (list Z) * Z)) (h : heap) (ps : list nat) : option (list Z) :=
  match ps with
  | [] => Some []
  | p :: r => do k <- read_parts h p; do a <- llget tbl k; do r' <- merge_lookup tbl h r; Some (a :: r')
  end.
Definition merge_parts_val (tbl : list (list (list Z) * Z)) : valfun := fun h v =>
  do r <- as_ref v; do xs <- get_list h r; do ps <- as_refs xs;
  do l <- merge_lookup tbl h ps;
  let '(h1, nl) := alloc_atoms h l in Some (h1, Some (PRef nl)).

(* ------------------------------------------------------------------ LatexEncodingMiddleware / LatexDecodingMiddleware
   tbl: atom -> None (not a str: left alone) | Some (new atom, error?) *)
Fixpoint latex_atoms (tbl : list (Z * option (Z * bool))) (l : list Z) : option (list Z * bool) :=
  match l with
  | [] => Some ([], false)
  | a :: r => do x <- zget tbl a; do ne <- x; do y <- latex_atoms tbl r; Some (fst ne :: fst y, snd ne || snd y)
  end.
(* field.value.<part> = self._transform_all_strings(field.value.<part>, errors) *)
Definition latex_part (tbl : list (Z * option (Z * bool))) (h : heap) (e : bool) (p : nat) (a : Z) : option (heap * bool) :=
  do lx <- attr_list h p a; do l <- as_atoms (snd lx); do ne <- latex_atoms tbl l;
  let '(h1, nl) := alloc_atoms h (fst ne) in
  do h2 <- setattr h1 p a (PRef nl);
  Some (h2, e || snd ne).
Definition latex_step (tbl : list (Z * option (Z * bool))) (h : heap) (e : bool) (f : nat) : option (heap * bool) :=
  do v <- getattr h f A_value;
  match v with
  | PAtom a =>
      do x <- zget tbl a;
      match x with
      | Some ne => do h1 <- setattr h f A_value (PAtom (fst ne)); Some (h1, e || snd ne)
      | None => Some (h, e)
      end
  | PRef p =>
      match class_of h p with
      | Some c => if Z.eqb c C_NameParts then
                    do x1 <- latex_part tbl h e p A_first; do x2 <- latex_part tbl (fst x1) (snd x1) p A_last;
                    do x3 <- latex_part tbl (fst x2) (snd x2) p A_von; latex_part tbl (fst x3) (snd x3) p A_jr
                  else Some (h, e)
      | None => Some (h, e)
      end
  end.
Definition latex_entry (tbl : list (Z * option (Z * bool))) : heap -> nat -> option (heap * result) := fun h b =>
  do fs <- entry_fields h b;
  do x <- floop (latex_step tbl) h false fs;
  if snd x then do e <- error_block (fst x) b; Some (fst e, ROne (snd e)) else Some (fst x, ROne b).
Definition latex_string (tbl : list (Z * option (Z * bool))) : heap -> nat -> option (heap * result) := fun h b =>
  do v <- getattr h b A_value;
  match v with
  | PAtom a =>
      do x <- zget tbl a;
      match x with
      | Some ne => do h1 <- setattr h b A_value (PAtom (fst ne));
                   if snd ne then do e <- error_block h1 b; Some (fst e, ROne (snd e)) else Some (h1, ROne b)
      | None => Some (h, ROne b)
      end
  | PRef _ => Some (h, ROne b)
  end.
Definition latex_body tbl : body := dispatch (latex_entry tbl) (latex_string tbl).

(* ------------------------------------------------------------------ every shipped BlockMiddleware, with its arguments *)
Inductive shipped :=
| SRemoveEnclosing (kmeta : Z) (tbl : list (Z * (Z * Z)))
| SAddEnclosing (kmeta : Z) (tbl : list (list Z * Z))
| SMonth (kmonth kmeta m_other : Z) (tbl : list (Z * (Z * Z)))       (* MonthInt / MonthAbbreviation / MonthLongString *)
| SNormalizeFieldKeys (lower : list (Z * Z))
| SSortFields (rank : list (Z * nat)) (dflt : nat) (kmeta : Z) (mv : metaval)   (* Alphabetically / Custom *)
| SSeparateCoAuthors (name_keys : list Z) (tbl : list (Z * list Z))
| SMergeCoAuthors (name_keys : list Z) (tbl : list (list Z * Z))
| SSplitNameParts (name_keys : list Z) (tbl : list (Z * option (list (list Z))))
| SMergeNameParts (name_keys : list Z) (tbl : list (list (list Z) * Z))
| SLatex (tbl : list (Z * option (Z * bool))).                        (* LatexEncoding / LatexDecoding *)

Definition shipped_body (s : shipped) : body :=
  match s with
  | SRemoveEnclosing k t => remove_enclosing_body k t
  | SAddEnclosing k t => add_enclosing_body k t
  | SMonth km k mo t => month_body km k mo t
  | SNormalizeFieldKeys lo => normalize_body lo
  | SSortFields r d k mv => sort_fields_body r d k mv
  | SSeparateCoAuthors nk t => names_body nk (separate_val t)
  | SMergeCoAuthors nk t => names_body nk (merge_co_val t)
  | SSplitNameParts nk t => names_body nk (split_val t)
  | SMergeNameParts nk t => names_body nk (merge_parts_val t)
  | SLatex t => latex_body t
  end.
