(* middlewares/sorting_entry_fields.py: SortFieldsAlphabeticallyMiddleware, SortFieldsCustomMiddleware.
   `sorted` is CPython's stable sort; it is modelled by the insertion sort of Base/StableSort.v (which is
   THE stable sorted permutation, see [stable_sort_unique]).  Definitions only. *)
From Coq Require Import String List NArith ZArith Bool Arith.
From BP Require Import Base.Chars Base.StableSort Model.Blocks Model.LibRebuild.
Import ListNotations.

(* ---- alphabetical:  sorted(entry.fields, key=lambda f: f.key)  -- str order = code points *)
Definition alpha_le (f g : field) : bool := str_leb (fkey f) (fkey g).
Definition sort_alpha (fs : list field) : list field := isort alpha_le fs.

Definition alpha_meta_key : str := lit "sorted_fields_alphabetically"%string.

Definition alpha_block : block -> block :=
  on_entry (fun h => set_meta h alpha_meta_key (VBool true)) sort_alpha.

(* ---- custom order *)
(* the constructor: self._order, or ValueError (None) when the folded list has duplicates *)
Definition fold_key (case_sensitive : bool) (k : str) : str := if case_sensitive then k else lower k.

Fixpoint has_dup (l : list str) : bool :=        (* len(l) != len(set(l)) *)
  match l with
  | [] => false
  | x :: r => mem_str x r || has_dup r
  end.

Definition custom_ctor (case_sensitive : bool) (order : list str) : option (list str) :=
  let o := map (fold_key case_sensitive) order in
  if has_dup o then None else Some o.

(* _sort_key: self._order.index(key), or len(self._order) on ValueError *)
Definition custom_rank (case_sensitive : bool) (ord : list str) (f : field) : nat :=
  match index_of (fold_key case_sensitive (fkey f)) ord with
  | Some i => i
  | None => length ord
  end.

Definition custom_le (cs : bool) (ord : list str) (f g : field) : bool :=
  Nat.leb (custom_rank cs ord f) (custom_rank cs ord g).
Definition sort_custom (cs : bool) (ord : list str) (fs : list field) : list field :=
  isort (custom_le cs ord) fs.

Definition custom_meta_key : str := lit "sorted_fields_custom"%string.

(* the object stored in the metadata is self._order: a fresh list when folding, otherwise the very
   sequence the caller passed (tuple or list) *)
Definition order_value (cs as_tuple : bool) (ord : list str) : value :=
  if cs && as_tuple then VTuple (map VStr ord) else VList (map VStr ord).

Definition custom_block (cs as_tuple : bool) (ord : list str) : block -> block :=
  on_entry (fun h => set_meta h custom_meta_key (order_value cs as_tuple ord)) (sort_custom cs ord).
