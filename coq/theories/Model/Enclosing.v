(* middlewares/enclosing.py: RemoveEnclosingMiddleware / AddEnclosingMiddleware and
   middlewares/middleware.py: BlockMiddleware.transform (Library(blocks=...) rebuild).  Definitions only. *)
From Coq Require Import List NArith ZArith Bool String.
From BP Require Import Base.Chars Model.Blocks Model.LibAdd Gen.Constants.
Import ListNotations.
Local Open Scope Z_scope.

Definition no_enclosing : str := lit "no-enclosing".

(* value[-1] and value[1:-1] *)
Definition last_ch (s : str) : ch := last s 0%N.
Definition inner (s : str) : str := removelast (tl s).

(* RemoveEnclosingMiddleware._is_single_enclosed_piece: the loop `for i, char in enumerate(value)`.
   fb      : value[0] == "{"                (otherwise value[0] is the double quote)
   isfirst : i == 0
   pbs     : i > 0 and value[i-1] == "\\"
   depth   : the running counter
   `last` (i == len(value)-1) is "the rest is empty". *)
Fixpoint scan (fb isfirst pbs : bool) (depth : Z) (s : str) : bool :=
  match s with
  | [] => negb fb                                              (* return value[0] == dquote *)
  | c :: r =>
      let is_last := match r with [] => true | _ => false end in
      if pbs then
        (if is_last then false                                   (* the closing delimiter is escaped *)
         else scan fb false (ceq c c_bs) depth r)                (* escaped delimiter: continue *)
      else if ceq c c_lb then scan fb false false (depth + 1) r
      else if ceq c c_rb then
        (if ((depth - 1) =? 0) && fb then is_last                (* the opening bracket is closed here *)
         else scan fb false false (depth - 1) r)
      else if ceq c c_quote && (depth =? 0) && negb fb && negb isfirst && negb is_last then false
      else scan fb false (ceq c c_bs) depth r
  end.

(* precondition: 2 <= len(value) *)
Definition is_single_enclosed_piece (v : str) : bool :=
  match v with
  | [] => false
  | c0 :: _ =>
      if negb (ceq c0 c_lb && ceq (last_ch v) c_rb) && negb (ceq c0 c_quote && ceq (last_ch v) c_quote) then false
      else scan (ceq c0 c_lb) true false 0 v
  end.

(* _strip_enclosing on a str: (stripped, enclosing) *)
Definition strip_enclosing (value : str) : str * str :=
  let v := strip value in
  match v with
  | c0 :: _ :: _ => if is_single_enclosed_piece v then (inner v, [c0]) else (v, no_enclosing)
  | _ => (v, no_enclosing)
  end.

(* results: a value, an exception (code of harness/implutil.py EXC_CODES), or outside the model *)
Inductive res (T : Type) := Val (x : T) | Raise (code : Z) | Skip.
Arguments Val {T} x.
Arguments Raise {T} code.
Arguments Skip {T}.

Definition exc_ValueError : Z := 1.
Definition exc_AttributeError : Z := 4.

(* _strip_enclosing on an arbitrary Python value: value.strip() needs a str *)
Definition strip_value (v : value) : res (str * str) :=
  match v with
  | VStr s => Val (strip_enclosing s)
  | VOther _ => Skip
  | _ => Raise exc_AttributeError                 (* int / list / None / NameParts / ... have no .strip *)
  end.

(* RemoveEnclosingMiddleware.transform_entry: the loop over the fields, building the metadata dict *)
Fixpoint remove_fields (fs : list field) (md : list (str * value)) : res (list field * list (str * value)) :=
  match fs with
  | [] => Val ([], md)
  | f :: r =>
      match strip_value (fval f) with
      | Val (s, e) =>
          match remove_fields r (dict_set md (fkey f) (VStr e)) with
          | Val (r', md') => Val (mkfield (fkey f) (VStr s) (fline f) :: r', md')
          | Raise c => Raise c
          | Skip => Skip
          end
      | Raise c => Raise c
      | Skip => Skip
      end
  end.

(* transform_block of RemoveEnclosingMiddleware (entries and strings; every other block is returned as it is) *)
Definition remove_block (b : block) : res block :=
  match b with
  | BEntry h t k fs =>
      match remove_fields fs [] with
      | Val (fs', md) => Val (BEntry (set_meta h remove_enclosing_metadata_key (VDict md)) t k fs')
      | Raise c => Raise c
      | Skip => Skip
      end
  | BString h k v =>
      match strip_value v with
      | Val (s, e) => Val (BString (set_meta h remove_enclosing_metadata_key (VStr e)) k (VStr s))
      | Raise c => Raise c
      | Skip => Skip
      end
  | _ => Val b
  end.

(* ---------------------------------------------------------------- AddEnclosingMiddleware *)
Record addcfg := mkadd { reuse : bool; enclose_integers : bool; default_enclosing : str }.

(* str.isdigit(): non-empty, every character has the digit flag *)
Definition str_isdigit (s : str) : bool := match s with [] => false | _ => forallb isdigit s end.

(* _is_integer on the value types the model formats *)
Definition is_integer (v : value) : bool :=
  match v with VInt _ => true | VStr s => str_isdigit s | _ => false end.

(* f"{value}" for str and int *)
Definition fmt_value (v : value) : option str :=
  match v with VStr s => Some s | VInt z => Some (dec_of_Z z) | _ => None end.

(* `metadata_enclosing is not None` *)
Definition not_none (md : option value) : option value :=
  match md with Some VNone => None | o => o end.

(* AddEnclosingMiddleware._enclose *)
Definition enclose (c : addcfg) (v : value) (md : option value) (apply_int_rule : bool) : res value :=
  match fmt_value v with
  | None => Skip                                   (* other value types: formatted by CPython, outside the model *)
  | Some txt =>
      let by_enclosing (e : value) : res value :=
        match e with
        | VStr e' =>
            if str_eqb e' [c_lb] then Val (VStr (c_lb :: txt ++ [c_rb]))
            else if str_eqb e' [c_quote] then Val (VStr (c_quote :: txt ++ [c_quote]))
            else if str_eqb e' no_enclosing then Val v
            else Raise exc_ValueError
        | VOther _ | VParts _ _ _ _ => Skip        (* == on objects the model does not look into *)
        | _ => Raise exc_ValueError
        end in
      match (if reuse c then not_none md else None) with
      | Some e => by_enclosing e
      | None =>
          if apply_int_rule && negb (enclose_integers c) && is_integer v then Val v
          else by_enclosing (VStr (default_enclosing c))
      end
  end.

(* metadata_enclosing.get(field.key, None) if metadata_enclosing is not None else None *)
Definition md_lookup (md : option value) (k : str) : res (option value) :=
  match not_none md with
  | None => Val None
  | Some (VDict d) => Val (dict_get d k)
  | Some (VOther _) => Skip
  | Some _ => Raise exc_AttributeError             (* str / int / list ... have no .get *)
  end.

Fixpoint add_fields (c : addcfg) (md : option value) (fs : list field) : res (list field) :=
  match fs with
  | [] => Val []
  | f :: r =>
      match md_lookup md (fkey f) with
      | Val prev =>
          match enclose c (fval f) prev (mem_str (fkey f) entry_potentially_int_fields) with
          | Val v' => match add_fields c md r with
                      | Val r' => Val (mkfield (fkey f) v' (fline f) :: r')
                      | Raise x => Raise x
                      | Skip => Skip
                      end
          | Raise x => Raise x
          | Skip => Skip
          end
      | Raise x => Raise x
      | Skip => Skip
      end
  end.

Definition del_meta (h : hdr) (k : str) : hdr := mkhdr (sl h) (raw h) (dict_del (meta h) k).

Definition add_block_encl (c : addcfg) (b : block) : res block :=
  match b with
  | BEntry h t k fs =>
      (* entry.parser_metadata.pop("removed_enclosing", None) *)
      let md := dict_get (meta h) remove_enclosing_metadata_key in
      match add_fields c md fs with
      | Val fs' => Val (BEntry (del_meta h remove_enclosing_metadata_key) t k fs')
      | Raise x => Raise x
      | Skip => Skip
      end
  | BString h k v =>
      match enclose c v (dict_get (meta h) remove_enclosing_metadata_key) strings_can_be_unescaped_ints with
      | Val v' => Val (BString h k v')
      | Raise x => Raise x
      | Skip => Skip
      end
  | _ => Val b
  end.

(* ---------------------------------------------------------------- BlockMiddleware.transform *)
Fixpoint map_res {T U} (f : T -> res U) (l : list T) : res (list U) :=
  match l with
  | [] => Val []
  | x :: r => match f x with
              | Val y => match map_res f r with Val r' => Val (y :: r') | Raise c => Raise c | Skip => Skip end
              | Raise c => Raise c
              | Skip => Skip
              end
  end.

(* blocks = [transform_block(b) for b in library.blocks]; return Library(blocks=blocks) *)
Definition block_mw (f : block -> res block) (blocks : list block) : res (list block) :=
  match map_res f blocks with
  | Val bs => Val (rebuild bs)
  | Raise c => Raise c
  | Skip => Skip
  end.

Definition remove_lib (blocks : list block) : res (list block) := block_mw remove_block blocks.
Definition add_lib (c : addcfg) (blocks : list block) : res (list block) := block_mw (add_block_encl c) blocks.
