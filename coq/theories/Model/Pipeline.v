(* The public entry points with their default stacks, composed from the engine models (definitions only):
     parse_string(text)              = RemoveEnclosing (ResolveStringReferences (Splitter(text).split()))
     write_string(library, fmt)      = writer.write (AddEnclosing(default '{', reuse False, enclose_integers True) library, fmt)
   (entrypoint.py, middlewares/parsestack.py). *)
From Coq Require Import List NArith ZArith Bool.
From BP Require Import Base.Chars Model.Blocks Model.LibAdd Model.Lexer Model.Splitter Model.Enclosing Model.Interpolate Model.Writer.
Import ListNotations.

Inductive pres (T : Type) := PVal (x : T) | PRaise | PSkip.
Arguments PVal {T} x.
Arguments PRaise {T}.
Arguments PSkip {T}.

Definition parse_default (t : str) : pres (list block) :=
  match split t with
  | Raised => PRaise
  | Blocks bs =>
      match default_stack bs with
      | Enclosing.Val bs' => PVal bs'
      | Enclosing.Raise _ => PRaise
      | Enclosing.Skip => PSkip
      end
  end.

Definition default_add : addcfg := mkadd false true [c_lb].

Definition write_default (f : fmt) (bs : list block) : pres str :=
  match add_lib default_add bs with
  | Enclosing.Val bs' =>
      match write f bs' with
      | Writer.Val s => PVal s
      | Writer.Raise _ => PRaise
      | Writer.Skip => PSkip
      end
  | Enclosing.Raise _ => PRaise
  | Enclosing.Skip => PSkip
  end.

(* parse -> write -> parse -> write *)
Definition roundtrip (f : fmt) (t : str) : pres (str * list block * str) :=
  match parse_default t with
  | PVal l1 =>
      match write_default f l1 with
      | PVal t1 =>
          match parse_default t1 with
          | PVal l2 =>
              match write_default f l2 with
              | PVal t2 => PVal (t1, l2, t2)
              | PRaise => PRaise | PSkip => PSkip
              end
          | PRaise => PRaise | PSkip => PSkip
          end
      | PRaise => PRaise | PSkip => PSkip
      end
  | PRaise => PRaise | PSkip => PSkip
  end.

(* parse_string then write_string with the default format *)
Definition parse_write (t : str) : pres str :=
  match parse_default t with
  | PVal l1 => write_default default_fmt l1
  | PRaise => PRaise | PSkip => PSkip
  end.
