(* writer.py: BibtexFormat.value_column setter (the only validating setter): an int >= 0 or the string 'auto';
   anything else raises ValueError and leaves the format unchanged.  Definitions only. *)
From Coq Require Import List NArith ZArith Bool String.
From BP Require Import Base.Chars Model.Blocks Model.Writer.
Import ListNotations.
Local Open Scope Z_scope.

Definition s_auto : str := lit "auto".

(* the argument as Python sees it: bool is an int subclass (True -> 1) *)
Definition set_value_column (a : value) : option column :=      (* None = ValueError *)
  match a with
  | VInt z => if z <? 0 then None else Some (ColN (Z.to_nat z))
  | VBool b => Some (ColN (if b then 1 else 0)%nat)
  | VStr s => if str_eqb s s_auto then Some ColAuto else None
  | _ => None
  end.

Definition with_column (f : fmt) (c : column) : fmt := mkfmt (f_indent f) c (f_sep f) (f_trailing f) (f_failed f).

(* fmt.value_column = a *)
Definition assign_value_column (f : fmt) (a : value) : fmt * bool :=   (* (format afterwards, raised?) *)
  match set_value_column a with Some c => (with_column f c, false) | None => (f, true) end.
