(* middlewares/interpolate.py: ResolveStringReferencesMiddleware on a library, and the default parse stack
   (middlewares/parsestack.py: resolve, THEN remove enclosing).  Definitions only.
   A library is represented by the block list it was built from (splitter: library.add(blocks)):
   [lib_of bs] gives library.blocks (duplicates wrapped) and library.strings_dict (first definition per key). *)
From Coq Require Import List NArith ZArith Bool String.
From BP Require Import Base.Chars Model.Blocks Model.LibAdd Model.Enclosing Gen.Constants.
Import ListNotations.

Definition resolve_meta_key : str := lit "ResolveStringReferences".

(* value.startswith(p) and value.endswith(p) for a one-character p *)
Definition first_is (c : ch) (s : str) : bool := match s with x :: _ => ceq x c | [] => false end.
Definition last_is (c : ch) (s : str) : bool := match rv s with x :: _ => ceq x c | [] => false end.

(* _value_is_nonstring_or_enclosed *)
Definition nonstring_or_enclosed (v : value) : bool :=
  match v with
  | VStr s => (first_is c_quote s && last_is c_quote s) || (first_is c_lb s && last_is c_rb s)
  | _ => true
  end.

Definition string_value (b : block) : value := match b with BString _ _ v => v | _ => VNone end.

(* the inner loop over entry.fields: new fields, resolved_fields *)
Fixpoint resolve_fields (sd : list (str * block)) (fs : list field) : list field * list str :=
  match fs with
  | [] => ([], [])
  | f :: r =>
      let (r', ks) := resolve_fields sd r in
      if nonstring_or_enclosed (fval f) then (f :: r', ks)
      else match fval f with
           | VStr s =>
               match dict_get sd s with                         (* field.value in library.strings_dict *)
               | None => (f :: r', ks)
               | Some sb => (mkfield (fkey f) (string_value sb) (fline f) :: r', fkey f :: ks)
               end
           | _ => (f :: r', ks)
           end
  end.

(* the body of `for entry in library.entries` (a live entry); other blocks are not visited *)
Definition resolve_block (sd : list (str * block)) (b : block) : block :=
  match b with
  | BEntry h t k fs =>
      let (fs', ks) := resolve_fields sd fs in
      match ks with
      | [] => BEntry h t k fs'
      | _ => BEntry (set_meta h resolve_meta_key (VList (map VStr ks))) t k fs'
      end
  | _ => b
  end.

(* ResolveStringReferencesMiddleware.transform on the library built from bs; result: library.blocks *)
Definition resolve_on (l : libst) : list block := map (resolve_block (strs l)) (lblocks l).
Definition resolve_lib (bs : list block) : list block := resolve_on (lib_of bs).

(* applying a middleware to the library whose blocks are [blocks]: the library object is Library(blocks) *)
Definition resolve_blocks (blocks : list block) : list block := resolve_lib blocks.

(* default_parse_stack after the splitter: resolve, then remove enclosing *)
Definition default_stack (bs : list block) : res (list block) := remove_lib (resolve_lib bs).
(* the other order *)
Definition swapped_stack (bs : list block) : res (list block) :=
  match remove_lib (lblocks (lib_of bs)) with
  | Val bs' => Val (resolve_lib bs')
  | Raise c => Raise c
  | Skip => Skip
  end.
