(* splitter.py: the mark regex (unescaped brace, quote, comma, equals | newline | @word* blank* before a brace;
   its source text is in Gen/Constants.v: mark_regex_src) as a per-position classification
   with one character of look-behind and a look-ahead function on the remaining text.  Definitions only.

   Why a scan suffices (DESIGN 4.0): the three alternatives start with different characters; an @-match
   consists of '@', word characters and spaces/tabs, none of which can start a mark, so skipping the matched
   text loses no mark and re.finditer's left-to-right non-overlapping iteration coincides with classifying
   every position; greedy matching with backtracking cannot succeed where the maximal match fails because a
   shorter split leaves a word character, space or tab in front of the look-ahead. *)
From Coq Require Import List NArith ZArith Bool.
From BP Require Import Base.Chars.
Import ListNotations.
Local Open Scope N_scope.

Inductive mk := MLB | MRB | MQ | MComma | MEq | MNL | MAt.

Fixpoint drop_while (p : ch -> bool) (l : str) : str :=
  match l with [] => [] | c :: r => if p c then drop_while p r else l end.

Definition is_sptab (c : ch) : bool := (c =? c_sp) || (c =? c_tab).

(* look-ahead of the @-alternative on the text after '@':  \w* ( |\t)* then '{' *)
Definition at_ok (rest : str) : bool :=
  match drop_while is_sptab (drop_while isword rest) with
  | c :: _ => c =? c_lb
  | [] => false
  end.

Definition classify1 (prev_bs : bool) (c : ch) (rest : str) : option mk :=
  if c =? c_nl then Some MNL
  else if c =? c_at then (if at_ok rest then Some MAt else None)
  else if prev_bs then None
  else if c =? c_lb then Some MLB
  else if c =? c_rb then Some MRB
  else if c =? c_quote then Some MQ
  else if c =? c_comma then Some MComma
  else if c =? c_eq then Some MEq
  else None.

(* every character of the text with its class; prev_bs = the previous character is a backslash *)
Fixpoint classify (prev_bs : bool) (l : str) : list (ch * option mk) :=
  match l with
  | [] => []
  | c :: r => (c, classify1 prev_bs c r) :: classify (c =? c_bs) r
  end.

(* the marks as re.finditer reports them: (start offset, matched text); used by the lexer correspondence *)
Fixpoint take_while (p : ch -> bool) (l : str) : str :=
  match l with [] => [] | c :: r => if p c then c :: take_while p r else [] end.
Definition at_text (rest : str) : str :=
  let w := take_while isword rest in w ++ take_while is_sptab (drop_while isword rest).

Fixpoint marks_from (pos : N) (prev_bs : bool) (l : str) : list (N * str) :=
  match l with
  | [] => []
  | c :: r =>
      match classify1 prev_bs c r with
      | Some MAt => (pos, c :: at_text r) :: marks_from (pos + 1) (c =? c_bs) r
      | Some _ => (pos, [c]) :: marks_from (pos + 1) (c =? c_bs) r
      | None => marks_from (pos + 1) (c =? c_bs) r
      end
  end.
