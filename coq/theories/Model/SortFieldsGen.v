(* middlewares/sorting_entry_fields.py, SortFieldsCustomMiddleware, for EVERY str.lower.
   The same transcription as Model/SortFields.v, but `x.lower()` / `field.key.lower()` is a Section
   variable [lowerU : str -> str] (CPython's str.lower: context-sensitive (final sigma) and
   length-changing (U+0130), hence a function on strings, not a map over characters) instead of the ASCII
   instance [Base.Chars.lower].  Nothing is assumed about it here.  The alphabetical middleware does not call
   lower() and is not repeated.  With [lowerU := lower] every definition below IS the one of
   Model/SortFields.v (Proofs/SortFieldsGenProofs.v, gen_instance: by reflexivity).  Definitions only. *)
From Coq Require Import String List NArith ZArith Bool Arith.
From BP Require Import Base.Chars Base.StableSort Model.Blocks Model.LibRebuild Model.SortFields.
Import ListNotations.

Section Gen.
  Variable lowerU : str -> str.                 (* str.lower *)

  (* the constructor: self._order, or ValueError (None) when the folded list has duplicates *)
  Definition fold_key_gen (case_sensitive : bool) (k : str) : str := if case_sensitive then k else lowerU k.

  Definition custom_ctor_gen (case_sensitive : bool) (order : list str) : option (list str) :=
    let o := map (fold_key_gen case_sensitive) order in
    if has_dup o then None else Some o.

  (* _sort_key: self._order.index(key), or len(self._order) on ValueError *)
  Definition custom_rank_gen (case_sensitive : bool) (ord : list str) (f : field) : nat :=
    match index_of (fold_key_gen case_sensitive (fkey f)) ord with
    | Some i => i
    | None => length ord
    end.

  Definition custom_le_gen (cs : bool) (ord : list str) (f g : field) : bool :=
    Nat.leb (custom_rank_gen cs ord f) (custom_rank_gen cs ord g).
  Definition sort_custom_gen (cs : bool) (ord : list str) (fs : list field) : list field :=
    isort (custom_le_gen cs ord) fs.

  Definition custom_block_gen (cs as_tuple : bool) (ord : list str) : block -> block :=
    on_entry (fun h => set_meta h custom_meta_key (order_value cs as_tuple ord)) (sort_custom_gen cs ord).
End Gen.
