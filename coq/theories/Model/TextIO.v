(* The runtime's TEXT LAYER under parse_file / write_file (entrypoint.py:139-142, 166-170):

       open(path, encoding=enc).read()      = universal newlines ( codec.decode ( bytes of the file ) )
       open(path, "w").write(s)             = codec.encode ( s )     (newline=None writes os.linesep for "\n"; "\n" here)

   for the three codecs of the property's quantifier that are algorithms rather than tables: utf-8, latin-1 and utf-16
   (gbk is a table: it stays an oracle).  Bytes and code points are integers; a Python str may hold any code point
   0..0x10FFFF including lone surrogates, which the strict encoders refuse.  Only success/failure and the result are
   modelled, not the position reported in a UnicodeError.  CPython's decoders are compared with these on every run
   (op 122, stream `textio`). *)
From Coq Require Import List ZArith Bool Lia.
Import ListNotations.
Local Open Scope Z_scope.

Definition byte_ok (b : Z) : bool := (0 <=? b) && (b <=? 255).
Definition bytes_ok (bs : list Z) : bool := forallb byte_ok bs.
Definition cp_ok (c : Z) : bool := (0 <=? c) && (c <=? 1114111).              (* what a str can hold *)
Definition surrogate (c : Z) : bool := (55296 <=? c) && (c <=? 57343).         (* D800..DFFF *)
Definition scalar (c : Z) : bool := cp_ok c && negb (surrogate c).             (* what the strict codecs accept *)
Definition text_ok (s : list Z) : bool := forallb cp_ok s.
Definition scalars (s : list Z) : bool := forallb scalar s.

(* ---------------------------------------------------------------- utf-8 *)
Definition cont (b : Z) : bool := (128 <=? b) && (b <=? 191).

Definition utf8_enc_cp (c : Z) : list Z :=
  if c <? 128 then [c]
  else if c <? 2048 then [192 + c / 64; 128 + c mod 64]
  else if c <? 65536 then [224 + c / 4096; 128 + (c / 64) mod 64; 128 + c mod 64]
  else [240 + c / 262144; 128 + (c / 4096) mod 64; 128 + (c / 64) mod 64; 128 + c mod 64].

Fixpoint utf8_encode (s : list Z) : option (list Z) :=
  match s with
  | [] => Some []
  | c :: r => if scalar c then option_map (app (utf8_enc_cp c)) (utf8_encode r) else None
  end.

(* strict decoder: no overlong forms, no surrogates, nothing above 10FFFF, no truncated sequence *)
Fixpoint utf8_decode (bs : list Z) : option (list Z) :=
  match bs with
  | [] => Some []
  | b0 :: r0 =>
      if (0 <=? b0) && (b0 <? 128) then option_map (cons b0) (utf8_decode r0)
      else if (194 <=? b0) && (b0 <=? 223) then
        match r0 with
        | b1 :: r1 => if cont b1 then option_map (cons ((b0 - 192) * 64 + (b1 - 128))) (utf8_decode r1) else None
        | _ => None
        end
      else if (224 <=? b0) && (b0 <=? 239) then
        match r0 with
        | b1 :: b2 :: r2 =>
            let c := (b0 - 224) * 4096 + (b1 - 128) * 64 + (b2 - 128) in
            if cont b1 && cont b2 && (2048 <=? c) && negb (surrogate c)
            then option_map (cons c) (utf8_decode r2) else None
        | _ => None
        end
      else if (240 <=? b0) && (b0 <=? 244) then
        match r0 with
        | b1 :: b2 :: b3 :: r3 =>
            let c := (b0 - 240) * 262144 + (b1 - 128) * 4096 + (b2 - 128) * 64 + (b3 - 128) in
            if cont b1 && cont b2 && cont b3 && (65536 <=? c) && (c <=? 1114111)
            then option_map (cons c) (utf8_decode r3) else None
        | _ => None
        end
      else None
  end.

(* ---------------------------------------------------------------- latin-1 *)
Definition latin1_decode (bs : list Z) : option (list Z) := Some bs.
Definition latin1_encode (s : list Z) : option (list Z) :=
  if forallb (fun c => (0 <=? c) && (c <=? 255)) s then Some s else None.

(* ---------------------------------------------------------------- utf-16 *)
(* code units *)
Fixpoint units_le (bs : list Z) : option (list Z) :=
  match bs with
  | [] => Some []
  | b0 :: b1 :: r => option_map (cons (b0 + b1 * 256)) (units_le r)
  | _ => None                                                       (* truncated data *)
  end.
Fixpoint units_be (bs : list Z) : option (list Z) :=
  match bs with
  | [] => Some []
  | b0 :: b1 :: r => option_map (cons (b0 * 256 + b1)) (units_be r)
  | _ => None
  end.
Definition hi_sur (u : Z) : bool := (55296 <=? u) && (u <=? 56319).           (* D800..DBFF *)
Definition lo_sur (u : Z) : bool := (56320 <=? u) && (u <=? 57343).           (* DC00..DFFF *)
Fixpoint units_decode (us : list Z) : option (list Z) :=
  match us with
  | [] => Some []
  | u :: r =>
      if hi_sur u then
        match r with
        | u2 :: r2 => if lo_sur u2 then option_map (cons (65536 + (u - 55296) * 1024 + (u2 - 56320))) (units_decode r2) else None
        | [] => None
        end
      else if lo_sur u then None
      else option_map (cons u) (units_decode r)
  end.
Definition units_of_cp (c : Z) : list Z :=
  if c <? 65536 then [c] else [55296 + (c - 65536) / 1024; 56320 + (c - 65536) mod 1024].
Fixpoint units_encode (s : list Z) : option (list Z) :=
  match s with
  | [] => Some []
  | c :: r => if scalar c then option_map (app (units_of_cp c)) (units_encode r) else None
  end.
Definition bytes_le (us : list Z) : list Z := flat_map (fun u => [u mod 256; u / 256]) us.
Definition bytes_be (us : list Z) : list Z := flat_map (fun u => [u / 256; u mod 256]) us.

(* codec "utf-16" as open() uses it (the INCREMENTAL decoder of encodings/utf_16.py, not bytes.decode): a byte order
   mark selects the order and is dropped; a non-empty stream WITHOUT one is refused ("UTF-16 stream does not start with
   BOM").  The encoder writes the mark of the native order - FF FE on the little-endian machines the checks run on (the
   harness verifies sys.byteorder) - and little-endian units. *)
Definition utf16_decode (bs : list Z) : option (list Z) :=
  match bs with
  | [] => Some []
  | 255 :: 254 :: r => match units_le r with Some us => units_decode us | None => None end
  | 254 :: 255 :: r => match units_be r with Some us => units_decode us | None => None end
  | _ => None
  end.
Definition utf16_encode (s : list Z) : option (list Z) :=
  option_map (fun us => 255 :: 254 :: bytes_le us) (units_encode s).

(* ---------------------------------------------------------------- universal newlines (reading, newline=None) *)
Fixpoint nl_read (s : list Z) : list Z :=
  match s with
  | [] => []
  | 13 :: r => 10 :: match r with 10 :: r' => nl_read r' | _ => nl_read r end
  | c :: r => c :: nl_read r
  end.

(* ---------------------------------------------------------------- the text layer *)
Inductive codec := Utf8 | Latin1 | Utf16.
Definition decode (e : codec) (bs : list Z) : option (list Z) :=
  match e with Utf8 => utf8_decode bs | Latin1 => latin1_decode bs | Utf16 => utf16_decode bs end.
Definition encode (e : codec) (s : list Z) : option (list Z) :=
  match e with Utf8 => utf8_encode s | Latin1 => latin1_encode s | Utf16 => utf16_encode s end.
Definition read_text (e : codec) (bs : list Z) : option (list Z) := option_map nl_read (decode e bs).
Definition write_text (e : codec) (s : list Z) : option (list Z) := encode e s.     (* "\n" -> os.linesep = "\n" *)
