(* C07 - the heap: Python objects with identity.  Definitions only (proofs: Proofs/HeapProofs.v).

   A Python value is an atom (str, int, None, bool, an exception object: immutable, or - for exceptions -
   excluded by the property text) or a reference to a mutable object.  Objects are lists, dicts (insertion
   ordered, atom keys) and instances (class code + attribute dict in insertion order).  A heap is a finite
   map oid -> obj kept as an association list, NEWEST BINDING FIRST: a write prepends a binding that shadows
   the older one, an allocation prepends a binding for the fresh oid 1 + max. *)
From Coq Require Import List ZArith Bool Arith.
Import ListNotations.

Inductive pv := PAtom (a : Z) | PRef (o : nat).
Inductive obj := OList (l : list pv) | ODict (d : list (Z * pv)) | OInst (cls : Z) (attrs : list (Z * pv)).
Definition heap := list (nat * obj).

Fixpoint lookup (h : heap) (o : nat) : option obj :=
  match h with
  | [] => None
  | (k, v) :: r => if Nat.eqb k o then Some v else lookup r o
  end.
Definition dom (h : heap) : list nat := map fst h.
Definition fresh (h : heap) : nat := S (fold_right Nat.max 0 (dom h)).
Definition set_obj (h : heap) (o : nat) (ob : obj) : heap := (o, ob) :: h.
Definition alloc (h : heap) (ob : obj) : heap * nat := let o := fresh h in ((o, ob) :: h, o).

(* outgoing references *)
Definition pv_refs (v : pv) : list nat := match v with PRef o => [o] | PAtom _ => [] end.
Definition obj_pvs (ob : obj) : list pv :=
  match ob with OList l => l | ODict d => map snd d | OInst _ a => map snd a end.
Definition refs_of (ob : obj) : list nat := flat_map pv_refs (obj_pvs ob).

(* reach h r p: object p is reachable from object r (r itself included) *)
Inductive reach (h : heap) : nat -> nat -> Prop :=
| reach_here : forall r, reach h r r
| reach_step : forall r ob q p, lookup h r = Some ob -> In q (refs_of ob) -> reach h q p -> reach h r p.

(* no dangling reference *)
Definition wf_heap (h : heap) : Prop :=
  forall p ob q, lookup h p = Some ob -> In q (refs_of ob) -> In q (dom h).

(* every object that existed in h is still there, with the same content, in h' *)
Definition unchanged (h h' : heap) : Prop := forall p, In p (dom h) -> lookup h' p = lookup h p.

(* ------------------------------------------------------------------ executable versions (fuelled) *)
Definition mem_nat (x : nat) (l : list nat) : bool := existsb (Nat.eqb x) l.

(* depth-first set of objects reachable from the todo list *)
Fixpoint reach_list (fuel : nat) (h : heap) (seen : list nat) (o : nat) : list nat :=
  match fuel with
  | 0 => seen
  | S f =>
      if mem_nat o seen then seen
      else match lookup h o with
           | None => o :: seen
           | Some ob => fold_left (fun s q => reach_list f h s q) (refs_of ob) (o :: seen)
           end
  end.
Definition reach_b (h : heap) (r : nat) : list nat := reach_list (S (length h)) h [] r.

Definition wf_heap_b (h : heap) : bool :=
  forallb (fun kv => forallb (fun q => mem_nat q (dom h)) (refs_of (snd kv))) h.

Definition pv_eqb (a b : pv) : bool :=
  match a, b with PAtom x, PAtom y => Z.eqb x y | PRef x, PRef y => Nat.eqb x y | _, _ => false end.
Fixpoint list_eqb {T} (e : T -> T -> bool) (a b : list T) : bool :=
  match a, b with [] , [] => true | x :: a', y :: b' => e x y && list_eqb e a' b' | _, _ => false end.
Definition kv_eqb (a b : Z * pv) : bool := Z.eqb (fst a) (fst b) && pv_eqb (snd a) (snd b).
Definition obj_eqb (a b : obj) : bool :=
  match a, b with
  | OList x, OList y => list_eqb pv_eqb x y
  | ODict x, ODict y => list_eqb kv_eqb x y
  | OInst c x, OInst d y => Z.eqb c d && list_eqb kv_eqb x y
  | _, _ => false
  end.
Definition oobj_eqb (a b : option obj) : bool :=
  match a, b with Some x, Some y => obj_eqb x y | None, None => true | _, _ => false end.
Definition unchanged_b (h h' : heap) : bool := forallb (fun p => oobj_eqb (lookup h' p) (lookup h p)) (dom h).
Definition disjoint_b (l : list nat) (d : list nat) : bool := forallb (fun p => negb (mem_nat p d)) l.

(* ------------------------------------------------------------------ CPython's copy.deepcopy, executable instance.
   Memoised graph copy: one copy per object per call (sharing and cycles inside the copied graph are preserved),
   atoms are shared.  As in copy.py the new object is created and entered into the memo BEFORE its content is
   copied.  Fuel bounds the recursion depth; S (length h) suffices because every non-memoised visit adds one
   object of h to the memo. *)
Definition memo := list (nat * nat).
Fixpoint memo_get (m : memo) (o : nat) : option nat :=
  match m with [] => None | (k, v) :: r => if Nat.eqb k o then Some v else memo_get r o end.

Definition rebuild (ob : obj) (l : list pv) : obj :=
  match ob with
  | OList _ => OList l
  | ODict d => ODict (combine (map fst d) l)
  | OInst c a => OInst c (combine (map fst a) l)
  end.
Definition shell (ob : obj) : obj :=
  match ob with OList _ => OList [] | ODict _ => ODict [] | OInst c _ => OInst c [] end.

(* copy the elements of a list / the values of a dict or __dict__ left to right, threading heap and memo;
   `rec` is the copy of one referenced object *)
Fixpoint copy_pvs (rec : heap -> memo -> nat -> heap * memo * nat * bool) (l : list pv) (h : heap) (m : memo)
  : heap * memo * list pv * bool :=
  match l with
  | [] => (h, m, [], true)
  | PAtom a :: r => let '(h2, m2, r', ok) := copy_pvs rec r h m in (h2, m2, PAtom a :: r', ok)
  | PRef q :: r =>
      let '(h1, m1, q', ok1) := rec h m q in
      let '(h2, m2, r', ok2) := copy_pvs rec r h1 m1 in (h2, m2, PRef q' :: r', ok1 && ok2)
  end.

(* the flag is false iff the fuel ran out or a dangling reference was met (then the result is not a copy) *)
Fixpoint dc (fuel : nat) (h : heap) (m : memo) (o : nat) : heap * memo * nat * bool :=
  match fuel with
  | 0 => (h, m, o, false)
  | S f =>
      match memo_get m o with
      | Some o' => (h, m, o', true)
      | None =>
          match lookup h o with
          | None => (h, m, o, false)
          | Some ob =>
              let o' := fresh h in
              let '(h2, m2, l', ok) := copy_pvs (dc f) (obj_pvs ob) (set_obj h o' (shell ob)) ((o, o') :: m) in
              (set_obj h2 o' (rebuild ob l'), m2, o', ok)
          end
      end
  end.

Definition deepcopy_exec (h : heap) (r : nat) : heap * nat :=
  let '(h', _, r', _) := dc (S (length h)) h [] r in (h', r').
(* the same, reporting whether the copy completed *)
Definition deepcopy_checked (h : heap) (r : nat) : option (heap * nat) :=
  let '(h', _, r', ok) := dc (S (length h)) h [] r in if ok then Some (h', r') else None.

(* the contract of a deepcopy call on one concrete heap, as a boolean (used on the Example heaps) *)
Definition dc_contract_on_b (DC : heap -> nat -> heap * nat) (h : heap) (r : nat) : bool :=
  let '(h', r') := DC h r in
  wf_heap_b h' && unchanged_b h h' && mem_nat r' (dom h') && disjoint_b (reach_b h' r') (dom h).
