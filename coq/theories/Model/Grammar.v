(* The dialect grammar of DESIGN.md section 3 as an AST (definitions only):
     render   : doc -> str           the exact source text
     expected : doc -> list block    the constructive ground truth
     wf_doc_b : doc -> bool          the side conditions of the grammar (wf_doc d := wf_doc_b d = true)
   Proofs/SplitGrammar.v proves  split_raw (render d) = Blocks (expected d)  for well-formed documents.

   Conventions.  [pb] = "the previous character is a backslash" (the splitter's escape rule).  A text atom that
   is directly followed by a structural delimiter must not end in a backslash ([ends_bs]).  Side condition G is
   the local, compositional [noat t rest]: no '@' of the text t, continued by rest, passes the look-ahead of
   the mark regex ([Lexer.at_ok]).  Duplicate field names are excluded by [nodup_fields]. *)
From Coq Require Import List NArith ZArith Bool.
From BP Require Import Base.Chars Model.Blocks Model.Lexer Model.Splitter Spec.C03.
Import ListNotations.
Local Open Scope N_scope.

(* ------------------------------------------------------------------ flat-text predicates *)
Definition is_ws (w : str) : bool := forallb isspace w.          (* ws*  *)
Definition is_hws (w : str) : bool := forallb is_sptab w.        (* hws* *)
Definition nonnil (s : str) : bool := match s with [] => false | _ => true end.

(* the look-behind after the text t *)
Fixpoint ends_bs (pb : bool) (t : str) : bool :=
  match t with [] => pb | c :: r => ends_bs (c =? c_bs) r end.

(* the active delimiter at a character, if any ('@' is governed by side condition G, not by this) *)
Definition delim (pb : bool) (c : ch) : option mk :=
  if c =? c_nl then Some MNL
  else if pb then None
  else if c =? c_lb then Some MLB
  else if c =? c_rb then Some MRB
  else if c =? c_quote then Some MQ
  else if c =? c_comma then Some MComma
  else if c =? c_eq then Some MEq
  else None.
Definition no_delim (pb : bool) (c : ch) : bool := match delim pb c with None => true | Some _ => false end.

(* side condition G, local form *)
Fixpoint noat (t rest : str) : bool :=
  match t with
  | [] => true
  | c :: r => (negb (c =? c_at) || negb (at_ok (r ++ rest))) && noat r rest
  end.

(* kchar*: non-whitespace characters none of which is an active delimiter *)
Fixpoint kchars (pb : bool) (s : str) : bool :=
  match s with
  | [] => true
  | c :: r => negb (isspace c) && no_delim pb c && kchars (c =? c_bs) r
  end.
(* key, name ::= kchar+ *)
Definition name_ok (s : str) : bool := nonnil s && kchars false s.

(* free text: starts and ends with a non-whitespace character *)
Definition tight (s : str) : bool :=
  match s with [] => false | c :: _ => negb (isspace c) && negb (isspace (last s c)) end.

(* ------------------------------------------------------------------ the AST *)
Inductive braced := BNil | BChar (c : ch) (b : braced) | BGroup (g : braced) (b : braced).
(* quoted content: no active quote anywhere; groups are brace groups of quoted content (boundary B1) *)
Inductive quoted := QNil | QChar (c : ch) (q : quoted) | QGroup (g : quoted) (q : quoted).
Inductive piece := PBare (s : str) | PBraced (b : braced) | PQuoted (q : quoted).
(* value ::= piece (ws* '#' ws* piece)* *)
Record gvalue := mkgv { v_first : piece; v_more : list (str * str * piece) }.
(* field ::= ws* name ws* '=' ws* value ws* *)
Record gfield := mkgf { g_pre : str; g_name : str; g_w1 : str; g_w2 : str; g_val : gvalue; g_post : str }.
(* the text after a comma of an entry, up to and including the closing brace:
     FEnd w     ws* '}'                 (no field, or after a trailing comma)
     FLast f    field '}'               (last field, no trailing comma)
     FCons f r  field ',' r                                                     *)
Inductive gfields := FEnd (w : str) | FLast (f : gfield) | FCons (f : gfield) (r : gfields).
(* after the key: '}' (the form @a{k}) or ',' fields *)
Inductive etail := ENoComma | EComma (fs : gfields).
Inductive item :=
| IEntry (typ hws w1 key w2 : str) (t : etail)                    (* '@' typ hws '{' w1 key w2 tail *)
| IString (kw hws w1 name w2 w3 : str) (v : gvalue) (w4 : str)    (* '@' kw hws '{' w1 name w2 '=' w3 v w4 '}' *)
| IPreamble (kw hws : str) (b : braced)                           (* '@' kw hws '{' b '}' *)
| IComment (kw hws : str) (b : braced)
| IFree (t : str).
(* document ::= gap (item gap)* *)
Record doc := mkdoc { d_gap0 : str; d_items : list (item * str) }.

(* ------------------------------------------------------------------ render *)
Fixpoint render_braced (b : braced) : str :=
  match b with
  | BNil => []
  | BChar c b => c :: render_braced b
  | BGroup g b => c_lb :: render_braced g ++ c_rb :: render_braced b
  end.
Fixpoint render_quoted (q : quoted) : str :=
  match q with
  | QNil => []
  | QChar c q => c :: render_quoted q
  | QGroup g q => c_lb :: render_quoted g ++ c_rb :: render_quoted q
  end.
Definition render_piece (p : piece) : str :=
  match p with
  | PBare s => s
  | PBraced b => c_lb :: render_braced b ++ [c_rb]
  | PQuoted q => c_quote :: render_quoted q ++ [c_quote]
  end.
Fixpoint render_more (l : list (str * str * piece)) : str :=
  match l with
  | [] => []
  | (a, b, p) :: r => a ++ c_hash :: b ++ render_piece p ++ render_more r
  end.
Definition render_value (v : gvalue) : str := render_piece (v_first v) ++ render_more (v_more v).
(* the part of a field before its '=' *)
Definition field_head (f : gfield) : str := g_pre f ++ g_name f ++ g_w1 f.
Definition render_field (f : gfield) : str :=
  field_head f ++ c_eq :: g_w2 f ++ render_value (g_val f) ++ g_post f.
Fixpoint render_fields (fs : gfields) : str :=
  match fs with
  | FEnd w => w ++ [c_rb]
  | FLast f => render_field f ++ [c_rb]
  | FCons f r => render_field f ++ c_comma :: render_fields r
  end.
Definition render_etail (t : etail) : str :=
  match t with ENoComma => [c_rb] | EComma fs => c_comma :: render_fields fs end.
(* the part of an entry before the ',' or '}' that ends the key, without the '@' *)
Definition entry_head (typ hws w1 key w2 : str) : str := typ ++ hws ++ c_lb :: w1 ++ key ++ w2.
(* the text of a block item after its '@' *)
Definition render_body (it : item) : str :=
  match it with
  | IEntry typ hws w1 key w2 t => entry_head typ hws w1 key w2 ++ render_etail t
  | IString kw hws w1 name w2 w3 v w4 =>
      kw ++ hws ++ c_lb :: w1 ++ name ++ w2 ++ c_eq :: w3 ++ render_value v ++ w4 ++ [c_rb]
  | IPreamble kw hws b | IComment kw hws b => kw ++ hws ++ c_lb :: render_braced b ++ [c_rb]
  | IFree t => t
  end.
Definition is_free (it : item) : bool := match it with IFree _ => true | _ => false end.
Definition render_item (it : item) : str :=
  match it with IFree t => t | _ => c_at :: render_body it end.
Fixpoint render_items (l : list (item * str)) : str :=
  match l with [] => [] | (it, g) :: r => render_item it ++ g ++ render_items r end.
Definition render (d : doc) : str := d_gap0 d ++ render_items (d_items d).

(* ------------------------------------------------------------------ expected (ground truth) *)
(* ln = the number of newlines before the first character of the thing *)
Definition exp_field (ln : Z) (f : gfield) : field :=
  mkfield (g_name f) (VStr (render_value (g_val f))) (Some (ln + count_nl (field_head f))%Z).
Fixpoint exp_fields (ln : Z) (fs : gfields) : list field :=
  match fs with
  | FEnd _ => []
  | FLast f => [exp_field ln f]
  | FCons f r => exp_field ln f :: exp_fields (ln + count_nl (render_field f))%Z r
  end.
Definition block_of (ln : Z) (it : item) : block :=
  let h := mkhdr (Some ln) (Some (render_item it)) [] in
  match it with
  | IEntry typ hws w1 key w2 t =>
      BEntry h (lower typ) key
        match t with
        | ENoComma => []
        | EComma fs => exp_fields (ln + count_nl (entry_head typ hws w1 key w2))%Z fs
        end
  | IString kw hws w1 name w2 w3 v w4 => BString h name (VStr (render_value v))
  | IPreamble kw hws b => BPreamble h (render_braced b)
  | IComment kw hws b => BExpl h (strip (render_braced b))
  | IFree t => BImpl h t
  end.
Fixpoint exp_items (ln : Z) (l : list (item * str)) : list block :=
  match l with
  | [] => []
  | (it, g) :: r => block_of ln it :: exp_items (ln + count_nl (render_item it ++ g))%Z r
  end.
Definition expected (d : doc) : list block := exp_items (count_nl (d_gap0 d)) (d_items d).

(* ------------------------------------------------------------------ well-formedness *)
(* content of a brace group: no character is an active brace; the content does not end in a backslash
   (it is always followed by a structural closing brace) *)
Fixpoint wf_braced (pb : bool) (b : braced) : bool :=
  match b with
  | BNil => negb pb
  | BChar c b' => match delim pb c with Some MLB | Some MRB => false | _ => true end && wf_braced (c =? c_bs) b'
  | BGroup g b' => negb pb && wf_braced false g && wf_braced false b'
  end.
Fixpoint wf_quoted (pb : bool) (q : quoted) : bool :=
  match q with
  | QNil => negb pb
  | QChar c q' =>
      match delim pb c with Some MLB | Some MRB | Some MQ => false | _ => true end && wf_quoted (c =? c_bs) q'
  | QGroup g q' => negb pb && wf_quoted false g && wf_quoted false q'
  end.
Definition wf_piece (p : piece) : bool :=
  match p with
  | PBare s => name_ok s && forallb (fun c => negb (c =? c_hash)) s
  | PBraced b => wf_braced false b
  | PQuoted q => wf_quoted false q
  end.
Fixpoint wf_more (l : list (str * str * piece)) : bool :=
  match l with [] => true | (a, b, p) :: r => is_ws a && is_ws b && wf_piece p && wf_more r end.
Definition wf_value (v : gvalue) : bool := wf_piece (v_first v) && wf_more (v_more v).
Definition wf_field (f : gfield) : bool :=
  is_ws (g_pre f) && name_ok (g_name f) && is_ws (g_w1 f) && negb (ends_bs false (g_name f ++ g_w1 f))
  && is_ws (g_w2 f) && wf_value (g_val f) && is_ws (g_post f)
  && negb (ends_bs false (render_value (g_val f) ++ g_post f)).
Fixpoint wf_fields (fs : gfields) : bool :=
  match fs with
  | FEnd w => is_ws w
  | FLast f => wf_field f
  | FCons f r => wf_field f && wf_fields r
  end.
Definition wf_etail (t : etail) : bool := match t with ENoComma => true | EComma fs => wf_fields fs end.
(* type ::= wordchar+ (word characters are not whitespace) *)
Definition typ_ok (s : str) : bool := nonnil s && forallb (fun c => isword c && negb (isspace c)) s.
Definition wf_item (it : item) : bool :=
  match it with
  | IEntry typ hws w1 key w2 t =>
      typ_ok typ && is_hws hws
      && negb (starts_with s_comment (lower typ)) && negb (starts_with s_preamble (lower typ))
      && negb (starts_with s_string (lower typ))
      && is_ws w1 && name_ok key && is_ws w2 && negb (ends_bs false (key ++ w2)) && wf_etail t
  | IString kw hws w1 name w2 w3 v w4 =>
      forallb isword kw && is_hws hws && starts_with s_string (lower kw)
      && is_ws w1 && name_ok name && is_ws w2 && negb (ends_bs false (name ++ w2))
      && is_ws w3 && wf_value v && is_ws w4 && negb (ends_bs false (render_value v ++ w4))
  | IPreamble kw hws b =>
      forallb isword kw && is_hws hws && starts_with s_preamble (lower kw) && wf_braced false b
  | IComment kw hws b =>
      forallb isword kw && is_hws hws && starts_with s_comment (lower kw) && wf_braced false b
  | IFree t => tight t
  end.
(* prev_free: the previous item is free text.  G: no '@' of the item after its own first character, nor of
   the gap behind it, starts a block. *)
Fixpoint wf_items (prev_free : bool) (l : list (item * str)) : bool :=
  match l with
  | [] => true
  | (it, g) :: r =>
      wf_item it && is_ws g && negb (is_free it && prev_free)
      && noat (render_body it ++ g) (render_items r) && wf_items (is_free it) r
  end.
Definition wf_doc_b (d : doc) : bool := is_ws (d_gap0 d) && wf_items false (d_items d).
Definition wf_doc (d : doc) : Prop := wf_doc_b d = true.
Lemma wf_doc_reflect d : reflect (wf_doc d) (wf_doc_b d).
Proof. unfold wf_doc. destruct (wf_doc_b d); constructor; [reflexivity | discriminate]. Qed.

(* field names pairwise distinct within each entry (each name differs from all earlier ones) *)
Fixpoint field_names (fs : gfields) : list str :=
  match fs with FEnd _ => [] | FLast f => [g_name f] | FCons f r => g_name f :: field_names r end.
Fixpoint fresh_all (seen l : list str) : bool :=
  match l with [] => true | x :: r => negb (mem_str x seen) && fresh_all (x :: seen) r end.
Definition nodup_item (it : item) : bool :=
  match it with IEntry _ _ _ _ _ (EComma fs) => fresh_all [] (field_names fs) | _ => true end.
Definition nodup_fields_b (d : doc) : bool := forallb (fun p => nodup_item (fst p)) (d_items d).
Definition nodup_fields (d : doc) : Prop := nodup_fields_b d = true.
