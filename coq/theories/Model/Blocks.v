(* Python values, fields and blocks as the middleware-level models see them (definitions only). *)
From Coq Require Import List NArith ZArith Bool String Ascii.
From BP Require Import Base.Chars.
Import ListNotations.

(* string literals: "abc"%string as a model string (ASCII only) *)
Definition lit (x : string) : str := map (fun a => asc (N_of_ascii a)) (list_ascii_of_string x).

Inductive value :=
| VStr (s : str)
| VInt (z : Z)
| VList (l : list value)
| VParts (first von last jr : list str)          (* names.NameParts *)
| VNone
| VBool (b : bool)
| VOther (n : Z)                                  (* any object the model does not look into *)
| VTuple (l : list value)
| VDict (d : list (str * value)).

Definition is_vstr (v : value) : bool := match v with VStr _ => true | _ => false end.

Record field := mkfield { fkey : str; fval : value; fline : option Z }.

(* the error object carried by a failed block, as far as the models distinguish it *)
Inductive err :=
| EAbort (reason : N)        (* BlockAbortedException, reason code: see Splitter.v *)
| EDupKey                    (* Exception("Duplicate entry key ...") *)
| EDupField
| EInvalidName
| EPartial                   (* PartialMiddlewareException *)
| EOther (n : N).

Definition metadata := list (str * value).       (* a dict, in insertion order *)
Record hdr := mkhdr { sl : option Z; raw : option str; meta : metadata }.

Inductive block :=
| BEntry (h : hdr) (typ key : str) (fields : list field)
| BString (h : hdr) (key : str) (v : value)
| BPreamble (h : hdr) (v : str)
| BExpl (h : hdr) (c : str)
| BImpl (h : hdr) (c : str)
| BFailed (h : hdr) (e : err)                              (* ParsingFailedBlock *)
| BMwErr (h : hdr) (e : err) (ign : block)                 (* MiddlewareErrorBlock *)
| BDupKey (h : hdr) (key : str) (prev : block) (dup : block)
| BDupField (h : hdr) (keys : list str) (entry : block).

Definition bhdr (b : block) : hdr :=
  match b with
  | BEntry h _ _ _ | BString h _ _ | BPreamble h _ | BExpl h _ | BImpl h _ | BFailed h _
  | BMwErr h _ _ | BDupKey h _ _ _ | BDupField h _ _ => h
  end.
Definition with_hdr (b : block) (h : hdr) : block :=
  match b with
  | BEntry _ t k f => BEntry h t k f | BString _ k v => BString h k v | BPreamble _ v => BPreamble h v
  | BExpl _ c => BExpl h c | BImpl _ c => BImpl h c | BFailed _ e => BFailed h e
  | BMwErr _ e i => BMwErr h e i | BDupKey _ k p d => BDupKey h k p d | BDupField _ ks e => BDupField h ks e
  end.

(* block classes, in the numbering used on the wire *)
Inductive bclass := CEntry | CString | CPreamble | CExpl | CImpl | CFailed | CMwErr | CDupKey | CDupField.
Definition class_of (b : block) : bclass :=
  match b with
  | BEntry _ _ _ _ => CEntry | BString _ _ _ => CString | BPreamble _ _ => CPreamble | BExpl _ _ => CExpl
  | BImpl _ _ => CImpl | BFailed _ _ => CFailed | BMwErr _ _ _ => CMwErr | BDupKey _ _ _ _ => CDupKey
  | BDupField _ _ _ => CDupField
  end.
Definition is_entry (b : block) : bool := match b with BEntry _ _ _ _ => true | _ => false end.
Definition is_string (b : block) : bool := match b with BString _ _ _ => true | _ => false end.
Definition is_failed_class (b : block) : bool :=       (* isinstance(b, ParsingFailedBlock) *)
  match b with BFailed _ _ | BMwErr _ _ _ | BDupKey _ _ _ _ | BDupField _ _ _ => true | _ => false end.

(* dict assignment d[k] = v on an insertion-ordered dict *)
Fixpoint dict_set {V} (d : list (str * V)) (k : str) (v : V) : list (str * V) :=
  match d with
  | [] => [(k, v)]
  | (k', v') :: r => if str_eqb k k' then (k', v) :: r else (k', v') :: dict_set r k v
  end.
Fixpoint dict_get {V} (d : list (str * V)) (k : str) : option V :=
  match d with
  | [] => None
  | (k', v') :: r => if str_eqb k k' then Some v' else dict_get r k
  end.
Fixpoint dict_del {V} (d : list (str * V)) (k : str) : list (str * V) :=
  match d with
  | [] => []
  | (k', v') :: r => if str_eqb k k' then r else (k', v') :: dict_del r k
  end.

Definition set_meta (h : hdr) (k : str) (v : value) : hdr :=
  mkhdr (sl h) (raw h) (dict_set (meta h) k v).

Definition hdr0 : hdr := mkhdr None None [].
