(* Library(blocks) / Library.add on a fresh library, as far as the block list and the two key indexes go:
   key-safe insertion that wraps later same-key Entry/String blocks (library.py:_add_to_dicts, _cast_to_duplicate).
   Object identity is not represented here (Model/Library.v has the oid-level model used by C08); the
   `prev` component of a duplicate wrapper is the structural value of the first block at insertion time. *)
From Coq Require Import List NArith ZArith Bool.
From BP Require Import Base.Chars Model.Blocks.
Import ListNotations.

Record libst := mklib { lrev : list block;                  (* blocks, most recent first *)
                        ents : list (str * block);          (* _entries_by_key, most recent first (keys are unique) *)
                        strs : list (str * block) }.        (* _strings_by_key, most recent first *)
Definition lib0 : libst := mklib [] [] [].

Definition dup_hdr (h : hdr) : hdr := mkhdr (sl h) (raw h) [].

Definition add_block (l : libst) (b : block) : libst :=
  match b with
  | BEntry h _ k _ =>
      match dict_get (ents l) k with
      | Some prev => mklib (BDupKey (dup_hdr h) k prev b :: lrev l) (ents l) (strs l)
      | None => mklib (b :: lrev l) ((k, b) :: ents l) (strs l)
      end
  | BString h k _ =>
      match dict_get (strs l) k with
      | Some prev => mklib (BDupKey (dup_hdr h) k prev b :: lrev l) (ents l) (strs l)
      | None => mklib (b :: lrev l) (ents l) ((k, b) :: strs l)
      end
  | _ => mklib (b :: lrev l) (ents l) (strs l)
  end.

Definition lib_add_all (bs : list block) (l : libst) : libst := fold_left add_block bs l.
Definition lib_of (bs : list block) : libst := lib_add_all bs lib0.
Definition lblocks (l : libst) : list block := rv (lrev l).

(* dict views in insertion order *)
Definition entries_dict (l : libst) : list (str * block) := rv (ents l).
Definition strings_dict (l : libst) : list (str * block) := rv (strs l).

(* Library(blocks=bs).blocks *)
Definition rebuild (bs : list block) : list block := lblocks (lib_of bs).
