(* writer.py: BibtexFormat and write(library, bibtex_format).  Definitions only.
   Side by side with the Python: _treat_entry / _val_intent_string / _treat_string / _treat_preamble /
   _treat_impl_comment / _treat_expl_comment / _treat_failed_block / _calculate_auto_value_align / write / _treat_block.
   The writer collects a list of pieces and joins them at the end; a piece that is not a str makes the final
   "".join raise TypeError, an exception while a block is treated (raw is None on a failed block) surfaces first. *)
From Coq Require Import String List NArith ZArith Bool.
From BP Require Import Base.Chars Model.Blocks Gen.Constants.
Import ListNotations.

(* ---- BibtexFormat *)
Inductive column := ColN (n : nat) | ColAuto.
Record fmt := mkfmt { f_indent : str; f_column : column; f_sep : str; f_trailing : bool; f_failed : str }.

Definition default_fmt : fmt :=
  mkfmt default_indent
        (match default_value_column with Some n => ColN (N.to_nat n) | None => ColAuto end)
        default_block_separator default_trailing_comma default_failed_comment.

(* ---- pieces handed to "".join *)
Inductive piece := PStr (s : str) | PBad.         (* PBad: an object that is not a str *)
Definition piece_of_value (v : value) : piece := match v with VStr s => PStr s | _ => PBad end.

Inductive exn := ETypeError | EAttributeError | EValueError | EOther (code : Z).   (* EOther: any other class, by wire code *)
Inductive res (T : Type) := Val (x : T) | Raise (e : exn) | Skip.
Arguments Val {T} x.
Arguments Raise {T} e.
Arguments Skip {T}.

(* ---- str.splitlines(): the line boundaries of CPython *)
Definition is_break (c : ch) : bool :=
  let k := code c in
  (((10 <=? k) && (k <=? 13)) || ((28 <=? k) && (k <=? 30)) || (k =? 133) || (k =? 8232) || (k =? 8233))%N.
Definition is_cr (c : ch) : bool := (code c =? 13)%N.
Definition is_lf (c : ch) : bool := (code c =? 10)%N.

(* cur: the characters of the line being read, reversed *)
Fixpoint splitlines_acc (s : str) (cur : str) : list str :=
  match s with
  | [] => match cur with [] => [] | _ => [rev cur] end
  | c :: r =>
      if is_break c then
        if is_cr c then
          match r with
          | c2 :: r' => if is_lf c2 then rev cur :: splitlines_acc r' [] else rev cur :: splitlines_acc r []
          | [] => [rev cur]
          end
        else rev cur :: splitlines_acc r []
      else splitlines_acc r (c :: cur)
  end.
Definition splitlines (s : str) : list str := splitlines_acc s [].

(* ---- template.format(n=...) for templates whose only replacement field is {n}; None = outside this model *)
Definition c_n : ch := asc 110%N.
Fixpoint expand (t : str) (n : str) : option str :=
  match t with
  | [] => Some []
  | c :: r =>
      if ceq c c_lb then
        match r with
        | c1 :: r1 =>
            if ceq c1 c_lb then option_map (cons c_lb) (expand r1 n)
            else if ceq c1 c_n then
              match r1 with
              | c2 :: r2 => if ceq c2 c_rb then option_map (app n) (expand r2 n) else None
              | [] => None
              end
            else None
        | [] => None
        end
      else if ceq c c_rb then
        match r with
        | c1 :: r1 => if ceq c1 c_rb then option_map (cons c_rb) (expand r1 n) else None
        | [] => None
        end
      else option_map (cons c) (expand r n)
  end.

(* ---- _val_intent_string *)
Definition pad (col : nat) (key : str) : str := repeat c_sp (col - List.length key - List.length val_sep).

(* ---- _treat_entry: the pieces of one field, i = index of the field, n = number of fields *)
Definition field_pieces (indent : str) (col : nat) (trailing : bool) (last : bool) (f : field) : list piece :=
  [PStr indent; PStr (fkey f); PStr (pad col (fkey f)); PStr val_sep; piece_of_value (fval f)]
  ++ (if trailing || negb last then [PStr [c_comma]] else []) ++ [PStr [c_nl]].

Fixpoint fields_pieces (indent : str) (col : nat) (trailing : bool) (fs : list field) : list piece :=
  match fs with
  | [] => []
  | f :: rest => field_pieces indent col trailing (match rest with [] => true | _ => false end) f
                 ++ fields_pieces indent col trailing rest
  end.

Definition treat_failed (failed : str) (h : hdr) : res (list piece) :=
  match raw h with
  | None => Raise EAttributeError                      (* None.splitlines() *)
  | Some r =>
      match expand failed (dec_of_N (N.of_nat (List.length (splitlines r)))) with
      | None => Skip
      | Some cmt => Val [PStr cmt; PStr [c_nl]; PStr r; PStr [c_nl]]
      end
  end.

(* _treat_block with the value column already an integer *)
Definition treat_block (indent : str) (col : nat) (trailing : bool) (failed : str) (b : block) : res (list piece) :=
  match b with
  | BEntry _ t k fs =>
      Val ([PStr [c_at]; PStr t; PStr [c_lb]; PStr k; PStr [c_comma; c_nl]]
           ++ fields_pieces indent col trailing fs ++ [PStr [c_rb; c_nl]])
  | BString _ k v => Val [PStr (lit "@string{"%string); PStr k; PStr val_sep; piece_of_value v; PStr [c_rb; c_nl]]
  | BPreamble _ v => Val [PStr (lit "@preamble{"%string ++ v ++ [c_rb; c_nl])]
  | BExpl _ c => Val [PStr (lit "@comment{"%string); PStr c; PStr [c_rb; c_nl]]
  | BImpl _ c => Val [PStr c; PStr [c_nl]]
  | BFailed h _ | BMwErr h _ _ | BDupKey h _ _ _ | BDupField h _ _ => treat_failed failed h
  end.

(* _calculate_auto_value_align: library.entries x entry.fields_dict keys *)
Definition entry_keys (b : block) : list str :=
  match b with BEntry _ _ _ fs => map fkey fs | _ => [] end.
Definition max_key_len (bs : list block) : nat :=
  fold_left (fun m e => fold_left (fun m k => Nat.max m (List.length k)) (entry_keys e) m) bs 0.
Definition auto_column (bs : list block) : nat := max_key_len bs + List.length val_sep.

Definition resolve_column (f : fmt) (bs : list block) : nat :=
  match f_column f with ColN n => n | ColAuto => auto_column bs end.

(* the loop of write(): pieces of every block, the separator after every block but the last *)
Fixpoint write_pieces (indent : str) (col : nat) (trailing : bool) (failed sep : str) (bs : list block) : res (list piece) :=
  match bs with
  | [] => Val []
  | b :: rest =>
      match treat_block indent col trailing failed b with
      | Val p =>
          match write_pieces indent col trailing failed sep rest with
          | Val q => Val (p ++ (match rest with [] => [] | _ => [PStr sep] end) ++ q)
          | Raise e => Raise e
          | Skip => Skip
          end
      | Raise e => Raise e
      | Skip => Skip
      end
  end.

(* "".join(pieces) *)
Fixpoint join_pieces (ps : list piece) : option str :=
  match ps with
  | [] => Some []
  | PStr s :: r => option_map (app s) (join_pieces r)
  | PBad :: _ => None
  end.

Definition write (f : fmt) (bs : list block) : res str :=
  let col := resolve_column f bs in
  match write_pieces (f_indent f) col (f_trailing f) (f_failed f) (f_sep f) bs with
  | Val ps => match join_pieces ps with Some s => Val s | None => Raise ETypeError end
  | Raise e => Raise e
  | Skip => Skip
  end.
