(* library.py: Library.add / remove / replace / _add_to_dicts / _cast_to_duplicate and the eight views.
   Definitions only.

   Object identity.  A block handed in by the caller is [OB oid b]: the Python object number [oid] with content [b].
   A DuplicateBlockKeyBlock made by the library is [ODup oid h key prev dup]; its oid comes from the library's
   allocation counter [next] (Python: a fresh object, with a fresh Exception inside).
   Python's list.remove / list.index compare with == (Block.__eq__: same class, equal __dict__); the attribute
   _error of the failed classes is an exception object, equal only to itself, so two wrappers are == only if they
   are the same object.  `is` tests compare oids. *)
From Coq Require Import List NArith ZArith Bool.
From BP Require Import Base.Chars Model.Blocks Model.Entry.
Import ListNotations.

Inductive oblock :=
| OB (oid : N) (b : block)
| ODup (oid : N) (h : hdr) (key : str) (prev dup : N * block).

Definition oid_of (b : oblock) : N := match b with OB i _ | ODup i _ _ _ _ => i end.

(* isinstance(b, Entry) / String / Preamble / comments / ParsingFailedBlock *)
Definition is_entry_ob (b : oblock) : bool := match b with OB _ x => is_entry x | ODup _ _ _ _ _ => false end.
Definition is_string_ob (b : oblock) : bool := match b with OB _ x => is_string x | ODup _ _ _ _ _ => false end.
Definition is_preamble_ob (b : oblock) : bool := match b with OB _ (BPreamble _ _) => true | _ => false end.
Definition is_comment_ob (b : oblock) : bool := match b with OB _ (BExpl _ _) | OB _ (BImpl _ _) => true | _ => false end.
Definition is_failed_ob (b : oblock) : bool := match b with OB _ x => is_failed_class x | ODup _ _ _ _ _ => true end.
Definition is_dup_ob (b : oblock) : bool :=          (* isinstance(b, DuplicateBlockKeyBlock) *)
  match b with ODup _ _ _ _ _ => true | OB _ (BDupKey _ _ _ _) => true | _ => false end.

(* b.key (entries, strings, wrappers); [] stands for "no such attribute" and is never used for other classes *)
Definition okey (b : oblock) : str :=
  match b with
  | OB _ (BEntry _ _ k _) | OB _ (BString _ k _) | OB _ (BDupKey _ k _ _) => k
  | ODup _ _ k _ _ => k
  | _ => []
  end.

(* a == b for blocks.  Failed-class objects carry an exception compared by identity: equal iff the same object
   (the harness gives every failed block its own exception object). *)
Definition ob_py_eq (a b : oblock) : bool :=
  match a, b with
  | OB i x, OB j y => if is_failed_class x && is_failed_class y then N.eqb i j else block_py_eq x y
  | ODup i _ _ _ _, ODup j _ _ _ _ => N.eqb i j
  | _, _ => false
  end.

Inductive exn := EValue | EKey | EAssert.
Inductive outcome := Done | Raised (e : exn).

Record lib := mklib {
  blocks : list oblock;                 (* self._blocks *)
  ents : list (str * oblock);           (* self._entries_by_key, in dict order *)
  strs : list (str * oblock);           (* self._strings_by_key, in dict order *)
  next : N                              (* identity of the next object the library creates *)
}.
Definition empty_lib (first_oid : N) : lib := mklib [] [] [] first_oid.

(* ------------------------------------------------------------------ the eight views *)
Definition v_blocks (l : lib) : list oblock := blocks l.
Definition v_failed (l : lib) : list oblock := filter is_failed_ob (blocks l).
Definition v_strings (l : lib) : list oblock := filter is_string_ob (blocks l).   (* [b for b in self._blocks if isinstance(b, String)] *)
Definition v_strings_dict (l : lib) : list (str * oblock) := strs l.
Definition v_entries (l : lib) : list oblock := filter is_entry_ob (blocks l).
Definition v_entries_dict (l : lib) : list (str * oblock) := ents l.         (* a copy *)
Definition v_preambles (l : lib) : list oblock := filter is_preamble_ob (blocks l).
Definition v_comments (l : lib) : list oblock := filter is_comment_ob (blocks l).

(* ------------------------------------------------------------------ list.remove / list.index with == *)
(* list.remove(x): drop the first item with item == x; None = ValueError *)
Fixpoint list_remove (x : oblock) (l : list oblock) : option (list oblock) :=
  match l with
  | [] => None
  | y :: r => if ob_py_eq y x then Some r
              else match list_remove x r with Some r' => Some (y :: r') | None => None end
  end.
Fixpoint list_index (x : oblock) (l : list oblock) : option nat :=
  match l with
  | [] => None
  | y :: r => if ob_py_eq y x then Some O else match list_index x r with Some i => Some (S i) | None => None end
  end.
(* list.insert(i, x) for 0 <= i *)
Fixpoint list_insert (i : nat) (x : oblock) (l : list oblock) : list oblock :=
  match i, l with
  | O, _ => x :: l
  | S j, y :: r => y :: list_insert j x r
  | S _, [] => [x]
  end.

(* ------------------------------------------------------------------ _cast_to_duplicate / _add_to_dicts *)
(* the two assertions of _cast_to_duplicate: common type, same key *)
Definition cast_to_duplicate (l : lib) (prev dup : oblock) : option oblock :=
  match prev, dup with
  | OB pi pb, OB di db =>
      if ((is_entry pb && is_entry db) || (is_string pb && is_string db)) && str_eqb (okey prev) (okey dup)
      then Some (ODup (next l) (mkhdr (sl (bhdr db)) (raw (bhdr db)) []) (okey dup) (pi, pb) (di, db))
      else None
  | _, _ => None
  end.

Definition set_blocks (l : lib) (bl : list oblock) : lib := mklib bl (ents l) (strs l) (next l).
Definition set_ents (l : lib) (d : list (str * oblock)) : lib := mklib (blocks l) d (strs l) (next l).
Definition set_strs (l : lib) (d : list (str * oblock)) : lib := mklib (blocks l) (ents l) d (next l).
Definition bump (l : lib) : lib := mklib (blocks l) (ents l) (strs l) (N.succ (next l)).

(* returns the block that goes into the list (the argument or its wrapper); inl e = AssertionError *)
Definition add_to_dicts (l : lib) (b : oblock) : (lib * oblock) + exn :=
  if is_entry_ob b then
    match dict_get (ents l) (okey b) with
    | Some prev => match cast_to_duplicate l prev b with Some w => inl (bump l, w) | None => inr EAssert end
    | None => inl (set_ents l (dict_set (ents l) (okey b) b), b)
    end
  else if is_string_ob b then
    match dict_get (strs l) (okey b) with
    | Some prev => match cast_to_duplicate l prev b with Some w => inl (bump l, w) | None => inr EAssert end
    | None => inl (set_strs l (dict_set (strs l) (okey b) b), b)
    end
  else inl (l, b).

(* ------------------------------------------------------------------ add *)
(* the loop of add: returns the library and the list _added_blocks *)
Fixpoint add_loop (l : lib) (bs : list oblock) (added : list oblock) : (lib * list oblock) + (lib * exn) :=
  match bs with
  | [] => inl (l, added)
  | b :: r =>
      match add_to_dicts l b with
      | inr e => inr (l, e)
      | inl (l1, b') => add_loop (set_blocks l1 (blocks l1 ++ [b'])) r (added ++ [b'])
      end
  end.

(* duplicate_keys: [added.key for original, added in zip(...) if original is not added and isinstance(added, Dup...)] *)
Definition duplicate_keys (bs added : list oblock) : list str :=
  map (fun p => okey (snd p))
      (filter (fun p => negb (N.eqb (oid_of (fst p)) (oid_of (snd p))) && is_dup_ob (snd p)) (combine bs added)).

Definition add (l : lib) (bs : list oblock) (fail_on_dup : bool) : lib * outcome :=
  match add_loop l bs [] with
  | inr (l1, e) => (l1, Raised e)
  | inl (l1, added) =>
      if fail_on_dup then
        match duplicate_keys bs added with
        | [] => (l1, Done)
        | _ :: _ => (l1, Raised EValue)
        end
      else (l1, Done)
  end.

(* ------------------------------------------------------------------ remove *)
(* remaining = list(self._blocks); for block in blocks: remaining.remove(block) *)
Fixpoint validate_remove (bs : list oblock) (remaining : list oblock) : bool :=
  match bs with
  | [] => true
  | b :: r => match list_remove b remaining with Some rem' => validate_remove r rem' | None => false end
  end.

(* one turn of the second loop *)
Definition remove_one (l : lib) (b : oblock) : lib * outcome :=
  match list_remove b (blocks l) with
  | None => (l, Raised EValue)
  | Some bl =>
      let l1 := set_blocks l bl in
      if is_entry_ob b then
        if dict_has (ents l1) (okey b) then (set_ents l1 (dict_del (ents l1) (okey b)), Done) else (l1, Raised EKey)
      else if is_string_ob b then
        if dict_has (strs l1) (okey b) then (set_strs l1 (dict_del (strs l1) (okey b)), Done) else (l1, Raised EKey)
      else (l1, Done)
  end.

Fixpoint remove_loop (l : lib) (bs : list oblock) : lib * outcome :=
  match bs with
  | [] => (l, Done)
  | b :: r => match remove_one l b with
              | (l1, Done) => remove_loop l1 r
              | res => res
              end
  end.

Definition remove (l : lib) (bs : list oblock) : lib * outcome :=
  if validate_remove bs (blocks l) then remove_loop l bs else (l, Raised EValue).

(* ------------------------------------------------------------------ replace *)
(* everything up to and including  self._blocks.insert(index, block_after_add);  inl: the library and block_after_add *)
Definition replace_core (l : lib) (old new : oblock) : (lib * oblock) + (lib * exn) :=
  match list_index old (blocks l) with
  | None => inr (l, EValue)                                   (* "Block to replace is not in library." *)
  | Some idx =>
      match remove l [old] with
      | (l1, Raised e) => inr (l1, e)                         (* ValueError is re-raised as ValueError; others propagate *)
      | (l1, Done) =>
          match add_to_dicts l1 new with
          | inr e => inr (l1, e)
          | inl (l2, b') => inl (set_blocks l2 (list_insert idx b' (blocks l2)), b')
          end
      end
  end.

(* replace(old, new, fail_on_duplicate_key=False) *)
Definition replace_nofail (l : lib) (old new : oblock) : lib * outcome :=
  match replace_core l old new with
  | inr (l1, e) => (l1, Raised e)
  | inl (l1, _) => (l1, Done)
  end.

Definition replace (l : lib) (old new : oblock) (fail_on_dup : bool) : lib * outcome :=
  match replace_core l old new with
  | inr (l1, e) => (l1, Raised e)
  | inl (l1, b') =>
      if negb (N.eqb (oid_of new) (oid_of b')) && is_dup_ob b' && fail_on_dup then
        (* self.replace(block_after_add, old_block, fail_on_duplicate_key=False); raise ValueError *)
        match replace_nofail l1 b' old with
        | (l2, Done) => (l2, Raised EValue)
        | (l2, Raised e) => (l2, Raised e)
        end
      else (l1, Done)
  end.

(* ------------------------------------------------------------------ histories *)
Inductive lop :=
| LAdd (bs : list oblock) (fail_on_dup : bool)      (* a single block is passed as [b] *)
| LRemove (bs : list oblock)
| LReplace (old new : oblock) (fail_on_dup : bool).

Definition apply (l : lib) (o : lop) : lib * outcome :=
  match o with
  | LAdd bs f => add l bs f
  | LRemove bs => remove l bs
  | LReplace old new f => replace l old new f
  end.

Fixpoint run (ops : list lop) (l : lib) : lib * list outcome :=
  match ops with
  | [] => (l, [])
  | o :: r => let (l1, x) := apply l o in let (l2, xs) := run r l1 in (l2, x :: xs)
  end.
