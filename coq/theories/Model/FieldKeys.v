(* middlewares/fieldkeys.py: NormalizeFieldKeys.  A dict keyed by the lower-cased field key, in insertion
   order: the first occurrence of a key fixes its position, the last occurrence supplies the Field object,
   whose key has been overwritten with the lower-cased one.  Definitions only. *)
From Coq Require Import List NArith ZArith Bool.
From BP Require Import Base.Chars Model.Blocks Model.LibRebuild.
Import ListNotations.

Definition lowered (f : field) : field := mkfield (lower (fkey f)) (fval f) (fline f).

(* the loop body:  field.key = normalized_key; new_fields_dict[normalized_key] = field *)
Fixpoint norm_loop (d : list (str * field)) (fs : list field) : list (str * field) :=
  match fs with
  | [] => d
  | f :: r => norm_loop (dict_set d (lower (fkey f)) (lowered f)) r
  end.

Definition normalize_fields (fs : list field) : list field := map snd (norm_loop [] fs).

(* no metadata entry is written by this middleware *)
Definition normalize_block : block -> block := on_entry (fun h => h) normalize_fields.
