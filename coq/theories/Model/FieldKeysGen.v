(* middlewares/fieldkeys.py: NormalizeFieldKeys, for EVERY str.lower: the transcription of Model/FieldKeys.v
   with `field.key.lower()` a Section variable [lowerU : str -> str] instead of the ASCII instance
   [Base.Chars.lower].  Nothing is assumed about it here.  With [lowerU := lower] these ARE the definitions of
   Model/FieldKeys.v (Proofs/SortFieldsGenProofs.v, gen_instance: by reflexivity).  Definitions only. *)
From Coq Require Import List NArith ZArith Bool.
From BP Require Import Base.Chars Model.Blocks Model.LibRebuild.
Import ListNotations.

Section Gen.
  Variable lowerU : str -> str.                 (* str.lower *)

  Definition lowered_gen (f : field) : field := mkfield (lowerU (fkey f)) (fval f) (fline f).

  (* the loop body:  field.key = normalized_key; new_fields_dict[normalized_key] = field *)
  Fixpoint norm_loop_gen (d : list (str * field)) (fs : list field) : list (str * field) :=
    match fs with
    | [] => d
    | f :: r => norm_loop_gen (dict_set d (lowerU (fkey f)) (lowered_gen f)) r
    end.

  Definition normalize_fields_gen (fs : list field) : list field := map snd (norm_loop_gen [] fs).

  (* no metadata entry is written by this middleware *)
  Definition normalize_block_gen : block -> block := on_entry (fun h => h) normalize_fields_gen.
End Gen.
