(* model.py: Entry as a mapping of its fields (fields_dict, set_field, pop, get, in, [], []=, del, items) and
   the class-and-__dict__ equality of Field and Block.  Definitions only. *)
From Coq Require Import List NArith ZArith Bool String.
From BP Require Import Base.Chars Model.Blocks.
Import ListNotations.

(* ------------------------------------------------------------------ the entry as far as the operations see it *)
Record ent := mkent { etyp : str; ekey : str; efields : list field }.

Definition k_entrytype : str := lit "ENTRYTYPE"%string.
Definition k_id : str := lit "ID"%string.

(* fields_dict:  {field.key: field for field in self._fields}   (rebuilt on every access; a later field with the
   same key replaces the value but keeps the position of the first) *)
Definition fields_dict (fs : list field) : list (str * field) :=
  fold_left (fun d f => dict_set d (fkey f) f) fs [].

Definition dict_has {V} (d : list (str * V)) (k : str) : bool :=
  match dict_get d k with Some _ => true | None => false end.

(* self._fields[i] = field *)
Fixpoint set_nth {T} (i : nat) (x : T) (l : list T) : list T :=
  match l, i with
  | [], _ => []
  | _ :: r, O => x :: r
  | y :: r, S j => y :: set_nth j x r
  end.

Inductive eres :=
| RNone                      (* the call returned None *)
| RField (f : field)
| RVal (v : value)
| RBool (b : bool)
| RKeyError
| RValueError.               (* list.index failing inside set_field: unreachable, proved *)

(* set_field:  if field.key in self.fields_dict: i = [f.key for f in self._fields].index(field.key); self._fields[i] = field
               else: self._fields.append(field) *)
Definition set_field (fs : list field) (f : field) : list field * eres :=
  if dict_has (fields_dict fs) (fkey f) then
    match index_of (fkey f) (map fkey fs) with
    | Some i => (set_nth i f fs, RNone)
    | None => (fs, RValueError)
    end
  else (fs ++ [f], RNone).

(* a `default` argument: not given (None) or some value *)
Definition dflt (d : option value) : eres := match d with None => RNone | Some v => RVal v end.

(* pop:  try: field = self.fields_dict.pop(key)  except KeyError: return default
         self._fields = [f for f in self._fields if f.key != key]; return field *)
Definition pop (fs : list field) (k : str) (d : option value) : list field * eres :=
  match dict_get (fields_dict fs) k with
  | None => (fs, dflt d)
  | Some f => (filter (fun g => negb (str_eqb (fkey g) k)) fs, RField f)
  end.

Definition get (fs : list field) (k : str) (d : option value) : eres :=
  match dict_get (fields_dict fs) k with Some f => RField f | None => dflt d end.

Definition contains (fs : list field) (k : str) : bool := dict_has (fields_dict fs) k.

(* __getitem__ *)
Definition getitem (e : ent) (k : str) : eres :=
  if str_eqb k k_entrytype then RVal (VStr (etyp e))
  else if str_eqb k k_id then RVal (VStr (ekey e))
  else match dict_get (fields_dict (efields e)) k with
       | Some f => RVal (fval f)
       | None => RKeyError
       end.

(* items() *)
Definition items (e : ent) : list (str * value) :=
  (k_entrytype, VStr (etyp e)) :: (k_id, VStr (ekey e)) :: map (fun f => (fkey f, fval f)) (efields e).

Inductive eop :=
| OSetField (f : field)
| OSetItem (k : str) (v : value)              (* e[k] = v   ==  set_field(Field(k, v)) *)
| OPop (k : str) (d : option value)
| ODel (k : str)                              (* del e[k]   ==  pop(k), result dropped *)
| OGet (k : str) (d : option value)
| OIn (k : str)
| OGetItem (k : str).

Definition with_fields (e : ent) (fs : list field) : ent := mkent (etyp e) (ekey e) fs.

Definition step (e : ent) (o : eop) : ent * eres :=
  match o with
  | OSetField f => let (fs, r) := set_field (efields e) f in (with_fields e fs, r)
  | OSetItem k v => let (fs, r) := set_field (efields e) (mkfield k v None) in (with_fields e fs, r)
  | OPop k d => let (fs, r) := pop (efields e) k d in (with_fields e fs, r)
  | ODel k => let (fs, _) := pop (efields e) k None in (with_fields e fs, RNone)
  | OGet k d => (e, get (efields e) k d)
  | OIn k => (e, RBool (contains (efields e) k))
  | OGetItem k => (e, getitem e k)
  end.

(* the whole history: final entry and the results in call order *)
Fixpoint run (ops : list eop) (e : ent) : ent * list eres :=
  match ops with
  | [] => (e, [])
  | o :: r => let (e1, x) := step e o in let (e2, xs) := run r e1 in (e2, x :: xs)
  end.

(* the states after each call (for the per-step views of the correspondence) *)
Fixpoint trace (ops : list eop) (e : ent) : list (eres * ent) :=
  match ops with
  | [] => []
  | o :: r => let (e1, x) := step e o in (x, e1) :: trace r e1
  end.

(* ------------------------------------------------------------------ Python == on the values a field can hold *)
(* int and bool compare numerically (1 == True); list, tuple, NameParts element-wise; different types are unequal.
   VOther n stands for an object without __eq__: equal iff the same object.  VDict is compared in order here,
   which is NOT Python's rule: values containing VDict or VOther are outside the model ([value_modelled]). *)
Definition strs_eqb (a b : list str) : bool :=
  (fix go (a b : list str) : bool :=
     match a, b with
     | [], [] => true
     | x :: a', y :: b' => str_eqb x y && go a' b'
     | _, _ => false
     end) a b.

Fixpoint value_eqb (a b : value) {struct a} : bool :=
  match a, b with
  | VStr s, VStr t => str_eqb s t
  | VInt x, VInt y => Z.eqb x y
  | VInt x, VBool c => Z.eqb x (if c then 1 else 0)
  | VBool c, VInt x => Z.eqb x (if c then 1 else 0)
  | VBool c, VBool d => Bool.eqb c d
  | VNone, VNone => true
  | VOther n, VOther m => Z.eqb n m
  | VParts a1 b1 c1 d1, VParts a2 b2 c2 d2 => strs_eqb a1 a2 && strs_eqb b1 b2 && strs_eqb c1 c2 && strs_eqb d1 d2
  | VList l, VList m =>
      (fix go (l m : list value) : bool :=
         match l, m with
         | [], [] => true
         | x :: l', y :: m' => value_eqb x y && go l' m'
         | _, _ => false
         end) l m
  | VTuple l, VTuple m =>
      (fix go (l m : list value) : bool :=
         match l, m with
         | [], [] => true
         | x :: l', y :: m' => value_eqb x y && go l' m'
         | _, _ => false
         end) l m
  | VDict l, VDict m =>
      (fix go (l m : list (str * value)) : bool :=
         match l, m with
         | [], [] => true
         | (k, x) :: l', (k', y) :: m' => str_eqb k k' && value_eqb x y && go l' m'
         | _, _ => false
         end) l m
  | _, _ => false
  end.

Fixpoint value_modelled (v : value) : bool :=
  match v with
  | VOther _ | VDict _ => false
  | VList l | VTuple l => (fix go (l : list value) : bool := match l with [] => true | x :: r => value_modelled x && go r end) l
  | _ => true
  end.

Definition optZ_eqb (a b : option Z) : bool :=
  match a, b with Some x, Some y => Z.eqb x y | None, None => true | _, _ => false end.
Definition optstr_eqb (a b : option str) : bool :=
  match a, b with Some x, Some y => str_eqb x y | None, None => true | _, _ => false end.

(* Field.__eq__: same class and  self.__dict__ == other.__dict__  (_start_line, _key, _value) *)
Definition field_py_eq (a b : field) : bool :=
  optZ_eqb (fline a) (fline b) && str_eqb (fkey a) (fkey b) && value_eqb (fval a) (fval b).

Fixpoint fields_py_eq (a b : list field) : bool :=
  match a, b with
  | [], [] => true
  | x :: a', y :: b' => field_py_eq x y && fields_py_eq a' b'
  | _, _ => false
  end.

(* dict == dict: same number of keys, and every key of the left is in the right with an equal value *)
Definition meta_py_eq (m1 m2 : metadata) : bool :=
  Nat.eqb (List.length m1) (List.length m2)
  && forallb (fun kv => match dict_get m2 (fst kv) with Some v => value_eqb (snd kv) v | None => false end) m1.

Definition hdr_py_eq (h1 h2 : hdr) : bool :=
  optZ_eqb (sl h1) (sl h2) && optstr_eqb (raw h1) (raw h2) && meta_py_eq (meta h1) (meta h2).

(* Block.__eq__: isinstance both ways (the same class) and equal attribute dictionaries.  For the failed classes the
   attribute _error is an exception object, compared by identity, which [block] does not carry: such pairs are
   answered [false] here and decided by the caller that knows identities (Model/Library.v: ob_py_eq). *)
Definition block_py_eq (a b : block) : bool :=
  match a, b with
  | BEntry h1 t1 k1 f1, BEntry h2 t2 k2 f2 => hdr_py_eq h1 h2 && str_eqb t1 t2 && str_eqb k1 k2 && fields_py_eq f1 f2
  | BString h1 k1 v1, BString h2 k2 v2 => hdr_py_eq h1 h2 && str_eqb k1 k2 && value_eqb v1 v2
  | BPreamble h1 v1, BPreamble h2 v2 => hdr_py_eq h1 h2 && str_eqb v1 v2
  | BExpl h1 c1, BExpl h2 c2 => hdr_py_eq h1 h2 && str_eqb c1 c2
  | BImpl h1 c1, BImpl h2 c2 => hdr_py_eq h1 h2 && str_eqb c1 c2
  | _, _ => false
  end.

Definition field_modelled (f : field) : bool := value_modelled (fval f).
Definition meta_modelled (m : metadata) : bool := forallb (fun kv => value_modelled (snd kv)) m.
(* inside the model: one of the five non-failed classes, all values comparable structurally *)
Definition block_modelled (b : block) : bool :=
  meta_modelled (meta (bhdr b)) &&
  match b with
  | BEntry _ _ _ fs => forallb field_modelled fs
  | BString _ _ v => value_modelled v
  | BPreamble _ _ | BExpl _ _ | BImpl _ _ => true
  | _ => false
  end.
