(* library.py / middleware.py: Library(blocks=...) as used by BlockMiddleware.transform and by the block sorter to build
   their result: blocks are re-added one by one; an Entry (String) whose key is already held by an earlier
   live Entry (String) of this library is replaced by a DuplicateBlockKeyBlock.  Definitions only. *)
From Coq Require Import List NArith ZArith Bool.
From BP Require Import Base.Chars Model.Blocks.
Import ListNotations.

(* Library._cast_to_duplicate *)
Definition cast_to_duplicate (prev dup : block) (key : str) : block :=
  BDupKey (mkhdr (sl (bhdr dup)) (raw (bhdr dup)) []) key prev dup.

(* Library.add over a list, starting from the dicts [es] (entries by key) and [ss] (strings by key) *)
Fixpoint rebuild_from (es ss : list (str * block)) (bs : list block) : list block :=
  match bs with
  | [] => []
  | b :: r =>
      match b with
      | BEntry _ _ k _ =>
          match dict_get es k with
          | Some prev => cast_to_duplicate prev b k :: rebuild_from es ss r
          | None => b :: rebuild_from (dict_set es k b) ss r
          end
      | BString _ k _ =>
          match dict_get ss k with
          | Some prev => cast_to_duplicate prev b k :: rebuild_from es ss r
          | None => b :: rebuild_from es (dict_set ss k b) r
          end
      | _ => b :: rebuild_from es ss r
      end
  end.

(* Library(blocks).blocks *)
Definition rebuild (bs : list block) : list block := rebuild_from [] [] bs.

(* BlockMiddleware.transform_block for a middleware that overrides transform_entry only: an Entry gets new
   metadata and new fields (the object is otherwise kept: type, key, start line, raw); every other block
   is returned as it is *)
Definition on_entry (g : hdr -> hdr) (s : list field -> list field) (b : block) : block :=
  match b with
  | BEntry h t k fs => BEntry (g h) t k (s fs)
  | _ => b
  end.

(* BlockMiddleware.transform: every block through transform_block, then Library(blocks=...) *)
Definition block_mw (f : block -> block) (bs : list block) : list block := rebuild (map f bs).

(* the invariant Library maintains: no two live entries share a key, no two live strings share a key *)
Definition entry_keys (bs : list block) : list str :=
  flat_map (fun b => match b with BEntry _ _ k _ => [k] | _ => [] end) bs.
Definition string_keys (bs : list block) : list str :=
  flat_map (fun b => match b with BString _ k _ => [k] | _ => [] end) bs.
Definition lib_ok (bs : list block) : Prop := NoDup (entry_keys bs) /\ NoDup (string_keys bs).

