(* C07 - the middleware FRAMEWORK at the granularity of allocations and attribute writes.  Definitions only.

   Transcribed: BlockMiddleware.transform / transform_block (middleware.py), LibraryMiddleware.transform,
   ResolveStringReferencesMiddleware.transform (interpolate.py), SortBlocksByTypeAndKeyMiddleware.transform
   (sorting_blocks.py), Library.__init__ / add / _add_to_dicts / _cast_to_duplicate (library.py), the default
   write stack + writer.write (entrypoint.py, writer.py) as a footprint.
   copy.deepcopy is the Section variable DC (CPython's, not the repo's); Model/Heap.deepcopy_exec is the
   executable instance.  None = the Python code would raise on this heap (AttributeError / TypeError on an
   ill-shaped object); the correspondence only runs well-shaped heaps. *)
From Coq Require Import List ZArith Bool Arith.
From BP Require Import Model.Heap.
Import ListNotations.
Local Open Scope Z_scope.

(* class and attribute codes: harness/heapsnap.py CLASSES / ATTRS *)
Definition C_Library := 2.  Definition C_Entry := 3.  Definition C_String := 4.  Definition C_Preamble := 5.
Definition C_ExplicitComment := 6.  Definition C_ImplicitComment := 7.  Definition C_Field := 8.
Definition C_DuplicateBlockKeyBlock := 11.  Definition C_BibtexFormat := 14.
Definition A_blocks := 1.  Definition A_entries_by_key := 2.  Definition A_strings_by_key := 3.
Definition A_start_line_in_file := 4.  Definition A_raw := 5.  Definition A_parser_metadata := 6.
Definition A_key := 7.  Definition A_value := 8.  Definition A_comment := 9.  Definition A_start_line := 10.
Definition A_fields := 12.  Definition A_error := 13.  Definition A_ignore_error_block := 14.
Definition A_previous_block := 15.  Definition A_align_field_values := 22.
(* atoms: harness/heapsnap.py atom_code *)
Definition AT_None := 1.  Definition AT_Exc := 4.

Notation "'do' x <- e ; k" := (match e with Some x => k | None => None end)
  (at level 200, x pattern, e at level 100, k at level 200, right associativity).

(* ------------------------------------------------------------------ primitives *)
Fixpoint aget (d : list (Z * pv)) (k : Z) : option pv :=
  match d with [] => None | (k', v) :: r => if Z.eqb k' k then Some v else aget r k end.
(* dict / __dict__ assignment: an existing key keeps its position, a new key goes last *)
Fixpoint aset (d : list (Z * pv)) (k : Z) (v : pv) : list (Z * pv) :=
  match d with
  | [] => [(k, v)]
  | (k', v') :: r => if Z.eqb k' k then (k', v) :: r else (k', v') :: aset r k v
  end.
Definition adel (d : list (Z * pv)) (k : Z) : list (Z * pv) := filter (fun kv => negb (Z.eqb (fst kv) k)) d.

Definition getattr (h : heap) (o : nat) (a : Z) : option pv :=
  match lookup h o with Some (OInst _ attrs) => aget attrs a | _ => None end.
Definition setattr (h : heap) (o : nat) (a : Z) (v : pv) : option heap :=
  match lookup h o with Some (OInst c attrs) => Some (set_obj h o (OInst c (aset attrs a v))) | _ => None end.
Definition class_of (h : heap) (o : nat) : option Z :=
  match lookup h o with Some (OInst c _) => Some c | _ => None end.
Definition get_list (h : heap) (o : nat) : option (list pv) :=
  match lookup h o with Some (OList l) => Some l | _ => None end.
Definition get_dict (h : heap) (o : nat) : option (list (Z * pv)) :=
  match lookup h o with Some (ODict d) => Some d | _ => None end.
Definition as_ref (v : pv) : option nat := match v with PRef o => Some o | PAtom _ => None end.
Fixpoint as_refs (l : list pv) : option (list nat) :=
  match l with
  | [] => Some []
  | PRef o :: r => do r' <- as_refs r; Some (o :: r')
  | PAtom _ :: _ => None
  end.
(* the list object behind attribute a of instance o *)
Definition attr_list (h : heap) (o : nat) (a : Z) : option (nat * list pv) :=
  do v <- getattr h o a; do l <- as_ref v; do xs <- get_list h l; Some (l, xs).

(* what transform_block returns *)
Inductive result := RNone | ROne (b : nat) | RMany (bs : list nat).
Definition result_blocks (r : result) : list nat :=
  match r with RNone => [] | ROne b => [b] | RMany bs => bs end.

(* a per-block body: heap -> library -> block -> heap * result   (transform_entry & co. after the isinstance dispatch) *)
Definition body := heap -> nat -> nat -> option (heap * result).

(* ------------------------------------------------------------------ Library(blocks) *)
(* _add_to_dicts for one block: returns the block that is appended to _blocks.  State: heap, _blocks (reversed),
   _entries_by_key, _strings_by_key *)
Definition lstate := (heap * list nat * list (Z * pv) * list (Z * pv))%type.

Definition add_keyed (is_entry : bool) (st : lstate) (b : nat) : option lstate :=
  let '(h, acc, ed, sd) := st in
  do kv <- getattr h b A_key;
  match kv with
  | PRef _ => None                                   (* unhashable key: TypeError *)
  | PAtom k =>
      match aget (if is_entry then ed else sd) k with
      | None => Some (h, b :: acc, (if is_entry then aset ed k (PRef b) else ed),
                                     (if is_entry then sd else aset sd k (PRef b)))
      | Some prev =>
          (* _cast_to_duplicate: DuplicateBlockKeyBlock(start_line, raw, key, previous_block, duplicate_block) *)
          do sl <- getattr h b A_start_line_in_file;
          do raw <- getattr h b A_raw;
          let '(h1, md) := alloc h (ODict []) in
          let '(h2, w) := alloc h1 (OInst C_DuplicateBlockKeyBlock
                [(A_start_line_in_file, sl); (A_raw, raw); (A_parser_metadata, PRef md); (A_error, PAtom AT_Exc);
                 (A_ignore_error_block, PRef b); (A_key, PAtom k); (A_previous_block, prev)]) in
          Some (h2, w :: acc, ed, sd)
      end
  end.

Definition add_one (st : lstate) (b : nat) : option lstate :=
  let '(h, acc, ed, sd) := st in
  match class_of h b with
  | Some c => if Z.eqb c C_Entry then add_keyed true st b else if Z.eqb c C_String then add_keyed false st b
              else Some (h, b :: acc, ed, sd)
  | None => Some (h, b :: acc, ed, sd)
  end.

Fixpoint add_all (st : lstate) (bs : list nat) : option lstate :=
  match bs with
  | [] => Some st
  | b :: r => do st' <- add_one st b; add_all st' r
  end.

Definition new_library (h : heap) (blocks : list nat) : option (heap * nat) :=
  do st <- add_all (h, [], [], []) blocks;
  let '(h1, acc, ed, sd) := st in
  let '(h2, bl) := alloc h1 (OList (map PRef (rev acc))) in
  let '(h3, e) := alloc h2 (ODict ed) in
  let '(h4, s) := alloc h3 (ODict sd) in
  let '(h5, lib) := alloc h4 (OInst C_Library [(A_blocks, PRef bl); (A_entries_by_key, PRef e); (A_strings_by_key, PRef s)]) in
  Some (h5, lib).

Definition lib_blocks (h : heap) (lib : nat) : option (list nat) :=
  do lx <- attr_list h lib A_blocks; as_refs (snd lx).

Section WithDeepcopy.
  Variable DC : heap -> nat -> heap * nat.        (* copy.deepcopy *)

  (* BlockMiddleware.transform: for b in library.blocks: transform_block(b, library) ... Library(blocks=blocks) *)
  Fixpoint block_loop (inplace : bool) (bd : body) (lib : nat) (h : heap) (acc : list nat) (bs : list nat)
    : option (heap * list nat) :=
    match bs with
    | [] => Some (h, acc)
    | b :: r =>
        let '(h1, b') := if inplace then (h, b) else DC h b in       (* block if allow_inplace else deepcopy(block) *)
        do hr <- bd h1 lib b';
        let '(h2, res) := hr in
        block_loop inplace bd lib h2 (acc ++ result_blocks res) r
    end.

  Definition transform_block_mw (inplace : bool) (bd : body) (h : heap) (lib : nat) : option (heap * nat) :=
    do bs <- lib_blocks h lib;
    do hb <- block_loop inplace bd lib h [] bs;
    new_library (fst hb) (snd hb).

  (* LibraryMiddleware.transform *)
  Definition library_mw (inplace : bool) (h : heap) (lib : nat) : option (heap * nat) :=
    Some (if inplace then (h, lib) else DC h lib).

  (* ResolveStringReferencesMiddleware.transform.  `bare` = the atoms v with not _value_is_nonstring_or_enclosed(v)
     (a string-level fact supplied by the harness); kres = atom of the metadata key *)
  Fixpoint resolve_fields (bare : list Z) (sd : list (Z * pv)) (h : heap) (keys : list pv) (fs : list nat)
    : option (heap * list pv) :=
    match fs with
    | [] => Some (h, keys)
    | f :: r =>
        do v <- getattr h f A_value;
        match v with
        | PAtom a =>
            if existsb (Z.eqb a) bare then
              match aget sd a with
              | Some (PRef s) =>
                  do sv <- getattr h s A_value;
                  do h1 <- setattr h f A_value sv;               (* field.value = library.strings_dict[field.value].value *)
                  do k <- getattr h1 f A_key;
                  resolve_fields bare sd h1 (keys ++ [k]) r
              | Some (PAtom _) => None
              | None => resolve_fields bare sd h keys r
              end
            else resolve_fields bare sd h keys r
        | PRef _ => resolve_fields bare sd h keys r              (* not a str: skipped *)
        end
    end.

  Fixpoint resolve_entries (bare : list Z) (kres : Z) (sdref : nat) (h : heap) (bs : list nat) : option heap :=
    match bs with
    | [] => Some h
    | b :: r =>
        match class_of h b with
        | Some c =>
            if Z.eqb c C_Entry then
              do sd <- get_dict h sdref;
              do fl <- attr_list h b A_fields;
              do fs <- as_refs (snd fl);
              do hk <- resolve_fields bare sd h [] fs;
              let '(h1, keys) := hk in
              match keys with
              | [] => resolve_entries bare kres sdref h1 r
              | _ =>
                  (* resolved_fields = list() ... .append(field.key): one new list; allocated here with its final
                     content (an empty, unreferenced list is invisible) *)
                  let '(h2, rl) := alloc h1 (OList keys) in
                  do mdv <- getattr h2 b A_parser_metadata;
                  do md <- as_ref mdv;
                  do d <- get_dict h2 md;
                  resolve_entries bare kres sdref (set_obj h2 md (ODict (aset d kres (PRef rl)))) r
              end
            else resolve_entries bare kres sdref h r
        | None => resolve_entries bare kres sdref h r
        end
    end.

  Definition resolve_mw (inplace : bool) (bare : list Z) (kres : Z) (h : heap) (lib : nat) : option (heap * nat) :=
    let '(h1, lib') := if inplace then (h, lib) else DC h lib in
    do bs <- lib_blocks h1 lib';
    do sdv <- getattr h1 lib' A_strings_by_key;
    do sdref <- as_ref sdv;
    do h2 <- resolve_entries bare kres sdref h1 bs;
    Some (h2, lib').

  (* SortBlocksByTypeAndKeyMiddleware.transform: blocks = deepcopy(library.blocks); ...sort...; Library(blocks=...)
     perm = the permutation the (stable) sort applies, a string-level fact supplied by the harness *)
  Definition sort_blocks_mw (perm : list nat) (h : heap) (lib : nat) : option (heap * nat) :=
    do blv <- getattr h lib A_blocks;
    do bl <- as_ref blv;
    let '(h1, bl') := DC h bl in
    do cs <- get_list h1 bl';
    do cr <- as_refs cs;
    do sorted <- fold_right (fun i acc => do a <- acc; do x <- nth_error cr i; Some (x :: a)) (Some []) perm;
    new_library h1 sorted.

  (* writer.write: reads the library; the caller's format is deep-copied BEFORE 'auto' is replaced by a number.
     at_auto = atom of the string 'auto', at_col = atom of the computed column *)
  Definition writer_mw (at_auto at_col : Z) (h : heap) (lib fmt : nat) : option heap :=
    do _ <- lib_blocks h lib;
    do vc <- getattr h fmt A_align_field_values;
    match vc with
    | PAtom a =>
        if Z.eqb a at_auto then
          let '(h1, fmt') := DC h fmt in                                (* bibtex_format = deepcopy(bibtex_format) *)
          setattr h1 fmt' A_align_field_values (PAtom at_col)            (* bibtex_format.value_column = auto_val *)
        else Some h
    | PRef _ => Some h
    end.

  (* write_string with the default stack: [AddEnclosing(allow_inplace_modification=False)] then write *)
  Definition write_string_mw (bd : body) (at_auto at_col : Z) (h : heap) (lib fmt : nat) : option heap :=
    do hl <- transform_block_mw false bd h lib;
    writer_mw at_auto at_col (fst hl) (snd hl) fmt.

  (* stacks *)
  Inductive mw :=
  | MwBlock (inplace : bool) (bd : body)
  | MwLibrary (inplace : bool)
  | MwResolve (inplace : bool) (bare : list Z) (kres : Z)
  | MwSort (perm : list nat).

  Definition run_mw (m : mw) (h : heap) (lib : nat) : option (heap * nat) :=
    match m with
    | MwBlock i bd => transform_block_mw i bd h lib
    | MwLibrary i => library_mw i h lib
    | MwResolve i bare k => resolve_mw i bare k h lib
    | MwSort perm => sort_blocks_mw perm h lib
    end.

  Fixpoint run_stack (ms : list mw) (h : heap) (lib : nat) : option (heap * nat) :=
    match ms with
    | [] => Some (h, lib)
    | m :: r => do hl <- run_mw m h lib; run_stack r (fst hl) (snd hl)
    end.

  Definition copy_mode (m : mw) : Prop :=
    match m with
    | MwBlock i _ => i = false
    | MwLibrary i => i = false
    | MwResolve i _ _ => i = false
    | MwSort _ => True
    end.
End WithDeepcopy.

(* ------------------------------------------------------------------ probe bodies (the same bodies exist as Python
   BlockMiddleware subclasses in harness/props/c07_heap.py).  c = atom of the constant written, kp = atom of the
   string "probe", kdup = atom of the string "dup" *)
Definition is_entry (h : heap) (b : nat) : bool := match class_of h b with Some c => Z.eqb c C_Entry | None => false end.
Definition is_string (h : heap) (b : nat) : bool := match class_of h b with Some c => Z.eqb c C_String | None => false end.
Definition is_plain_block (h : heap) (b : nat) : bool :=     (* the five classes transform_block dispatches on *)
  match class_of h b with Some c => (Z.leb C_Entry c) && (Z.leb c C_ImplicitComment) | None => false end.

Fixpoint set_values (h : heap) (fs : list nat) (c : Z) : option heap :=
  match fs with
  | [] => Some h
  | f :: r => do h1 <- setattr h f A_value (PAtom c); set_values h1 r c
  end.

Definition probe_identity : body := fun h lib b => Some (h, ROne b).

Definition probe_set_values (c : Z) : body := fun h lib b =>
  if is_entry h b then
    do fl <- attr_list h b A_fields; do fs <- as_refs (snd fl); do h1 <- set_values h fs c; Some (h1, ROne b)
  else if is_string h b then do h1 <- setattr h b A_value (PAtom c); Some (h1, ROne b)
  else Some (h, ROne b).

Definition probe_append_field (c kp : Z) : body := fun h lib b =>
  if is_entry h b then
    do fl <- attr_list h b A_fields;
    let '(h1, f) := alloc h (OInst C_Field [(A_start_line, PAtom AT_None); (A_key, PAtom kp); (A_value, PAtom c)]) in
    Some (set_obj h1 (fst fl) (OList (snd fl ++ [PRef f])), ROne b)
  else Some (h, ROne b).

Definition probe_replace_metadata (c kp : Z) : body := fun h lib b =>
  if is_plain_block h b then
    let '(h1, md) := alloc h (ODict [(kp, PAtom c)]) in
    do h2 <- setattr h1 b A_parser_metadata (PRef md); Some (h2, ROne b)
  else Some (h, ROne b).

Definition probe_drop_strings : body := fun h lib b =>
  if is_string h b then Some (h, RNone) else Some (h, ROne b).

Definition probe_add_comment (kp : Z) : body := fun h lib b =>
  if is_entry h b then
    let '(h1, md) := alloc h (ODict []) in
    let '(h2, cm) := alloc h1 (OInst C_ExplicitComment
        [(A_start_line_in_file, PAtom AT_None); (A_raw, PAtom AT_None); (A_parser_metadata, PRef md); (A_comment, PAtom kp)]) in
    Some (h2, RMany [b; cm])
  else Some (h, ROne b).

Definition probe_twice : body := fun h lib b =>
  if is_entry h b then Some (h, RMany [b; b]) else Some (h, ROne b).

(* NOT footprint_ok: stores the library (its second argument) into the block's metadata *)
Definition probe_leak_library (kp : Z) : body := fun h lib b =>
  if is_entry h b then
    do mdv <- getattr h b A_parser_metadata; do md <- as_ref mdv; do d <- get_dict h md;
    Some (set_obj h md (ODict (aset d kp (PRef lib))), ROne b)
  else Some (h, ROne b).

Definition probe_same_key (kdup : Z) : body := fun h lib b =>
  if is_entry h b then do h1 <- setattr h b A_key (PAtom kdup); Some (h1, ROne b) else Some (h, ROne b).

Definition probe_body (n : Z) (c kp kdup : Z) : body :=
  if Z.eqb n 0 then probe_identity else if Z.eqb n 1 then probe_set_values c
  else if Z.eqb n 2 then probe_append_field c kp else if Z.eqb n 3 then probe_replace_metadata c kp
  else if Z.eqb n 4 then probe_drop_strings else if Z.eqb n 5 then probe_add_comment kp
  else if Z.eqb n 6 then probe_twice else if Z.eqb n 7 then probe_leak_library kp
  else probe_same_key kdup.
