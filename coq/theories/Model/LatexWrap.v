(* middlewares/latex_encoding.py: _PyStringTransformerMiddleware (what the repository contributes around
   pylatexenc: which values are visited, what is written back, what happens on failure).  Definitions only.
   The conversion itself is a Section variable: [conv s = (value, error message)] is
   _transform_python_value_string, an arbitrary function.  pylatexenc is NOT modelled. *)
From Coq Require Import List NArith ZArith Bool String.
From BP Require Import Base.Chars Model.Blocks Model.LibAdd.
Import ListNotations.

(* What one call of the third-party converter does: it returns text, or raises an exception e of which the
   repository reads str(e) and type(e).__name__ (a class name is never empty: first character + rest). *)
Inductive cres := Conv (r : str) | Fail (msg : str) (cls0 : ch) (cls : str).

(* LatexEncodingMiddleware / LatexDecodingMiddleware._transform_python_value_string:
       try: return f(s), ""
       except Exception as e: return s, str(e) or type(e).__name__                                  *)
Definition py_wrap (f : str -> cres) (s : str) : str * str :=
  match f s with
  | Conv r => (r, [])
  | Fail msg c0 cls => (s, match msg with [] => c0 :: cls | _ => msg end)
  end.

Section Wrapper.
  Variable conv : str -> str * str.

  (* _transform_all_strings: results, and the error messages appended to `errors` in call order *)
  Definition conv_all (l : list str) : list str * list str :=
    (map (fun s => fst (conv s)) l, map (fun s => snd (conv s)) l).

  (* one field of transform_entry: new value, messages appended to `errors` *)
  Definition conv_field_value (v : value) : value * list str :=
    match v with
    | VStr s => (VStr (fst (conv s)), [snd (conv s)])
    | VParts first von last jr =>
        (* order of the calls: first, last, von, jr *)
        let (f', e1) := conv_all first in
        let (l', e2) := conv_all last in
        let (v', e3) := conv_all von in
        let (j', e4) := conv_all jr in
        (VParts f' v' l' j', e1 ++ e2 ++ e3 ++ e4)
    | _ => (v, [])
    end.

  Fixpoint conv_fields (fs : list field) : list field * list str :=
    match fs with
    | [] => ([], [])
    | f :: r =>
        let (v', e) := conv_field_value (fval f) in
        let (r', es) := conv_fields r in
        (mkfield (fkey f) v' (fline f) :: r', e ++ es)
    end.

  Definition nonempty (s : str) : bool := match s with [] => false | _ => true end.

  (* MiddlewareErrorBlock(block, error): start line and raw of the block, fresh metadata *)
  Definition mw_error (b : block) : block :=
    BMwErr (mkhdr (sl (bhdr b)) (raw (bhdr b)) []) EPartial b.

  (* transform_block: the block put into the new library, and the reasons given to PartialMiddlewareException *)
  Definition latex_block (b : block) : block * list str :=
    match b with
    | BEntry h t k fs =>
        let (fs', es) := conv_fields fs in
        let errs := filter nonempty es in
        let e' := BEntry h t k fs' in
        match errs with [] => (e', []) | _ => (mw_error e', errs) end
    | BString h k (VStr s) =>
        let (r, e) := conv s in
        let s' := BString h k (VStr r) in
        if nonempty e then (mw_error s', [e]) else (s', [])
    | _ => (b, [])
    end.

  (* BlockMiddleware.transform: Library(blocks=[...]) *)
  Definition latex_lib (blocks : list block) : list block := rebuild (map (fun b => fst (latex_block b)) blocks).
  Definition latex_errors (blocks : list block) : list (list str) := map (fun b => snd (latex_block b)) blocks.
End Wrapper.

(* ---------------------------------------------------------------- executable stub converters
   (the harness passes objects implementing the same tables as custom encoder/decoder) *)
Definition c_eacute : ch := 29906%N.              (* U+00E9: 233*128 + alpha|word|lower *)
Definition c_apos : ch := asc 39.
Definition c_e : ch := asc 101.
Definition boom : str := lit "BOOM".
Definition quiet : str := lit "QUIET".

Fixpoint contains (p s : str) : bool :=
  match s with
  | [] => match p with [] => true | _ => false end
  | _ :: r => starts_with p s || contains p r
  end.

(* s.replace("é", "\\'e") *)
Fixpoint stub_enc_text (s : str) : str :=
  match s with
  | [] => []
  | c :: r => if ceq c c_eacute then c_bs :: c_apos :: c_e :: stub_enc_text r else c :: stub_enc_text r
  end.
(* s.replace("\\'e", "é"): left to right, non-overlapping; [skip] = characters of a match still to drop *)
Fixpoint stub_dec_go (skip : nat) (s : str) : str :=
  match s with
  | [] => []
  | c :: r =>
      match skip with
      | S k => stub_dec_go k r
      | O => if starts_with [c_bs; c_apos; c_e] s then c_eacute :: stub_dec_go 2 r else c :: stub_dec_go 0 r
      end
  end.
Definition stub_dec_text (s : str) : str := stub_dec_go 0 s.

(* the stub raises ValueError("boom <text>") on texts containing BOOM, and an exception of class _Quiet whose message is
   EMPTY on texts containing QUIET *)
Definition stub_raw (f : str -> str) (s : str) : cres :=
  if contains boom s then Fail (lit "boom " ++ s) (asc 86) (lit "alueError")
  else if contains quiet s then Fail [] (asc 95) (lit "Quiet")
  else Conv (f s).
Definition stub_enc : str -> str * str := py_wrap (stub_raw stub_enc_text).
Definition stub_dec : str -> str * str := py_wrap (stub_raw stub_dec_text).
