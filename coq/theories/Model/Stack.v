(* entrypoint.py (parse_string / parse_file / write_string / write_file, the two stack builders),
   middlewares/middleware.py (BlockMiddleware.transform / transform_block) and the part of Library.__init__ they use.
   Definitions only.  Middlewares are abstract: a type M with  apply : M -> lib -> res lib ; the splitter, the codecs
   and the file system are Section-level oracles.  A small datatype of probe middlewares is the executable instance. *)
From Coq Require Import String List NArith ZArith Bool.
From BP Require Import Base.Chars Model.Blocks Model.Writer.
Import ListNotations.

Definition lib := list block.                 (* Library: its blocks, in order *)

Definition bind {A B} (r : res A) (f : A -> res B) : res B :=
  match r with Val x => f x | Raise e => Raise e | Skip => Skip end.

(* ---- Library(blocks=...): add() with the key-safety of _add_to_dicts / _cast_to_duplicate *)
Fixpoint add_blocks (seen_e seen_s : list (str * block)) (bs : list block) : list block :=
  match bs with
  | [] => []
  | b :: r =>
      match b with
      | BEntry h _ k _ =>
          match dict_get seen_e k with
          | Some prev => BDupKey (mkhdr (sl h) (raw h) []) k prev b :: add_blocks seen_e seen_s r
          | None => b :: add_blocks ((k, b) :: seen_e) seen_s r
          end
      | BString h k _ =>
          match dict_get seen_s k with
          | Some prev => BDupKey (mkhdr (sl h) (raw h) []) k prev b :: add_blocks seen_e seen_s r
          | None => b :: add_blocks seen_e ((k, b) :: seen_s) r
          end
      | _ => b :: add_blocks seen_e seen_s r
      end
  end.
Definition library_of (bs : list block) : lib := add_blocks [] [] bs.

(* ---- BlockMiddleware.transform: the per-block result protocol *)
Inductive item := IBlock (b : block) | INonBlock.
Inductive rres :=
| RNone                          (* None *)
| RBlock (b : block)             (* isinstance(x, Block) *)
| RColl (l : list item)          (* isinstance(x, Collection): its items in iteration order *)
| ROther.                        (* anything else: generators, iterators, ints, ... *)

Fixpoint items_blocks (l : list item) : option (list block) :=
  match l with
  | [] => Some []
  | IBlock b :: r => option_map (cons b) (items_blocks r)
  | INonBlock :: _ => None
  end.

(* the loop of transform(): blocks.append / blocks.extend in block order, TypeError at the first illegal result *)
Fixpoint splice (rs : list rres) : res (list block) :=
  match rs with
  | [] => Val []
  | r :: rest =>
      match r with
      | RNone => splice rest
      | RBlock b => bind (splice rest) (fun t => Val (b :: t))
      | RColl l => match items_blocks l with
                   | Some bs => bind (splice rest) (fun t => Val (bs ++ t))
                   | None => Raise ETypeError
                   end
      | ROther => Raise ETypeError
      end
  end.

Definition block_transform (f : block -> rres) (l : lib) : res lib :=
  bind (splice (map f l)) (fun bs => Val (library_of bs)).

(* transform_block: dispatch on the five parsed classes; any other block is returned as it is *)
Definition transform_block (fe fs fp fx fi : block -> rres) (b : block) : rres :=
  match class_of b with
  | CEntry => fe b | CString => fs b | CPreamble => fp b | CExpl => fx b | CImpl => fi b
  | _ => RBlock b
  end.

(* ---- entry points, for any middleware type *)
Section EntryPoints.
  Variable M : Type.
  Variable apply : M -> lib -> res lib.               (* middleware.transform(library) *)
  Variable default_parse default_unparse : list M.    (* parsestack.default_parse_stack / default_unparse_stack *)
  Variable split : str -> res lib.                    (* Splitter(text).split() *)

  (* for middleware in stack: library = middleware.transform(library) *)
  Definition run_mws (ms : list M) (l : lib) : res lib :=
    fold_left (fun acc m => bind acc (apply m)) ms (Val l).

  Definition build_parse_stack (ps am : option (list M)) : res (list M) :=
    match ps, am with
    | Some _, Some _ => Raise EValueError
    | _, _ =>
        let base := match ps with Some p => p | None => default_parse end in
        match am with None => Val base | Some a => Val (base ++ a) end
    end.

  Definition build_unparse_stack (us pm : option (list M)) : res (list M) :=
    match us, pm with
    | Some _, Some _ => Raise EValueError
    | _, _ =>
        let base := match us with Some p => p | None => default_unparse end in
        match pm with None => Val base | Some a => Val (a ++ base) end
    end.

  Definition parse_string (t : str) (ps am : option (list M)) : res lib :=
    bind (split t) (fun l => bind (build_parse_stack ps am) (fun st => run_mws st l)).

  Definition write_string (l : lib) (us pm : option (list M)) (f : option fmt) : res str :=
    bind (build_unparse_stack us pm) (fun st =>
    bind (run_mws st l) (fun l' => write (match f with Some f' => f' | None => default_fmt end) l')).

  (* files: the runtime's part is an oracle *)
  Variable path enc world fobj : Type.
  Variable decode : path -> enc -> res str.                (* open(path, encoding=enc).read() *)
  Variable write_path : world -> path -> str -> res world.  (* with open(path, "w") as f: f.write(s) *)
  Variable write_obj : world -> fobj -> str -> res world.   (* file.write(s) *)

  Definition parse_file (p : path) (e : enc) (ps am : option (list M)) : res lib :=
    bind (decode p e) (fun t => parse_string t ps am).

  Inductive target := TPath (p : path) | TObj (o : fobj).
  (* write_file(file, library, parse_stack, append_middleware, bibtex_format): forwards its two stack arguments
     as unparse_stack / prepend_middleware *)
  Definition write_file (w : world) (tgt : target) (l : lib) (ps am : option (list M)) (f : option fmt) : res world :=
    bind (write_string l ps am f) (fun s =>
      match tgt with TPath p => write_path w p s | TObj o => write_obj w o s end).
End EntryPoints.

(* ---- the executable instance: probe middlewares *)
Definition trace_key : str := lit "trace".
Definition tag (k : Z) (b : block) : block :=
  let h := bhdr b in
  let old := match dict_get (meta h) trace_key with Some (VList l) => l | _ => [] end in
  with_hdr b (set_meta h trace_key (VList (old ++ [VInt k]))).

Inductive ispec := ISelf | INew (b : block) | INon.
Inductive rspec := SNone | SSelf | SColl (items : list ispec) | SOther.
Record handlers := mkhandlers { h_entry : rspec; h_string : rspec; h_preamble : rspec; h_expl : rspec; h_impl : rspec }.

Definition interp (k : Z) (s : rspec) (b : block) : rres :=
  let b' := tag k b in
  match s with
  | SNone => RNone
  | SSelf => RBlock b'
  | SColl its => RColl (map (fun i => match i with ISelf => IBlock b' | INew nb => IBlock nb | INon => INonBlock end) its)
  | SOther => ROther
  end.

Inductive mw :=
| MLibTag (k : Z)                    (* a LibraryMiddleware that appends k to every block's metadata["trace"] *)
| MBlk (k : Z) (hs : handlers)       (* a BlockMiddleware whose transform_<class> tags the block and answers per spec *)
| MShipped (id : Z).                 (* an instance of a shipped middleware: an oracle *)

Section Probes.
  Variable shipped : Z -> lib -> res lib.
  Definition apply_mw (m : mw) (l : lib) : res lib :=
    match m with
    | MLibTag k => Val (map (tag k) l)
    | MBlk k hs => block_transform (transform_block (interp k (h_entry hs)) (interp k (h_string hs))
                                                    (interp k (h_preamble hs)) (interp k (h_expl hs))
                                                    (interp k (h_impl hs))) l
    | MShipped id => shipped id l
    end.
End Probes.

(* ids of the shipped default stacks on the wire *)
Definition id_resolve : Z := 1000.        (* ResolveStringReferencesMiddleware(allow_inplace_modification=True) *)
Definition id_remove_enclosing : Z := 1001. (* RemoveEnclosingMiddleware(allow_inplace_modification=True) *)
Definition id_add_enclosing : Z := 1002.  (* AddEnclosingMiddleware(False, "{", reuse_previous_enclosing=False, enclose_integers=True) *)
Definition default_parse_mws : list mw := [MShipped id_resolve; MShipped id_remove_enclosing].
Definition default_unparse_mws : list mw := [MShipped id_add_enclosing].
