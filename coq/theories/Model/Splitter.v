(* splitter.py as one left-to-right machine over classified characters (definitions only).

   The recursive descent with exceptions of the Python (_next_mark with one pushed-back mark, the four
   _handle_* functions, the three _move_to_* scanners, the try/except in split) is flattened: every place
   where the Python raises BlockAbortedException at a mark is a branch "emit the failed block, then handle
   the same character in Out mode with a fresh implicit comment" (that re-dispatch is the pushed-back mark).
   Text is carried in accumulators (reversed lists), never as positions, so that "no character is dropped or
   duplicated" is a statement about list concatenation. *)
From Coq Require Import List NArith ZArith Bool String.
From BP Require Import Base.Chars Model.Blocks Model.Lexer Model.LibAdd.
Import ListNotations.
Local Open Scope Z_scope.

Inductive kind := KComment | KPreamble | KString.

Inductive mode :=
| Out                                   (* main loop of split(): text outside blocks *)
| Head                                  (* inside the "@type  " match; the next mark is '{' *)
| InBraces (k : kind) (d : N)           (* _move_to_closed_bracket, d additional open brackets *)
| StrKey                                (* @string{ ... waiting for '=' *)
| EntKey                                (* @type{ ... waiting for ',' or '}' *)
| FldKey                                (* _move_to_end_of_entry: waiting for '=' or '}' *)
| FldVal (q : bool) (d : N)             (* _move_to_comma_or_closing_curly_bracket *)
| Crashed.                              (* ParserStateException / RegexMismatchException escaped *)

(* abort reasons (harness/enc.py: abort_code) *)
Definition R_EOF : N := 0%N.
Definition R_AT_BRACKET : N := 1%N.
Definition R_AT_QUOTE : N := 2%N.
Definition R_AT_CURLY : N := 3%N.
Definition R_AT_FIELD : N := 4%N.
Definition R_NO_EQ : N := 5%N.
Definition R_NO_COMMA : N := 7%N.
Definition R_STR_NO_EQ : N := 8%N.

Record openb := mkob {
  b_line : Z;                (* start_line of the open block *)
  raw_rev : str;             (* bibstr[m.start() : here], reversed *)
  typ_rev : str;             (* the @-match after '@' *)
  a_rev : str;               (* key accumulator: entry key / string key / field key *)
  v_rev : str;               (* value / content accumulator *)
  etyp : str; ekey : str;    (* entry type and key once known *)
  f_line : Z;                (* line of the '=' of the open field *)
  flds_rev : list field;
  seen : list str; dups : list str }.
Definition ob0 (ln : Z) (c : ch) : openb := mkob ln [c] [] [] [] [] [] 0 [] [] [].

Record st := mkst {
  md : mode;
  line : Z;                  (* _current_line *)
  out_rev : list block;      (* blocks emitted so far, most recent first *)
  ic_rev : str;              (* text since _implicit_comment_start *)
  ic_line : Z;               (* _implicit_comment_start_line *)
  ob : openb }.

Definition st0 : st := mkst Out (-1) [] [] (-1) (ob0 0 0%N).

(* ---- _end_implicit_comment *)
Fixpoint skip_leading (s : str) (n : Z) : str * Z :=
  match s with
  | [] => ([], n)
  | c :: r => if (c =? c_nl)%N then skip_leading r (n + 1)
              else if isspace c then skip_leading r n
              else (s, n)
  end.
Definition end_implicit (text : str) (start_line : Z) : option block :=
  let (rest, n) := skip_leading text 0 in
  match rstrip rest with
  | [] => None
  | c => Some (BImpl (mkhdr (Some (start_line + n)) (Some c) []) c)
  end.
Definition flush_ic (s : st) : list block :=
  match end_implicit (rv (ic_rev s)) (ic_line s) with
  | Some b => b :: out_rev s
  | None => out_rev s
  end.

(* ---- accumulator updates on the open block *)
Definition ob_raw (c : ch) (o : openb) : openb :=
  mkob (b_line o) (c :: raw_rev o) (typ_rev o) (a_rev o) (v_rev o) (etyp o) (ekey o) (f_line o) (flds_rev o) (seen o) (dups o).
Definition ob_raw_typ (c : ch) (o : openb) : openb :=
  mkob (b_line o) (c :: raw_rev o) (c :: typ_rev o) (a_rev o) (v_rev o) (etyp o) (ekey o) (f_line o) (flds_rev o) (seen o) (dups o).
Definition ob_raw_a (c : ch) (o : openb) : openb :=
  mkob (b_line o) (c :: raw_rev o) (typ_rev o) (c :: a_rev o) (v_rev o) (etyp o) (ekey o) (f_line o) (flds_rev o) (seen o) (dups o).
Definition ob_raw_v (c : ch) (o : openb) : openb :=
  mkob (b_line o) (c :: raw_rev o) (typ_rev o) (a_rev o) (c :: v_rev o) (etyp o) (ekey o) (f_line o) (flds_rev o) (seen o) (dups o).
(* '{' after the @-match: clear both accumulators; remember the (lower-cased, stripped) type *)
Definition ob_open (c : ch) (ty : str) (o : openb) : openb :=
  mkob (b_line o) (c :: raw_rev o) (typ_rev o) [] [] ty [] (f_line o) [] [] [].
(* '=' : the value accumulator starts *)
Definition ob_eq (c : ch) (ln : Z) (o : openb) : openb :=
  mkob (b_line o) (c :: raw_rev o) (typ_rev o) (a_rev o) [] (etyp o) (ekey o) ln (flds_rev o) (seen o) (dups o).
(* ',' after the entry key *)
Definition ob_key (c : ch) (o : openb) : openb :=
  mkob (b_line o) (c :: raw_rev o) (typ_rev o) [] [] (etyp o) (strip (rv (a_rev o))) (f_line o) [] [] [].
(* a field is complete: key = strip(a), value = strip(v) *)
Definition ob_field (o : openb) : openb :=
  let k := strip (rv (a_rev o)) in
  let f := mkfield k (VStr (strip (rv (v_rev o)))) (Some (f_line o)) in
  mkob (b_line o) (raw_rev o) (typ_rev o) [] [] (etyp o) (ekey o) (f_line o) (f :: flds_rev o)
       (if mem_str k (seen o) then seen o else k :: seen o)
       (if mem_str k (seen o) && negb (mem_str k (dups o)) then k :: dups o else dups o).

(* sorted(list(duplicate_keys)) *)
Fixpoint insert_str (x : str) (l : list str) : list str :=
  match l with [] => [x] | y :: r => if str_ltb y x then y :: insert_str x r else x :: l end.
Definition sort_strs (l : list str) : list str := fold_right insert_str [] l.

Definition hdr_of (o : openb) : hdr := mkhdr (Some (b_line o)) (Some (rv (raw_rev o))) [].

Definition entry_block (o : openb) : block :=
  let e := BEntry (hdr_of o) (etyp o) (ekey o) (rv (flds_rev o)) in
  match dups o with
  | [] => e
  | ds => BDupField (hdr_of o) (sort_strs ds) e
  end.
Definition braces_block (k : kind) (o : openb) : block :=
  match k with
  | KComment => BExpl (hdr_of o) (strip (rv (v_rev o)))
  | KPreamble => BPreamble (hdr_of o) (rv (v_rev o))
  | KString => BString (hdr_of o) (strip (rv (a_rev o))) (VStr (strip (rv (v_rev o))))
  end.
Definition failed_block (o : openb) (reason : N) : block := BFailed (hdr_of o) (EAbort reason).

Definition s_comment : str := lit "comment".
Definition s_preamble : str := lit "preamble".
Definition s_string : str := lit "string".

(* ---- transitions *)
(* a block is complete (c, its closing bracket, already in raw): emit, back to Out, implicit comment restarts *)
Definition close_block (s : st) (b : block) : st :=
  mkst Out (line s) (b :: out_rev s) [] (line s) (ob s).

(* Out mode (also the target of every re-dispatch) *)
Definition step_out (s : st) (c : ch) (k : option mk) : st :=
  match k with
  | Some MAt => mkst Head (line s) (flush_ic s) [] (line s) (ob0 (line s) c)
  | Some MNL => mkst Out (line s + 1) (out_rev s) (c :: ic_rev s) (ic_line s) (ob s)
  | _ => mkst Out (line s) (out_rev s) (c :: ic_rev s) (ic_line s) (ob s)
  end.

(* the Python raised BlockAbortedException at mark c: failed block up to (not including) c, then c is handled
   by the main loop, with the implicit comment starting at c *)
Definition abort (s : st) (reason : N) (c : ch) (k : option mk) : st :=
  step_out (mkst Out (line s) (failed_block (ob s) reason :: out_rev s) [] (line s) (ob s)) c k.

Definition upd (s : st) (m : mode) (o : openb) : st := mkst m (line s) (out_rev s) (ic_rev s) (ic_line s) o.
Definition upd_nl (s : st) (o : openb) : st := mkst (md s) (line s + 1) (out_rev s) (ic_rev s) (ic_line s) o.

Definition step (s : st) (ck : ch * option mk) : st :=
  let (c, k) := ck in
  match md s with
  | Crashed => s
  | Out => step_out s c k
  | Head =>
      match k with
      | None => upd s Head (ob_raw_typ c (ob s))
      | Some MLB =>
          let ty := lower (rv (typ_rev (ob s))) in
          if starts_with s_comment ty then upd s (InBraces KComment 0) (ob_open c [] (ob s))
          else if starts_with s_preamble ty then upd s (InBraces KPreamble 0) (ob_open c [] (ob s))
          else if starts_with s_string ty then upd s StrKey (ob_open c [] (ob s))
          else upd s EntKey (ob_open c (strip ty) (ob s))
      | Some _ => upd s Crashed (ob s)
      end
  | InBraces kd d =>
      match k with
      | None | Some MQ | Some MComma | Some MEq => upd s (md s) (ob_raw_v c (ob s))
      | Some MNL => upd_nl s (ob_raw_v c (ob s))
      | Some MLB => upd s (InBraces kd (d + 1)) (ob_raw_v c (ob s))
      | Some MRB =>
          if (d =? 0)%N then close_block s (braces_block kd (ob_raw c (ob s)))
          else upd s (InBraces kd (d - 1)) (ob_raw_v c (ob s))
      | Some MAt => abort s R_AT_BRACKET c k
      end
  | StrKey =>
      match k with
      | None => upd s StrKey (ob_raw_a c (ob s))
      | Some MNL => upd_nl s (ob_raw_a c (ob s))
      | Some MEq => upd s (InBraces KString 0) (ob_eq c (line s) (ob s))
      | Some _ => abort s R_STR_NO_EQ c k
      end
  | EntKey =>
      match k with
      | None => upd s EntKey (ob_raw_a c (ob s))
      | Some MNL => upd_nl s (ob_raw_a c (ob s))
      | Some MRB => close_block s (entry_block (ob_key c (ob s)))
      | Some MComma => upd s FldKey (ob_key c (ob s))
      | Some _ => abort s R_NO_COMMA c k
      end
  | FldKey =>
      match k with
      | None => upd s FldKey (ob_raw_a c (ob s))
      | Some MNL => upd_nl s (ob_raw_a c (ob s))
      | Some MRB => close_block s (entry_block (ob_raw c (ob s)))
      | Some MEq => upd s (FldVal false 0) (ob_eq c (line s) (ob s))
      | Some _ => abort s R_NO_EQ c k
      end
  | FldVal q d =>
      match k with
      | None | Some MEq => upd s (md s) (ob_raw_v c (ob s))
      | Some MNL => upd_nl s (ob_raw_v c (ob s))
      | Some MQ => upd s (if (d =? 0)%N then FldVal (negb q) d else FldVal q d) (ob_raw_v c (ob s))
      | Some MLB => upd s (if q then FldVal q d else FldVal q (d + 1)) (ob_raw_v c (ob s))
      | Some MRB =>
          if q then upd s (md s) (ob_raw_v c (ob s))
          else if (d =? 0)%N then close_block s (entry_block (ob_raw c (ob_field (ob s))))
          else upd s (FldVal q (d - 1)) (ob_raw_v c (ob s))
      | Some MComma =>
          if q || negb (d =? 0)%N then upd s (md s) (ob_raw_v c (ob s))
          else upd s FldKey (ob_raw c (ob_field (ob s)))
      | Some MAt => abort s (if q then R_AT_QUOTE else if (d =? 0)%N then R_AT_FIELD else R_AT_CURLY) c k
      end
  end.

(* end of input *)
Inductive outcome := Blocks (bs : list block) | Raised.
Definition finish (s : st) : outcome :=
  match md s with
  | Crashed => Raised
  | Head => Raised                               (* '{' is guaranteed by the look-ahead: unreachable *)
  | Out => Blocks (rv (flush_ic s))
  | _ => Blocks (rv (failed_block (ob s) R_EOF :: out_rev s))
  end.

Definition run (t : str) : st := fold_left step (classify false (c_nl :: t)) st0.

(* Splitter(text).split() before Library.add: the blocks in order *)
Definition split_raw (t : str) : outcome := finish (run t).

(* Splitter(text).split().blocks *)
Definition split (t : str) : outcome :=
  match split_raw t with Blocks bs => Blocks (rebuild bs) | Raised => Raised end.

(* Splitter(text).split(library=L).blocks for a library L that holds the blocks `prev` (themselves added one by one):
   the new blocks are added to the SAME key indexes (parse_string(text, library=L)) *)
Definition split_into (prev : list block) (t : str) : outcome :=
  match split_raw t with Blocks bs => Blocks (lblocks (lib_add_all bs (lib_of prev))) | Raised => Raised end.
