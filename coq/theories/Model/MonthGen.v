(* middlewares/month.py once more, this time over CPython's REAL str.lower / int, which enter as Section
   variables (abstract oracles) instead of the ASCII instances `lower` / `py_int` of Model/Month.v.
   Same transcription of the three resolve_month_field_val bodies, same table (Gen/Constants.v); there is no
   "outside the oracle instance" outcome any more: a result is a value or an exception.

   The code transcribed is the one after the repair "month middlewares do not raise on digit strings and ints
   beyond int()'s digit limit":
     * `_int_of_decimal_str(v)` (drop leading zeros, then int(); None when int() still refuses the string, which
       CPython >= 3.11 does above sys.get_int_max_str_digits() digits) replaces `int(v)`; on None the value STAYS
       a str and goes on into the `elif isinstance(v, str)` branch (long / abbreviation) or is returned (int);
     * `_unknown_month_message` catches the ValueError of f"{v}" for ints with too many digits; the message is not
       represented in the model, so int formatting does not appear here at all;
     * `isinstance(v, int)` also holds for bool (True is read as the integer 1 by the long / abbreviation
       middlewares, and not at all by the int middleware, which only looks at str).
   The only exception sites left are the dict lookup `_MONTH_ABBREV_TO_FULL[v_lower[:3]]` (KeyError) and
   `_MONTH_ABBREV.index(v_lower[:3])` (ValueError).  Definitions only. *)
From Coq Require Import List NArith ZArith Bool String.
From BP Require Import Base.Chars Model.Blocks Gen.Constants Model.Month.
Import ListNotations.

(* outcome of resolve_month_field_val: the new field value, or an exception *)
Inductive gres := GVal (v : value) | GRaise.

Section MonthGen.
  (* CPython's str.lower() *)
  Variable lowerU : str -> str.
  (* _int_of_decimal_str(s) for a str s with s.isdecimal(): the int the string denotes, None when int() refuses it
     even without its leading zeros *)
  Variable intU : str -> option Z.

  (* _LOWERCASE_FULL = list(m.lower() for m in _MONTH_FULL) *)
  Definition lowercase_full_g : list str := map lowerU month_full.

  (* `if isinstance(v, str) and v.isdecimal(): as_int = _int_of_decimal_str(v); if as_int is not None: v = as_int` *)
  Definition as_int_g (s : str) : option Z := if str_isdecimal s then intU s else None.

  (* the `if isinstance(v, int):` block of the long / abbreviation middlewares: [orig] is month_field.value, [z] is v *)
  Definition int_branch_g (table : list str) (orig : value) (z : Z) : gres :=
    GVal (if in_range z then VStr (nth_str table (z - 1)) else orig).

  (* MonthLongStringMiddleware.resolve_month_field_val *)
  Definition resolve_long_g (v : value) : gres :=
    match v with
    | VStr s =>
        match as_int_g s with
        | Some z => int_branch_g month_full v z
        | None =>                                           (* elif isinstance(v, str) *)
            let lo := lowerU s in
            match abbrev_to_full lo with                    (* v_lower in _MONTH_ABBREV_TO_FULL *)
            | Some full => GVal (VStr full)
            | None =>
                if mem_str lo lowercase_full_g then
                  match abbrev_to_full (firstn3 lo) with    (* _MONTH_ABBREV_TO_FULL[v_lower[:3]] *)
                  | Some dflt => GVal (if str_eqb s dflt then v else VStr dflt)
                  | None => GRaise                          (* KeyError *)
                  end
                else GVal v
            end
        end
    | VInt z => int_branch_g month_full v z
    | VBool b => int_branch_g month_full v (if b then 1 else 0)%Z          (* bool is an int *)
    | _ => GVal v
    end.

  (* MonthAbbreviationMiddleware.resolve_month_field_val *)
  Definition resolve_abbrev_g (v : value) : gres :=
    match v with
    | VStr s =>
        match as_int_g s with
        | Some z => int_branch_g month_abbrev v z
        | None =>
            let lo := lowerU s in
            if mem_str lo lowercase_full_g then GVal (VStr (firstn3 lo))
            else if mem_str lo month_abbrev && negb (str_eqb lo s) then GVal (VStr lo)
            else GVal v
        end
    | VInt z => int_branch_g month_abbrev v z
    | VBool b => int_branch_g month_abbrev v (if b then 1 else 0)%Z
    | _ => GVal v
    end.

  (* MonthIntMiddleware.resolve_month_field_val (looks at str only; lower-cases BEFORE testing isdecimal) *)
  Definition resolve_int_g (v : value) : gres :=
    match v with
    | VStr s =>
        let lo := lowerU s in
        if mem_str lo month_abbrev then
          match index_of (firstn3 lo) month_abbrev with     (* _MONTH_ABBREV.index(v_lower[:3]) *)
          | Some i => GVal (VInt (Z.of_nat i + 1))
          | None => GRaise                                  (* ValueError from list.index *)
          end
        else match index_of lo lowercase_full_g with
             | Some i => GVal (VInt (Z.of_nat i + 1))
             | None =>
                 match as_int_g s with                      (* as_int is not None and 1 <= as_int <= 12 *)
                 | Some z => GVal (if in_range z then VInt z else v)
                 | None => GVal v
                 end
             end
    | _ => GVal v
    end.

  Definition resolve_g (k : mkind) : value -> gres :=
    match k with MInt => resolve_int_g | MAbbrev => resolve_abbrev_g | MLong => resolve_long_g end.
End MonthGen.

(* reading a generalised outcome as an outcome of the ASCII model *)
Definition to_mres (r : gres) : mres := match r with GVal v => MVal v | GRaise => MRaise end.
