(* model.py: Entry as a mapping of its fields, at the level of Field OBJECTS (identity).  Definitions only
   (proofs: Proofs/EntryObjProofs.v; statements: Properties/C19.v, the C19_obj_* theorems).

   Model/Entry.v sees an entry as a list of field VALUES.  That cannot say who else holds the same Field object.
   Here a store maps object ids to the content of Field objects (key, value, start line), an entry is its type, its
   key and the LIST OF OBJECT IDS in its field list, and several entries (and earlier results of get / pop /
   fields_dict) may hold the same ids.  The operations are transcribed as model.py performs them:

     set_field(f)       the list SLOT of the first field with f's key is overwritten with the object f, or f is appended;
                        the object that was in the slot is left as it is
     e[k] = v           set_field(Field(k, v)): a NEW object (fresh id) goes into the slot
     pop / del e[k]     self._fields = [f for f in self._fields if f.key != key]; the object itself is returned untouched
     get, in, e[k], items, fields_dict, fields     read only

   None of them assigns to an attribute of a Field object: the store only ever grows (theorem C19_obj_store_frame).
   Outside this model: two entries holding the same LIST object (Entry(t, k, e.fields) without list(...)) - there
   set_field on one is, in Python, visible in the other until the next pop rebinds the list. *)
From Coq Require Import List NArith ZArith Bool Arith.
From BP Require Import Base.Chars Model.Blocks Model.Entry.
Import ListNotations.

(* ------------------------------------------------------------------ the store of Field objects *)
Definition oid := nat.
(* a finite map id -> content, newest binding first; a later binding for the same id shadows the older one (only the
   writes at the end of this file - which are NOT part of the mapping interface - ever shadow) *)
Definition fstore := list (oid * field).

Fixpoint slookup (s : fstore) (i : oid) : option field :=
  match s with
  | [] => None
  | (j, f) :: r => if Nat.eqb j i then Some f else slookup r i
  end.
Definition sdom (s : fstore) : list oid := map fst s.
Definition sfresh (s : fstore) : oid := S (fold_right Nat.max 0 (sdom s)).
(* Field(key, value, start_line) *)
Definition salloc (s : fstore) (f : field) : fstore * oid := let i := sfresh s in ((i, f) :: s, i).

(* what the object shows; an id without object cannot occur in Python and reads as a fixed dummy *)
Definition dangling : field := mkfield [] VNone None.
Definition sget (s : fstore) (i : oid) : field := match slookup s i with Some f => f | None => dangling end.
Definition okeyof (s : fstore) (i : oid) : str := fkey (sget s i).

(* every object that existed in s is still there, with the same content, in s' *)
Definition store_extends (s s' : fstore) : Prop :=
  forall i, In i (sdom s) -> In i (sdom s') /\ slookup s' i = slookup s i.

(* ------------------------------------------------------------------ the entry: type, key, ids of self._fields in order *)
Record oent := mkoent { otyp : str; okey : str; oids : list oid }.
Definition with_ids (e : oent) (ids : list oid) : oent := mkoent (otyp e) (okey e) ids.

(* fields_dict:  {field.key: field for field in self._fields}   key -> OBJECT *)
Definition ofields_dict (s : fstore) (ids : list oid) : list (str * oid) :=
  fold_left (fun d i => dict_set d (okeyof s i) i) ids [].

Inductive ores :=
| ONone
| OObj (i : oid)             (* a Field object was returned *)
| OVal (v : value)
| OBool (b : bool)
| OKeyError
| OValueError.

(* set_field(field):  if field.key in self.fields_dict: i = [f.key for f in self._fields].index(field.key); self._fields[i] = field
                      else: self._fields.append(field) *)
Definition oset_field (s : fstore) (ids : list oid) (i : oid) : list oid * ores :=
  if dict_has (ofields_dict s ids) (okeyof s i) then
    match index_of (okeyof s i) (map (okeyof s) ids) with
    | Some n => (set_nth n i ids, ONone)
    | None => (ids, OValueError)
    end
  else (ids ++ [i], ONone).

Definition odflt (d : option value) : ores := match d with None => ONone | Some v => OVal v end.

(* pop:  try: field = self.fields_dict.pop(key)  except KeyError: return default
         self._fields = [f for f in self._fields if f.key != key]; return field *)
Definition opop (s : fstore) (ids : list oid) (k : str) (d : option value) : list oid * ores :=
  match dict_get (ofields_dict s ids) k with
  | None => (ids, odflt d)
  | Some i => (filter (fun j => negb (str_eqb (okeyof s j) k)) ids, OObj i)
  end.

Definition oget (s : fstore) (ids : list oid) (k : str) (d : option value) : ores :=
  match dict_get (ofields_dict s ids) k with Some i => OObj i | None => odflt d end.

Definition ocontains (s : fstore) (ids : list oid) (k : str) : bool := dict_has (ofields_dict s ids) k.

Definition ogetitem (s : fstore) (e : oent) (k : str) : ores :=
  if str_eqb k k_entrytype then OVal (VStr (otyp e))
  else if str_eqb k k_id then OVal (VStr (okey e))
  else match dict_get (ofields_dict s (oids e)) k with
       | Some i => OVal (fval (sget s i))
       | None => OKeyError
       end.

Definition oitems (s : fstore) (e : oent) : list (str * value) :=
  (k_entrytype, VStr (otyp e)) :: (k_id, VStr (okey e)) :: map (fun i => (okeyof s i, fval (sget s i))) (oids e).

(* the calls of the mapping interface *)
Inductive oop :=
| PSetObj (i : oid)                           (* e.set_field(f)   f an existing Field object (from another entry, from get ...) *)
| PSetNew (f : field)                         (* e.set_field(Field(k, v, line))   an object made for this call *)
| PSetItem (k : str) (v : value)              (* e[k] = v   ==  set_field(Field(k, v)) *)
| PPop (k : str) (d : option value)
| PDel (k : str)
| PGet (k : str) (d : option value)
| PIn (k : str)
| PGetItem (k : str).

Definition ostep (s : fstore) (e : oent) (o : oop) : fstore * oent * ores :=
  match o with
  | PSetObj i => let (ids, r) := oset_field s (oids e) i in (s, with_ids e ids, r)
  | PSetNew f => let (s1, i) := salloc s f in let (ids, r) := oset_field s1 (oids e) i in (s1, with_ids e ids, r)
  | PSetItem k v =>
      let (s1, i) := salloc s (mkfield k v None) in let (ids, r) := oset_field s1 (oids e) i in (s1, with_ids e ids, r)
  | PPop k d => let (ids, r) := opop s (oids e) k d in (s, with_ids e ids, r)
  | PDel k => let (ids, _) := opop s (oids e) k None in (s, with_ids e ids, ONone)
  | PGet k d => (s, e, oget s (oids e) k d)
  | PIn k => (s, e, OBool (ocontains s (oids e) k))
  | PGetItem k => (s, e, ogetitem s e k)
  end.

Fixpoint orun (ops : list oop) (s : fstore) (e : oent) : fstore * oent * list ores :=
  match ops with
  | [] => (s, e, [])
  | o :: r => let '(s1, e1, x) := ostep s e o in let '(s2, e2, xs) := orun r s1 e1 in (s2, e2, x :: xs)
  end.

(* ------------------------------------------------------------------ several entries over one store *)
Record world := mkworld { wstore : fstore; wents : list oent }.
(* (n, o): call o on entry number n *)
Definition wop := (nat * oop)%type.

Definition wstep (w : world) (c : wop) : world * ores :=
  match nth_error (wents w) (fst c) with
  | None => (w, ONone)                                   (* no such entry: not a program (excluded by wops_ok) *)
  | Some e => let '(s1, e1, r) := ostep (wstore w) e (snd c) in (mkworld s1 (set_nth (fst c) e1 (wents w)), r)
  end.

Fixpoint wrun (cs : list wop) (w : world) : world * list ores :=
  match cs with
  | [] => (w, [])
  | c :: r => let (w1, x) := wstep w c in let (w2, xs) := wrun r w1 in (w2, x :: xs)
  end.

(* the worlds after each call *)
Fixpoint wtrace (cs : list wop) (w : world) : list (ores * world) :=
  match cs with
  | [] => []
  | c :: r => let (w1, x) := wstep w c in (x, w1) :: wtrace r w1
  end.

(* ------------------------------------------------------------------ well-formed states and programs (no dangling ids) *)
Definition ent_ok (s : fstore) (e : oent) : Prop := forall i, In i (oids e) -> In i (sdom s).
Definition world_ok (w : world) : Prop := forall e, In e (wents w) -> ent_ok (wstore w) e.
Definition op_ok (s : fstore) (o : oop) : Prop := match o with PSetObj i => In i (sdom s) | _ => True end.

(* a program may only pass objects that exist at the time of the call (made before it or by an earlier call) *)
Fixpoint ops_ok (ops : list oop) (s : fstore) (e : oent) : Prop :=
  match ops with
  | [] => True
  | o :: r => op_ok s o /\ let '(s1, e1, _) := ostep s e o in ops_ok r s1 e1
  end.
Fixpoint wops_ok (cs : list wop) (w : world) : Prop :=
  match cs with
  | [] => True
  | c :: r => (fst c < List.length (wents w) /\ op_ok (wstore w) (snd c)) /\ wops_ok r (fst (wstep w c))
  end.

(* executable versions, for the runner *)
Definition mem_oid (i : oid) (l : list oid) : bool := existsb (Nat.eqb i) l.
Definition ent_okb (s : fstore) (e : oent) : bool := forallb (fun i => mem_oid i (sdom s)) (oids e).
Definition op_okb (s : fstore) (o : oop) : bool := match o with PSetObj i => mem_oid i (sdom s) | _ => true end.

(* ------------------------------------------------------------------ reading an object-level state as a value-level one *)
Definition abs_ids (s : fstore) (ids : list oid) : list field := map (sget s) ids.
Definition abs_ent (s : fstore) (e : oent) : ent := mkent (otyp e) (okey e) (abs_ids s (oids e)).
Definition abs_world (w : world) : list ent := map (abs_ent (wstore w)) (wents w).
Definition abs_res (s : fstore) (r : ores) : eres :=
  match r with
  | ONone => RNone
  | OObj i => RField (sget s i)
  | OVal v => RVal v
  | OBool b => RBool b
  | OKeyError => RKeyError
  | OValueError => RValueError
  end.
Definition abs_op (s : fstore) (o : oop) : eop :=
  match o with
  | PSetObj i => OSetField (sget s i)
  | PSetNew f => OSetField f
  | PSetItem k v => OSetItem k v
  | PPop k d => OPop k d
  | PDel k => ODel k
  | PGet k d => OGet k d
  | PIn k => OIn k
  | PGetItem k => OGetItem k
  end.
Definition abs_dict (s : fstore) (d : list (str * oid)) : list (str * field) :=
  map (fun ki => (fst ki, sget s (snd ki))) d.

(* everything entry e shows is the same under the stores s and s': its fields (content and objects), fields_dict (the
   same objects under the same keys, showing the same), items(), get, in, [] for every key and default *)
Definition shows_same (s s' : fstore) (e : oent) : Prop :=
  abs_ent s' e = abs_ent s e
  /\ ofields_dict s' (oids e) = ofields_dict s (oids e)
  /\ abs_dict s' (ofields_dict s' (oids e)) = abs_dict s (ofields_dict s (oids e))
  /\ oitems s' e = oitems s e
  /\ (forall k d, oget s' (oids e) k d = oget s (oids e) k d
                  /\ abs_res s' (oget s' (oids e) k d) = abs_res s (oget s (oids e) k d))
  /\ (forall k, ocontains s' (oids e) k = ocontains s (oids e) k)
  /\ (forall k, ogetitem s' e k = ogetitem s e k).

(* ------------------------------------------------------------------ NOT the mapping interface *)
(* the caller's own assignments to a Field object (Field.value / Field.key setters): a write into the store, seen by
   every holder of the object.  Used by the runner (programs may contain them) and to state what the theorems exclude. *)
Definition swrite (s : fstore) (i : oid) (f : field) : fstore := (i, f) :: s.
Definition field_set_value (s : fstore) (i : oid) (v : value) : fstore :=
  swrite s i (mkfield (fkey (sget s i)) v (fline (sget s i))).
Definition field_set_key (s : fstore) (i : oid) (k : str) : fstore :=
  swrite s i (mkfield k (fval (sget s i)) (fline (sget s i))).

(* the ALTERNATIVE item assignment (seeded change C19-d):  e[k] = v  on an existing key overwrites the value of the
   Field object in the slot (start line reset to None) instead of putting a new object into the slot *)
Definition ostep_inplace (s : fstore) (e : oent) (o : oop) : fstore * oent * ores :=
  match o with
  | PSetItem k v =>
      match index_of k (map (okeyof s) (oids e)) with
      | Some n => let i := nth n (oids e) 0 in (swrite s i (mkfield (okeyof s i) v None), e, ONone)
      | None => ostep s e o
      end
  | _ => ostep s e o
  end.
Definition wstep_inplace (w : world) (c : wop) : world * ores :=
  match nth_error (wents w) (fst c) with
  | None => (w, ONone)
  | Some e => let '(s1, e1, r) := ostep_inplace (wstore w) e (snd c) in (mkworld s1 (set_nth (fst c) e1 (wents w)), r)
  end.
Fixpoint wrun_inplace (cs : list wop) (w : world) : world * list ores :=
  match cs with
  | [] => (w, [])
  | c :: r => let (w1, x) := wstep_inplace w c in let (w2, xs) := wrun_inplace r w1 in (w2, x :: xs)
  end.

(* ------------------------------------------------------------------ several entries at the VALUE level *)
(* the reading of a multi-entry program in Model/Entry.v: each call touches the one entry it is made on, the entries
   are independent lists of field values *)
Definition vstep (es : list ent) (c : nat * eop) : list ent * eres :=
  match nth_error es (fst c) with
  | None => (es, RNone)
  | Some e => let (e1, r) := step e (snd c) in (set_nth (fst c) e1 es, r)
  end.
Fixpoint vrun (cs : list (nat * eop)) (es : list ent) : list ent * list eres :=
  match cs with
  | [] => (es, [])
  | c :: r => let (es1, x) := vstep es c in let (es2, xs) := vrun r es1 in (es2, x :: xs)
  end.
Definition abs_wop (s : fstore) (c : wop) : nat * eop := (fst c, abs_op s (snd c)).
(* a returned Field object is an object of the store *)
Definition res_ok (s : fstore) (r : ores) : Prop := match r with OObj i => In i (sdom s) | _ => True end.
