(* middlewares/names.py: split_multiple_persons_names, parse_single_name_into_parts, NameParts.merge_*,
   and transform_entry of the four name middlewares.  Definitions only (proofs: Proofs/Names*.v).

   Conventions.  Python iterates the text with an explicit iterator and `next()` for the character after a
   backslash; here both loops are `fold_left` over the characters with a flag "the previous character was an
   unconsumed backslash".  Text is carried as reversed accumulators (newest character first), never as positions:
   spans[-1] = [start, possible_end] of the splitter is the pair (cur, pend):
       cur  = names[start : possible_end]      pend = names[possible_end : pos-1]
   while a separator candidate is being matched, and cur = names[start : pos-1], pend = "" otherwise. *)
From Coq Require Import List NArith ZArith Bool.
From BP Require Import Base.Chars Model.Blocks Gen.Constants.
Import ListNotations.

Definition in_set (c : ch) (s : str) : bool := existsb (N.eqb c) s.
Definition ws_split (c : ch) : bool := in_set c names_ws_split.     (* set(" \r\n\t") in split_multiple_persons_names *)
Definition ws_parse (c : ch) : bool := in_set c names_ws_parse.     (* set(" ~\r\n\t") in parse_single_name_into_parts *)

Definition is_aA (c : ch) : bool := ceq c (asc 97) || ceq c (asc 65).
Definition is_nN (c : ch) : bool := ceq c (asc 110) || ceq c (asc 78).
Definition is_dD (c : ch) : bool := ceq c (asc 100) || ceq c (asc 68).

(* ------------------------------------------------------------------------------------------------------------
   split_multiple_persons_names *)

Inductive sstep := SStart | SFindA | SFindN | SFindD | SEndWs | SNextWord.

Record sst := mksst {
  s_step : sstep;
  s_depth : N;                (* bracelevel *)
  s_esc : bool;               (* the previous character was a backslash whose partner is still to be consumed *)
  s_cur : str;                (* reversed: current name up to possible_end *)
  s_pend : str;               (* reversed: text from possible_end on (a separator candidate) *)
  s_pieces : list str;        (* reversed: finished names *)
  s_seps : list str           (* reversed: the text between finished names (ghost: not returned by the Python code) *)
}.

Definition sst0 : sst := mksst SStart 0 false [] [] [] [].

(* the character joins the current name together with everything pending; step := START_WHITESPACE *)
Definition s_flush (st : sst) (c : ch) (depth : N) (esc : bool) : sst :=
  mksst SStart depth esc (c :: s_pend st ++ s_cur st) [] (s_pieces st) (s_seps st).
(* spans[-1].append(possible_end); spans.append([pos - 1]) *)
Definition s_cut (st : sst) (c : ch) (depth : N) (esc : bool) : sst :=
  mksst SStart depth esc [c] [] (rev (s_cur st) :: s_pieces st) (rev (s_pend st) :: s_seps st).
(* the character extends the separator candidate *)
Definition s_more (st : sst) (c : ch) (step : sstep) : sst :=
  mksst step (s_depth st) false (s_cur st) (c :: s_pend st) (s_pieces st) (s_seps st).
(* possible_end = pos - 1: the candidate so far belongs to the name, a new candidate starts at this character *)
Definition s_restart (st : sst) (c : ch) : sst :=
  mksst SFindA (s_depth st) false (s_pend st ++ s_cur st) [c] (s_pieces st) (s_seps st).

Definition is_next (s : sstep) : bool := match s with SNextWord => true | _ => false end.

Definition split_step (st : sst) (c : ch) : sst :=
  if s_esc st then                                   (* next(namesiter): consumed without being looked at *)
    mksst (s_step st) (s_depth st) false (c :: s_cur st) (s_pend st) (s_pieces st) (s_seps st)
  else if ceq c c_bs then
    if is_next (s_step st) then s_cut st c (s_depth st) true else s_flush st c (s_depth st) true
  else if ceq c c_lb then
    if is_next (s_step st) then s_cut st c (s_depth st + 1) false else s_flush st c (s_depth st + 1) false
  else if ceq c c_rb then
    s_flush st c (N.pred (s_depth st)) false        (* if bracelevel: bracelevel -= 1 *)
  else if negb (s_depth st =? 0)%N then
    s_flush st c (s_depth st) false
  else
    match s_step st with
    | SStart => if ws_split c then s_restart st c else s_flush st c 0%N false
    | SFindA => if is_aA c then s_more st c SFindN
                else if ws_split c then s_more st c SFindA
                else s_flush st c 0%N false
    | SFindN => if is_nN c then s_more st c SFindD
                else if ws_split c then s_restart st c
                else s_flush st c 0%N false
    | SFindD => if is_dD c then s_more st c SEndWs
                else if ws_split c then s_restart st c
                else s_flush st c 0%N false
    | SEndWs => if ws_split c then s_more st c SNextWord else s_flush st c 0%N false
    | SNextWord => if ws_split c then s_more st c SNextWord else s_cut st c 0%N false
    end.

Definition strip4 (s : str) : str := strip_set ws_split s.          (* names.strip(" \r\n\t") *)

Definition split_run (s : str) : sst := fold_left split_step s sst0.

(* the names and (ghost) the separators between them *)
Definition split_result (st : sst) : list str * list str :=
  (rev (rev (s_pend st ++ s_cur st) :: s_pieces st), rev (s_seps st)).

Definition split_names_seps (s : str) : list str * list str :=
  match strip4 s with
  | [] => ([], [])
  | t => split_result (split_run t)
  end.
Definition split_names (s : str) : list str := fst (split_names_seps s).

Definition and_sep : str := [c_sp; asc 97; asc 110; asc 100; c_sp].      (* " and " *)
Definition merge_names (l : list str) : str := join and_sep l.

(* ------------------------------------------------------------------------------------------------------------
   parse_single_name_into_parts *)

Inductive nerr := NUnmatched | NTooMany | NUnterminated | NTrailing.

Record pst := mkpst {
  p_secs : list (list str);      (* sections, reversed; each section reversed: head = sections[-1] *)
  p_cases : list (list Z);       (* cases, same shape: 1 upper, 0 lower, -1 caseless *)
  p_word : str;                  (* reversed current word *)
  p_case : Z;
  p_level : N;
  p_bracestart : bool;
  p_controlseq : bool;
  p_specialchar : bool;          (* None and False are not distinguished by the code (only truth-tested) *)
  p_esc : bool                   (* previous character was a backslash; `next(nameiter)` is this character *)
}.

Definition pst0 : pst := mkpst [[]] [[]] [] (-1) 0 false true false false.

Definition upd_case (case : Z) (c : ch) : Z :=
  if (case =? -1)%Z && isalpha c then (if isupper c then 1%Z else 0%Z) else case.

Definition push_last {T} (x : T) (l : list (list T)) : list (list T) :=
  match l with cur :: r => (x :: cur) :: r | [] => [[x]] end.

Inductive pres (T : Type) := POk (x : T) | PErr (e : nerr).
Arguments POk {T} x.
Arguments PErr {T} e.

(* the body of the loop for `char` when it is not the first half of an escape *)
Definition parse_norm (strict : bool) (st : pst) (c : ch) : pres pst :=
  if ceq c c_lb then
    POk (mkpst (p_secs st) (p_cases st) (c :: p_word st) (p_case st) (p_level st + 1) true false false false)
  else if ceq c c_rb then
    if negb (p_level st =? 0)%N then
      POk (mkpst (p_secs st) (p_cases st) (c :: p_word st) (p_case st) (N.pred (p_level st)) false false false false)
    else if strict then PErr NUnmatched
    else POk (mkpst (p_secs st) (p_cases st) (c :: p_word st ++ [c_lb]) (p_case st) 0 false false false false)
  else if negb (p_level st =? 0)%N then
    let controlseq' := if p_controlseq st then isalpha c else false in
    let case' := if p_controlseq st then p_case st
                 else if p_specialchar st then upd_case (p_case st) c else p_case st in
    POk (mkpst (p_secs st) (p_cases st) (c :: p_word st) case' (p_level st) false controlseq' (p_specialchar st) false)
  else if ceq c c_comma || ws_parse c then
    let st1 :=
      match p_word st with
      | [] => mkpst (p_secs st) (p_cases st) [] (p_case st) 0 false (p_controlseq st) (p_specialchar st) false
      | _ => mkpst (push_last (rev (p_word st)) (p_secs st)) (push_last (p_case st) (p_cases st)) [] (-1) 0 false false false false
      end in
    if ceq c c_comma then
      if (length (p_secs st1) <? 3)%nat then
        POk (mkpst ([] :: p_secs st1) ([] :: p_cases st1) [] (p_case st1) 0 false (p_controlseq st1) (p_specialchar st1) false)
      else if strict then PErr NTooMany
      else POk st1
    else POk st1
  else
    POk (mkpst (p_secs st) (p_cases st) (c :: p_word st) (upd_case (p_case st) c) 0 false
               (p_controlseq st) (p_specialchar st) false).

(* `escaped = next(nameiter)` succeeded with c *)
Definition parse_esc (strict : bool) (st : pst) (c : ch) : pres pst :=
  if ws_parse c then
    parse_norm strict (mkpst (p_secs st) (p_cases st) (c_bs :: p_word st) (p_case st) (p_level st) (p_bracestart st)
                             (p_controlseq st) (p_specialchar st) false) c
  else if p_bracestart st then
    POk (mkpst (p_secs st) (p_cases st) (c :: c_bs :: p_word st) (p_case st) (p_level st) false (isalpha c) true false)
  else
    POk (mkpst (p_secs st) (p_cases st) (c :: c_bs :: p_word st) (upd_case (p_case st) c) (p_level st) false
               (p_controlseq st) (p_specialchar st) false).

Definition set_esc (st : pst) (b : bool) : pst :=
  mkpst (p_secs st) (p_cases st) (p_word st) (p_case st) (p_level st) (p_bracestart st) (p_controlseq st)
        (p_specialchar st) b.

Definition parse_step (strict : bool) (acc : pres pst) (c : ch) : pres pst :=
  match acc with
  | PErr e => PErr e
  | POk st =>
      if p_esc st then parse_esc strict (set_esc st false) c
      else if ceq c c_bs then POk (set_esc st true)
      else parse_norm strict st c
  end.

(* Python's l[a:b] for a list, with None / negative bounds *)
Definition py_bound (n : Z) (dflt : Z) (i : option Z) : Z :=
  match i with
  | None => dflt
  | Some i => let j := if (i <? 0)%Z then (i + n)%Z else i in Z.max 0 (Z.min n j)
  end.
Definition pyslice {T} (l : list T) (a b : option Z) : list T :=
  let n := Z.of_nat (length l) in
  let lo := py_bound n 0%Z a in
  let hi := py_bound n n b in
  firstn (Z.to_nat (hi - lo)) (skipn (Z.to_nat lo) l).

Definition has0 (l : list Z) : bool := existsb (Z.eqb 0) l.              (* 0 in l *)
Fixpoint index0 (l : list Z) : Z :=                                      (* l.index(0), when 0 in l *)
  match l with [] => 0%Z | x :: r => if (x =? 0)%Z then 0%Z else (1 + index0 r)%Z end.
(* rindex(k, 0, default) *)
Definition rindex0 (k : list Z) (default : Z) : Z :=
  if has0 k then (Z.of_nat (length k) - 1 - index0 (rev k))%Z else default.

Record parts := mkparts { n_first : list str; n_von : list str; n_last : list str; n_jr : list str }.
Definition parts0 : parts := mkparts [] [] [] [].

Definition truthy_first (sec : list str) : bool :=                       (* `first and first[0]` *)
  match sec with [] => false | w :: _ => negb (match w with [] => true | _ => false end) end.

Definition partition (sections : list (list str)) (cases : list (list Z)) : parts :=
  match sections with
  | [p0] =>                                                              (* Form 1: First von Last *)
      match p0 with
      | [_] => mkparts [] [] p0 []
      | [_; _] => mkparts (pyslice p0 None (Some 1%Z)) [] (pyslice p0 (Some 1%Z) None) []
      | _ =>
          let cs := nth 0 cases [] in
          if has0 cs then
            let firstl := (index0 cs - Z.of_nat (length cs))%Z in
            let lastl := if has0 (pyslice cs None (Some (-1)%Z))
                         then (- index0 (rev (pyslice cs None (Some (-1)%Z))) - 2)%Z      (* cases[-2::-1].index(0) *)
                         else (-2)%Z in
            mkparts (pyslice p0 None (Some firstl)) (pyslice p0 (Some firstl) (Some (lastl + 1)%Z))
                    (pyslice p0 (Some (lastl + 1)%Z) None) []
          else mkparts (pyslice p0 None (Some (-1)%Z)) [] (pyslice p0 (Some (-1)%Z) None) []
      end
  | _ =>                                                                 (* Form 2 / 3 *)
      let first := last sections [] in
      let p_first := if truthy_first first then first else [] in
      let jr := nth (length sections - 2) sections [] in
      let p_jr := if (length sections =? 3)%nat && truthy_first jr then jr else [] in
      let s0 := nth 0 sections [] in
      match s0 with
      | [_] => mkparts p_first [] s0 p_jr
      | _ =>
          let lcases := nth 0 cases [] in
          if has0 lcases then
            let split := (rindex0 (pyslice lcases None (Some (-1)%Z)) (-1) + 1)%Z in
            mkparts p_first (pyslice s0 None (Some split)) (pyslice s0 (Some split) None) p_jr
          else mkparts p_first [] s0 p_jr
      end
  end.

Fixpoint repeat_ch (c : ch) (n : nat) : str := match n with O => [] | S k => c :: repeat_ch c k end.

(* everything after the loop, up to the partition: the word lists per section and their cases *)
Definition parse_sections (strict : bool) (s : str) : pres (list (list str) * list (list Z)) :=
  match fold_left (parse_step strict) s (POk pst0) with
  | PErr e => PErr e
  | POk st =>
      (* a backslash at the end of the text is a regular character *)
      match (if p_esc st then parse_norm strict (set_esc st false) c_bs else POk st) with
      | PErr e => PErr e
      | POk st =>
          if negb (p_level st =? 0)%N && strict then PErr NUnterminated
          else
            let word := repeat_ch c_rb (N.to_nat (p_level st)) ++ p_word st in
            let secs := match word with [] => p_secs st | _ => push_last (rev word) (p_secs st) end in
            let cases := match word with [] => p_cases st | _ => push_last (p_case st) (p_cases st) end in
            match secs, cases with
            | [] :: rs, _ :: rc =>
                if (1 <? length secs)%nat && strict then PErr NTrailing
                else POk (rev (map (@rev str) rs), rev (map (@rev Z) rc))
            | _, _ => POk (rev (map (@rev str) secs), rev (map (@rev Z) cases))
            end
      end
  end.

Definition parse_name (strict : bool) (s : str) : pres parts :=
  match parse_sections strict s with
  | PErr e => PErr e
  | POk (sections, cases) =>
      if forallb (fun sec => match sec with [] => true | _ => false end) sections     (* covers `not sections` *)
      then POk parts0
      else POk (partition sections cases)
  end.

(* ------------------------------------------------------------------------------------------------------------
   NameParts.merge_last_name_first / merge_first_name_first *)

Definition sp1 : str := [c_sp].
Definition comma_sp : str := [c_comma; c_sp].

Definition join_opt (l : list str) : option str := match l with [] => None | _ => Some (join sp1 l) end.
Definition truthy_opt (o : option str) : bool := match o with Some (_ :: _) => true | _ => false end.
Definition opt_str (o : option str) : str := match o with Some s => s | None => [] end.

Definition rstrip_bs (s : str) : str := rev (lstrip_set (ceq c_bs) (rev s)).
Definition escape_last_slash (s : str) : str :=
  if Nat.even (length s - length (rstrip_bs s)) then s else s ++ [c_bs].

Definition merge_last_first (p : parts) : str :=
  let first := join_opt (n_first p) in
  let von := join_opt (n_von p) in
  let last := join_opt (n_last p) in
  let jr := join_opt (n_jr p) in
  let von_last := join sp1 (map opt_str (filter truthy_opt [von; last])) in
  join comma_sp (map (fun o => escape_last_slash (opt_str o)) (filter truthy_opt [Some von_last; jr; first])).

Definition not_none (o : option str) : bool := match o with Some _ => true | None => false end.
Definition merge_first_first (p : parts) : str :=
  join sp1 (map opt_str (filter not_none [join_opt (n_first p); join_opt (n_von p); join_opt (n_last p); join_opt (n_jr p)])).

(* ------------------------------------------------------------------------------------------------------------
   the four middlewares *)

Inductive nmw := MwSeparate | MwMergeCo | MwSplitParts | MwMergeParts (style : N).   (* style 0 "last", 1 "first", else other *)

Definition v_of_parts (p : parts) : value := VParts (n_first p) (n_von p) (n_last p) (n_jr p).

(* exception codes as in harness/implutil.py: 1 ValueError, 2 TypeError, 4 AttributeError *)
Inductive vres := VOk (v : value) | VRaise (code : Z) | VInvalid (e : nerr) | VSkip.

Fixpoint all_strs (l : list value) : option (list str) :=
  match l with
  | [] => Some []
  | VStr s :: r => match all_strs r with Some r' => Some (s :: r') | None => None end
  | _ :: _ => None
  end.

(* [parse_single_name_into_parts(n) for n in name] *)
Fixpoint parse_all (l : list value) : vres :=
  match l with
  | [] => VOk (VList [])
  | VStr s :: r =>
      match parse_name true s with
      | PErr e => VInvalid e
      | POk p => match parse_all r with
                 | VOk (VList ps) => VOk (VList (v_of_parts p :: ps))
                 | other => other
                 end
      end
  | VInt _ :: _ | VNone :: _ => VRaise 2         (* iter(n): 'int' object is not iterable *)
  | _ :: _ => VSkip                              (* other element types: outside the model *)
  end.

Fixpoint merge_all (style : N) (l : list value) : vres :=
  match l with
  | [] => VOk (VList [])
  | VParts a b c d :: r =>
      match merge_all style r with
      | VOk (VList ms) =>
          VOk (VList (VStr ((if (style =? 0)%N then merge_last_first else merge_first_first) (mkparts a b c d)) :: ms))
      | other => other
      end
  | _ :: _ => VRaise 4                           (* no attribute merge_last_name_first *)
  end.
(* the list comprehension stops at the first element without the attribute: elements before it are NameParts *)
Fixpoint merge_all_chk (l : list value) : bool :=
  match l with [] => true | VParts _ _ _ _ :: r => merge_all_chk r | _ => false end.

Definition transform_value (mw : nmw) (v : value) : vres :=
  match mw with
  | MwSeparate =>
      match v with
      | VStr s => VOk (VList (map VStr (split_names s)))
      | _ => VRaise 4                            (* names.strip: AttributeError *)
      end
  | MwMergeCo =>
      match v with
      | VList l => match all_strs l with
                   | Some ss => VOk (VStr (merge_names ss))
                   | None => VRaise 2            (* str.join: TypeError *)
                   end
      | _ => VOk v
      end
  | MwSplitParts =>
      match v with
      | VList l => parse_all l
      | _ => VRaise 1                            (* ValueError("Expected a list of strings ...") *)
      end
  | MwMergeParts style =>
      match v with
      | VList l =>
          if (2 <=? style)%N then VRaise 1       (* ValueError: expected "first" or "last" style *)
          else if merge_all_chk l then merge_all style l else VRaise 4
      | VStr [] => VRaise 1                      (* not a list, all(()) is True: ValueError *)
      | VStr _ => if (2 <=? style)%N then VRaise 1 else VRaise 4    (* iterates the characters: str has no merge_* attribute *)
      | VInt _ | VNone | VBool _ => VRaise 2     (* all(... for n in name): not iterable *)
      | _ => VSkip
      end
  end.

(* the for loop of transform_entry: fields before a failing one are already replaced (in place) *)
Inductive fres := FOk (fs : list field) | FRaise (code : Z) | FInvalid (fs : list field) | FSkip.

Fixpoint transform_fields (nf : list str) (mw : nmw) (fs : list field) : fres :=
  match fs with
  | [] => FOk []
  | f :: r =>
      if mem_str (fkey f) nf then
        match transform_value mw (fval f) with
        | VOk v' => match transform_fields nf mw r with
                    | FOk r' => FOk (mkfield (fkey f) v' (fline f) :: r')
                    | FInvalid r' => FInvalid (mkfield (fkey f) v' (fline f) :: r')
                    | other => other
                    end
        | VRaise code => FRaise code
        | VInvalid _ => FInvalid (f :: r)
        | VSkip => FSkip
        end
      else
        match transform_fields nf mw r with
        | FOk r' => FOk (f :: r')
        | FInvalid r' => FInvalid (f :: r')
        | other => other
        end
  end.

Inductive nbres := NBVal (b : block) | NBRaise (code : Z) | NBSkip.

(* BlockMiddleware.transform_block + _NameTransformerMiddleware.transform_entry *)
Definition name_entry (nf : list str) (mw : nmw) (b : block) : nbres :=
  match b with
  | BEntry h t key fs =>
      match transform_fields nf mw fs with
      | FOk fs' => NBVal (BEntry h t key fs')
      | FInvalid fs' => NBVal (BMwErr (mkhdr (sl h) (raw h) []) EInvalidName (BEntry h t key fs'))
      | FRaise code => NBRaise code
      | FSkip => NBSkip
      end
  | _ => NBVal b
  end.

Definition name_stack (nf : list str) (mws : list nmw) (b : block) : nbres :=
  fold_left (fun acc mw => match acc with NBVal x => name_entry nf mw x | o => o end) mws (NBVal b).
