(* middlewares/month.py: the three month middlewares over the table read from the running module
   (Gen/Constants.v: month_abbrev, month_full).  Definitions only. *)
From Coq Require Import List NArith ZArith Bool String.
From BP Require Import Base.Chars Model.Blocks Gen.Constants.
Import ListNotations.

Inductive mkind := MInt | MAbbrev | MLong.

Definition lowercase_full : list str := map lower month_full.

(* str.isdecimal(): non-empty, every character decimal *)
Definition str_isdecimal (s : str) : bool :=
  match s with [] => false | _ => forallb isdecimal s end.

Definition nth_str (l : list str) (i : Z) : str := nth (Z.to_nat i) l [].

Definition firstn3 (s : str) : str := firstn 3 s.

(* dict lookup  _MONTH_ABBREV_TO_FULL[k] *)
Definition abbrev_to_full (k : str) : option str :=
  match index_of k month_abbrev with Some i => Some (nth i month_full []) | None => None end.

(* the integer a decimal string denotes; None = outside the model's py_int instance (non-ASCII decimals) *)
Definition int_of_decimal (s : str) : option Z :=
  match py_int s with Some n => Some (Z.of_N n) | None => None end.

Definition in_range (z : Z) : bool := (1 <=? z)%Z && (z <=? 12)%Z.

(* outcome of resolve_month_field_val: a value, an exception, or "outside the executable oracle instances" *)
Inductive mres := MVal (v : value) | MRaise | MSkip.

(* MonthLongStringMiddleware.resolve_month_field_val; MSkip = oracle domain exceeded.
   `isinstance(v, int)` also holds for bool: the long / abbreviation middlewares read True as 1 and False as 0
   (out of range: unchanged); the int middleware only looks at str, so it returns a bool as it is.
   A decimal string that int() refuses (more digits than sys.get_int_max_str_digits() after dropping leading zeros)
   stays a string and is returned unchanged; py_int reads it as a number far out of range: unchanged as well. *)
Definition resolve_long (v : value) : mres :=
  let as_int := match v with
                | VInt z => Some (Some z)
                | VBool b => Some (Some (if b then 1 else 0)%Z)      (* isinstance(True, int) holds *)
                | VStr s => if str_isdecimal s then match int_of_decimal s with Some z => Some (Some z) | None => None end
                            else Some None
                | _ => Some None
                end in
  match as_int with
  | None => MSkip
  | Some (Some z) => MVal (if in_range z then VStr (nth_str month_full (z - 1)) else v)
  | Some None =>
      match v with
      | VStr s =>
          let lo := lower s in
          match abbrev_to_full lo with
          | Some full => MVal (VStr full)
          | None =>
              if mem_str lo lowercase_full then
                match abbrev_to_full (firstn3 lo) with
                | Some dflt => MVal (if str_eqb s dflt then v else VStr dflt)
                | None => MRaise                         (* KeyError *)
                end
              else MVal v
          end
      | _ => MVal v
      end
  end.

Definition resolve_abbrev (v : value) : mres :=
  let as_int := match v with
                | VInt z => Some (Some z)
                | VBool b => Some (Some (if b then 1 else 0)%Z)      (* isinstance(True, int) holds *)
                | VStr s => if str_isdecimal s then match int_of_decimal s with Some z => Some (Some z) | None => None end
                            else Some None
                | _ => Some None
                end in
  match as_int with
  | None => MSkip
  | Some (Some z) => MVal (if in_range z then VStr (nth_str month_abbrev (z - 1)) else v)
  | Some None =>
      match v with
      | VStr s =>
          let lo := lower s in
          if mem_str lo lowercase_full then MVal (VStr (firstn3 lo))
          else if mem_str lo month_abbrev && negb (str_eqb lo s) then MVal (VStr lo)
          else MVal v
      | _ => MVal v
      end
  end.

Definition resolve_int (v : value) : mres :=
  match v with
  | VStr s =>
      let lo := lower s in
      if mem_str lo month_abbrev then
        match index_of (firstn3 lo) month_abbrev with
        | Some i => MVal (VInt (Z.of_nat i + 1))
        | None => MRaise                                 (* ValueError from list.index *)
        end
      else match index_of lo lowercase_full with
           | Some i => MVal (VInt (Z.of_nat i + 1))
           | None =>
               if str_isdecimal s then
                 match int_of_decimal s with
                 | Some z => MVal (if in_range z then VInt z else v)
                 | None => MSkip
                 end
               else MVal v
           end
  | _ => MVal v
  end.

Definition resolve (k : mkind) : value -> mres :=
  match k with MInt => resolve_int | MAbbrev => resolve_abbrev | MLong => resolve_long end.

Definition month_key : str := lit "month".
Definition meta_key (k : mkind) : str :=
  match k with
  | MInt => lit "MonthIntMiddleware" | MAbbrev => lit "MonthAbbreviationMiddleware" | MLong => lit "MonthLongStringMiddleware"
  end.

(* fields_dict["month"] is the LAST field with that key; its value is overwritten in place *)
Fixpoint has_key (k : str) (fs : list field) : bool :=
  match fs with [] => false | f :: r => str_eqb (fkey f) k || has_key k r end.
Fixpoint last_value (k : str) (fs : list field) : option value :=
  match fs with
  | [] => None
  | f :: r => match last_value k r with
              | Some v => Some v
              | None => if str_eqb (fkey f) k then Some (fval f) else None
              end
  end.
Fixpoint set_last (k : str) (v : value) (fs : list field) : list field :=
  match fs with
  | [] => []
  | f :: r => if has_key k r then f :: set_last k v r
              else if str_eqb (fkey f) k then mkfield (fkey f) v (fline f) :: r else f :: r
  end.

(* _MonthInterpolator.transform_entry on an entry; other blocks are returned as they are *)
Inductive bres := BVal (b : block) | BRaise | BSkip.
Definition month_entry (k : mkind) (b : block) : bres :=
  match b with
  | BEntry h t key fs =>
      match last_value month_key fs with
      | None => BVal b
      | Some v => match resolve k v with
                  | MVal v' => BVal (BEntry (set_meta h (meta_key k) (VBool true)) t key (set_last month_key v' fs))
                  | MRaise => BRaise
                  | MSkip => BSkip
                  end
      end
  | _ => BVal b
  end.
