(* middlewares/latex_encoding.py, LatexEncodingMiddleware.__init__: the ENCODER RULES the repository configures -
       keep_math     -> RULE_REGEX  "not after a backslash: DOLLAR anything-but-newline... one-non-backslash DOLLAR", replacement: the match
       enclose_urls  -> RULE_REGEX  "http, optional s, ://, nonblanks, DOT, nonblanks",  replacement: the match inside \url{ }
                                    "www, any character but newline, nonblanks, DOT, nonblanks", same replacement
       then "defaults"
   (the pattern texts themselves are in the source; they cannot be quoted inside a Coq comment) and the loop of pylatexenc's
   UnicodeToLatexEncoder.unicode_to_latex that applies them: at every position the rules are tried in that order (regex.match
   at the position, first match wins, the position advances by the length of the match); where no rule matches the default
   conversion of that ONE character applies.

   What is modelled here: the three patterns (with their greedy / backtracking semantics written out), the order of the
   rules, the replacement texts, the advance.  What is an oracle: [enc_char c], the default conversion of one character
   (pylatexenc's table and its brace protection; the identity on characters it has no rule for), observed on the running
   pylatexenc by the harness; and Unicode's NFC normalisation, which unicode_to_latex applies first (the harness gives the
   model the normalised text).  The brace protection that pylatexenc applies to every replacement (a replacement ending in
   a named macro is wrapped in braces) never applies to the two regex rules: their replacements end in a dollar and a brace.
   Definitions only (proofs: Proofs/LatexRulesProofs.v). *)
From Coq Require Import List NArith Bool Arith.
From BP Require Import Base.Chars.
Import ListNotations.

Definition c_dollar : ch := asc 36.
Definition c_dot : ch := asc 46.
Definition c_colon : ch := asc 58.
Definition c_slash : ch := asc 47.
Definition c_h : ch := asc 104.
Definition c_t : ch := asc 116.
Definition c_p : ch := asc 112.
Definition c_s : ch := asc 115.
Definition c_w : ch := asc 119.
Definition c_u : ch := asc 117.
Definition c_r : ch := asc 114.
Definition c_l : ch := asc 108.

(* ---- the keep-math pattern at the head of the text.  [t] is the text after the opening dollar.  The dot-star is greedy and does
   not pass a newline; the one-non-backslash class is any character but a backslash (a newline too); the engine backtracks to the LAST k such that
   t[0..k) has no newline, t[k] is not a backslash and t[k+1] is a dollar.  [math_k t 0 None] is that k. *)
Fixpoint math_k (t : str) (i : nat) (best : option nat) : option nat :=
  match t with
  | a :: ((b :: _) as t') =>
      let best' := if negb (ceq a c_bs) && ceq b c_dollar then Some i else best in
      if ceq a c_nl then best' else math_k t' (S i) best'
  | _ => best
  end.

(* the matched text (opening dollar included), if the rule matches at the head of s; prev_bs: the character before is `\` *)
Definition math_match (prev_bs : bool) (s : str) : option str :=
  match s with
  | c :: t =>
      if ceq c c_dollar && negb prev_bs then
        match math_k t 0 None with
        | Some k => Some (c :: firstn (k + 2) t)
        | None => None
        end
      else None
  | [] => None
  end.

(* ---- nonblanks DOT nonblanks at the head of t: the maximal run of non-whitespace, provided it contains a dot *)
Fixpoint nonspace_run (t : str) : str :=
  match t with
  | c :: r => if isspace c then [] else c :: nonspace_run r
  | [] => []
  end.
Definition has_dot (r : str) : bool := existsb (fun c => ceq c c_dot) r.
Definition dotted_run (t : str) : option str :=
  let r := nonspace_run t in if has_dot r then Some r else None.

(* the http(s) pattern, then the www pattern, in this order *)
Definition url_match (s : str) : option str :=
  let http := [c_h; c_t; c_t; c_p] in
  let sep := [c_colon; c_slash; c_slash] in
  let try_http :=
    if starts_with (http ++ c_s :: sep) s then
      match dotted_run (skipn 8 s) with Some r => Some (firstn 8 s ++ r) | None => None end
    else if starts_with (http ++ sep) s then
      match dotted_run (skipn 7 s) with Some r => Some (firstn 7 s ++ r) | None => None end
    else None in
  match try_http with
  | Some m => Some m
  | None =>
      match s with
      | a :: b :: c :: d :: t =>
          if ceq a c_w && ceq b c_w && ceq c c_w && negb (ceq d c_nl) then
            match dotted_run t with Some r => Some (a :: b :: c :: d :: r) | None => None end
          else None
      | _ => None
      end
  end.

Definition url_open : str := [c_bs; c_u; c_r; c_l; c_lb].      (* \url{ *)

Section Encoder.
  Variable enc_char : ch -> str.

  (* unicode_to_latex with the configured rules.  skip: characters of the current match still to be passed over;
     prev_bs: the previous character of the SOURCE text is a backslash (the look-behind reads the source) *)
  Fixpoint enc_go (keep_math enclose_urls : bool) (prev_bs : bool) (skip : nat) (s : str) : str :=
    match s with
    | [] => []
    | c :: r =>
        match skip with
        | S k => enc_go keep_math enclose_urls (ceq c c_bs) k r
        | O =>
            match (if keep_math then math_match prev_bs s else None) with
            | Some m => m ++ enc_go keep_math enclose_urls (ceq c c_bs) (length m - 1) r
            | None =>
                match (if enclose_urls then url_match s else None) with
                | Some m => url_open ++ m ++ [c_rb] ++ enc_go keep_math enclose_urls (ceq c c_bs) (length m - 1) r
                | None => enc_char c ++ enc_go keep_math enclose_urls (ceq c c_bs) 0 r
                end
            end
        end
    end.

  Definition encode (keep_math enclose_urls : bool) (s : str) : str := enc_go keep_math enclose_urls false 0 s.
End Encoder.

(* ---- the constructors' option logic (LatexEncodingMiddleware.__init__ / LatexDecodingMiddleware.__init__):
   a custom converter excludes the two switches (ValueError); a switch left at None takes its default.
   [None] = not given.  Result: None = ValueError, Some (custom?, a, b) = the configuration in effect. *)
Definition resolve_options (custom : bool) (a b : option bool) (da db : bool) : option (bool * bool * bool) :=
  if custom && (match a with Some _ => true | None => false end || match b with Some _ => true | None => false end)
  then None
  else Some (custom, match a with Some x => x | None => da end, match b with Some x => x | None => db end).
(* encoder: keep_math, enclose_urls default True; decoder: keep_braced_groups default False, keep_math_mode default True *)
Definition encoder_options (custom : bool) (keep_math enclose_urls : option bool) := resolve_options custom keep_math enclose_urls true true.
Definition decoder_options (custom : bool) (keep_braced_groups keep_math_mode : option bool) :=
  resolve_options custom keep_braced_groups keep_math_mode false true.
