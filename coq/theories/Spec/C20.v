(* C20: what "apply exactly the requested stack, in order" and "replace the block in place" say, written independently
   of the loops of entrypoint.py / middleware.py.  Only the types are shared with the model. *)
From Coq Require Import String List NArith ZArith Bool.
From BP Require Import Base.Chars Model.Blocks Model.Writer Model.Stack.
Import ListNotations.

Section Order.
  Variable M : Type.
  Variable apply : M -> lib -> res lib.
  (* the middlewares of a stack applied left to right, each to the result of the one before; the first exception ends it *)
  Fixpoint in_order (ms : list M) (l : lib) : res lib :=
    match ms with
    | [] => Val l
    | m :: rest => match apply m l with Val l' => in_order rest l' | Raise e => Raise e | Skip => Skip end
    end.
End Order.

(* what a per-block result stands for: zero (None or an empty collection), one or several blocks *)
Inductive legal : rres -> list block -> Prop :=
| Lg_none : legal RNone []
| Lg_block b : legal (RBlock b) [b]
| Lg_coll bs : legal (RColl (map IBlock bs)) bs.
(* any non-block result: neither None, nor a block, nor a collection - or a collection with a non-block item *)
Definition illegal (r : rres) : Prop := r = ROther \/ exists l, r = RColl l /\ In INonBlock l.

(* Library(blocks): key safety.  Every block stays at its position; an entry / @string whose key was seen before on a
   block of the same kind is wrapped into a duplicate-key block carrying it *)
Definition key_of (b : block) : option (bool * str) :=
  match b with BEntry _ _ k _ => Some (true, k) | BString _ k _ => Some (false, k) | _ => None end.
Definition same_or_wrapped (b b' : block) : Prop :=
  b' = b \/ exists kind k prev, key_of b = Some (kind, k) /\ key_of prev = Some (kind, k)
                                /\ b' = BDupKey (mkhdr (sl (bhdr b)) (raw (bhdr b)) []) k prev b.
