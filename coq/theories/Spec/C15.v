(* C15: what the property says, independent of how the middlewares compute it. *)
From Coq Require Import List NArith ZArith Bool Lia.
From BP Require Import Base.Chars Model.Blocks Gen.Constants Model.Month.
Import ListNotations.
Local Open Scope Z_scope.

Definition abbrev_of (m : Z) : str := nth (Z.to_nat (m - 1)) month_abbrev [].
Definition full_of (m : Z) : str := nth (Z.to_nat (m - 1)) month_full [].

(* v is an unenclosed spelling of month m: the integer, a decimal string of it (any number of leading zeros),
   or any letter-case variant of the abbreviation or of the full name.
   The bool True is NOT a spelling (the int middleware returns it as it is), although `isinstance(True, int)` makes the
   long / abbreviation middlewares read it as 1: the theorems about non-spellings and about composition therefore
   carry the premise  v <> VBool true  (Properties/C15.v: C15_bool_true states what happens to it). *)
Definition spells (m : Z) (v : value) : Prop :=
  v = VInt m
  \/ (exists s, v = VStr s /\ str_isdecimal s = true /\ py_int s = Some (Z.to_N m))
  \/ (exists s, v = VStr s /\ lower s = abbrev_of m)
  \/ (exists s, v = VStr s /\ lower s = lower (full_of m)).

Definition is_month_spelling (v : value) : Prop := exists m, 1 <= m <= 12 /\ spells m v.

(* inside the executable instances of the int() oracle (ASCII decimals): *)
Definition in_domain (v : value) : Prop :=
  match v with VStr s => str_isdecimal s = true -> py_int s <> None | _ => True end.

(* the shared table is what the property calls "one 12-month table" *)
Definition table_ok : bool :=
  (length month_abbrev =? 12)%nat && (length month_full =? 12)%nat
  && forallb (fun p => str_eqb (fst p) (lower (firstn 3 (snd p)))) (combine month_abbrev month_full)
  && forallb (fun a => (length a =? 3)%nat && str_eqb (lower a) a && negb (str_isdecimal a)) month_abbrev
  && forallb (fun f => negb (str_isdecimal (lower f))) month_full
  && str_eqb (concat (map (fun a => a ++ [c_sp]) month_abbrev_to_full_keys)) (concat (map (fun a => a ++ [c_sp]) month_abbrev))
  && str_eqb (concat (map (fun a => a ++ [c_sp]) month_abbrev_to_full_vals)) (concat (map (fun a => a ++ [c_sp]) month_full))
  && str_eqb (concat (map (fun a => a ++ [c_sp]) month_lowercase_full_src)) (concat (map (fun a => a ++ [c_sp]) lowercase_full)).
