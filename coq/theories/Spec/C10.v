(* C10: what the property says, independent of how enclosing.py computes it. *)
From Coq Require Import List NArith ZArith Bool Lia.
From BP Require Import Base.Chars Model.Blocks.
Import ListNotations.
Local Open Scope Z_scope.

(* The escape rule of the dialect (DESIGN 3): an occurrence of a delimiter is ACTIVE iff the character directly
   before it is not a backslash.  [delta pbs c] is what the character c contributes to the brace depth when
   [pbs] says whether the previous character is a backslash. *)
Definition delta (pbs : bool) (c : ch) : Z :=
  if pbs then 0 else if ceq c c_lb then 1 else if ceq c c_rb then -1 else 0.
Fixpoint depth_from (pbs : bool) (s : str) : Z :=
  match s with [] => 0 | c :: r => delta pbs c + depth_from (ceq c c_bs) r end.
(* signed brace depth after a text that starts a value: active '{' minus active '}' *)
Definition depth (s : str) : Z := depth_from false s.

Definition ends_bs (s : str) : Prop := exists p, s = p ++ [c_bs].

(* v is ONE braced piece { w }: the last character is an active '}' and it is the one matching the first brace,
   i.e. the depth returns to 0 exactly at the end and is positive after every proper non-empty prefix *)
Definition outer_brace (v w : str) : Prop :=
  v = c_lb :: w ++ [c_rb]
  /\ ~ ends_bs w
  /\ depth v = 0
  /\ (forall p s, v = p ++ s -> p <> [] -> s <> [] -> depth p > 0).

(* v is ONE quoted piece " w " (so length >= 2): the last quote is active and no active quote at brace depth 0
   lies strictly inside *)
Definition outer_quote (v w : str) : Prop :=
  v = c_quote :: w ++ [c_quote]
  /\ ~ ends_bs w
  /\ (forall a b, w = a ++ c_quote :: b -> ends_bs a \/ depth (c_quote :: a) <> 0).

(* the genuine outer pair of v, if any: delimiter and content *)
Definition outer_pair (v : str) (q : ch) (w : str) : Prop :=
  (q = c_lb /\ outer_brace v w) \/ (q = c_quote /\ outer_quote v w).

(* the last field with key k, as Python's dict assignment in field order leaves it *)
Definition last_field (k : str) (fs : list field) : option field :=
  find (fun f => str_eqb k (fkey f)) (rev fs).

(* enclosing text for the two delimiters *)
Definition wrap (q : ch) (txt : str) : str :=
  q :: txt ++ [if ceq q c_lb then c_rb else q].
