(* C16: what the property says about SortBlocksByTypeAndKeyMiddleware, independent of how it computes it. *)
From Coq Require Import List NArith ZArith Bool Arith Permutation Sorted.
From BP Require Import Base.Chars Base.StableSort Model.Blocks Model.SortBlocks.
Import ListNotations.

Definition comment (b : block) : Prop := is_comment b = true.

(* rank of a class (wire code, Model/SortBlocks.class_code) in a type order: first index, unlisted = length *)
Fixpoint rank_in (c : N) (order : list N) : nat :=
  match order with
  | [] => O
  | x :: r => if N.eqb c x then O else S (rank_in c r)
  end.
Definition block_rank (order : list N) (b : block) : nat := rank_in (class_code (class_of b)) order.

(* the key of a block; blocks without a key attribute count as "" *)
Definition block_key (b : block) : str :=
  match b with
  | BEntry _ _ k _ | BString _ k _ | BDupKey _ k _ _ => k
  | _ => []
  end.

(* ---- the units that move as a whole *)
(* with comment preservation: each non-comment block together with the run of comments directly above it;
   a run of comments at the very end is a unit of its own *)
Inductive units_of : list block -> list (list block) -> Prop :=
| U_nil : units_of [] []
| U_trailing cs : cs <> [] -> Forall comment cs -> units_of cs [cs]
| U_block cs b r us : Forall comment cs -> is_comment b = false -> units_of r us ->
                      units_of (cs ++ b :: r) ((cs ++ [b]) :: us).

Definition units (preserve : bool) (bs : list block) (us : list (list block)) : Prop :=
  if preserve then units_of bs us else us = map (fun b => [b]) bs.

(* a unit is ranked and keyed by its last block (the non-comment block, or the last comment of a trailing run) *)
Definition unit_sort_key (order : list N) (u : list block) : nat * str :=
  match rev u with
  | [] => (O, [])
  | b :: _ => (block_rank order b, block_key b)
  end.
(* Python's <= on (int, str) tuples *)
Definition unit_le (order : list N) (u v : list block) : Prop :=
  lex_leb (unit_sort_key order u) (unit_sort_key order v) = true.
(* the unit's (rank, key) equals k (neither below nor above it) *)
Definition unit_tie (order : list N) (k : nat * str) (u : list block) : bool :=
  lex_leb k (unit_sort_key order u) && lex_leb (unit_sort_key order u) k.

(* the output is the concatenation of the input's units, rearranged so that (rank, key) never decreases,
   units with equal (rank, key) in their original relative order *)
Definition sort_spec (preserve : bool) (order : list N) (bs out : list block) : Prop :=
  exists us us',
    units preserve bs us
    /\ Permutation us' us
    /\ out = concat us'
    /\ StronglySorted (unit_le order) us'
    /\ forall k, filter (unit_tie order k) us' = filter (unit_tie order k) us.

(* the two halves of sort_spec under the names of the property text *)
Definition sorted_spec (preserve : bool) (order : list N) (bs out : list block) : Prop :=
  exists us us', units preserve bs us /\ Permutation us' us /\ out = concat us' /\ StronglySorted (unit_le order) us'.
Definition stable_spec (preserve : bool) (order : list N) (bs out : list block) : Prop :=
  exists us us', units preserve bs us /\ Permutation us' us /\ out = concat us'
                 /\ forall k, filter (unit_tie order k) us' = filter (unit_tie order k) us.

(* without comment preservation, said directly on blocks *)
Definition blk_sort_key (order : list N) (b : block) : nat * str := (block_rank order b, block_key b).
Definition blk_le (order : list N) (a b : block) : Prop := lex_leb (blk_sort_key order a) (blk_sort_key order b) = true.
Definition blk_tie (order : list N) (k : nat * str) (b : block) : bool :=
  lex_leb k (blk_sort_key order b) && lex_leb (blk_sort_key order b) k.
Definition plain_sort_spec (order : list N) (bs out : list block) : Prop :=
  Permutation out bs /\ StronglySorted (blk_le order) out /\ forall k, filter (blk_tie order k) out = filter (blk_tie order k) bs.

(* every run of comments directly above a non-comment block is directly above it, in the same internal order,
   in the output *)
Definition comments_attached (bs out : list block) : Prop :=
  forall pre cs b post,
    bs = pre ++ cs ++ b :: post -> Forall comment cs -> is_comment b = false ->
    exists pre' post', out = pre' ++ cs ++ b :: post'.
