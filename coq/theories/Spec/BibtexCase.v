(* BibTeX's own test "is this name token a von token" (bibtex.web, procedure von_token_found, sections 397-401),
   transcribed literally on the characters of one word - the yardstick for known finding K14: the library's (and hence
   Spec/C13's) word case differs from it on words that hold a special character or an escape.

     scan the word: an upper-case letter -> not von; a lower-case letter -> von;
     a left brace followed by a backslash and at least two more characters starts a SPECIAL CHARACTER:
        read the control word (letters); if it is one of the thirteen built-in ones its own case decides
        (\OE \AE \AA \O \L upper; \i \j \oe \ae \aa \o \l \ss lower); otherwise the first letter up to the
        brace that closes the special character decides (nested braces are entered), and if there is none: not von;
     any other left brace: the whole group is skipped (its letters do not count). *)
From Coq Require Import List NArith ZArith Bool String.
From BP Require Import Base.Chars Model.Blocks.
Import ListNotations.
Local Open Scope N_scope.

Definition upA (c : ch) : bool := (65 <=? code c) && (code c <=? 90).
Definition loA (c : ch) : bool := (97 <=? code c) && (code c <=? 122).
Definition alphaA (c : ch) : bool := upA c || loA c.

Fixpoint str_eqb (a b : str) : bool :=
  match a, b with [], [] => true | x :: a', y :: b' => ceq x y && str_eqb a' b' | _, _ => false end.
Definition upper_seqs : list str := map lit ["OE"; "AE"; "AA"; "O"; "L"]%string.
Definition lower_seqs : list str := map lit ["i"; "j"; "oe"; "ae"; "aa"; "o"; "l"; "ss"]%string.
Definition lookup_seq (name : str) : option bool :=          (* Some von? *)
  if existsb (str_eqb name) upper_seqs then Some false
  else if existsb (str_eqb name) lower_seqs then Some true else None.

Inductive tmode :=
| TTop
| TGroup (lvl : N)                 (* skipping an ordinary group *)
| TCtrl (name : str)               (* reading the control word of a special character (reversed) *)
| TSpecial (lvl : N).              (* inside a special character after its control sequence *)

Definition at_least3 (r : str) : bool := match r with _ :: _ :: _ :: _ => true | _ => false end.

Fixpoint von_go (s : str) (m : tmode) : bool :=
  match s with
  | [] => match m with TCtrl name => match lookup_seq (rev name) with Some v => v | None => false end | _ => false end
  | c :: r =>
      let special (lvl : N) :=
        if upA c then false else if loA c then true
        else if ceq c c_rb then (if lvl =? 1 then false else von_go r (TSpecial (lvl - 1)))
        else if ceq c c_lb then von_go r (TSpecial (lvl + 1))
        else von_go r (TSpecial lvl) in
      match m with
      | TTop =>
          if upA c then false else if loA c then true
          else if ceq c c_lb then
            match r with
            | b :: r' => if ceq b c_bs && at_least3 r then von_go r' (TCtrl []) else von_go r (TGroup 1)
            | [] => false
            end
          else von_go r TTop
      | TGroup lvl =>
          if ceq c c_rb then (if lvl =? 1 then von_go r TTop else von_go r (TGroup (lvl - 1)))
          else if ceq c c_lb then von_go r (TGroup (lvl + 1))
          else von_go r (TGroup lvl)
      | TCtrl name =>
          if alphaA c then von_go r (TCtrl (c :: name))
          else match lookup_seq (rev name) with Some v => v | None => special 1 end
      | TSpecial lvl => special lvl
      end
  end.
Definition von_token_found (w : str) : bool := von_go w TTop.
