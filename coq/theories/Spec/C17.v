(* C17: what the property says about the three field middlewares, independent of how they compute it.
   Fields are records (key, value, start line); "the same field" means all three components. *)
From Coq Require Import List NArith ZArith Bool Arith Permutation Sorted.
From BP Require Import Base.Chars Model.Blocks Model.LibRebuild.
Import ListNotations.

(* ---------------------------------------------------------------- alphabetical sorting *)
(* Python's <= on str: lexicographic by code point *)
Definition key_le (f g : field) : Prop := str_leb (fkey f) (fkey g) = true.
(* f's key is neither below nor above p's key: the two keys are equal as Python strings *)
Definition same_key (p f : field) : bool := str_leb (fkey p) (fkey f) && str_leb (fkey f) (fkey p).

(* exactly the entry's fields, each once, in key order, fields with equal keys in source order *)
Definition alpha_spec (fs out : list field) : Prop :=
  Permutation out fs
  /\ StronglySorted key_le out
  /\ forall p, filter (same_key p) out = filter (same_key p) fs.

(* ---------------------------------------------------------------- custom order *)
Definition folded (case_sensitive : bool) (k : str) : str := if case_sensitive then k else lower k.

(* position of a key in the order list; a key that is not listed gets [length ord] *)
Fixpoint position (k : str) (ord : list str) : nat :=
  match ord with
  | [] => O
  | x :: r => if str_eqb k x then O else S (position k r)
  end.

(* [ord] is the order list after folding (what the constructor keeps) *)
Definition field_pos (cs : bool) (ord : list str) (f : field) : nat := position (folded cs (fkey f)) ord.
Definition same_pos (cs : bool) (ord : list str) (p f : field) : bool := Nat.eqb (field_pos cs ord p) (field_pos cs ord f).

(* contract form: a permutation, ordered by position in the list (unlisted = after all listed), ties
   (same listed key up to folding, or both unlisted) in source order *)
Definition custom_spec (cs : bool) (ord : list str) (fs out : list field) : Prop :=
  Permutation out fs
  /\ StronglySorted (fun f g => field_pos cs ord f <= field_pos cs ord g) out
  /\ forall p, filter (same_pos cs ord p) out = filter (same_pos cs ord p) fs.

(* explicit form: for each listed key in listed order the fields carrying it (up to folding) in source order,
   then every field whose key is not listed, in source order *)
Definition has_key (cs : bool) (k : str) (f : field) : bool := str_eqb (folded cs (fkey f)) k.
Definition unlisted (cs : bool) (ord : list str) (f : field) : bool := negb (mem_str (folded cs (fkey f)) ord).
Definition custom_explicit (cs : bool) (ord : list str) (fs : list field) : list field :=
  flat_map (fun k => filter (has_key cs k) fs) ord ++ filter (unlisted cs ord) fs.

(* ---------------------------------------------------------------- key normalisation *)
Definition lkey (f : field) : str := lower (fkey f).

(* a list of keys without its repetitions, every key at the place of its first occurrence *)
Fixpoint keep_first (l : list str) : list str :=
  match l with
  | [] => []
  | k :: r => k :: filter (fun x => negb (str_eqb x k)) (keep_first r)
  end.

(* the last field of fs whose lower-cased key is k *)
Fixpoint last_with (k : str) (fs : list field) : option field :=
  match fs with
  | [] => None
  | f :: r => match last_with k r with
              | Some g => Some g
              | None => if str_eqb (lkey f) k then Some f else None
              end
  end.

Definition normalize_spec (fs out : list field) : Prop :=
  (* keys: lower-case, unique, in the order of first occurrences *)
  map fkey out = keep_first (map lkey fs)
  /\ NoDup (map fkey out)
  /\ Forall (fun o => lower (fkey o) = fkey o) out
  (* each key keeps the value (and start line) of its last occurrence; so no value is changed or invented *)
  /\ (forall o, In o out -> exists g, last_with (fkey o) fs = Some g /\ In g fs /\ fval o = fval g /\ fline o = fline g).

(* ---------------------------------------------------------------- frame *)
(* what a field middleware may change in a block: nothing unless it is an entry; of an entry only the
   fields and the metadata entry under the middleware's own key [mk] (None: no metadata at all) *)
Definition meta_frame (mk : option str) (m m' : metadata) : Prop :=
  match mk with
  | None => m' = m
  | Some k => forall k', k' <> k -> dict_get m' k' = dict_get m k'
  end.

Definition block_frame (mk : option str) (b b' : block) : Prop :=
  match b with
  | BEntry h t k fs =>
      exists h' fs', b' = BEntry h' t k fs' /\ sl h' = sl h /\ raw h' = raw h /\ meta_frame mk (meta h) (meta h')
  | _ => b' = b
  end.

(* library level: block for block *)
Definition lib_frame (mk : option str) (bs out : list block) : Prop := Forall2 (block_frame mk) bs out.
