(* C07 - what "never mutate or alias the input" means on the heap.  Written for reading; no proofs. *)
From Coq Require Import List ZArith Bool.
From BP Require Import Model.Heap Model.HeapMw.
Import ListNotations.

(* "leaves the input library equal to its prior deep copy" - in fact every object that existed before the call
   (the library, its blocks, fields, lists, values, metadata dicts, the caller's format ...) still exists with
   exactly the same content:   Heap.unchanged h h' := forall p, In p (dom h) -> lookup h' p = lookup h p *)
Definition input_untouched (h h' : heap) : Prop := unchanged h h'.

(* "the result shares no mutable object with its input": nothing reachable from the result r in the final heap h'
   is an object of the initial heap h.  (Only mutable objects live in the heap; atoms are values.) *)
Definition shares_nothing (h h' : heap) (r : nat) : Prop := forall p, reach h' r p -> ~ In p (dom h).

Definition no_alias (h h' : heap) (r : nat) : Prop :=
  wf_heap h' /\ In r (dom h') /\ input_untouched h h' /\ shares_nothing h h' r.

(* The ASSUMED contract of CPython's copy.deepcopy (it is not the repo's code): on a well-formed heap it only adds
   objects, leaves every existing object as it is, and everything reachable from the copy is new. *)
Definition dc_contract (DC : heap -> nat -> heap * nat) : Prop :=
  forall h r h' r', wf_heap h -> In r (dom h) -> DC h r = (h', r') ->
    wf_heap h' /\ unchanged h h' /\ In r' (dom h') /\ (forall p, reach h' r' p -> ~ In p (dom h)).

(* What a per-block body (transform_entry, transform_string, ...) may do: it gets the library and ITS block b; it may
   write only to objects reachable from b or allocated by itself, and whatever it returns is reachable only from
   those.  In particular it may read the library but neither write through it nor store it. *)
Definition footprint_ok (bd : body) : Prop :=
  forall h lib b h' res, wf_heap h -> In lib (dom h) -> In b (dom h) -> bd h lib b = Some (h', res) ->
    wf_heap h'
    /\ (forall p, In p (dom h) -> In p (dom h'))
    /\ (forall p, In p (dom h) -> ~ reach h b p -> lookup h' p = lookup h p)
    /\ (forall r, In r (result_blocks res) ->
          In r (dom h') /\ forall p, reach h' r p -> reach h b p \/ ~ In p (dom h)).

(* a middleware of a stack that the property speaks about: copy mode, and block bodies with the footprint above *)
Definition mw_ok (m : mw) : Prop :=
  copy_mode m /\ match m with MwBlock _ bd => footprint_ok bd | _ => True end.
