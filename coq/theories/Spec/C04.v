(* C04: malformed blocks never damage neighbours.  Line-shifted copies of blocks. *)
From Coq Require Import List NArith ZArith Bool Lia.
From BP Require Import Base.Chars Model.Blocks.
Import ListNotations.
Local Open Scope Z_scope.

Definition shift_opt (k : Z) (o : option Z) : option Z := match o with Some l => Some (l + k) | None => None end.
Definition shiftf (k : Z) (f : field) : field := mkfield (fkey f) (fval f) (shift_opt k (fline f)).
Definition shifth (k : Z) (h : hdr) : hdr := mkhdr (shift_opt k (sl h)) (raw h) (meta h).

(* the same block, reported k lines further down *)
Fixpoint shiftb (k : Z) (b : block) : block :=
  match b with
  | BEntry h t key fs => BEntry (shifth k h) t key (map (shiftf k) fs)
  | BString h key v => BString (shifth k h) key v
  | BPreamble h v => BPreamble (shifth k h) v
  | BExpl h c => BExpl (shifth k h) c
  | BImpl h c => BImpl (shifth k h) c
  | BFailed h e => BFailed (shifth k h) e
  | BMwErr h e i => BMwErr (shifth k h) e (shiftb k i)
  | BDupKey h key p d => BDupKey (shifth k h) key (shiftb k p) (shiftb k d)
  | BDupField h ks e => BDupField (shifth k h) ks (shiftb k e)
  end.
