(* C12: what the property says about co-author splitting, independent of the six-step machine.

   Conservation:  the stripped text is  piece_1 sep_1 piece_2 ... sep_(n-1) piece_n  where every separator is
                  whitespace+ 'and'(any case) whitespace+  -- so every other character is inside a piece, pieces are
                  contiguous and in order.
   Exactness:     the pieces are those of a word-level reference splitter [ref_split] (brace-balanced text).
   Idempotence:   merging with " and " and splitting again gives the same pieces. *)
From Coq Require Import List NArith ZArith Bool.
From BP Require Import Base.Chars Model.Blocks Gen.Constants Model.Names.
Import ListNotations.

(* ---- conservation *)

Fixpoint interleave (pieces seps : list str) : str :=
  match pieces, seps with
  | [], _ => []
  | [p], _ => p
  | p :: ps, [] => p ++ interleave ps []           (* (not used: |seps| = |pieces| - 1) *)
  | p :: ps, s :: ss => p ++ s ++ interleave ps ss
  end.

(* ws+ a n d ws+ *)
Definition is_and_word (w : str) : bool :=
  match w with [a; n; d] => is_aA a && is_nN n && is_dD d | _ => false end.
Definition is_and_sep (x : str) : Prop :=
  exists w1 a w2, x = w1 ++ a ++ w2 /\ w1 <> [] /\ w2 <> [] /\
                  forallb ws_split w1 = true /\ forallb ws_split w2 = true /\ is_and_word a = true.

Definition conserved (s : str) (pieces : list str) : Prop :=
  exists seps, length seps = pred (length pieces) /\ strip4 s = interleave pieces seps /\ Forall is_and_sep seps
               /\ Forall (fun p => p <> []) pieces.

(* ---- the word-level reference splitter *)

(* brace balance; a backslash and the character after it are an ordinary pair *)
Fixpoint balanced_go (s : str) (d : N) : bool :=
  match s with
  | [] => (d =? 0)%N
  | c :: r =>
      if ceq c c_bs then match r with [] => (d =? 0)%N | _ :: r' => balanced_go r' d end
      else if ceq c c_lb then balanced_go r (d + 1)
      else if ceq c c_rb then if (d =? 0)%N then false else balanced_go r (N.pred d)
      else balanced_go r d
  end.
Definition balanced (s : str) : bool := balanced_go s 0.

(* every character with the flag "is a separator character": whitespace (space, tab, CR, LF -- not '~') at
   brace depth 0 (clamped at 0) and not the second half of an escape pair *)
Fixpoint marks_go (s : str) (d : N) : list (ch * bool) :=
  match s with
  | [] => []
  | c :: r =>
      if ceq c c_bs then
        match r with [] => [(c, false)] | e :: r' => (c, false) :: (e, false) :: marks_go r' d end
      else if ceq c c_lb then (c, false) :: marks_go r (d + 1)
      else if ceq c c_rb then (c, false) :: marks_go r (N.pred d)
      else (c, (d =? 0)%N && ws_split c) :: marks_go r d
  end.
Definition marks (s : str) : list (ch * bool) := marks_go s 0.

(* maximal runs: (false, w) is a top-level word, (true, g) the whitespace between two words *)
Fixpoint runs (l : list (ch * bool)) : list (bool * str) :=
  match l with
  | [] => []
  | (c, b) :: r =>
      match runs r with
      | (b', t) :: rest => if Bool.eqb b b' then (b, c :: t) :: rest else (b, [c]) :: (b', t) :: rest
      | [] => [(b, [c])]
      end
  end.

Definition has_word (l : list (bool * str)) : bool := existsb (fun x => negb (fst x)) l.
Definition nonempty (s : str) : bool := match s with [] => false | _ => true end.

(* walk the words: a word 'and' closes the current piece iff the piece is non-empty and a further word follows;
   a piece is the source text from its first word to its last word (inner whitespace kept as written) *)
Fixpoint ref_walk (l : list (bool * str)) (cur gap : str) : list str :=
  match l with
  | [] => if nonempty cur then [cur] else []
  | (true, g) :: r => ref_walk r cur g
  | (false, w) :: r =>
      if is_and_word w && nonempty cur && has_word r then cur :: ref_walk r [] []
      else ref_walk r (if nonempty cur then cur ++ gap ++ w else w) []
  end.
Definition ref_split (s : str) : list str := ref_walk (runs (marks (strip4 s))) [] [].

Definition idempotent_on (s : str) : Prop := split_names (merge_names (split_names s)) = split_names s.
