(* C11: what the property says about string references, independent of how interpolate.py computes it. *)
From Coq Require Import List NArith ZArith Bool.
From BP Require Import Base.Chars Model.Blocks.
Import ListNotations.

Definition starts (s : str) (c : ch) : Prop := exists r, s = c :: r.
Definition ends (s : str) (c : ch) : Prop := exists p, s = p ++ [c].
(* "enclosed in braces or quotes", as the resolver sees it: first and last character *)
Definition enclosed (s : str) : Prop := (starts s c_quote /\ ends s c_quote) \/ (starts s c_lb /\ ends s c_rb).

(* the value of the FIRST @string block with key k anywhere in the block list the library is built from
   (keys are compared as code-point lists: case-sensitively) *)
Fixpoint first_string (bs : list block) (k : str) : option value :=
  match bs with
  | [] => None
  | BString _ k' v :: r => if str_eqb k k' then Some v else first_string r k
  | _ :: r => first_string r k
  end.

(* field f is a reference that resolves to v: a str value, not enclosed, equal to a defined string key *)
Definition Resolvable (bs : list block) (f : field) (v : value) : Prop :=
  exists s, fval f = VStr s /\ ~ enclosed s /\ first_string bs s = Some v.

(* fields before / after resolution, and the keys recorded in the entry's metadata (in field order) *)
Inductive res_fields (bs : list block) : list field -> list field -> list str -> Prop :=
| rf_nil : res_fields bs [] [] []
| rf_hit f v r r' ks : Resolvable bs f v -> res_fields bs r r' ks ->
    res_fields bs (f :: r) (mkfield (fkey f) v (fline f) :: r') (fkey f :: ks)
| rf_miss f r r' ks : (forall v, ~ Resolvable bs f v) -> res_fields bs r r' ks ->
    res_fields bs (f :: r) (f :: r') ks.
