(* C03: the raw texts of the returned blocks tile the source (in order, no overlap, only whitespace between and
   around them, so no input character is dropped or duplicated) and every start_line is the 0-based line on
   which the raw text starts.  Stated for the text the splitter actually scans: "\n" ++ input, where line
   numbers are counted from -1 so that the artificial first newline brings the first source line to 0. *)
From Coq Require Import List NArith ZArith Bool Lia.
From BP Require Import Base.Chars Model.Blocks.
Import ListNotations.
Local Open Scope Z_scope.

Definition all_ws (s : str) : Prop := Forall (fun c => isspace c = true) s.

Fixpoint count_nl (s : str) : Z :=
  match s with [] => 0 | c :: r => (if (c =? c_nl)%N then 1 else 0) + count_nl r end.

(* tiledL n text items: text = g0 ++ r1 ++ g1 ++ ... ++ rk ++ gk with every gap gi whitespace-only, and the
   line recorded for ri is n + (number of newlines of text before ri); n is the line number "before" text *)
Inductive tiledL : Z -> str -> list (str * Z) -> Prop :=
| tiled_nil n g : all_ws g -> tiledL n g []
| tiled_cons n g r rest items :
    all_ws g -> r <> [] ->
    tiledL (n + count_nl g + count_nl r) rest items ->
    tiledL n (g ++ r ++ rest) ((r, n + count_nl g) :: items).

(* raw text and start line of a block, when present *)
Definition raw_line (b : block) : option (str * Z) :=
  match raw (bhdr b), sl (bhdr b) with Some r, Some l => Some (r, l) | _, _ => None end.

Fixpoint raw_lines (bs : list block) : option (list (str * Z)) :=
  match bs with
  | [] => Some []
  | b :: r => match raw_line b, raw_lines r with Some x, Some xs => Some (x :: xs) | _, _ => None end
  end.

(* the property for one input text *)
Definition tiles_with_true_lines (t : str) (bs : list block) : Prop :=
  exists items, raw_lines bs = Some items /\ tiledL (-1) (c_nl :: t) items.

(* every field of every entry carries a line within its entry's lines (the exact statement
   "the line of its '='" is C03_field_line in Proofs/SplitTiling.v, stated on the machine) *)
