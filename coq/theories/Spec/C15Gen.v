(* C15 over CPython's real str.lower / int (abstract oracles): what a spelling is and which facts about the
   oracles are assumed. *)
From Coq Require Import List NArith ZArith Bool Lia.
From BP Require Import Base.Chars Model.Blocks Gen.Constants Model.Month Model.MonthGen Spec.C15.
Import ListNotations.
Local Open Scope Z_scope.

Section SpecGen.
  Variable lowerU : str -> str.
  Variable intU : str -> option Z.

  (* v is an unenclosed spelling of month m: the integer, a string CPython calls decimal which
     _int_of_decimal_str reads as m (digits of any script, any number of leading zeros), or a string whose CPython
     lower-casing is the abbreviation or the lower-cased full name.  True is not a spelling (see Spec/C15.v). *)
  Definition spells_g (m : Z) (v : value) : Prop :=
    v = VInt m
    \/ (exists s, v = VStr s /\ str_isdecimal s = true /\ intU s = Some m)
    \/ (exists s, v = VStr s /\ lowerU s = abbrev_of m)
    \/ (exists s, v = VStr s /\ lowerU s = lowerU (full_of m)).

  Definition is_month_spelling_g (v : value) : Prop := exists m, 1 <= m <= 12 /\ spells_g m v.

  (* ---- what is assumed of the oracles (both are facts of CPython); nothing is assumed of intU *)
  (* on the 24 table rows (ASCII words) str.lower is the ASCII lower-casing *)
  Definition lower_rows_ok : Prop := forall r, In r month_abbrev \/ In r month_full -> lowerU r = lower r.
  (* lower-casing a decimal string gives a decimal string (decimal digits are uncased) *)
  Definition lower_keeps_decimal : Prop := forall s, str_isdecimal s = true -> str_isdecimal (lowerU s) = true.

  Definition oracles_ok : Prop := lower_rows_ok /\ lower_keeps_decimal.
End SpecGen.

(* ASCII-only strings of the model: every character is the canonical encoding of a code below 128 *)
Definition ascii_ch (c : ch) : bool := (code c <? 128)%N && (c =? asc (code c))%N.
Definition is_ascii (s : str) : bool := forallb ascii_ch s.

(* the natural, stronger form of lower_rows_ok: str.lower agrees with the ASCII instance on ASCII-only strings *)
Definition lower_ascii_agree (lowerU : str -> str) : Prop := forall s, is_ascii s = true -> lowerU s = lower s.
(* _int_of_decimal_str agrees with the ASCII instance on ASCII digit strings, and refuses only numbers of more than
   640 digits (sys.set_int_max_str_digits accepts no smaller limit; the default is 4300) *)
Definition int_ascii_agree (intU : str -> option Z) : Prop :=
  forall s n, py_int s = Some n -> match intU s with Some z => z = Z.of_N n | None => (10 ^ 640 <= n)%N end.
