(* C19: what the property says.
   (1) The reference object is an insertion-ordered dictionary  key -> Field  ([omap]): assignment replaces in place or
       appends, removal closes the gap.  [spec_step] is what each of the seven operations does to such a dictionary
       (item deletion of an absent key: no change, no error - the method's docstring defines it as pop;
       item lookup of an absent key: KeyError).
   (2) Structural equality: same class and the same content, attribute by attribute; parser metadata is a dict and is
       compared as a finite map; values are compared as Python compares them (1 == True is the only cross-type case). *)
From Coq Require Import List NArith ZArith Bool.
From BP Require Import Base.Chars Model.Blocks Model.Entry.
Import ListNotations.

(* ------------------------------------------------------------------ (1) the insertion-ordered dictionary *)
Definition omap := list (str * field).

Fixpoint om_lookup (m : omap) (k : str) : option field :=
  match m with [] => None | (k', f) :: r => if str_eqb k k' then Some f else om_lookup r k end.
(* replacing keeps the position, a new key is appended *)
Fixpoint om_set (m : omap) (k : str) (f : field) : omap :=
  match m with
  | [] => [(k, f)]
  | (k', f') :: r => if str_eqb k k' then (k', f) :: r else (k', f') :: om_set r k f
  end.
(* removal closes the gap *)
Fixpoint om_remove (m : omap) (k : str) : omap :=
  match m with [] => [] | (k', f') :: r => if str_eqb k k' then r else (k', f') :: om_remove r k end.

Definition spec_step (m : omap) (o : eop) : omap * eres :=
  match o with
  | OSetField f => (om_set m (fkey f) f, RNone)
  | OSetItem k v => (om_set m k (mkfield k v None), RNone)
  | OPop k d => match om_lookup m k with Some f => (om_remove m k, RField f) | None => (m, dflt d) end
  | ODel k => (om_remove m k, RNone)
  | OGet k d => (m, match om_lookup m k with Some f => RField f | None => dflt d end)
  | OIn k => (m, RBool (match om_lookup m k with Some _ => true | None => false end))
  | OGetItem k => (m, match om_lookup m k with Some f => RVal (fval f) | None => RKeyError end)
  end.

Fixpoint run_spec (ops : list eop) (m : omap) : omap * list eres :=
  match ops with
  | [] => (m, [])
  | o :: r => let (m1, x) := spec_step m o in let (m2, xs) := run_spec r m1 in (m2, x :: xs)
  end.

(* the dictionary an entry stands for *)
Definition abs_fields (fs : list field) : omap := map (fun f => (fkey f, f)) fs.
Definition abs (e : ent) : omap := abs_fields (efields e).

Definition distinct_keys (e : ent) : Prop := NoDup (map fkey (efields e)).
(* no item lookup e[k] uses a reserved name (those are C19_reserved) *)
Definition no_reserved (ops : list eop) : Prop :=
  forall k, In (OGetItem k) ops -> k <> k_entrytype /\ k <> k_id.

(* ------------------------------------------------------------------ (2) structural equality *)
Definition list_same {T} (R : T -> T -> Prop) : list T -> list T -> Prop :=
  fix go (l m : list T) : Prop :=
    match l, m with
    | [], [] => True
    | x :: l', y :: m' => R x y /\ go l' m'
    | _, _ => False
    end.

Fixpoint value_same (a b : value) {struct a} : Prop :=
  match a, b with
  | VStr s, VStr t => s = t
  | VInt x, VInt y => x = y
  | VInt x, VBool c => x = (if c then 1 else 0)%Z
  | VBool c, VInt x => x = (if c then 1 else 0)%Z
  | VBool c, VBool d => c = d
  | VNone, VNone => True
  | VParts a1 b1 c1 d1, VParts a2 b2 c2 d2 => a1 = a2 /\ b1 = b2 /\ c1 = c2 /\ d1 = d2
  | VList l, VList m =>
      (fix go (l m : list value) : Prop :=
         match l, m with [], [] => True | x :: l', y :: m' => value_same x y /\ go l' m' | _, _ => False end) l m
  | VTuple l, VTuple m =>
      (fix go (l m : list value) : Prop :=
         match l, m with [], [] => True | x :: l', y :: m' => value_same x y /\ go l' m' | _, _ => False end) l m
  | _, _ => False
  end.

(* values in which no bool occurs: for them "same" is plain equality (see C19_eq_plain) *)
Fixpoint value_plain (v : value) : bool :=
  match v with
  | VBool _ | VOther _ | VDict _ => false
  | VList l | VTuple l => (fix go (l : list value) : bool := match l with [] => true | x :: r => value_plain x && go r end) l
  | _ => true
  end.

Definition field_same (a b : field) : Prop :=
  fline a = fline b /\ fkey a = fkey b /\ value_same (fval a) (fval b).

(* two dicts with the same keys and the same value under every key *)
Definition meta_same (m1 m2 : metadata) : Prop :=
  forall k, match dict_get m1 k, dict_get m2 k with
            | Some v, Some w => value_same v w
            | None, None => True
            | _, _ => False
            end.
Definition hdr_same (h1 h2 : hdr) : Prop := sl h1 = sl h2 /\ raw h1 = raw h2 /\ meta_same (meta h1) (meta h2).

(* same class and same content (key, value or fields in order, type, start line, raw text, metadata) *)
Definition block_same (a b : block) : Prop :=
  match a, b with
  | BEntry h1 t1 k1 f1, BEntry h2 t2 k2 f2 => hdr_same h1 h2 /\ t1 = t2 /\ k1 = k2 /\ list_same field_same f1 f2
  | BString h1 k1 v1, BString h2 k2 v2 => hdr_same h1 h2 /\ k1 = k2 /\ value_same v1 v2
  | BPreamble h1 v1, BPreamble h2 v2 => hdr_same h1 h2 /\ v1 = v2
  | BExpl h1 c1, BExpl h2 c2 => hdr_same h1 h2 /\ c1 = c2
  | BImpl h1 c1, BImpl h2 c2 => hdr_same h1 h2 /\ c1 = c2
  | _, _ => False
  end.

(* parser_metadata is a dict: its keys are distinct *)
Definition meta_wf (b : block) : Prop := NoDup (map fst (meta (bhdr b))).
