(* C18: what the property says about the LaTeX wrapper, independent of how latex_encoding.py computes it.
   The converter (pylatexenc + the configured rules) is an arbitrary function; nothing here is about LaTeX. *)
From Coq Require Import List NArith ZArith Bool.
From BP Require Import Base.Chars Model.Blocks Model.LatexWrap.
Import ListNotations.

(* the texts of a value that the middleware visits, in the order of the calls: a str; the parts of a NameParts held
   DIRECTLY as the value, in the order first, last, von, jr; nothing else (in particular not a list of NameParts) *)
Definition visited_value (v : value) : list str :=
  match v with
  | VStr s => [s]
  | VParts first von last jr => first ++ last ++ von ++ jr
  | _ => []
  end.

(* the texts of a block that are visited: field values of an entry in field order; the value of an @string *)
Definition visited (b : block) : list str :=
  match b with
  | BEntry _ _ _ fs => flat_map (fun f => visited_value (fval f)) fs
  | BString _ _ v => match v with VStr s => [s] | _ => [] end
  | _ => []
  end.

(* the block with a function applied to every visited text and NOTHING else changed *)
Definition map_value (g : str -> str) (v : value) : value :=
  match v with
  | VStr s => VStr (g s)
  | VParts first von last jr => VParts (map g first) (map g von) (map g last) (map g jr)
  | _ => v
  end.
Definition map_block (g : str -> str) (b : block) : block :=
  match b with
  | BEntry h t k fs => BEntry h t k (map (fun f => mkfield (fkey f) (map_value g (fval f)) (fline f)) fs)
  | BString h k (VStr s) => BString h k (VStr (g s))
  | _ => b
  end.

(* scope and types: only str field values, the strings of a NameParts held directly, and str @string values may differ;
   they remain strings (same number of name parts); keys, types, header (start line, raw, metadata), field keys and
   lines, every other value and every other block are equal *)
Definition vscope (v v' : value) : Prop :=
  match v with
  | VStr _ => exists s', v' = VStr s'
  | VParts a b c d => exists a' b' c' d', v' = VParts a' b' c' d'
                        /\ length a' = length a /\ length b' = length b /\ length c' = length c /\ length d' = length d
  | _ => v' = v
  end.
Definition fscope (f f' : field) : Prop := fkey f' = fkey f /\ fline f' = fline f /\ vscope (fval f) (fval f').
Definition bscope (b p : block) : Prop :=
  match b with
  | BEntry h t k fs => exists fs', p = BEntry h t k fs' /\ Forall2 fscope fs fs'
  | BString h k v => exists v', p = BString h k v' /\ match v with VStr _ => exists s', v' = VStr s' | _ => v' = v end
  | _ => p = b
  end.

(* the middleware-error block holding p: start line and raw of the block, fresh metadata, PartialMiddlewareException *)
Definition error_block (p : block) : block := BMwErr (mkhdr (sl (bhdr p)) (raw (bhdr p)) []) EPartial p.

Definition all_texts (P : str -> Prop) (bs : list block) : Prop := forall b s, In b bs -> In s (visited b) -> P s.

(* a call of the third-party converter fails (raises), whatever its message; and the text the property wants in the
   block afterwards: the converted text, or the ORIGINAL text when the conversion failed *)
Definition fails (f : str -> cres) (s : str) : Prop := exists msg c0 cls, f s = Fail msg c0 cls.
Definition outcome_text (f : str -> cres) (s : str) : str := match f s with Conv r => r | Fail _ _ _ => s end.
