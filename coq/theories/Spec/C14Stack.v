(* C14, the loop through writer and parser:
     parse_string(text, append_middleware=[SeparateCoAuthors(), SplitNameParts()])
     write_string(library, prepend_middleware=[MergeNameParts(), MergeCoAuthors()], bibtex_format=f)
   composed from the engine models: the default stacks and the writer of Model/Pipeline.v, the four name
   middlewares of Model/Names.v lifted to the library by BlockMiddleware.transform (Model/Enclosing.block_mw: one
   Library(blocks=...) per middleware).  Definitions only. *)
From Coq Require Import List NArith ZArith Bool.
From BP Require Import Base.Chars Model.Blocks Model.LibAdd Gen.Constants Model.Lexer Model.Splitter Model.Enclosing Model.Writer
  Model.Grammar Model.Pipeline Model.Names Spec.C12 Spec.C05 Spec.C14.
Import ListNotations.

(* ---- the library level *)
Definition nb_res (r : nbres) : Enclosing.res block :=
  match r with NBVal b => Enclosing.Val b | NBRaise c => Enclosing.Raise c | NBSkip => Enclosing.Skip end.

(* one name middleware: blocks = [transform_block(b) for b in library.blocks]; Library(blocks=blocks) *)
Definition name_mw_lib (nf : list str) (mw : nmw) (bs : list block) : Enclosing.res (list block) :=
  block_mw (fun b => nb_res (name_entry nf mw b)) bs.

(* for middleware in stack: library = middleware.transform(library) *)
Definition names_lib (nf : list str) (mws : list nmw) (bs : list block) : Enclosing.res (list block) :=
  fold_left (fun acc mw => match acc with Enclosing.Val l => name_mw_lib nf mw l | o => o end) mws (Enclosing.Val bs).

Definition pres_of {T} (r : Enclosing.res T) : Pipeline.pres T :=
  match r with Enclosing.Val x => PVal x | Enclosing.Raise _ => PRaise | Enclosing.Skip => PSkip end.

(* default parse stack ++ [SeparateCoAuthors; SplitNameParts] *)
Definition parse_names (nf : list str) (t : str) : Pipeline.pres (list block) :=
  match parse_default t with
  | PVal l => pres_of (names_lib nf parse_side l)
  | PRaise => PRaise
  | PSkip => PSkip
  end.

(* [MergeNameParts("last"); MergeCoAuthors] ++ default unparse stack, then the writer *)
Definition write_names (nf : list str) (f : fmt) (l : list block) : Pipeline.pres str :=
  match names_lib nf write_side l with
  | Enclosing.Val l' => write_default f l'
  | Enclosing.Raise _ => PRaise
  | Enclosing.Skip => PSkip
  end.

(* ---- how the splitter reads the braces of a field value: a brace is active unless the character before it is a
        backslash (the look-behind (?<!\\) of the mark regex -- NOT the escape pairs of names.py, for which the
        second backslash of "\\" is consumed).  pb = the previous character is a backslash, d = open braces.
        None: a closing brace at depth 0. *)
Fixpoint bscan (pb : bool) (d : nat) (s : str) : option (bool * nat) :=
  match s with
  | [] => Some (pb, d)
  | c :: r =>
      if negb pb && (c =? c_lb)%N then bscan false (S d) r
      else if negb pb && (c =? c_rb)%N then match d with O => None | S d' => bscan false d' r end
      else bscan (c =? c_bs)%N d r
  end.
(* balanced for the splitter, whatever the last character *)
Definition word_brace_ok (w : str) : bool := match bscan false 0 w with Some (_, O) => true | _ => false end.
(* balanced for the splitter and not ending in a backslash: can stand between '{' and '}' as a field value *)
Definition brace_ok (s : str) : bool := match bscan false 0 s with Some (false, O) => true | _ => false end.

(* ---- the persons of a value as a function, and the text the write side produces for them *)
Definition parts_of (s : str) : list parts :=
  map (fun r => match r with POk p => p | PErr _ => parts0 end) (persons_of s).
Definition remerge (s : str) : str := merge_names (map merge1 (parts_of s)).

(* C14's quantifier on one value (valid names, non-empty last names, no word ending in an odd number of
   backslashes), outside K3 *)
Definition names_in_scope (ps : list parts) : Prop :=
  (exists v, persons_of v = map POk ps) /\ Forall admissible ps /\ known_C14_K3_b ps = false.
(* what the merged text must satisfy to be written between braces and read back as one field value: these are
   assumptions about the input, see Properties/C14.v *)
Definition writable (v' : str) : Prop := brace_ok v' = true /\ noat v' [c_rb] = true.

Definition name_value_ok (s : str) : Prop :=
  persons_of s = map POk (parts_of s) /\ Forall admissible (parts_of s) /\ known_C14_K3_b (parts_of s) = false
  /\ writable (remerge s).
Definition name_value_ok_b (s : str) : bool :=
  forallb (fun r => match r with POk _ => true | PErr _ => false end) (persons_of s)
  && forallb admissible_b (parts_of s) && negb (known_C14_K3_b (parts_of s))
  && brace_ok (remerge s) && noat (remerge s) [c_rb].

(* every name field of every entry is a text satisfying P *)
Definition name_fields_sat (nf : list str) (P : str -> Prop) (c : bcontent) : Prop :=
  match c with
  | KEntry _ _ fs => Forall (fun kv => mem_str (fst kv) nf = true -> exists s, snd kv = VStr s /\ P s) fs
  | _ => True
  end.
Definition name_fields_ok (nf : list str) (c : bcontent) : Prop := name_fields_sat nf name_value_ok c.

(* ---- the frame around the values of one entry (as in C10's frame_ok): a lower-case entry type that is a word and not
        comment / preamble / string, a key and field names made of key characters without '@', the key not ending in a
        backslash *)
Definition no_at (s : str) : bool := forallb (fun c => negb (c =? c_at)%N) s.
Definition entry_frame_ok (t k : str) : bool :=
  typ_ok t && str_eqb (lower t) t
  && negb (starts_with s_comment t) && negb (starts_with s_preamble t) && negb (starts_with s_string t)
  && name_ok k && negb (Grammar.ends_bs false k) && no_at k.
Definition field_key_ok (n : str) : bool := name_ok n && no_at n.

(* a field of the entry: a name field holds names in scope whose merged text is writable; any other field holds a
   writable text *)
Definition entry_field_ok (nf : list str) (f : field) : Prop :=
  field_key_ok (fkey f) = true /\
  exists s, fval f = VStr s /\ if mem_str (fkey f) nf then name_value_ok s else writable s.

(* no two adjacent backslashes: then names.py's escape pairs and the splitter's look-behind read the braces of the
   text alike *)
Fixpoint no_double_bs (t : str) : bool :=
  match t with
  | [] => true
  | c1 :: r => match r with c2 :: _ => negb ((c1 =? c_bs)%N && (c2 =? c_bs)%N) | [] => true end && no_double_bs r
  end.
