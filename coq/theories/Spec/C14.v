(* C14: splitting names and merging them back is an inverse pair (person level, list level, whole stack). *)
From Coq Require Import List NArith ZArith Bool.
From BP Require Import Base.Chars Model.Blocks Gen.Constants Model.Names Spec.C12.
Import ListNotations.

Definition split1 (s : str) : pres parts := parse_name true s.
Definition merge1 (p : parts) : str := merge_last_first p.

Definition all_words (p : parts) : list str := n_first p ++ n_von p ++ n_last p ++ n_jr p.

(* the word ends in an odd number of backslashes *)
Definition ends_odd_bs (w : str) : bool := Nat.odd (length w - length (rstrip_bs w)).
Definition no_word_ends_odd_backslash (p : parts) : bool := forallb (fun w => negb (ends_odd_bs w)) (all_words p).

(* the names the property speaks about *)
Definition admissible (p : parts) : Prop := n_last p <> [] /\ no_word_ends_odd_backslash p = true.
Definition admissible_b (p : parts) : bool := negb (match n_last p with [] => true | _ => false end) && no_word_ends_odd_backslash p.

(* person level: merging (last-name-first) and splitting again returns the same parts *)
Definition person_inverse_at (s : str) : Prop :=
  forall p, split1 s = POk p -> admissible p -> split1 (merge1 p) = POk p.

(* K3: some top-level word of some name is 'and' in any letter case *)
Definition k3_word (p : parts) : bool := existsb is_and_word (all_words p).
Definition known_C14_K3_b (ps : list parts) : bool := existsb k3_word ps.

(* list level *)
Definition persons_of (v : str) : list (pres parts) := map split1 (split_names v).
Definition list_inverse_at (v : str) : Prop :=
  forall ps, persons_of v = map POk ps -> Forall admissible ps ->
             persons_of (merge_names (map merge1 ps)) = map POk ps.

(* middleware level: the two parse-side middlewares followed by the two write-side ones, then the parse side again *)
Definition parse_side : list nmw := [MwSeparate; MwSplitParts].
Definition write_side : list nmw := [MwMergeParts 0; MwMergeCo].
Definition stack_inverse_at (nf : list str) (b : block) : Prop :=
  forall b1 b2, name_stack nf parse_side b = NBVal b1 -> is_entry b1 = true ->
                name_stack nf write_side b1 = NBVal b2 ->
                name_stack nf parse_side b2 = NBVal b1.
