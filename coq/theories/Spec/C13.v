(* C13: BibTeX's First / von / Last / Jr rules, written compositionally and independently of the single pass of
   parse_single_name_into_parts:

     atoms     the text as escape pairs and single characters
     sections  cut at commas of brace depth 0
     words     cut at whitespace (space ~ CR LF TAB) of brace depth 0, empty words dropped
     word_case the case of one word, from the word's own characters only
     partition the assignment of the words to First / von / Last / Jr

   and the conditions under which a name is invalid. *)
From Coq Require Import List NArith ZArith Bool.
From BP Require Import Base.Chars Model.Blocks Gen.Constants Model.Names.
Import ListNotations.

(* ---- atoms: a backslash and the next character form a pair, except before whitespace or at the end of the text,
        where the backslash is an ordinary character *)
Inductive atom := APair (c : ch) | AChar (c : ch).

Fixpoint atoms (s : str) : list atom :=
  match s with
  | [] => []
  | c :: r =>
      if ceq c c_bs then
        match r with
        | [] => [AChar c]
        | e :: r' => if ws_parse e then AChar c :: AChar e :: atoms r' else APair e :: atoms r'
        end
      else AChar c :: atoms r
  end.

Definition atom_text (a : atom) : str := match a with APair c => [c_bs; c] | AChar c => [c] end.
Definition text (l : list atom) : str := concat (map atom_text l).

Definition is_open (a : atom) : bool := match a with AChar c => ceq c c_lb | _ => false end.
Definition is_close (a : atom) : bool := match a with AChar c => ceq c c_rb | _ => false end.

(* ---- brace balance *)
Fixpoint balanced_from (l : list atom) (d : N) : bool :=
  match l with
  | [] => (d =? 0)%N
  | a :: r => if is_open a then balanced_from r (d + 1)
              else if is_close a then (if (d =? 0)%N then false else balanced_from r (N.pred d))
              else balanced_from r d
  end.
Definition balanced (l : list atom) : bool := balanced_from l 0.

(* ---- cutting at depth-0 separator characters (the separators are dropped; pieces may be empty) *)
Fixpoint cut_go (sep : ch -> bool) (l : list atom) (d : N) (cur : list atom) : list (list atom) :=
  match l with
  | [] => [rev cur]
  | a :: r =>
      if is_open a then cut_go sep r (d + 1) (a :: cur)
      else if is_close a then cut_go sep r (N.pred d) (a :: cur)
      else match a with
           | AChar c => if (d =? 0)%N && sep c then rev cur :: cut_go sep r d [] else cut_go sep r d (a :: cur)
           | APair _ => cut_go sep r d (a :: cur)
           end
  end.
Definition cut (sep : ch -> bool) (l : list atom) : list (list atom) := cut_go sep l 0 [].

Definition sections (l : list atom) : list (list atom) := cut (fun c => ceq c c_comma) l.
Definition words (sec : list atom) : list (list atom) :=
  filter (fun w => match w with [] => false | _ => true end) (cut ws_parse sec).

(* ---- the case of a word *)
Inductive wcase := Upper | Lower | Caseless.
Definition letter_case (c : ch) : wcase := if isupper c then Upper else Lower.

(* where we are inside the word:
     MTop        brace depth 0
     MStart      directly after an opening brace
     MGroup      inside an ordinary braced group: letters do not count
     MCtrl       inside a special character  {\cmd ...}  while the control word  cmd  is being read
     MSpecial    inside a special character after its control sequence: the first letter counts
   Independently of the mode, the character of an escape pair counts if it is a letter -- except for the pair
   directly after an opening brace, which starts a special character. *)
Inductive wmode := MTop | MStart | MGroup | MCtrl | MSpecial.

Definition leave (d : N) : wmode := if (N.pred d =? 0)%N then MTop else MGroup.

Fixpoint word_case_go (l : list atom) (m : wmode) (d : N) : wcase :=
  match l with
  | [] => Caseless
  | a :: r =>
      if is_open a then word_case_go r MStart (d + 1)
      else if is_close a then word_case_go r (leave d) (N.pred d)
      else
        match a, m with
        | APair c, MStart => word_case_go r (if isalpha c then MCtrl else MSpecial) d
        | APair c, _ => if isalpha c then letter_case c else word_case_go r m d
        | AChar c, MTop => if isalpha c then letter_case c else word_case_go r MTop d
        | AChar c, MStart => word_case_go r MGroup d
        | AChar c, MGroup => word_case_go r MGroup d
        | AChar c, MCtrl => word_case_go r (if isalpha c then MCtrl else MSpecial) d
        | AChar c, MSpecial => if isalpha c then letter_case c else word_case_go r MSpecial d
        end
  end.
Definition word_case (w : list atom) : wcase := word_case_go w MTop 0.

(* ---- the partition of the words, given their cases *)
Definition cword := (str * wcase)%type.
Definition is_lower (w : cword) : bool := match snd w with Lower => true | _ => false end.

(* length of the shortest prefix that contains every element satisfying p (0 if there is none) *)
Fixpoint upto_last {T} (p : T -> bool) (l : list T) : nat :=
  match l with
  | [] => 0
  | x :: r => match upto_last p r with O => if p x then 1 else 0 | S k => S (S k) end
  end.
(* number of leading elements satisfying p *)
Fixpoint leading {T} (p : T -> bool) (l : list T) : nat :=
  match l with x :: r => if p x then S (leading p r) else 0 | [] => 0 end.

(* von ends with the last lower-case word that is not the final word of the section *)
Definition von_end (sec : list cword) : nat := upto_last is_lower (removelast sec).

Definition partition_spec (secs : list (list cword)) : parts :=
  let w := map fst in
  match secs with
  | [] => parts0
  | [sec] =>                                         (* First von Last *)
      match sec with
      | [] => parts0
      | [a] => mkparts [] [] [fst a] []
      | [a; b] => mkparts [fst a] [] [fst b] []      (* a comma-free two-word name is First Last *)
      | _ =>
          let f := leading (fun x => negb (is_lower x)) (removelast sec) in     (* leading non-lower-case words, never the final word *)
          let k := Nat.max f (von_end sec) in
          mkparts (w (firstn f sec)) (w (firstn (k - f) (skipn f sec))) (w (skipn k sec)) []
      end
  | sec0 :: rest =>                                  (* von Last, First   /   von Last, Jr, First *)
      let k := von_end sec0 in
      mkparts (w (last rest [])) (w (firstn k sec0)) (w (skipn k sec0))
              (match rest with [jr; _] => w jr | _ => [] end)
  end.

(* ---- the whole *)
Definition name_sections (s : str) : list (list cword) :=
  map (fun sec => map (fun wd => (text wd, word_case wd)) (words sec)) (sections (atoms s)).

Definition is_nil {T} (l : list T) : bool := match l with [] => true | _ => false end.

Definition unbalanced (s : str) : bool := negb (balanced (atoms s)).
Definition too_many_commas (s : str) : bool := (3 <? length (sections (atoms s)))%nat.
Definition trailing_comma (s : str) : bool :=
  let secs := name_sections s in (1 <? length secs)%nat && is_nil (last secs []).
Definition invalid_name (s : str) : bool := unbalanced s || too_many_commas s || trailing_comma s.

Definition spec_parse (s : str) : option parts :=
  if invalid_name s then None
  else
    let secs := name_sections s in
    if forallb is_nil secs then Some parts0 else Some (partition_spec secs).

(* ---- every word once, in source order within its comma section; Last keeps at least the final word *)
Definition words_once (secs : list (list cword)) (p : parts) : Prop :=
  match secs with
  | [] => p = parts0
  | [sec] => n_first p ++ n_von p ++ n_last p = map fst sec /\ n_jr p = []
  | sec0 :: rest =>
      n_von p ++ n_last p = map fst sec0 /\ n_first p = map fst (last rest []) /\
      n_jr p = match rest with [jr; _] => map fst jr | _ => [] end
  end.
Definition last_keeps_final (secs : list (list cword)) (p : parts) : Prop :=
  match secs with
  | sec0 :: _ => sec0 <> [] -> n_last p <> [] /\ last (n_last p) [] = last (map fst sec0) []
  | [] => True
  end.

(* ---- SplitNameParts on an entry (the middleware level of the property) *)
Definition names_of (v : value) (l : list str) : Prop := v = VList (map VStr l).
(* every name field holds a list of strings (what SeparateCoAuthors produces) *)
Definition well_typed (nf : list str) (fs : list field) : Prop :=
  Forall (fun f => mem_str (fkey f) nf = true -> exists l, names_of (fval f) l) fs.
Definition has_invalid_name (nf : list str) (f : field) : Prop :=
  mem_str (fkey f) nf = true /\ exists l n e, names_of (fval f) l /\ In n l /\ parse_name true n = PErr e.
(* same keys and line numbers, fields that are not name fields untouched *)
Definition frame (nf : list str) (fs fs' : list field) : Prop :=
  Forall2 (fun f f' => fkey f' = fkey f /\ fline f' = fline f /\ (mem_str (fkey f) nf = false -> fval f' = fval f)) fs fs'.
Definition split_field_ok (nf : list str) (f f' : field) : Prop :=
  mem_str (fkey f) nf = true ->
  exists l ps, names_of (fval f) l /\ Forall2 (fun n p => parse_name true n = POk p) l ps /\ fval f' = VList (map v_of_parts ps).

Definition error_block_spec (nf : list str) (h : hdr) (t key : str) (fs : list field) (r : nbres) : Prop :=
  (exists fs', r = NBVal (BEntry h t key fs') /\ frame nf fs fs' /\ Forall2 (split_field_ok nf) fs fs'
               /\ ~ Exists (has_invalid_name nf) fs)
  \/
  (exists fs', r = NBVal (BMwErr (mkhdr (sl h) (raw h) []) EInvalidName (BEntry h t key fs')) /\ frame nf fs fs'
               /\ exists f, In f fs /\ In f fs' /\ has_invalid_name nf f).
