(* C06: what the BibtexFormat contract says, written without reference to how writer.py assembles its pieces.
   Only the types (fmt, block, res) are shared with the model; every notion below (field line, comma rule, padding,
   common minimal column, line count, comment template, text of a block, separator placement) is defined here. *)
From Coq Require Import String List NArith ZArith Bool Lia.
From BP Require Import Base.Chars Model.Blocks Model.Writer.
Import ListNotations.

Definition spaces (n : nat) : str := repeat c_sp n.
Definition eq_sign : str := lit " = ".

(* ---- one field line: indent, key, padding, ' = ', value, optional comma, newline *)
Definition field_line (indent key : str) (npad : nat) (value : str) (comma : bool) : str :=
  indent ++ key ++ spaces npad ++ eq_sign ++ value ++ (if comma then [c_comma] else []) ++ [c_nl].

(* a comma follows every field except the last, which has one iff trailing_comma: field i of n *)
Definition comma_rule (trailing : bool) (i n : nat) : bool := trailing || (S i <? n).

(* the padding width p for a key under value column col:
   the value starts at column len(indent)+col whenever the key is short enough; a longer key gets no padding *)
Definition pad_width_ok (col : nat) (key : str) (p : nat) : Prop :=
  (List.length key + 3 <= col -> List.length key + p + 3 = col) /\ (col <= List.length key + 3 -> p = 0).

(* the column at which the value of a field line starts *)
Definition value_start (indent key : str) (npad : nat) : nat := List.length (indent ++ key ++ spaces npad ++ eq_sign).

(* ---- entries with str values *)
Fixpoint str_fields (fs : list field) : option (list (str * str)) :=
  match fs with
  | [] => Some []
  | f :: r => match fval f, str_fields r with VStr v, Some kvs => Some ((fkey f, v) :: kvs) | _, _ => None end
  end.

(* the field lines of an entry, by position *)
Definition field_lines (indent : str) (width : str -> nat) (trailing : bool) (kvs : list (str * str)) : str :=
  concat (map (fun ikv => field_line indent (fst (snd ikv)) (width (fst (snd ikv))) (snd (snd ikv))
                                     (comma_rule trailing (fst ikv) (List.length kvs)))
              (combine (seq 0 (List.length kvs)) kvs)).

(* ---- 'auto': the keys of all fields of all entries of the library (top-level Entry blocks only) *)
Definition lib_keys (bs : list block) : list str :=
  flat_map (fun b => match b with BEntry _ _ _ fs => map fkey fs | _ => [] end) bs.

Definition is_max_len (m : nat) (ks : list str) : Prop :=
  (forall k, In k ks -> List.length k <= m) /\ (ks = [] -> m = 0) /\ (ks <> [] -> exists k, In k ks /\ List.length k = m).

(* ---- failed blocks: line count and comment template *)
Definition boundary (c : ch) : Prop :=
  In (code c) [10; 11; 12; 13; 28; 29; 30; 133; 8232; 8233]%N.
Definition no_boundary (l : str) : Prop := Forall (fun c => ~ boundary c) l.

(* s splits into the lines ls: str.splitlines().  A line ends at a boundary character; CR LF is one boundary;
   text after the last boundary is a line only if it is not empty *)
Inductive Lines : str -> list str -> Prop :=
| L_end : Lines [] []
| L_last l : l <> [] -> no_boundary l -> Lines l [l]
| L_crlf l c1 c2 rest ls :
    no_boundary l -> code c1 = 13%N -> code c2 = 10%N -> Lines rest ls -> Lines (l ++ c1 :: c2 :: rest) (l :: ls)
| L_break l c rest ls :
    no_boundary l -> boundary c ->
    ~ (code c = 13%N /\ exists c2 r, rest = c2 :: r /\ code c2 = 10%N) ->
    Lines rest ls -> Lines (l ++ c :: rest) (l :: ls).

(* template.format(n=...) for templates whose only replacement field is {n}: literal text, {{ -> {, }} -> }, {n} -> n *)
Inductive Format (n : str) : str -> str -> Prop :=
| F_nil : Format n [] []
| F_lit c t o : c <> c_lb -> c <> c_rb -> Format n t o -> Format n (c :: t) (c :: o)
| F_lb t o : Format n t o -> Format n (c_lb :: c_lb :: t) (c_lb :: o)
| F_rb t o : Format n t o -> Format n (c_rb :: c_rb :: t) (c_rb :: o)
| F_n t o : Format n t o -> Format n (c_lb :: asc 110 :: c_rb :: t) (n ++ o).

(* decimal numeral of a natural number (what format writes for {n}) *)
Definition decimal (n : nat) : str := dec_of_N (N.of_nat n).

(* ---- the text of one block under (indent, width, trailing, failed comment) *)
Inductive block_text (indent : str) (width : str -> nat) (trailing : bool) (failed : str) : block -> str -> Prop :=
| BT_entry h t k fs kvs :
    str_fields fs = Some kvs ->
    block_text indent width trailing failed (BEntry h t k fs)
               ([c_at] ++ t ++ [c_lb] ++ k ++ [c_comma; c_nl] ++ field_lines indent width trailing kvs ++ [c_rb; c_nl])
| BT_string h k v :       (* no padding for @string *)
    block_text indent width trailing failed (BString h k (VStr v)) (lit "@string{" ++ k ++ eq_sign ++ v ++ [c_rb; c_nl])
| BT_preamble h v :
    block_text indent width trailing failed (BPreamble h v) (lit "@preamble{" ++ v ++ [c_rb; c_nl])
| BT_expl h c :
    block_text indent width trailing failed (BExpl h c) (lit "@comment{" ++ c ++ [c_rb; c_nl])
| BT_impl h c :
    block_text indent width trailing failed (BImpl h c) (c ++ [c_nl])
| BT_failed b r ls cmt :    (* every ParsingFailedBlock subclass: the configured comment, then the raw text verbatim *)
    is_failed_class b = true -> raw (bhdr b) = Some r -> Lines r ls -> Format (decimal (List.length ls)) failed cmt ->
    block_text indent width trailing failed b (cmt ++ [c_nl] ++ r ++ [c_nl]).

(* ---- the libraries and formats the contract speaks about *)
Definition writable (b : block) : Prop :=
  match b with
  | BEntry _ _ _ fs => str_fields fs <> None
  | BString _ _ v => is_vstr v = true
  | BPreamble _ _ | BExpl _ _ | BImpl _ _ => True
  | _ => raw (bhdr b) <> None
  end.
Definition has_failed (bs : list block) : Prop := exists b, In b bs /\ is_failed_class b = true.
(* the failed-comment template is in the modelled class (only needed when the library has a failed block) *)
Definition template_ok (t : str) : Prop := forall n, exists o, Format n t o.

(* the padding width the format prescribes for a key, in a library *)
Definition width_ok (f : fmt) (bs : list block) (width : str -> nat) : Prop :=
  match f_column f with
  | ColN col => forall k, pad_width_ok col k (width k)
  | ColAuto => exists m, is_max_len m (lib_keys bs) /\ forall k, pad_width_ok (m + 3) k (width k)
  end.

(* the whole output: the texts of the blocks in library order, joined by the separator (Base.Chars.join:
   sep between consecutive texts, nothing after the last) *)
Definition written (f : fmt) (bs : list block) (out : str) : Prop :=
  exists width texts,
    width_ok f bs width /\
    Forall2 (block_text (f_indent f) width (f_trailing f) (f_failed f)) bs texts /\
    out = join (f_sep f) texts.
