(* C05: parse -> write -> parse preserves content; the written text is a fixpoint. *)
From Coq Require Import List NArith ZArith Bool.
From BP Require Import Base.Chars Model.Blocks Model.Writer.
Import ListNotations.

(* what the property compares: everything but raw text, start lines and metadata *)
Inductive bcontent :=
| KEntry (typ key : str) (fields : list (str * value))
| KString (key : str) (v : value)
| KPreamble (v : str)
| KExpl (c : str)
| KImpl (c : str)
| KOther.                      (* failed blocks of any kind: a well-formed document has none *)

Definition content1 (b : block) : bcontent :=
  match b with
  | BEntry _ t k fs => KEntry t k (map (fun f => (fkey f, fval f)) fs)
  | BString _ k v => KString k v
  | BPreamble _ v => KPreamble v
  | BExpl _ c => KExpl c
  | BImpl _ c => KImpl c
  | _ => KOther
  end.
Definition content (bs : list block) : list bcontent := map content1 bs.

(* indent and block separator consist of whitespace only (a non-whitespace separator is written verbatim between
   blocks, by C06, and necessarily re-parses as free text) *)
Definition wf_fmt (f : fmt) : Prop :=
  Forall (fun c => isspace c = true) (f_indent f) /\ Forall (fun c => isspace c = true) (f_sep f).

(* known finding K7: an entry key, an explicit comment, a field value or a @string value whose (stripped) text
   ends in a backslash is written directly in front of the structural ',' / '}' which it thereby escapes
   (`@comment{a \\<newline>}`, `@a{k, x = ab\ }`) *)
Definition ends_in_bs (s : str) : bool := match rv s with c :: _ => (c =? c_bs)%N | [] => false end.
Definition value_ends_in_bs (v : value) : bool := match v with VStr s => ends_in_bs s | _ => false end.
Definition k7_block (b : block) : bool :=
  match b with
  | BEntry _ _ k fs => ends_in_bs k || existsb (fun f => value_ends_in_bs (fval f)) fs
  | BString _ _ v => value_ends_in_bs v
  | BExpl _ c => ends_in_bs c
  | _ => false
  end.
Definition known_K7 (bs : list block) : bool := existsb k7_block bs.
