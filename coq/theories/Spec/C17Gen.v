(* C17 for EVERY str.lower: the readable specifications of Spec/C17.v that mention lower(), restated over an
   arbitrary [lowerU : str -> str].  [position], [keep_first], [meta_frame], [block_frame], [lib_frame] of
   Spec/C17.v do not mention lower() and are used as they are.  With [lowerU := lower] each definition here is
   the one of Spec/C17.v (Proofs/SortFieldsGenProofs.v, gen_instance). *)
From Coq Require Import List NArith ZArith Bool Arith Permutation Sorted.
From BP Require Import Base.Chars Model.Blocks Model.LibRebuild Spec.C17.
Import ListNotations.

Section Gen.
  Variable lowerU : str -> str.                 (* str.lower *)

  (* ---------------------------------------------------------------- custom order *)
  Definition folded_gen (case_sensitive : bool) (k : str) : str := if case_sensitive then k else lowerU k.

  (* [ord] is the order list after folding (what the constructor keeps) *)
  Definition field_pos_gen (cs : bool) (ord : list str) (f : field) : nat := position (folded_gen cs (fkey f)) ord.
  Definition same_pos_gen (cs : bool) (ord : list str) (p f : field) : bool :=
    Nat.eqb (field_pos_gen cs ord p) (field_pos_gen cs ord f).

  (* contract form: a permutation, ordered by position in the list (unlisted = after all listed), ties
     (same listed key up to folding, or both unlisted) in source order *)
  Definition custom_spec_gen (cs : bool) (ord : list str) (fs out : list field) : Prop :=
    Permutation out fs
    /\ StronglySorted (fun f g => field_pos_gen cs ord f <= field_pos_gen cs ord g) out
    /\ forall p, filter (same_pos_gen cs ord p) out = filter (same_pos_gen cs ord p) fs.

  (* explicit form: for each listed key in listed order the fields carrying it (up to folding) in source
     order, then every field whose key is not listed, in source order *)
  Definition has_key_gen (cs : bool) (k : str) (f : field) : bool := str_eqb (folded_gen cs (fkey f)) k.
  Definition unlisted_gen (cs : bool) (ord : list str) (f : field) : bool := negb (mem_str (folded_gen cs (fkey f)) ord).
  Definition custom_explicit_gen (cs : bool) (ord : list str) (fs : list field) : list field :=
    flat_map (fun k => filter (has_key_gen cs k) fs) ord ++ filter (unlisted_gen cs ord) fs.

  (* ---------------------------------------------------------------- key normalisation *)
  Definition lkey_gen (f : field) : str := lowerU (fkey f).

  (* the last field of fs whose lower-cased key is k *)
  Fixpoint last_with_gen (k : str) (fs : list field) : option field :=
    match fs with
    | [] => None
    | f :: r => match last_with_gen k r with
                | Some g => Some g
                | None => if str_eqb (lkey_gen f) k then Some f else None
                end
    end.

  (* what holds for EVERY lower(): *)
  Definition normalize_spec_gen (fs out : list field) : Prop :=
    (* keys: the lower() of the source keys, unique, in the order of first occurrences *)
    map fkey out = keep_first (map lkey_gen fs)
    /\ NoDup (map fkey out)
    (* each key keeps the value (and start line) of its last occurrence; so no value is changed or invented *)
    /\ (forall o, In o out ->
          exists g, last_with_gen (fkey o) fs = Some g /\ In g fs /\ fkey o = lowerU (fkey g)
                    /\ fval o = fval g /\ fline o = fline g).

  (* "all field keys are lower-case" = lower() leaves them as they are; this is where idempotence of lower()
     is needed (and all that it is needed for, besides idempotence of the middleware) *)
  Definition keys_lower_gen (out : list field) : Prop := Forall (fun o => lowerU (fkey o) = fkey o) out.

  Definition lower_idempotent : Prop := forall s, lowerU (lowerU s) = lowerU s.
End Gen.
