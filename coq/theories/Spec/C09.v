(* C09: duplicate keys are never merged or dropped: first wins, the rest are flagged.
   The specification looks at each block and at the blocks BEFORE it; it does not mention the library's indexes. *)
From Coq Require Import List NArith ZArith Bool.
From BP Require Import Base.Chars Model.Blocks Model.LibAdd.
Import ListNotations.

(* the first Entry (resp. String) block with key k among bs *)
Fixpoint first_entry (k : str) (bs : list block) : option block :=
  match bs with
  | [] => None
  | (BEntry _ _ k' _ as b) :: r => if str_eqb k k' then Some b else first_entry k r
  | _ :: r => first_entry k r
  end.
Fixpoint first_string (k : str) (bs : list block) : option block :=
  match bs with
  | [] => None
  | (BString _ k' _ as b) :: r => if str_eqb k k' then Some b else first_string k r
  | _ :: r => first_string k r
  end.

(* what becomes of block b, given the source blocks before it *)
Definition flagged (before : list block) (b : block) : block :=
  match b with
  | BEntry h _ k _ =>
      match first_entry k before with
      | Some p => BDupKey (mkhdr (sl h) (raw h) []) k p b      (* same position, exposes key, first block, complete duplicate *)
      | None => b
      end
  | BString h k _ =>
      match first_string k before with
      | Some p => BDupKey (mkhdr (sl h) (raw h) []) k p b
      | None => b
      end
  | _ => b                                                   (* incl. duplicate-field blocks: never registered *)
  end.

Fixpoint flag_all (before : list block) (bs : list block) : list block :=
  match bs with
  | [] => []
  | b :: r => flagged before b :: flag_all (before ++ [b]) r
  end.

(* the live block of a key: the first source Entry (String) block with that key *)
Definition live_entry (bs : list block) (k : str) : option block := first_entry k bs.
Definition live_string (bs : list block) (k : str) : option block := first_string k bs.
