(* C08: what the property says about a library after any history of add / remove / replace. *)
From Coq Require Import List NArith ZArith Bool Permutation.
From BP Require Import Base.Chars Model.Blocks Model.Entry Model.Library.
Import ListNotations.

(* the Entry / String blocks among the held blocks, in block order *)
Definition held_entries (l : lib) : list oblock := filter is_entry_ob (blocks l).
Definition held_strings (l : lib) : list oblock := filter is_string_ob (blocks l).

(* a dict view maps exactly the keys of the held blocks [hs] to those very objects *)
Definition maps_exactly (d : list (str * oblock)) (hs : list oblock) : Prop :=
  NoDup (map fst d) /\ forall k b, dict_get d k = Some b <-> (In b hs /\ okey b = k).

Definition Inv (l : lib) : Prop :=
  (* entries are exactly the Entry blocks, in block order *)
  v_entries l = held_entries l
  (* entries_dict / strings_dict map exactly the keys of the held entries / strings to those objects *)
  /\ maps_exactly (v_entries_dict l) (held_entries l)
  /\ maps_exactly (v_strings_dict l) (held_strings l)
  (* no two held entries (strings) share a key *)
  /\ NoDup (map okey (held_entries l)) /\ NoDup (map okey (held_strings l))
  (* strings are exactly the String blocks, in block order *)
  /\ v_strings l = held_strings l
  (* the five class views partition blocks: together they hold every block exactly once *)
  /\ Permutation (v_entries l ++ v_strings l ++ v_preambles l ++ v_comments l ++ v_failed l) (v_blocks l)
  (* and the list views are in block order *)
  /\ v_preambles l = filter is_preamble_ob (blocks l) /\ v_comments l = filter is_comment_ob (blocks l)
  /\ v_failed l = filter is_failed_ob (blocks l).

(* ------------------------------------------------------------------ histories *)
(* the only wrappers a caller can pass are wrappers the library made earlier *)
Definition arg_wf (l : lib) (b : oblock) : Prop :=
  match b with ODup i _ _ _ _ => (i < next l)%N | OB _ _ => True end.
Definition op_wf (l : lib) (o : lop) : Prop :=
  match o with
  | LAdd bs _ | LRemove bs => Forall (arg_wf l) bs
  | LReplace a b _ => arg_wf l a /\ arg_wf l b
  end.

(* the states a library can be in: empty, then any number of calls (raising or not) *)
Inductive reachable : lib -> Prop :=
| reach_empty n : reachable (empty_lib n)
| reach_step l o : reachable l -> op_wf l o -> reachable (fst (apply l o)).

(* ------------------------------------------------------------------ order *)
(* what add / replace put into the list for the argument b: b itself or a duplicate wrapper around it *)
Definition placed (x b : oblock) : Prop :=
  x = b \/ exists i h p di db, b = OB di db /\ x = ODup i h (okey b) p (di, db).

(* bl' is bl without its first item == b *)
Definition removes_first (b : oblock) (bl bl' : list oblock) : Prop :=
  exists pre y post, bl = pre ++ y :: post /\ ob_py_eq y b = true /\ Forall (fun z => ob_py_eq z b = false) pre
                     /\ bl' = pre ++ post.
Fixpoint removes_all (bs : list oblock) (bl bl' : list oblock) : Prop :=
  match bs with
  | [] => bl' = bl
  | b :: r => exists mid, removes_first b bl mid /\ removes_all r mid bl'
  end.

(* ------------------------------------------------------------------ "equal to what it was" *)
(* Python compares list items and dict values with  x is y or x == y *)
Definition ob_eq (a b : oblock) : Prop := a = b \/ ob_py_eq a b = true.
Definition dict_equal (d1 d2 : list (str * oblock)) : Prop :=
  forall k, match dict_get d1 k, dict_get d2 k with
            | Some a, Some b => ob_eq a b
            | None, None => True
            | _, _ => False
            end.
Definition list_equal (a b : list oblock) : Prop := Forall2 ob_eq a b.
(* before == after on all eight views (lists in order, dicts as mappings) *)
Definition lib_equal (before after : lib) : Prop :=
  list_equal (v_blocks before) (v_blocks after)
  /\ list_equal (v_entries before) (v_entries after)
  /\ dict_equal (v_entries_dict before) (v_entries_dict after)
  /\ list_equal (v_strings before) (v_strings after)
  /\ dict_equal (v_strings_dict before) (v_strings_dict after)
  /\ list_equal (v_preambles before) (v_preambles after)
  /\ list_equal (v_comments before) (v_comments after)
  /\ list_equal (v_failed before) (v_failed after).

(* finding K1: add(..., fail_on_duplicate_key=True) *)
Definition known_K1 (o : lop) : Prop := exists bs, o = LAdd bs true.
