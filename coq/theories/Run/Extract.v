(* Extraction of the executable model.  ExtrOcamlBasic only: bool, option, unit, list, prod, sumbool map to
   OCaml's; N / Z / positive stay Coq's binary datatypes.  No Extract Constant, no further Extract Inductive. *)
Require Extraction.
Require Import ExtrOcamlBasic.
From BP Require Import Base.Sx Run.Dispatch.
Separate Extraction Sx.sx Dispatch.run_case.
