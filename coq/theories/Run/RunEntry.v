(* ops 20-29: Entry as a mapping, and Python == of fields / blocks.
   (20 entry-block (op...))   [views only after mutating calls and after the last call]   op: (0 field) set_field | (1 key value) e[key]=value | (2 key (default?)) pop |
                                  (3 key) del e[key] | (4 key (default?)) get | (5 key) in | (6 key) e[key]
      -> ok ((result fields fields_dict items) ...)   one element per call
         result: (0) None | (1 field) | (2 value) | (3 bool) | (4 exc-code)
   (21 0 blockA blockB) / (21 1 fieldA fieldB) -> ok (a==b  b==a) *)
From Coq Require Import List NArith ZArith Bool.
From BP Require Import Base.Chars Base.Sx Model.Blocks Run.Codec Model.Entry.
Import ListNotations.
Local Open Scope Z_scope.

Definition dec_eop (x : sx) : option eop :=
  match x with
  | L [A 0; f] => option_map OSetField (dec_field f)
  | L [A 1; k; v] => match as_str k, dec_value v with Some k', Some v' => Some (OSetItem k' v') | _, _ => None end
  | L [A 2; k; d] => match as_str k, as_opt dec_value d with Some k', Some d' => Some (OPop k' d') | _, _ => None end
  | L [A 3; k] => option_map ODel (as_str k)
  | L [A 4; k; d] => match as_str k, as_opt dec_value d with Some k', Some d' => Some (OGet k' d') | _, _ => None end
  | L [A 5; k] => option_map OIn (as_str k)
  | L [A 6; k] => option_map OGetItem (as_str k)
  | _ => None
  end.

Definition enc_eres (r : eres) : sx :=
  match r with
  | RNone => L [A 0]
  | RField f => L [A 1; enc_field f]
  | RVal v => L [A 2; enc_value v]
  | RBool b => L [A 3; sbool b]
  | RKeyError => L [A 4; A 3]
  | RValueError => L [A 4; A 1]
  end.

Definition enc_state (e : ent) : list sx :=
  [ slist enc_field (efields e);
    slist (fun kf => L [sstr (fst kf); enc_field (snd kf)]) (fields_dict (efields e));
    slist (fun kv => L [sstr (fst kv); enc_value (snd kv)]) (items e) ].

Definition eop_modelled (o : eop) : bool :=
  match o with
  | OSetField f => field_modelled f
  | OSetItem _ v => value_modelled v
  | OPop _ (Some v) | OGet _ (Some v) => value_modelled v
  | _ => true
  end.

(* the three views are written after every mutating call and after the last call *)
Definition is_mutator (o : eop) : bool :=
  match o with OSetField _ | OSetItem _ _ | OPop _ _ | ODel _ => true | _ => false end.
Fixpoint enc_trace (ops : list eop) (tr : list (eres * ent)) : list sx :=
  match ops, tr with
  | o :: ops', (r, e) :: tr' =>
      L (enc_eres r :: (if is_mutator o || (match ops' with [] => true | _ => false end) then enc_state e else []))
      :: enc_trace ops' tr'
  | _, _ => []
  end.

Definition run_entry (op : Z) (args : list sx) : sx :=
  if op =? 20 then
    match args with
    | [b; os] =>
        match dec_block b, as_list dec_eop os with
        | Some (BEntry _ t k fs), Some ops =>
            r_ok (L (enc_trace ops (trace ops (mkent t k fs))))
        | _, _ => sx_err
        end
    | _ => sx_err
    end
  else if op =? 21 then
    match args with
    | [A 0; a; b] =>
        match dec_block a, dec_block b with
        | Some a', Some b' =>
            if block_modelled a' && block_modelled b' then r_ok (L [sbool (block_py_eq a' b'); sbool (block_py_eq b' a')])
            else r_skip
        | _, _ => sx_err
        end
    | [A 1; a; b] =>
        match dec_field a, dec_field b with
        | Some a', Some b' =>
            if field_modelled a' && field_modelled b' then r_ok (L [sbool (field_py_eq a' b'); sbool (field_py_eq b' a')])
            else r_skip
        | _, _ => sx_err
        end
    | _ => sx_err
    end
  else sx_err.
