(* ops 20-29: Entry as a mapping, and Python == of fields / blocks.
   (20 entry-block (op...))   [views only after mutating calls and after the last call]   op: (0 field) set_field | (1 key value) e[key]=value | (2 key (default?)) pop |
                                  (3 key) del e[key] | (4 key (default?)) get | (5 key) in | (6 key) e[key]
      -> ok ((result fields fields_dict items) ...)   one element per call
         result: (0) None | (1 field) | (2 value) | (3 bool) | (4 exc-code)
   (21 0 blockA blockB) / (21 1 fieldA fieldB) -> ok (a==b  b==a)
   (25 store entries program)   several entries over one store of Field OBJECTS (Model/EntryObj.v)
      store:   ((id field) ...)          the Field objects that exist before the program; ids are distinct naturals
                                         (number them 1..n: the k-th object the program creates then gets the id n+k;
                                          in general a new object gets 1 + the largest id so far)
      entries: ((type key (id ...)) ...) each entry: its type, its key, the ids of the objects in its field list, in order
      program: (step ...)   step:  (0 n call)     a call on entry number n (0-based)
                                   (1 id value)   obj.value = value   the caller's own write to a Field object (not the mapping interface)
                                   (2 id key)     obj.key = key
               call: as in op 20  (0 field) set_field(Field(key, value, line)), a new object | (1 key value) e[key]=value |
                     (2 key (default?)) pop | (3 key) del e[key] | (4 key (default?)) get | (5 key) in | (6 key) e[key]
                     and  (7 id) set_field(obj)  with an object that exists at that time
      -> ok ((result (entry-view ...) ((id field) ...)) ...)   one element per step: the result, every entry, every object
         result:     (0) None (also for the steps 1 and 2) | (1 id field) the object returned and what it shows |
                     (2 value) | (3 bool) | (4 exc-code)
         entry-view: ((id ...) (field ...) ((key id) ...) ((key value) ...))   ids of the field list, fields read through
                     the store, fields_dict as key -> object id, items()
         objects:    every object of the store with what it shows now, oldest first
      -> sx_err if an id is used that does not exist at that time, an entry number is out of range or the store lists an id twice *)
From Coq Require Import List NArith ZArith Bool.
From BP Require Import Base.Chars Base.Sx Model.Blocks Run.Codec Model.Entry Model.EntryObj.
Import ListNotations.
Local Open Scope Z_scope.

Definition dec_eop (x : sx) : option eop :=
  match x with
  | L [A 0; f] => option_map OSetField (dec_field f)
  | L [A 1; k; v] => match as_str k, dec_value v with Some k', Some v' => Some (OSetItem k' v') | _, _ => None end
  | L [A 2; k; d] => match as_str k, as_opt dec_value d with Some k', Some d' => Some (OPop k' d') | _, _ => None end
  | L [A 3; k] => option_map ODel (as_str k)
  | L [A 4; k; d] => match as_str k, as_opt dec_value d with Some k', Some d' => Some (OGet k' d') | _, _ => None end
  | L [A 5; k] => option_map OIn (as_str k)
  | L [A 6; k] => option_map OGetItem (as_str k)
  | _ => None
  end.

Definition enc_eres (r : eres) : sx :=
  match r with
  | RNone => L [A 0]
  | RField f => L [A 1; enc_field f]
  | RVal v => L [A 2; enc_value v]
  | RBool b => L [A 3; sbool b]
  | RKeyError => L [A 4; A 3]
  | RValueError => L [A 4; A 1]
  end.

Definition enc_state (e : ent) : list sx :=
  [ slist enc_field (efields e);
    slist (fun kf => L [sstr (fst kf); enc_field (snd kf)]) (fields_dict (efields e));
    slist (fun kv => L [sstr (fst kv); enc_value (snd kv)]) (items e) ].

Definition eop_modelled (o : eop) : bool :=
  match o with
  | OSetField f => field_modelled f
  | OSetItem _ v => value_modelled v
  | OPop _ (Some v) | OGet _ (Some v) => value_modelled v
  | _ => true
  end.

(* the three views are written after every mutating call and after the last call *)
Definition is_mutator (o : eop) : bool :=
  match o with OSetField _ | OSetItem _ _ | OPop _ _ | ODel _ => true | _ => false end.
Fixpoint enc_trace (ops : list eop) (tr : list (eres * ent)) : list sx :=
  match ops, tr with
  | o :: ops', (r, e) :: tr' =>
      L (enc_eres r :: (if is_mutator o || (match ops' with [] => true | _ => false end) then enc_state e else []))
      :: enc_trace ops' tr'
  | _, _ => []
  end.

(* ---- op 25: programs over several entries sharing Field objects *)
Inductive xstep :=
| XCall (n : nat) (o : oop)
| XSetValue (i : oid) (v : value)          (* obj.value = v *)
| XSetKey (i : oid) (k : str).             (* obj.key = k *)

Definition dec_oop (x : sx) : option oop :=
  match x with
  | L [A 0; f] => option_map PSetNew (dec_field f)
  | L [A 1; k; v] => match as_str k, dec_value v with Some k', Some v' => Some (PSetItem k' v') | _, _ => None end
  | L [A 2; k; d] => match as_str k, as_opt dec_value d with Some k', Some d' => Some (PPop k' d') | _, _ => None end
  | L [A 3; k] => option_map PDel (as_str k)
  | L [A 4; k; d] => match as_str k, as_opt dec_value d with Some k', Some d' => Some (PGet k' d') | _, _ => None end
  | L [A 5; k] => option_map PIn (as_str k)
  | L [A 6; k] => option_map PGetItem (as_str k)
  | L [A 7; i] => option_map PSetObj (as_nat i)
  | _ => None
  end.

Definition dec_xstep (x : sx) : option xstep :=
  match x with
  | L [A 0; n; c] => match as_nat n, dec_oop c with Some n', Some c' => Some (XCall n' c') | _, _ => None end
  | L [A 1; i; v] => match as_nat i, dec_value v with Some i', Some v' => Some (XSetValue i' v') | _, _ => None end
  | L [A 2; i; k] => match as_nat i, as_str k with Some i', Some k' => Some (XSetKey i' k') | _, _ => None end
  | _ => None
  end.

Definition dec_obj (x : sx) : option (oid * field) :=
  match x with
  | L [i; f] => match as_nat i, dec_field f with Some i', Some f' => Some (i', f') | _, _ => None end
  | _ => None
  end.
Definition dec_oent (x : sx) : option oent :=
  match x with
  | L [t; k; ids] =>
      match as_str t, as_str k, as_list as_nat ids with
      | Some t', Some k', Some ids' => Some (mkoent t' k' ids')
      | _, _, _ => None
      end
  | _ => None
  end.

Fixpoint dedup (seen l : list oid) : list oid :=
  match l with
  | [] => []
  | i :: r => if mem_oid i seen then dedup seen r else i :: dedup (i :: seen) r
  end.
Definition no_dup_ids (l : list oid) : bool := Nat.eqb (List.length (dedup [] l)) (List.length l).

Definition enc_ores (s : fstore) (r : ores) : sx :=
  match r with
  | ONone => L [A 0]
  | OObj i => L [A 1; snat i; enc_field (sget s i)]
  | OVal v => L [A 2; enc_value v]
  | OBool b => L [A 3; sbool b]
  | OKeyError => L [A 4; A 3]
  | OValueError => L [A 4; A 1]
  end.
Definition enc_oent (s : fstore) (e : oent) : sx :=
  L [ slist snat (oids e);
      slist enc_field (abs_ids s (oids e));
      slist (fun ki => L [sstr (fst ki); snat (snd ki)]) (ofields_dict s (oids e));
      slist (fun kv => L [sstr (fst kv); enc_value (snd kv)]) (oitems s e) ].
Definition enc_store (s : fstore) : sx :=
  slist (fun i => L [snat i; enc_field (sget s i)]) (dedup [] (rev (sdom s))).
Definition enc_world (w : world) : list sx := [slist (enc_oent (wstore w)) (wents w); enc_store (wstore w)].

(* one step, or None if it is not a program step in this world *)
Definition xstep_run (w : world) (x : xstep) : option (world * ores) :=
  match x with
  | XCall n o =>
      if Nat.ltb n (List.length (wents w)) && op_okb (wstore w) o then Some (wstep w (n, o)) else None
  | XSetValue i v =>
      if mem_oid i (sdom (wstore w)) then Some (mkworld (field_set_value (wstore w) i v) (wents w), ONone) else None
  | XSetKey i k =>
      if mem_oid i (sdom (wstore w)) then Some (mkworld (field_set_key (wstore w) i k) (wents w), ONone) else None
  end.
Fixpoint xrun (xs : list xstep) (w : world) : option (list sx) :=
  match xs with
  | [] => Some []
  | x :: r =>
      match xstep_run w x with
      | None => None
      | Some (w1, res) =>
          match xrun r w1 with
          | None => None
          | Some out => Some (L (enc_ores (wstore w1) res :: enc_world w1) :: out)
          end
      end
  end.

Definition run_entry (op : Z) (args : list sx) : sx :=
  if op =? 25 then
    match args with
    | [st; es; pr] =>
        match as_list dec_obj st, as_list dec_oent es, as_list dec_xstep pr with
        | Some objs, Some ents, Some prog =>
            (* the wire lists the oldest object first; the store keeps the newest binding first *)
            let s := rev objs in
            if no_dup_ids (sdom s) && forallb (ent_okb s) ents then
              match xrun prog (mkworld s ents) with
              | Some out => r_ok (L out)
              | None => sx_err
              end
            else sx_err
        | _, _, _ => sx_err
        end
    | _ => sx_err
    end
  else if op =? 20 then
    match args with
    | [b; os] =>
        match dec_block b, as_list dec_eop os with
        | Some (BEntry _ t k fs), Some ops =>
            r_ok (L (enc_trace ops (trace ops (mkent t k fs))))
        | _, _ => sx_err
        end
    | _ => sx_err
    end
  else if op =? 21 then
    match args with
    | [A 0; a; b] =>
        match dec_block a, dec_block b with
        | Some a', Some b' =>
            if block_modelled a' && block_modelled b' then r_ok (L [sbool (block_py_eq a' b'); sbool (block_py_eq b' a')])
            else r_skip
        | _, _ => sx_err
        end
    | [A 1; a; b] =>
        match dec_field a, dec_field b with
        | Some a', Some b' =>
            if field_modelled a' && field_modelled b' then r_ok (L [sbool (field_py_eq a' b'); sbool (field_py_eq b' a')])
            else r_skip
        | _, _ => sx_err
        end
    | _ => sx_err
    end
  else sx_err.
