(* ops 110-119: string interpolation.  Input: the block list the library is built from (duplicates unwrapped).
   110 (blocks) -> blocks    ResolveStringReferencesMiddleware.transform(Library(blocks)).blocks
   111 (blocks) -> blocks    default parse stack: resolve, then RemoveEnclosingMiddleware
   112 (blocks) -> blocks    the other order: remove, then resolve *)
From Coq Require Import List NArith ZArith Bool.
From BP Require Import Base.Chars Base.Sx Model.Blocks Model.LibAdd Run.Codec Model.Enclosing Model.Interpolate Run.RunEnclosing.
Import ListNotations.
Local Open Scope Z_scope.

Definition run_interpolate (op : Z) (args : list sx) : sx :=
  match args with
  | [bs] =>
      match dec_blocks bs with
      | Some blocks =>
          if op =? 110 then r_ok (enc_lib (resolve_lib blocks))
          else if op =? 111 then enc_res enc_lib (default_stack blocks)
          else if op =? 112 then enc_res enc_lib (swapped_stack blocks)
          else sx_err
      | None => sx_err
      end
  | _ => sx_err
  end.
