(* op 10: month middlewares.  (10 (kinds...) block) *)
From Coq Require Import List NArith ZArith Bool.
From BP Require Import Base.Chars Base.Sx Model.Blocks Run.Codec Model.Month.
Import ListNotations.
Local Open Scope Z_scope.

Definition dec_mkind (x : sx) : option mkind :=
  match x with A 0 => Some MInt | A 1 => Some MAbbrev | A 2 => Some MLong | _ => None end.

Definition run_month (op : Z) (args : list sx) : sx :=
  match args with
  | [ks; b] =>
      match as_list dec_mkind ks, dec_block b with
      | Some kinds, Some blk =>
          match fold_left (fun (acc : bres) k => match acc with BVal x => month_entry k x | o => o end)
                          kinds (BVal blk) with
          | BVal b' => r_ok (enc_block b')
          | BRaise => r_exc 1
          | BSkip => r_skip
          end
      | _, _ => sx_err
      end
  | _ => sx_err
  end.
