(* op 10: month middlewares.  (10 (kinds...) block) *)
From Coq Require Import List NArith ZArith Bool.
From BP Require Import Base.Chars Base.Sx Model.Blocks Run.Codec Model.Month.
Import ListNotations.
Local Open Scope Z_scope.

Definition dec_mkind (x : sx) : option mkind :=
  match x with A 0 => Some MInt | A 1 => Some MAbbrev | A 2 => Some MLong | _ => None end.

Definition run_month (op : Z) (args : list sx) : sx :=
  match args with
  | [ks; b] =>
      match as_list dec_mkind ks, dec_block b with
      | Some kinds, Some blk =>
          match fold_left (fun (acc : bres) k => match acc with BVal x => month_entry k x | o => o end)
                          kinds (BVal blk) with
          | BVal b' => r_ok (enc_block b')
          | BRaise => r_exc 1
          | BSkip => r_skip
          end
      | _, _ => sx_err
      end
  | _ => sx_err
  end.

(* op 11: one middleware sequence over a library of several blocks (each middleware instance sees every block):
   (11 (kinds...) (block...)); the model is stateless, so this is the map of op 10 *)
Definition run_month_lib (args : list sx) : sx :=
  match args with
  | [ks; L bs] =>
      match as_list dec_mkind ks, as_list dec_block (L bs) with
      | Some kinds, Some blks =>
          let rs := map (fun blk => fold_left (fun (acc : bres) k => match acc with BVal x => month_entry k x | o => o end)
                                              kinds (BVal blk)) blks in
          if existsb (fun r => match r with BSkip => true | _ => false end) rs then r_skip
          else if existsb (fun r => match r with BRaise => true | _ => false end) rs then r_exc 1
          else r_ok (L (map (fun r => match r with BVal b' => enc_block b' | _ => sx_err end) rs))
      | _, _ => sx_err
      end
  | _ => sx_err
  end.

Definition run_month_any (op : Z) (args : list sx) : sx :=
  if op =? 11 then run_month_lib args else run_month op args.
