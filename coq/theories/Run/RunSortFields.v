(* op 40: field sorting / key normalisation through BlockMiddleware.transform.
   (40 (steps...) (blocks...))   step = (0) alphabetical | (1 case_sensitive as_tuple (order strs)) custom | (2) normalize
   All middlewares are constructed first (a constructor ValueError is the result), then applied in order. *)
From Coq Require Import List NArith ZArith Bool.
From BP Require Import Base.Chars Base.Sx Model.Blocks Run.Codec Model.LibRebuild Model.SortFields Model.FieldKeys.
Import ListNotations.
Local Open Scope Z_scope.

Inductive fstep := SAlpha | SCustom (cs tup : bool) (order : list str) | SNorm.

Definition dec_fstep (x : sx) : option fstep :=
  match x with
  | L [A 0] => Some SAlpha
  | L [A 1; cs; tup; o] =>
      match as_bool cs, as_bool tup, as_strs o with
      | Some cs', Some tup', Some o' => Some (SCustom cs' tup' o')
      | _, _, _ => None
      end
  | L [A 2] => Some SNorm
  | _ => None
  end.

(* None = some constructor raised ValueError *)
Fixpoint build_steps (l : list fstep) : option (list (block -> block)) :=
  match l with
  | [] => Some []
  | s :: r =>
      match (match s with
             | SAlpha => Some alpha_block
             | SNorm => Some normalize_block
             | SCustom cs tup o => match custom_ctor cs o with
                                   | Some ord => Some (custom_block cs tup ord)
                                   | None => None
                                   end
             end), build_steps r with
      | Some f, Some fs => Some (f :: fs)
      | _, _ => None
      end
  end.

Definition run_sortfields (op : Z) (args : list sx) : sx :=
  match args with
  | [ss; bs] =>
      match as_list dec_fstep ss, dec_blocks bs with
      | Some steps, Some blocks =>
          match build_steps steps with
          | None => r_exc 1
          | Some fs => r_ok (enc_blocks (fold_left (fun acc f => block_mw f acc) fs blocks))
          end
      | _, _ => sx_err
      end
  | _ => sx_err
  end.
