(* op 50: SortBlocksByTypeAndKeyMiddleware.   (50 times preserve (order class codes...) (blocks...)) *)
From Coq Require Import List NArith ZArith Bool.
From BP Require Import Base.Chars Base.Sx Model.Blocks Run.Codec Model.SortBlocks.
Import ListNotations.
Local Open Scope Z_scope.

Fixpoint iter_n {T} (n : nat) (f : T -> T) (x : T) : T :=
  match n with O => x | S m => iter_n m f (f x) end.

Definition run_sortblocks (op : Z) (args : list sx) : sx :=
  match args with
  | [t; p; o; bs] =>
      match as_nat t, as_bool p, as_list as_N o, dec_blocks bs with
      | Some times, Some preserve, Some order, Some blocks =>
          r_ok (enc_blocks (iter_n times (sort_transform preserve order) blocks))
      | _, _, _, _ => sx_err
      end
  | _ => sx_err
  end.
