(* ops 100-109: enclosing middlewares.
   100 (str)                          -> (stripped enclosing)            RemoveEnclosingMiddleware._strip_enclosing
   101 (cfg value (md)? apply_int)    -> value                           AddEnclosingMiddleware._enclose
   102 (steps blocks)                 -> blocks                          middlewares applied to Library(blocks)
        step = (0) remove | (1 cfg) add ;  cfg = (reuse enclose_integers default_enclosing)
   Libraries travel as block lists; on output the previous_block of a duplicate wrapper is abstracted to its key
   (harness: enc_block(..., abstract_prev=True)). *)
From Coq Require Import List NArith ZArith Bool.
From BP Require Import Base.Chars Base.Sx Model.Blocks Model.LibAdd Run.Codec Model.Enclosing.
Import ListNotations.
Local Open Scope Z_scope.

Definition key_of (b : block) : str :=
  match b with BEntry _ _ k _ | BString _ k _ | BDupKey _ k _ _ => k | _ => [] end.

Fixpoint abs_prev (b : block) : block :=
  match b with
  | BDupKey h k p d => BDupKey h k (BImpl hdr0 (key_of p)) (abs_prev d)
  | BMwErr h e i => BMwErr h e (abs_prev i)
  | BDupField h ks e => BDupField h ks (abs_prev e)
  | _ => b
  end.
Definition enc_lib (bs : list block) : sx := enc_blocks (map abs_prev bs).

Definition dec_cfg (x : sx) : option addcfg :=
  match x with
  | L [r; e; d] => match as_bool r, as_bool e, as_str d with
                   | Some r', Some e', Some d' => Some (mkadd r' e' d')
                   | _, _, _ => None end
  | _ => None
  end.

Inductive step := SRemove | SAdd (c : addcfg).
Definition dec_step (x : sx) : option step :=
  match x with
  | L [A 0] => Some SRemove
  | L [A 1; c] => option_map SAdd (dec_cfg c)
  | _ => None
  end.
Definition run_step (s : step) (bs : list block) : res (list block) :=
  match s with SRemove => remove_lib bs | SAdd c => add_lib c bs end.

Definition enc_res {T} (f : T -> sx) (r : res T) : sx :=
  match r with Val x => r_ok (f x) | Raise c => r_exc c | Skip => r_skip end.

Definition run_enclosing (op : Z) (args : list sx) : sx :=
  if op =? 100 then
    match args with
    | [s] => match as_str s with
             | Some s' => let (w, e) := strip_enclosing s' in r_ok (L [sstr w; sstr e])
             | None => sx_err end
    | _ => sx_err
    end
  else if op =? 101 then
    match args with
    | [c; v; md; ai] =>
        match dec_cfg c, dec_value v, as_opt dec_value md, as_bool ai with
        | Some c', Some v', Some md', Some ai' => enc_res enc_value (enclose c' v' md' ai')
        | _, _, _, _ => sx_err
        end
    | _ => sx_err
    end
  else if op =? 102 then
    match args with
    | [ss; bs] =>
        match as_list dec_step ss, dec_blocks bs with
        | Some steps, Some blocks =>
            enc_res enc_lib
              (fold_left (fun (acc : res (list block)) s => match acc with Val x => run_step s x | o => o end)
                         steps (Val (lblocks (lib_of blocks))))
        | _, _ => sx_err
        end
    | _ => sx_err
    end
  else sx_err.
