(* ops 160-179: the heap model of the middleware framework (C07).
   Wire format (harness/heapsnap.py):  pv = (0 atom) | (1 oid);  obj = (0 pv...) | (1 (key pv)...) | (2 cls (attr pv)...);
   heap = ((oid obj)...) with the input objects numbered 1..n in traversal order.
   Result: r_ok ((canonical heap) (roots...)): the input objects 1..n keep their numbers, every other object reachable
   from an input object or from a result root is numbered n+1, n+2, ... in depth-first order of first encounter
   (inputs 1..n in order, then the result roots) - the same canonicalisation is applied to the real object graph. *)
From Coq Require Import List NArith ZArith Bool Arith.
From BP Require Import Base.Chars Base.Sx Run.Codec Model.Heap Model.HeapMw Model.HeapBodies.
Import ListNotations.
Local Open Scope Z_scope.

(* ------------------------------------------------------------------ decoding *)
Definition dec_pv (x : sx) : option pv :=
  match x with
  | L [A 0; A a] => Some (PAtom a)
  | L [A 1; o] => do n <- as_nat o; Some (PRef n)
  | _ => None
  end.
Definition dec_kv (x : sx) : option (Z * pv) :=
  match x with L [A k; v] => do v' <- dec_pv v; Some (k, v') | _ => None end.
Definition dec_obj (x : sx) : option obj :=
  match x with
  | L (A 0 :: l) => do l' <- all_some (map dec_pv l); Some (OList l')
  | L (A 1 :: l) => do l' <- all_some (map dec_kv l); Some (ODict l')
  | L (A 2 :: A c :: l) => do l' <- all_some (map dec_kv l); Some (OInst c l')
  | _ => None
  end.
Definition dec_binding (x : sx) : option (nat * obj) :=
  match x with L [o; ob] => do n <- as_nat o; do ob' <- dec_obj ob; Some (n, ob') | _ => None end.
Definition dec_heap (x : sx) : option heap := as_list dec_binding x.

(* ------------------------------------------------------------------ canonical view *)
Fixpoint cvisit (fuel : nat) (h : heap) (n : nat) (st : list nat) (o : nat) : list nat :=
  match fuel with
  | O => st
  | S f =>
      if (Nat.leb o n) || mem_nat o st then st
      else match lookup h o with
           | None => o :: st
           | Some ob => fold_left (fun s q => cvisit f h n s q) (refs_of ob) (o :: st)
           end
  end.

Fixpoint index_of (o : nat) (l : list nat) (i : nat) : nat :=
  match l with [] => i | x :: r => if Nat.eqb x o then i else index_of o r (S i) end.

Definition ren (n : nat) (order : list nat) (o : nat) : nat :=
  if Nat.leb o n then o else (n + 1 + index_of o order 0)%nat.

Definition enc_pv (n : nat) (order : list nat) (v : pv) : sx :=
  match v with PAtom a => L [A 0; A a] | PRef o => L [A 1; snat (ren n order o)] end.
Definition enc_kv (n : nat) (order : list nat) (kv : Z * pv) : sx := L [A (fst kv); enc_pv n order (snd kv)].
Definition enc_obj (n : nat) (order : list nat) (ob : option obj) : sx :=
  match ob with
  | Some (OList l) => L (A 0 :: map (enc_pv n order) l)
  | Some (ODict d) => L (A 1 :: map (enc_kv n order) d)
  | Some (OInst c a) => L (A 2 :: A c :: map (enc_kv n order) a)
  | None => L [A (-1)]
  end.

Definition canon (h : heap) (n : nat) (roots : list pv) : sx :=
  let fuel := S (length h) in
  let inputs := seq 1 n in
  let st1 := fold_left (fun st i => match lookup h i with
                                    | Some ob => fold_left (fun s q => cvisit fuel h n s q) (refs_of ob) st
                                    | None => st end) inputs [] in
  let st2 := fold_left (fun st q => cvisit fuel h n st q) (flat_map pv_refs roots) st1 in
  let order := rev st2 in
  L [ L (map (fun o => L [snat (ren n order o); enc_obj n order (lookup h o)]) (inputs ++ order));
      L (map (enc_pv n order) roots) ].

Definition out_lib (n : nat) (r : option (heap * nat)) : sx :=
  match r with
  | Some (h, lib) => r_ok (canon h n [PRef lib])
  | None => r_exc 4
  end.

(* ------------------------------------------------------------------ ops *)
Definition dec_consts (x : sx) : option (Z * Z * Z) :=
  match x with L [A c; A kp; A kdup] => Some (c, kp, kdup) | _ => None end.

(* ------------------------------------------------------------------ shipped bodies: (kind args...) *)
Definition as_zl (x : sx) : option (list Z) := as_list as_Z x.
Definition as_zll (x : sx) : option (list (list Z)) := as_list as_zl x.
Definition dec_row3 (x : sx) : option (Z * (Z * Z)) :=
  match x with L [A a; A b; A c] => Some (a, (b, c)) | _ => None end.
Definition dec_row2 (x : sx) : option (Z * Z) := match x with L [A a; A b] => Some (a, b) | _ => None end.
Definition dec_rank (x : sx) : option (Z * nat) := match x with L [A a; n] => do n' <- as_nat n; Some (a, n') | _ => None end.
Definition dec_lrow (x : sx) : option (list Z * Z) := match x with L [k; A v] => do k' <- as_zl k; Some (k', v) | _ => None end.
Definition dec_seprow (x : sx) : option (Z * list Z) := match x with L [A a; l] => do l' <- as_zl l; Some (a, l') | _ => None end.
Definition dec_splitrow (x : sx) : option (Z * option (list (list Z))) :=
  match x with
  | L [A a; A 0] => Some (a, None)
  | L [A a; A 1; p] => do p' <- as_zll p; Some (a, Some p')
  | _ => None
  end.
Definition dec_llrow (x : sx) : option (list (list Z) * Z) := match x with L [k; A v] => do k' <- as_zll k; Some (k', v) | _ => None end.
Definition dec_latexrow (x : sx) : option (Z * option (Z * bool)) :=
  match x with
  | L [A a] => Some (a, None)
  | L [A a; A n; e] => do e' <- as_bool e; Some (a, Some (n, e'))
  | _ => None
  end.
Definition dec_metaval (x : sx) : option metaval :=
  match x with L [A 0; A a] => Some (MVAtom a) | L [A 1; l] => do l' <- as_zl l; Some (MVList l') | _ => None end.

Definition dec_shipped (x : sx) : option shipped :=
  match x with
  | L [A 0; A k; t] => do t' <- as_list dec_row3 t; Some (SRemoveEnclosing k t')
  | L [A 1; A k; t] => do t' <- as_list dec_lrow t; Some (SAddEnclosing k t')
  | L [A 2; A km; A k; A mo; t] => do t' <- as_list dec_row3 t; Some (SMonth km k mo t')
  | L [A 3; t] => do t' <- as_list dec_row2 t; Some (SNormalizeFieldKeys t')
  | L [A 4; t; d; A k; mv] => do t' <- as_list dec_rank t; do d' <- as_nat d; do mv' <- dec_metaval mv; Some (SSortFields t' d' k mv')
  | L [A 5; nk; t] => do nk' <- as_zl nk; do t' <- as_list dec_seprow t; Some (SSeparateCoAuthors nk' t')
  | L [A 6; nk; t] => do nk' <- as_zl nk; do t' <- as_list dec_lrow t; Some (SMergeCoAuthors nk' t')
  | L [A 7; nk; t] => do nk' <- as_zl nk; do t' <- as_list dec_splitrow t; Some (SSplitNameParts nk' t')
  | L [A 8; nk; t] => do nk' <- as_zl nk; do t' <- as_list dec_llrow t; Some (SMergeNameParts nk' t')
  | L [A 9; t] => do t' <- as_list dec_latexrow t; Some (SLatex t')
  | _ => None
  end.

Definition dec_stage (x : sx) : option mw :=
  match x with
  | L [A 0; i; A p; cs] => do i' <- as_bool i; do c <- dec_consts cs;
                           let '(c1, kp, kd) := c in Some (MwBlock i' (probe_body p c1 kp kd))
  | L [A 1; i] => do i' <- as_bool i; Some (MwLibrary i')
  | L [A 2; i; bare; A k] => do i' <- as_bool i; do b <- as_list as_Z bare; Some (MwResolve i' b k)
  | L [A 3; perm] => do p <- as_list as_nat perm; Some (MwSort p)
  | L [A 4; i; sp] => do i' <- as_bool i; do s <- dec_shipped sp; Some (MwBlock i' (shipped_body s))
  | _ => None
  end.

Definition run_heap (op : Z) (args : list sx) : sx :=
  if op =? 160 then
    match args with
    | [i; A p; cs; hx; l] =>
        match as_bool i, dec_consts cs, dec_heap hx, as_nat l with
        | Some i', Some (c, kp, kd), Some h, Some lib =>
            out_lib (length h) (transform_block_mw deepcopy_exec i' (probe_body p c kp kd) h lib)
        | _, _, _, _ => sx_err
        end
    | _ => sx_err
    end
  else if op =? 161 then
    match args with
    | [i; hx; l] =>
        match as_bool i, dec_heap hx, as_nat l with
        | Some i', Some h, Some lib => out_lib (length h) (library_mw deepcopy_exec i' h lib)
        | _, _, _ => sx_err
        end
    | _ => sx_err
    end
  else if op =? 162 then
    match args with
    | [i; bare; A k; hx; l] =>
        match as_bool i, as_list as_Z bare, dec_heap hx, as_nat l with
        | Some i', Some b, Some h, Some lib => out_lib (length h) (resolve_mw deepcopy_exec i' b k h lib)
        | _, _, _, _ => sx_err
        end
    | _ => sx_err
    end
  else if op =? 163 then
    match args with
    | [perm; hx; l] =>
        match as_list as_nat perm, dec_heap hx, as_nat l with
        | Some p, Some h, Some lib => out_lib (length h) (sort_blocks_mw deepcopy_exec p h lib)
        | _, _, _ => sx_err
        end
    | _ => sx_err
    end
  else if op =? 164 then
    match args with
    | [A p; cs; A a1; A a2; hx; l; f] =>
        match dec_consts cs, dec_heap hx, as_nat l, as_nat f with
        | Some (c, kp, kd), Some h, Some lib, Some fmt =>
            match write_string_mw deepcopy_exec (probe_body p c kp kd) a1 a2 h lib fmt with
            | Some h' => r_ok (canon h' (length h) [])
            | None => r_exc 4
            end
        | _, _, _, _ => sx_err
        end
    | _ => sx_err
    end
  else if op =? 165 then
    match args with
    | [hx; r] =>
        match dec_heap hx, as_nat r with
        | Some h, Some root => let '(h', r') := deepcopy_exec h root in r_ok (canon h' (length h) [PRef r'])
        | _, _ => sx_err
        end
    | _ => sx_err
    end
  else if op =? 166 then
    match args with
    | [stages; hx; l] =>
        match as_list dec_stage stages, dec_heap hx, as_nat l with
        | Some ms, Some h, Some lib => out_lib (length h) (run_stack deepcopy_exec ms h lib)
        | _, _, _ => sx_err
        end
    | _ => sx_err
    end
  else if op =? 167 then
    match args with
    | [i; sp; hx; l] =>
        match as_bool i, dec_shipped sp, dec_heap hx, as_nat l with
        | Some i', Some s, Some h, Some lib => out_lib (length h) (transform_block_mw deepcopy_exec i' (shipped_body s) h lib)
        | _, _, _, _ => sx_err
        end
    | _ => sx_err
    end
  else sx_err.
