(* ops 70-79: entry points and the block-middleware splice protocol.
   mw      = (0 k) | (1 k (he hs hp hx hi)) | (2 id)
   rspec   = (0) None | (1) the block | (2 (item...)) a collection | (3) anything else ;  item = (0) the block | (1 block) | (2) a non-block
   ostack  = () | ((mw...))
   table   = ((id blocks result)...)        graph of the shipped middlewares (oracle instance supplied by the harness)
   stable  = ((text result)...)             graph of Splitter(text).split()
   70 (text stable ps am table)             parse_string
   71 (blocks us pm ofmt table)             write_string
   72 (dres stable ps am table)             parse_file, dres = result of decoding the file
   73 (kind old blocks ps am ofmt table)    write_file: kind 0 = path (truncates), 1 = file object (appends to old)
   74 (mw blocks)                           one middleware's transform
   75 (blocks)                              Library(blocks)
   In results the previous_block reference of a duplicate-key block is replaced by a stub: it is an alias of another
   block of the library (object identity is C07/C08's subject, not C20's). *)
From Coq Require Import List NArith ZArith Bool.
From BP Require Import Base.Chars Base.Sx Model.Blocks Run.Codec Model.Writer Model.Stack Run.RunWriter.
Import ListNotations.
Local Open Scope Z_scope.

Definition stub : block := BImpl hdr0 [].
Definition stub_prev (b : block) : block :=
  match b with BDupKey h k _ d => BDupKey h k stub d | _ => b end.
Definition norm (l : lib) : lib := map stub_prev l.

Definition dec_item (x : sx) : option ispec :=
  match x with
  | L [A 0] => Some ISelf
  | L [A 1; b] => option_map INew (dec_block b)
  | L [A 2] => Some INon
  | _ => None
  end.
Definition dec_rspec (x : sx) : option rspec :=
  match x with
  | L [A 0] => Some SNone
  | L [A 1] => Some SSelf
  | L [A 2; its] => option_map SColl (as_list dec_item its)
  | L [A 3] => Some SOther
  | _ => None
  end.
Definition dec_mw (x : sx) : option mw :=
  match x with
  | L [A 0; A k] => Some (MLibTag k)
  | L [A 1; A k; L [a; b; c; d; e]] =>
      match dec_rspec a, dec_rspec b, dec_rspec c, dec_rspec d, dec_rspec e with
      | Some a', Some b', Some c', Some d', Some e' => Some (MBlk k (mkhandlers a' b' c' d' e'))
      | _, _, _, _, _ => None
      end
  | L [A 2; A id] => Some (MShipped id)
  | _ => None
  end.
Definition dec_ostack (x : sx) : option (option (list mw)) := as_opt (as_list dec_mw) x.

Definition dec_res {T} (f : sx -> option T) (x : sx) : option (res T) :=
  match x with
  | L [A 0; v] => option_map Val (f v)
  | L [A 1; A c] => Some (Raise (if c =? 1 then EValueError else if c =? 2 then ETypeError else if c =? 4 then EAttributeError else EOther c))
  | _ => None
  end.

Definition table := list (Z * sx * res lib).
Definition dec_table (x : sx) : option table :=
  as_list (fun y => match y with
                    | L [A id; bs; r] => match dec_blocks bs, dec_res dec_blocks r with
                                         | Some bs', Some r' => Some (id, enc_blocks (norm bs'), r')
                                         | _, _ => None end
                    | _ => None end) x.
Definition miss : exn := EOther 777.          (* the oracle table has no row for this argument: never equals an implementation result *)
Fixpoint lookup (t : table) (id : Z) (key : sx) : res lib :=
  match t with
  | [] => Raise miss
  | (id', k, r) :: rest => if (id =? id') && sx_eqb key k then r else lookup rest id key
  end.
Definition shipped_of (t : table) (id : Z) (l : lib) : res lib := lookup t id (enc_blocks (norm l)).

Definition stable := list (str * res lib).
Definition dec_stable (x : sx) : option stable :=
  as_list (fun y => match y with
                    | L [t; r] => match as_str t, dec_res dec_blocks r with Some t', Some r' => Some (t', r') | _, _ => None end
                    | _ => None end) x.
Fixpoint split_of (t : stable) (s : str) : res lib :=
  match t with [] => Raise miss | (k, r) :: rest => if str_eqb s k then r else split_of rest s end.

Definition dec_ofmt (x : sx) : option (option fmt) := as_opt dec_fmt x.

Definition enc_lib (r : res lib) : sx := enc_res (fun l => enc_blocks (norm l)) r.

Definition run_stack (op : Z) (args : list sx) : sx :=
  if op =? 70 then
    match args with
    | [t; st; ps; am; tb] =>
        match as_str t, dec_stable st, dec_ostack ps, dec_ostack am, dec_table tb with
        | Some t', Some st', Some ps', Some am', Some tb' =>
            enc_lib (parse_string mw (apply_mw (shipped_of tb')) default_parse_mws (split_of st') t' ps' am')
        | _, _, _, _, _ => sx_err
        end
    | _ => sx_err
    end
  else if op =? 71 then
    match args with
    | [bs; us; pm; f; tb] =>
        match dec_blocks bs, dec_ostack us, dec_ostack pm, dec_ofmt f, dec_table tb with
        | Some bs', Some us', Some pm', Some f', Some tb' =>
            enc_res sstr (write_string mw (apply_mw (shipped_of tb')) default_unparse_mws bs' us' pm' f')
        | _, _, _, _, _ => sx_err
        end
    | _ => sx_err
    end
  else if op =? 72 then
    match args with
    | [d; st; ps; am; tb] =>
        match dec_res as_str d, dec_stable st, dec_ostack ps, dec_ostack am, dec_table tb with
        | Some d', Some st', Some ps', Some am', Some tb' =>
            enc_lib (parse_file mw (apply_mw (shipped_of tb')) default_parse_mws (split_of st') unit unit
                                (fun _ _ => d') tt tt ps' am')
        | _, _, _, _, _ => sx_err
        end
    | _ => sx_err
    end
  else if op =? 73 then
    match args with
    | [k; old; bs; ps; am; f; tb] =>
        match as_bool k, as_str old, dec_blocks bs, dec_ostack ps, dec_ostack am with
        | Some k', Some old', Some bs', Some ps', Some am' =>
            match dec_ofmt f, dec_table tb with
            | Some f', Some tb' =>
                enc_res sstr (write_file mw (apply_mw (shipped_of tb')) default_unparse_mws unit str unit
                                         (fun _ _ s => Val s) (fun w _ s => Val (w ++ s))
                                         old' (if k' then TObj unit unit tt else TPath unit unit tt) bs' ps' am' f')
            | _, _ => sx_err
            end
        | _, _, _, _, _ => sx_err
        end
    | _ => sx_err
    end
  else if op =? 74 then
    match args with
    | [m; bs] => match dec_mw m, dec_blocks bs with
                 | Some m', Some bs' => enc_lib (apply_mw (fun _ _ => Raise miss) m' bs')
                 | _, _ => sx_err end
    | _ => sx_err
    end
  else if op =? 75 then
    match args with
    | [bs] => match dec_blocks bs with Some bs' => r_ok (enc_blocks (norm (library_of bs'))) | None => sx_err end
    | _ => sx_err
    end
  else sx_err.
