(* ops 150-159: the public entry points with their default stacks.
   150 text fmt   -> (t1, blocks of parse(t1), t2)      parse -> write -> parse -> write (C05)
   151 text       -> write_string(parse_string(text))   (C01)
   152 text       -> parse_string(text).blocks *)
From Coq Require Import List NArith ZArith Bool.
From BP Require Import Base.Chars Base.Sx Model.Blocks Run.Codec Model.Writer Run.RunWriter Model.Pipeline.
Import ListNotations.
Local Open Scope Z_scope.

Definition enc_pres {T} (f : T -> sx) (r : pres T) : sx :=
  match r with PVal x => r_ok (f x) | PRaise => r_exc 6 | PSkip => r_skip end.

Definition run_pipeline (op : Z) (args : list sx) : sx :=
  if op =? 150 then
    match args with
    | [t; f] => match as_str t, dec_fmt f with
                | Some t', Some f' =>
                    enc_pres (fun r => L [sstr (fst (fst r)); enc_blocks (snd (fst r)); sstr (snd r)]) (roundtrip f' t')
                | _, _ => sx_err
                end
    | _ => sx_err
    end
  else if op =? 151 then
    match args with [t] => match as_str t with Some t' => enc_pres sstr (parse_write t') | None => sx_err end | _ => sx_err end
  else if op =? 152 then
    match args with [t] => match as_str t with Some t' => enc_pres enc_blocks (parse_default t') | None => sx_err end | _ => sx_err end
  else sx_err.
