(* op 30: a history of Library.add / remove / replace over a universe of caller blocks.
   (30 (block...) (op...))
      op:  (0 (ref...) fail)  add        fail: 0 False | 1 True | 2 argument omitted (default False)
           (1 (ref...))       remove
           (2 old new fail)   replace    fail: 0 | 1 | 2 argument omitted (default True)
      ref: (0 j) universe block j | (1 i) the held block at index i mod len | (2 i) the wrapped duplicate inside the
           held wrapper at index i mod len (the held block itself when it is not a wrapper); with an empty library
           (1 i) and (2 i) mean universe block 0
   -> ok (step...)   step = (outcome blocks entries entries_dict strings strings_dict preambles comments failed_blocks)
      outcome (0) | (1 exc-code);  a caller block is written as its index, a wrapper made by the library as
      (id start_line raw key prev dup) with id = 1000 + rank of first appearance in the transcript. *)
From Coq Require Import List NArith ZArith Bool.
From BP Require Import Base.Chars Base.Sx Model.Blocks Run.Codec Model.Entry Model.Library.
Import ListNotations.
Local Open Scope Z_scope.

Inductive bref := RUni (j : nat) | RHeld (i : nat) | RInner (i : nat).
Inductive rop := PAdd (rs : list bref) (fail : bool) | PRemove (rs : list bref) | PReplace (o n : bref) (fail : bool).

Definition dec_ref (x : sx) : option bref :=
  match x with
  | L [A 0; j] => option_map RUni (as_nat j)
  | L [A 1; i] => option_map RHeld (as_nat i)
  | L [A 2; i] => option_map RInner (as_nat i)
  | _ => None
  end.
Definition dec_fail (dflt : bool) (x : sx) : option bool :=
  match x with A 0 => Some false | A 1 => Some true | A 2 => Some dflt | _ => None end.
Definition dec_rop (x : sx) : option rop :=
  match x with
  | L [A 0; rs; f] => match as_list dec_ref rs, dec_fail false f with Some r, Some f' => Some (PAdd r f') | _, _ => None end
  | L [A 1; rs] => option_map PRemove (as_list dec_ref rs)
  | L [A 2; o; n; f] => match dec_ref o, dec_ref n, dec_fail true f with
                        | Some o', Some n', Some f' => Some (PReplace o' n' f') | _, _, _ => None end
  | _ => None
  end.

Definition resolve (uni : list oblock) (l : lib) (r : bref) : option oblock :=
  match r with
  | RUni j => nth_error uni j
  | RHeld i => match blocks l with [] => nth_error uni 0 | bl => nth_error bl (Nat.modulo i (length bl)) end
  | RInner i => match blocks l with
                | [] => nth_error uni 0
                | bl => match nth_error bl (Nat.modulo i (length bl)) with
                        | Some (ODup _ _ _ _ (di, db)) => Some (OB di db)
                        | o => o
                        end
                end
  end.
Definition resolve_op (uni : list oblock) (l : lib) (o : rop) : option lop :=
  match o with
  | PAdd rs f => option_map (fun bs => LAdd bs f) (all_some (map (resolve uni l) rs))
  | PRemove rs => option_map LRemove (all_some (map (resolve uni l) rs))
  | PReplace a b f => match resolve uni l a, resolve uni l b with Some a', Some b' => Some (LReplace a' b' f) | _, _ => None end
  end.

(* canonical wrapper ids: rank of first appearance *)
Fixpoint rank_of (o : N) (tbl : list N) (i : Z) : option Z :=
  match tbl with [] => None | x :: r => if N.eqb x o then Some i else rank_of o r (i + 1) end.
Definition enc_ob (tbl : list N) (b : oblock) : list N * sx :=
  match b with
  | OB i _ => (tbl, sN i)
  | ODup i h k (pi, _) (di, _) =>
      let (tbl', c) := match rank_of i tbl 0 with
                       | Some c => (tbl, c)
                       | None => (tbl ++ [i], Z.of_nat (length tbl))
                       end in
      (tbl', L [A (1000 + c); sopt A (sl h); sopt sstr (raw h); sstr k; sN pi; sN di])
  end.
Fixpoint enc_obs (tbl : list N) (l : list oblock) : list N * list sx :=
  match l with
  | [] => (tbl, [])
  | b :: r => let (t1, x) := enc_ob tbl b in let (t2, xs) := enc_obs t1 r in (t2, x :: xs)
  end.
Fixpoint enc_dict (tbl : list N) (d : list (str * oblock)) : list N * list sx :=
  match d with
  | [] => (tbl, [])
  | (k, b) :: r => let (t1, x) := enc_ob tbl b in let (t2, xs) := enc_dict t1 r in (t2, L [sstr k; x] :: xs)
  end.

Definition enc_outcome (o : outcome) : sx :=
  match o with Done => L [A 0] | Raised EValue => L [A 1; A 1] | Raised EKey => L [A 1; A 3] | Raised EAssert => L [A 1; A 8] end.

Definition enc_step (tbl : list N) (o : outcome) (l : lib) : list N * sx :=
  let (t1, a) := enc_obs tbl (v_blocks l) in
  let (t2, b) := enc_obs t1 (v_entries l) in
  let (t3, c) := enc_dict t2 (v_entries_dict l) in
  let (t4, d) := enc_obs t3 (v_strings l) in
  let (t5, e) := enc_dict t4 (v_strings_dict l) in
  let (t6, f) := enc_obs t5 (v_preambles l) in
  let (t7, g) := enc_obs t6 (v_comments l) in
  let (t8, h) := enc_obs t7 (v_failed l) in
  (t8, L [enc_outcome o; L a; L b; L c; L d; L e; L f; L g; L h]).

Fixpoint run_ops (uni : list oblock) (ops : list rop) (l : lib) (tbl : list N) : option (list sx) :=
  match ops with
  | [] => Some []
  | o :: r =>
      match resolve_op uni l o with
      | None => None
      | Some op =>
          let (l1, out) := apply l op in
          let (t1, x) := enc_step tbl out l1 in
          match run_ops uni r l1 t1 with Some xs => Some (x :: xs) | None => None end
      end
  end.

Fixpoint number_from (i : N) (bs : list block) : list oblock :=
  match bs with [] => [] | b :: r => OB i b :: number_from (N.succ i) r end.

(* blocks whose == the model decides: the five plain classes with structurally comparable values, or a failed block
   without nested blocks (equal only to itself) *)
Definition uni_modelled (b : block) : bool :=
  block_modelled b || match b with BFailed _ _ => true | _ => false end.

Definition run_library (op : Z) (args : list sx) : sx :=
  if op =? 30 then
    match args with
    | [u; os] =>
        match dec_blocks u, as_list dec_rop os with
        | Some bs, Some ops =>
            if forallb uni_modelled bs then
              match run_ops (number_from 0 bs) ops (empty_lib 1000) [] with
              | Some xs => r_ok (L xs)
              | None => sx_err
              end
            else r_skip
        | _, _ => sx_err
        end
    | _ => sx_err
    end
  else sx_err.
