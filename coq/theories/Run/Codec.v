(* sx <-> model values (all decoding and encoding is Gallina; the OCaml driver only moves integers). *)
From Coq Require Import List NArith ZArith Bool.
From BP Require Import Base.Chars Base.Sx Model.Blocks.
Import ListNotations.
Local Open Scope Z_scope.

Definition as_strs (x : sx) : option (list str) := as_list as_str x.

Fixpoint dec_value (x : sx) : option value :=
  match x with
  | L (A t :: args) =>
      if t =? 0 then match args with [s] => option_map VStr (as_str s) | _ => None end
      else if t =? 1 then match args with [A z] => Some (VInt z) | _ => None end
      else if t =? 2 then
        match args with
        | [L l] => option_map VList
                     ((fix go (l : list sx) : option (list value) :=
                         match l with
                         | [] => Some []
                         | y :: r => match dec_value y, go r with Some v, Some vs => Some (v :: vs) | _, _ => None end
                         end) l)
        | _ => None
        end
      else if t =? 3 then
        match args with
        | [a; b; c; d] => match as_strs a, as_strs b, as_strs c, as_strs d with
                          | Some a', Some b', Some c', Some d' => Some (VParts a' b' c' d')
                          | _, _, _, _ => None
                          end
        | _ => None
        end
      else if t =? 4 then match args with [] => Some VNone | _ => None end
      else if t =? 5 then match args with [b] => option_map VBool (as_bool b) | _ => None end
      else if t =? 6 then match args with [A z] => Some (VOther z) | _ => None end
      else if t =? 7 then
        match args with
        | [L l] => option_map VTuple
                     ((fix go (l : list sx) : option (list value) :=
                         match l with
                         | [] => Some []
                         | y :: r => match dec_value y, go r with Some v, Some vs => Some (v :: vs) | _, _ => None end
                         end) l)
        | _ => None
        end
      else if t =? 8 then
        match args with
        | [L l] => option_map VDict
                     ((fix go (l : list sx) : option (list (str * value)) :=
                         match l with
                         | [] => Some []
                         | L [k; y] :: r => match as_str k, dec_value y, go r with
                                            | Some k', Some v, Some vs => Some ((k', v) :: vs)
                                            | _, _, _ => None
                                            end
                         | _ => None
                         end) l)
        | _ => None
        end
      else None
  | _ => None
  end.

Fixpoint enc_value (v : value) : sx :=
  match v with
  | VStr s => L [A 0; sstr s]
  | VInt z => L [A 1; A z]
  | VList l => L [A 2; L (map enc_value l)]
  | VParts a b c d => L [A 3; slist sstr a; slist sstr b; slist sstr c; slist sstr d]
  | VNone => L [A 4]
  | VBool b => L [A 5; sbool b]
  | VOther z => L [A 6; A z]
  | VTuple l => L [A 7; L (map enc_value l)]
  | VDict d => L [A 8; L (map (fun kv => L [sstr (fst kv); enc_value (snd kv)]) d)]
  end.

Definition dec_field (x : sx) : option field :=
  match x with
  | L [k; v; l] => match as_str k, dec_value v, as_opt as_Z l with
                   | Some k', Some v', Some l' => Some (mkfield k' v' l')
                   | _, _, _ => None
                   end
  | _ => None
  end.
Definition enc_field (f : field) : sx := L [sstr (fkey f); enc_value (fval f); sopt A (fline f)].

Definition dec_meta (x : sx) : option metadata :=
  as_list (fun y => match y with
                    | L [k; v] => match as_str k, dec_value v with Some k', Some v' => Some (k', v') | _, _ => None end
                    | _ => None end) x.
Definition enc_meta (m : metadata) : sx := L (map (fun kv => L [sstr (fst kv); enc_value (snd kv)]) m).

Definition dec_hdr (x : sx) : option hdr :=
  match x with
  | L [s; r; m] => match as_opt as_Z s, as_opt as_str r, dec_meta m with
                   | Some s', Some r', Some m' => Some (mkhdr s' r' m')
                   | _, _, _ => None
                   end
  | _ => None
  end.
Definition enc_hdr (h : hdr) : sx := L [sopt A (sl h); sopt sstr (raw h); enc_meta (meta h)].

Definition dec_err (x : sx) : option err :=
  match x with
  | L [A 0; r] => option_map EAbort (as_N r)
  | L [A 1] => Some EDupKey
  | L [A 2] => Some EDupField
  | L [A 3] => Some EInvalidName
  | L [A 4] => Some EPartial
  | L [A 5; n] => option_map EOther (as_N n)
  | _ => None
  end.
Definition enc_err (e : err) : sx :=
  match e with
  | EAbort _ => L [A 0; A 0] (* reason wording is not compared *) | EDupKey => L [A 1] | EDupField => L [A 2] | EInvalidName => L [A 3]
  | EPartial => L [A 4] | EOther n => L [A 5; sN n]
  end.

Fixpoint dec_block (x : sx) : option block :=
  match x with
  | L (A t :: hx :: args) =>
      match dec_hdr hx with
      | None => None
      | Some h =>
          if t =? 0 then
            match args with
            | [ty; k; fs] => match as_str ty, as_str k, as_list dec_field fs with
                             | Some ty', Some k', Some fs' => Some (BEntry h ty' k' fs')
                             | _, _, _ => None end
            | _ => None end
          else if t =? 1 then
            match args with
            | [k; v] => match as_str k, dec_value v with Some k', Some v' => Some (BString h k' v') | _, _ => None end
            | _ => None end
          else if t =? 2 then match args with [v] => option_map (BPreamble h) (as_str v) | _ => None end
          else if t =? 3 then match args with [v] => option_map (BExpl h) (as_str v) | _ => None end
          else if t =? 4 then match args with [v] => option_map (BImpl h) (as_str v) | _ => None end
          else if t =? 5 then match args with [e] => option_map (BFailed h) (dec_err e) | _ => None end
          else if t =? 6 then
            match args with
            | [e; i] => match dec_err e, dec_block i with Some e', Some i' => Some (BMwErr h e' i') | _, _ => None end
            | _ => None end
          else if t =? 7 then
            match args with
            | [k; p; d] => match as_str k, dec_block p, dec_block d with
                           | Some k', Some p', Some d' => Some (BDupKey h k' p' d')
                           | _, _, _ => None end
            | _ => None end
          else if t =? 8 then
            match args with
            | [ks; e] => match as_strs ks, dec_block e with Some ks', Some e' => Some (BDupField h ks' e') | _, _ => None end
            | _ => None end
          else None
      end
  | _ => None
  end.

Fixpoint enc_block (b : block) : sx :=
  match b with
  | BEntry h t k fs => L [A 0; enc_hdr h; sstr t; sstr k; slist enc_field fs]
  | BString h k v => L [A 1; enc_hdr h; sstr k; enc_value v]
  | BPreamble h v => L [A 2; enc_hdr h; sstr v]
  | BExpl h c => L [A 3; enc_hdr h; sstr c]
  | BImpl h c => L [A 4; enc_hdr h; sstr c]
  | BFailed h e => L [A 5; enc_hdr h; enc_err e]
  | BMwErr h e i => L [A 6; enc_hdr h; enc_err e; enc_block i]
  | BDupKey h k p d => L [A 7; enc_hdr h; sstr k; enc_block p; enc_block d]
  | BDupField h ks e => L [A 8; enc_hdr h; slist sstr ks; enc_block e]
  end.

Definition dec_blocks (x : sx) : option (list block) := as_list dec_block x.
Definition enc_blocks (l : list block) : sx := L (map enc_block l).

(* result wrappers *)
Definition r_ok (x : sx) : sx := L [A 0; x].
Definition r_exc (code : Z) : sx := L [A 1; A code].
Definition r_skip : sx := L [A (-2)].          (* input outside the executable oracle instances *)
