(* ops 80-99: names engine (C12, C13, C14).
   80 (s)            split_multiple_persons_names + the C12 reference splitter when the stripped text is balanced
   81 (s)            parse_single_name_into_parts strict, and the C13 compositional spec
   82 (s)            parse_single_name_into_parts non-strict
   84 (parts)        merge_last_name_first        85 (parts)  merge_first_name_first
   86 (s)            person chain  parse -> merge -> parse
   87 (s)            list chain    split -> parse each -> merge each -> join -> split -> parse each
   90 (mws nf block) middleware stack on one block     (nf = () default name_fields | ((k1 k2 ...)))
   91 (block)        parse-side middlewares on the block; then the field values after the write-side middlewares
   95 (word)         BibTeX's own von test on one word (Spec/BibtexCase.von_token_found): ties the Coq statement of known
                     finding K14 to the Python transcription that gives the check's verdicts *)
From Coq Require Import List NArith ZArith Bool.
From BP Require Import Base.Chars Base.Sx Model.Blocks Run.Codec Gen.Constants Model.Names Spec.C12 Spec.C13 Spec.C14 Spec.BibtexCase.
Import ListNotations.
Local Open Scope Z_scope.

Definition enc_parts (p : parts) : sx :=
  L [slist sstr (n_first p); slist sstr (n_von p); slist sstr (n_last p); slist sstr (n_jr p)].
Definition dec_parts (x : sx) : option parts :=
  match x with
  | L [a; b; c; d] => match as_strs a, as_strs b, as_strs c, as_strs d with
                      | Some a', Some b', Some c', Some d' => Some (mkparts a' b' c' d')
                      | _, _, _, _ => None
                      end
  | _ => None
  end.
Definition nerr_code (e : nerr) : Z :=
  match e with NUnmatched => 1 | NTooMany => 2 | NUnterminated => 3 | NTrailing => 4 end.
Definition enc_pres (r : pres parts) : sx :=
  match r with POk p => L [A 0; enc_parts p] | PErr e => L [A 1; A (nerr_code e)] end.

Definition dec_nmw (x : sx) : option nmw :=
  match x with
  | A 0 => Some MwSeparate | A 1 => Some MwMergeCo | A 2 => Some MwSplitParts
  | L [A 3; s] => option_map MwMergeParts (as_N s)
  | _ => None
  end.

Definition enc_nbres (r : nbres) : sx :=
  match r with NBVal b => r_ok (enc_block b) | NBRaise code => r_exc code | NBSkip => r_skip end.

Fixpoint all_ok (l : list (pres parts)) : option (list parts) :=
  match l with
  | [] => Some []
  | POk p :: r => match all_ok r with Some r' => Some (p :: r') | None => None end
  | PErr _ :: _ => None
  end.

Definition run_names (op : Z) (args : list sx) : sx :=
  if op =? 80 then
    match args with
    | [s] => match as_str s with
             | Some s' => r_ok (L [slist sstr (split_names s');
                                   if C12.balanced (strip4 s') then L [slist sstr (ref_split s')] else L []])
             | None => sx_err end
    | _ => sx_err end
  else if op =? 81 then
    match args with
    | [s] => match as_str s with
             | Some s' => r_ok (L [enc_pres (parse_name true s'); sopt enc_parts (spec_parse s')])
             | None => sx_err end
    | _ => sx_err end
  else if op =? 82 then
    match args with
    | [s] => match as_str s with Some s' => r_ok (enc_pres (parse_name false s')) | None => sx_err end
    | _ => sx_err end
  else if op =? 84 then
    match args with
    | [p] => match dec_parts p with Some p' => r_ok (sstr (merge_last_first p')) | None => sx_err end
    | _ => sx_err end
  else if op =? 85 then
    match args with
    | [p] => match dec_parts p with Some p' => r_ok (sstr (merge_first_first p')) | None => sx_err end
    | _ => sx_err end
  else if op =? 86 then
    match args with
    | [s] => match as_str s with
             | Some s' =>
                 match parse_name true s' with
                 | POk p => r_ok (L [enc_pres (POk p); sstr (merge1 p); enc_pres (split1 (merge1 p))])
                 | PErr e => r_ok (L [enc_pres (PErr e)])
                 end
             | None => sx_err end
    | _ => sx_err end
  else if op =? 87 then
    match args with
    | [s] => match as_str s with
             | Some s' =>
                 let names := split_names s' in
                 let ps := persons_of s' in
                 match all_ok ps with
                 | Some ps' =>
                     let v2 := merge_names (map merge1 ps') in
                     r_ok (L [slist sstr names; slist enc_pres ps; sstr v2; slist sstr (split_names v2);
                              slist enc_pres (persons_of v2)])
                 | None => r_ok (L [slist sstr names; slist enc_pres ps])
                 end
             | None => sx_err end
    | _ => sx_err end
  else if op =? 90 then
    match args with
    | [ms; nf; b] =>
        match as_list dec_nmw ms, as_opt as_strs nf, dec_block b with
        | Some mws, Some nfo, Some blk =>
            enc_nbres (name_stack (match nfo with Some l => l | None => default_name_fields end) mws blk)
        | _, _, _ => sx_err
        end
    | _ => sx_err end
  else if op =? 91 then
    match args with
    | [b] =>
        match dec_block b with
        | Some blk =>
            match name_stack default_name_fields parse_side blk with
            | NBVal b1 =>
                match name_stack default_name_fields write_side b1 with
                | NBVal (BEntry _ _ _ fs) => r_ok (L [enc_block b1; L [slist (fun f => enc_value (fval f)) fs]])
                | NBVal _ => r_ok (L [enc_block b1; L []])
                | NBRaise code => r_exc code
                | NBSkip => r_skip
                end
            | other => enc_nbres other
            end
        | None => sx_err
        end
    | _ => sx_err end
  else if op =? 95 then
    match args with
    | [w] => match as_str w with Some w' => r_ok (sbool (von_token_found w')) | None => sx_err end
    | _ => sx_err end
  else sx_err.
