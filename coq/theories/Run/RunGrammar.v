(* ops 133/134: the dialect grammar (Model/Grammar.v) on an sx-encoded AST.
     133 doc -> r_ok (L [sstr (render d); enc_blocks (expected d); sbool (wf_doc_b d)])
     134 doc -> r_ok (sbool (nodup_fields_b d))
   (Run/Dispatch.v routes 130-149 to run_splitter; to reach this file route 133/134 to run_grammar.)

   sx encoding of the AST (str = L of character numbers as everywhere, see Base/Sx.v sstr):
     braced  ::= L [ elem* ]            elem ::= A c            one character (BChar)
     quoted  ::= L [ elem* ]                   | L [ elem* ]    a brace group (BGroup / QGroup)
     piece   ::= L [A 0; str]  bare  |  L [A 1; braced]  |  L [A 2; quoted]
     value   ::= L [ piece; L [ L [ws; ws; piece]* ] ]          first piece, then (ws '#' ws piece)*
     field   ::= L [ pre; name; w1; w2; value; post ]           pre name w1 '=' w2 value post
     fields  ::= L [ L [field*]; trail ]     trail ::= L []  no trailing comma  |  L [ws]  ',' ws
                 ([] with L [] is "@a{k,}"; [] with L [ws] is "@a{k," ws "}")
     etail   ::= L []   the form @a{k}   |   L [fields]   ',' fields
     item    ::= L [A 0; typ; hws; w1; key; w2; etail]
               | L [A 1; kw; hws; w1; name; w2; w3; value; w4]
               | L [A 2; kw; hws; braced]        preamble
               | L [A 3; kw; hws; braced]        comment
               | L [A 4; text]                   free text
     doc     ::= L [ gap0; L [ L [item; gap]* ] ]                                                    *)
From Coq Require Import List NArith ZArith Bool.
From BP Require Import Base.Chars Base.Sx Model.Blocks Run.Codec Model.Grammar.
Import ListNotations.
Local Open Scope Z_scope.

Fixpoint dec_braced (x : sx) : option braced :=
  match x with
  | L l =>
      (fix go (l : list sx) : option braced :=
         match l with
         | [] => Some BNil
         | A z :: r => if z <? 0 then None else do b <- go r; Some (BChar (Z.to_N z) b)
         | (L _ as y) :: r => do g <- dec_braced y; do b <- go r; Some (BGroup g b)
         end) l
  | A _ => None
  end.
Fixpoint dec_quoted (x : sx) : option quoted :=
  match x with
  | L l =>
      (fix go (l : list sx) : option quoted :=
         match l with
         | [] => Some QNil
         | A z :: r => if z <? 0 then None else do q <- go r; Some (QChar (Z.to_N z) q)
         | (L _ as y) :: r => do g <- dec_quoted y; do q <- go r; Some (QGroup g q)
         end) l
  | A _ => None
  end.
Definition dec_piece (x : sx) : option piece :=
  match x with
  | L [A 0; s] => option_map PBare (as_str s)
  | L [A 1; b] => option_map PBraced (dec_braced b)
  | L [A 2; q] => option_map PQuoted (dec_quoted q)
  | _ => None
  end.
Definition dec_more1 (x : sx) : option (str * str * piece) :=
  match x with
  | L [a; b; p] => do a' <- as_str a; do b' <- as_str b; do p' <- dec_piece p; Some (a', b', p')
  | _ => None
  end.
Definition dec_gvalue (x : sx) : option gvalue :=
  match x with
  | L [p; m] => do p' <- dec_piece p; do m' <- as_list dec_more1 m; Some (mkgv p' m')
  | _ => None
  end.
Definition dec_gfield (x : sx) : option gfield :=
  match x with
  | L [pre; name; w1; w2; v; post] =>
      do pre' <- as_str pre; do name' <- as_str name; do w1' <- as_str w1; do w2' <- as_str w2;
      do v' <- dec_gvalue v; do post' <- as_str post; Some (mkgf pre' name' w1' w2' v' post')
  | _ => None
  end.
(* a field list and the optional trailing ", ws" as the text after a comma *)
Fixpoint mk_fields (l : list gfield) (trail : option str) : gfields :=
  match l with
  | [] => FEnd (match trail with Some w => w | None => [] end)
  | f :: r =>
      match r, trail with
      | [], None => FLast f
      | _, _ => FCons f (mk_fields r trail)
      end
  end.
Definition dec_gfields (x : sx) : option gfields :=
  match x with
  | L [fs; tr] => do fs' <- as_list dec_gfield fs; do tr' <- as_opt as_str tr; Some (mk_fields fs' tr')
  | _ => None
  end.
Definition dec_etail (x : sx) : option etail :=
  match x with
  | L [] => Some ENoComma
  | L [fs] => option_map EComma (dec_gfields fs)
  | _ => None
  end.
Definition dec_item (x : sx) : option item :=
  match x with
  | L [A 0; typ; hws; w1; key; w2; t] =>
      do typ' <- as_str typ; do hws' <- as_str hws; do w1' <- as_str w1; do key' <- as_str key;
      do w2' <- as_str w2; do t' <- dec_etail t; Some (IEntry typ' hws' w1' key' w2' t')
  | L [A 1; kw; hws; w1; name; w2; w3; v; w4] =>
      do kw' <- as_str kw; do hws' <- as_str hws; do w1' <- as_str w1; do name' <- as_str name;
      do w2' <- as_str w2; do w3' <- as_str w3; do v' <- dec_gvalue v; do w4' <- as_str w4;
      Some (IString kw' hws' w1' name' w2' w3' v' w4')
  | L [A 2; kw; hws; b] =>
      do kw' <- as_str kw; do hws' <- as_str hws; do b' <- dec_braced b; Some (IPreamble kw' hws' b')
  | L [A 3; kw; hws; b] =>
      do kw' <- as_str kw; do hws' <- as_str hws; do b' <- dec_braced b; Some (IComment kw' hws' b')
  | L [A 4; t] => option_map IFree (as_str t)
  | _ => None
  end.
Definition dec_item_gap (x : sx) : option (item * str) :=
  match x with
  | L [it; g] => do it' <- dec_item it; do g' <- as_str g; Some (it', g')
  | _ => None
  end.
Definition dec_doc (x : sx) : option doc :=
  match x with
  | L [g0; items] => do g0' <- as_str g0; do items' <- as_list dec_item_gap items; Some (mkdoc g0' items')
  | _ => None
  end.

Definition run_grammar (op : Z) (args : list sx) : sx :=
  match args with
  | [x] =>
      match dec_doc x with
      | Some d =>
          if op =? 133 then r_ok (L [sstr (render d); enc_blocks (expected d); sbool (wf_doc_b d)])
          else if op =? 134 then r_ok (sbool (nodup_fields_b d))
          else sx_err
      | None => sx_err
      end
  | _ => sx_err
  end.

(* self-check: "@a{k, x = {y}}" *)
Example run_grammar_ex :
  let f := L [L []; sstr [asc 120]; sstr [c_sp]; sstr [c_sp]; L [L [A 1; L [sN (asc 121)]]; L []]; L []] in
  let it := L [A 0; sstr [asc 97]; L []; L []; sstr [asc 107]; L []; L [L [L [f]; L []]]] in
  match run_grammar 133 [L [L []; L [L [it; L []]]]] with
  | L [A 0; L [t; _; w]] =>
      t = sstr (map asc [64; 97; 123; 107; 44; 120; 32; 61; 32; 123; 121; 125; 125]%N) /\ w = sbool true
  | _ => False
  end.
Proof. vm_compute. split; reflexivity. Qed.
