(* ops 180-189: the runtime text layer of Model/TextIO.v.
   180 codec bytes -> () | (text)      read_text   codec: 0 utf-8, 1 latin-1, 2 utf-16; bytes / text: lists of integers
   181 codec text  -> () | (bytes)     write_text
   The empty list stands for None: the codec refuses (UnicodeDecodeError / UnicodeEncodeError / UnicodeError). *)
From Coq Require Import List NArith ZArith Bool.
From BP Require Import Base.Chars Base.Sx Run.Codec Model.TextIO.
Import ListNotations.
Local Open Scope Z_scope.

Definition dec_codec (x : sx) : option codec :=
  match x with A 0 => Some Utf8 | A 1 => Some Latin1 | A 2 => Some Utf16 | _ => None end.
Definition szl (l : list Z) : sx := L (map A l).

Definition run_text (op : Z) (args : list sx) : sx :=
  match args with
  | [c; d] =>
      match dec_codec c, as_list as_Z d with
      | Some e, Some l =>
          if op =? 180 then r_ok (sopt szl (read_text e l))
          else if op =? 181 then r_ok (sopt szl (write_text e l))
          else sx_err
      | _, _ => sx_err
      end
  | _ => sx_err
  end.
