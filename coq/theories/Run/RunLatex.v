(* ops 120-129: the LaTeX wrapper run with the executable stub converters of Model/LatexWrap.v; the encoder rules.
   121 keep_math enclose_urls text table -> text    Model/LatexRules.encode; table: ((character . default conversion) ...) as
       observed on the running pylatexenc for the characters of the text, identity for a character without a row
   120 (kinds blocks) -> (blocks errors)   kinds: list of 0 = stub encoder, 1 = stub decoder, applied in order to
   Library(blocks); errors: per middleware application, per input block, the reasons of its PartialMiddlewareException *)
From Coq Require Import List NArith ZArith Bool.
From BP Require Import Base.Chars Base.Sx Model.Blocks Model.LibAdd Run.Codec Model.LatexWrap Model.LatexRules Run.RunEnclosing.
Import ListNotations.
Local Open Scope Z_scope.

Definition dec_kind (x : sx) : option (str -> str * str) :=
  match x with A 0 => Some stub_enc | A 1 => Some stub_dec | _ => None end.

Definition dec_row (x : sx) : option (ch * str) :=
  match x with L [c; r] => match as_N c, as_str r with Some c', Some r' => Some (c', r') | _, _ => None end | _ => None end.
Fixpoint table_get (t : list (ch * str)) (c : ch) : str :=
  match t with [] => [c] | (k, v) :: r => if ceq k c then v else table_get r c end.

Definition run_latex (op : Z) (args : list sx) : sx :=
  if op =? 121 then
    match args with
    | [km; eu; text; table] =>
        match as_bool km, as_bool eu, as_str text, as_list dec_row table with
        | Some km', Some eu', Some s, Some t => r_ok (sstr (encode (table_get t) km' eu' s))
        | _, _, _, _ => sx_err
        end
    | _ => sx_err
    end
  else if op =? 120 then
    match args with
    | [ks; bs] =>
        match as_list dec_kind ks, dec_blocks bs with
        | Some kinds, Some blocks =>
            let '(out, errs) :=
              fold_left (fun (acc : list block * list (list (list str))) conv =>
                           let '(cur, es) := acc in (latex_lib conv cur, es ++ [latex_errors conv cur]))
                        kinds (lblocks (lib_of blocks), []) in
            r_ok (L [enc_lib out; slist (slist (slist sstr)) errs])
        | _, _ => sx_err
        end
    | _ => sx_err
    end
  else sx_err.
