(* Entry points of the executable model: one sx in, one sx out.
   Case shape:  L (A op :: args).  Result: r_ok x | r_exc code | r_skip | sx_err (undecodable case). *)
From Coq Require Import List NArith ZArith Bool.
From BP Require Import Base.Chars Base.Sx Model.Blocks Run.Codec.
From BP Require Import Model.Month.
Import ListNotations.
Local Open Scope Z_scope.

Definition dec_mkind (x : sx) : option mkind :=
  match x with A 0 => Some MInt | A 1 => Some MAbbrev | A 2 => Some MLong | _ => None end.

Definition run_month (args : list sx) : sx :=
  match args with
  | [ks; b] =>
      match as_list dec_mkind ks, dec_block b with
      | Some kinds, Some blk =>
          match fold_left (fun (acc : bres) k => match acc with BVal x => month_entry k x | o => o end)
                          kinds (BVal blk) with
          | BVal b' => r_ok (enc_block b')
          | BRaise => r_exc 1
          | BSkip => r_skip
          end
      | _, _ => sx_err
      end
  | _ => sx_err
  end.

Definition run_case (x : sx) : sx :=
  match x with
  | L (A op :: args) =>
      if op =? 1 then match args with [n] => match as_N n with Some n' => r_ok (sN (asc n')) | None => sx_err end | _ => sx_err end
      else if op =? 10 then run_month args
      else sx_err
  | _ => sx_err
  end.
