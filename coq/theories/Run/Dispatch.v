(* Entry point of the executable model: one sx in, one sx out.
   Case shape:  L (A op :: args).  Result: r_ok x | r_exc code | r_skip | sx_err (undecodable case).
   Op-code ranges:  1 ascii self-check | 10-19 month | 20-29 entry ops | 30-39 library ops | 40-49 field sorting/keys |
   50-59 block sorting | 60-69 writer | 70-79 stack | 80-99 names | 100-109 enclosing | 110-119 interpolate |
   120-129 latex wrapper | 130-149 splitter | 150-159 round trip | 160-179 heap | 180-189 runtime text layer *)
From Coq Require Import List NArith ZArith Bool.
From BP Require Import Base.Chars Base.Sx Run.Codec.
From BP Require Import Run.RunMonth Run.RunSplitter Run.RunEntry Run.RunLibrary Run.RunSortFields Run.RunSortBlocks Run.RunWriter Run.RunStack Run.RunEnclosing Run.RunInterpolate Run.RunLatex Run.RunGrammar Run.RunHeap Run.RunPipeline Run.RunNames Run.RunText.
Import ListNotations.
Local Open Scope Z_scope.

Definition in_range (lo hi op : Z) : bool := (lo <=? op) && (op <=? hi).

Definition run_case (x : sx) : sx :=
  match x with
  | L (A op :: args) =>
      if op =? 1 then match args with [n] => match as_N n with Some n' => r_ok (sN (asc n')) | None => sx_err end | _ => sx_err end
      else if in_range 10 19 op then run_month_any op args
      else if in_range 20 29 op then run_entry op args
      else if in_range 30 39 op then run_library op args
      else if in_range 40 49 op then run_sortfields op args
      else if in_range 50 59 op then run_sortblocks op args
      else if in_range 60 69 op then run_writer op args
      else if in_range 70 79 op then run_stack op args
      else if in_range 80 99 op then run_names op args
      else if in_range 100 109 op then run_enclosing op args
      else if in_range 110 119 op then run_interpolate op args
      else if in_range 120 129 op then run_latex op args
      else if in_range 133 134 op then run_grammar op args
      else if in_range 130 149 op then run_splitter op args
      else if in_range 150 159 op then run_pipeline op args
      else if in_range 160 179 op then run_heap op args
      else if in_range 180 189 op then run_text op args
      else sx_err
  | _ => sx_err
  end.
