(* ops 130-149: lexer and splitter.
   130 text          -> marks as (pos text) pairs (re.finditer view)
   131 text          -> split_raw: blocks before Library.add
   132 text          -> split: Library blocks (duplicate wrapping applied)
   135 text1 text2   -> Splitter(text2).split(library=Splitter(text1).split()): blocks of the second text added to the
                        library holding the first text's (raw) blocks *)
From Coq Require Import List NArith ZArith Bool.
From BP Require Import Base.Chars Base.Sx Model.Blocks Run.Codec Model.Lexer Model.Splitter.
Import ListNotations.
Local Open Scope Z_scope.

Definition enc_outcome (o : outcome) : sx :=
  match o with Blocks bs => r_ok (enc_blocks bs) | Raised => r_exc 6 end.

Definition run_splitter (op : Z) (args : list sx) : sx :=
  match args with
  | [t] =>
      match as_str t with
      | Some text =>
          if op =? 130 then r_ok (L (map (fun m => L [sN (fst m); sstr (snd m)]) (marks_from 0 false (c_nl :: text))))
          else if op =? 131 then enc_outcome (split_raw text)
          else if op =? 132 then enc_outcome (split text)
          else sx_err
      | None => sx_err
      end
  | [t1; t2] =>
      match as_str t1, as_str t2 with
      | Some a, Some b =>
          if op =? 135 then match split_raw a with Blocks prev => enc_outcome (split_into prev b) | Raised => r_exc 6 end
          else sx_err
      | _, _ => sx_err
      end
  | _ => sx_err
  end.
