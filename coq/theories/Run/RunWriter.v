(* ops 60-69: writer.
   60 (fmt blocks)      write(library, fmt)            fmt = (indent (col)|() sep trailing failed_comment)
   61 (blocks)          write(library, None)           the default BibtexFormat()
   62 (s)               s.splitlines()                 (the CPython oracle instance used by the failed-block comment)
   63 (template n)      template.format(n=n)           restricted to {n} {{ }} templates; anything else: skip *)
From Coq Require Import List NArith ZArith Bool.
From BP Require Import Base.Chars Base.Sx Model.Blocks Run.Codec Model.Writer Model.FormatSetters.
Import ListNotations.
Local Open Scope Z_scope.

Definition dec_fmt (x : sx) : option fmt :=
  match x with
  | L [i; c; s; t; f] =>
      match as_str i, as_opt as_nat c, as_str s, as_bool t, as_str f with
      | Some i', Some c', Some s', Some t', Some f' =>
          Some (mkfmt i' (match c' with Some n => ColN n | None => ColAuto end) s' t' f')
      | _, _, _, _, _ => None
      end
  | _ => None
  end.

Definition exn_code (e : exn) : Z :=
  match e with ETypeError => 2 | EAttributeError => 4 | EValueError => 1 | EOther c => c end.

Definition enc_res {T} (f : T -> sx) (r : res T) : sx :=
  match r with Val x => r_ok (f x) | Raise e => r_exc (exn_code e) | Skip => r_skip end.

Definition run_writer (op : Z) (args : list sx) : sx :=
  if op =? 60 then
    match args with
    | [f; bs] => match dec_fmt f, dec_blocks bs with
                 | Some f', Some bs' => enc_res sstr (write f' bs')
                 | _, _ => sx_err
                 end
    | _ => sx_err
    end
  else if op =? 61 then
    match args with
    | [bs] => match dec_blocks bs with Some bs' => enc_res sstr (write default_fmt bs') | None => sx_err end
    | _ => sx_err
    end
  else if op =? 62 then
    match args with
    | [s] => match as_str s with Some s' => r_ok (slist sstr (splitlines s')) | None => sx_err end
    | _ => sx_err
    end
  else if op =? 63 then
    match args with
    | [t; n] => match as_str t, as_N n with
                | Some t', Some n' => match expand t' (dec_of_N n') with Some s => r_ok (sstr s) | None => r_skip end
                | _, _ => sx_err
                end
    | _ => sx_err
    end
  else if op =? 64 then
    (* 64 (arg)   fmt.value_column = arg on a fresh BibtexFormat: (raised?, column afterwards) *)
    match args with
    | [a] => match dec_value a with
             | Some a' => let (f, raised) := assign_value_column default_fmt a' in
                          r_ok (L [sbool raised; match f_column f with ColN n => L [snat n] | ColAuto => L [] end])
             | None => sx_err
             end
    | _ => sx_err
    end
  else sx_err.
