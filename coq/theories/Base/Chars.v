(* Characters and strings.

   A model character is a natural number  code*128 + flags  where the 7 flag bits are the
   answers of the running CPython for that code point (the harness computes them):
     bit 0 str.isspace   bit 1 str.isalpha   bit 2 str.isupper   bit 3 str.isdigit
     bit 4 regex \w      bit 5 str.isdecimal bit 6 str.islower
   The model never recomputes Unicode facts; it only reads the flags.  Comparisons with literal
   ASCII characters compare the whole number with the literal's canonical encoding [asc n]
   (the harness checks on every run that CPython's encoding of all 128 ASCII characters is [asc]). *)
From Coq Require Import List NArith ZArith Bool Lia.
Import ListNotations.
Local Open Scope N_scope.

Definition ch := N.
Definition str := list ch.

Definition code (c : ch) : N := N.shiftr c 7.
Definition isspace (c : ch) : bool := N.testbit c 0.
Definition isalpha (c : ch) : bool := N.testbit c 1.
Definition isupper (c : ch) : bool := N.testbit c 2.
Definition isdigit (c : ch) : bool := N.testbit c 3.
Definition isword  (c : ch) : bool := N.testbit c 4.
Definition isdecimal (c : ch) : bool := N.testbit c 5.
Definition islower (c : ch) : bool := N.testbit c 6.

Definition ascii_flags (n : N) : N :=
  if ((9 <=? n) && (n <=? 13)) || ((28 <=? n) && (n <=? 32)) then 1
  else if (48 <=? n) && (n <=? 57) then 56
  else if (65 <=? n) && (n <=? 90) then 22
  else if n =? 95 then 16
  else if (97 <=? n) && (n <=? 122) then 82
  else 0.
Definition asc (n : N) : ch := n * 128 + ascii_flags n.

(* literals (checked against [asc] below) *)
Definition c_nl : ch := 1281.      (* \n  10 *)
Definition c_cr : ch := 1665.      (* \r  13 *)
Definition c_tab : ch := 1153.     (* \t   9 *)
Definition c_sp : ch := 4097.      (* ' ' 32 *)
Definition c_quote : ch := 4352.   (* dquote 34 *)
Definition c_hash : ch := 4480.    (* #   35 *)
Definition c_comma : ch := 5632.   (* ,   44 *)
Definition c_eq : ch := 7808.      (* =   61 *)
Definition c_at : ch := 8192.      (* @   64 *)
Definition c_bs : ch := 11776.     (* \   92 *)
Definition c_lb : ch := 15744.     (* {  123 *)
Definition c_rb : ch := 16000.     (* }  125 *)
Definition c_tilde : ch := 16128.  (* ~  126 *)
Definition c_pct : ch := 4736.     (* %   37 *)

Lemma literals_ok :
  asc 10 = c_nl /\ asc 13 = c_cr /\ asc 9 = c_tab /\ asc 32 = c_sp /\ asc 34 = c_quote /\ asc 35 = c_hash /\
  asc 44 = c_comma /\ asc 61 = c_eq /\ asc 64 = c_at /\ asc 92 = c_bs /\ asc 123 = c_lb /\ asc 125 = c_rb /\
  asc 126 = c_tilde /\ asc 37 = c_pct.
Proof. repeat split; reflexivity. Qed.

Definition ceq (a b : ch) : bool := N.eqb a b.

(* list reversal in linear time (List.rev is quadratic when run); rv l = rev l is [rv_rev] *)
Definition rv {A} (l : list A) : list A := rev_append l [].
Lemma rv_rev {A} (l : list A) : rv l = rev l.
Proof. unfold rv. symmetry. apply rev_alt. Qed.

Fixpoint str_eqb (a b : str) : bool :=
  match a, b with
  | [], [] => true
  | x :: a', y :: b' => N.eqb x y && str_eqb a' b'
  | _, _ => false
  end.

Lemma str_eqb_eq a b : str_eqb a b = true <-> a = b.
Proof.
  revert b; induction a as [|x a IH]; intros [|y b]; simpl; split; intros H; try congruence; try discriminate.
  - apply andb_true_iff in H as [H1 H2]. apply N.eqb_eq in H1. apply IH in H2. congruence.
  - inversion H; subst. rewrite N.eqb_refl. simpl. apply IH. reflexivity.
Qed.
Lemma str_eqb_refl a : str_eqb a a = true.
Proof. apply str_eqb_eq; reflexivity. Qed.
Lemma str_eqb_neq a b : str_eqb a b = false <-> a <> b.
Proof.
  split; intros H.
  - intros E. apply str_eqb_eq in E. congruence.
  - destruct (str_eqb a b) eqn:E; [apply str_eqb_eq in E; contradiction | reflexivity].
Qed.

(* Python's ordering of str: lexicographic by code point. *)
Fixpoint str_ltb (a b : str) : bool :=
  match a, b with
  | _, [] => false
  | [], _ :: _ => true
  | x :: a', y :: b' => if code x <? code y then true else if code y <? code x then false else str_ltb a' b'
  end.
Definition str_leb (a b : str) : bool := negb (str_ltb b a).

(* str.lower() restricted to ASCII (see DESIGN 2.1: the harness excludes inputs on which CPython's
   lower() differs from this instance from the comparison of lowered text). *)
Definition lower_ch (c : ch) : ch :=
  if (asc 65 <=? c) && (c <=? asc 90) && (N.land c 127 =? 22) then c + 4156 else c.
Definition lower (s : str) : str := map lower_ch s.

(* str.strip(), lstrip, rstrip with no argument: characters with isspace *)
Fixpoint lstrip (s : str) : str :=
  match s with [] => [] | c :: r => if isspace c then lstrip r else s end.
Definition rstrip (s : str) : str := rv (lstrip (rv s)).
Definition strip (s : str) : str := rstrip (lstrip s).

(* strip with an explicit character set *)
Fixpoint lstrip_set (p : ch -> bool) (s : str) : str :=
  match s with [] => [] | c :: r => if p c then lstrip_set p r else s end.
Definition strip_set (p : ch -> bool) (s : str) : str := rev (lstrip_set p (rev (lstrip_set p s))).

Fixpoint starts_with (p s : str) : bool :=
  match p, s with
  | [], _ => true
  | x :: p', y :: s' => N.eqb x y && starts_with p' s'
  | _ :: _, [] => false
  end.
Definition ends_with (p s : str) : bool := starts_with (rv p) (rv s).

Fixpoint mem_str (x : str) (l : list str) : bool :=
  match l with [] => false | y :: r => str_eqb x y || mem_str x r end.

Lemma mem_str_In x l : mem_str x l = true <-> In x l.
Proof.
  induction l as [|y l IH]; simpl; [split; [discriminate | tauto]|].
  rewrite orb_true_iff, IH, str_eqb_eq. split; intros [H|H]; auto.
Qed.

Fixpoint index_of (x : str) (l : list str) : option nat :=
  match l with
  | [] => None
  | y :: r => if str_eqb x y then Some O else match index_of x r with Some i => Some (S i) | None => None end
  end.

Fixpoint join (sep : str) (l : list str) : str :=
  match l with
  | [] => []
  | [x] => x
  | x :: r => x ++ sep ++ join sep r
  end.

(* decimal rendering of a natural number, as ASCII characters *)
Definition digit_ch (d : N) : ch := asc (48 + d).
Fixpoint dec_fuel (fuel : nat) (n : N) (acc : str) : str :=
  match fuel with
  | O => acc
  | S f => let acc' := digit_ch (n mod 10) :: acc in
           if n / 10 =? 0 then acc' else dec_fuel f (n / 10) acc'
  end.
Definition dec_of_N (n : N) : str := dec_fuel (S (N.to_nat (N.log2 n))) n [].
Definition dec_of_Z (z : Z) : str :=
  match z with Zneg p => asc 45 :: dec_of_N (Npos p) | _ => dec_of_N (Z.to_N z) end.

(* int(s) for a string of ASCII decimal digits (the model's instance of the py_int oracle). *)
Definition ascii_digit_val (c : ch) : option N :=
  if (asc 48 <=? c) && (c <=? asc 57) && (N.land c 127 =? 56) then Some (code c - 48) else None.
Fixpoint py_int_acc (s : str) (acc : N) : option N :=
  match s with
  | [] => Some acc
  | c :: r => match ascii_digit_val c with Some d => py_int_acc r (acc * 10 + d) | None => None end
  end.
Definition py_int (s : str) : option N := match s with [] => None | _ => py_int_acc s 0 end.

Definition str_of_codes (l : list N) : str := map asc l.
