(* The wire format between harness and model: S-expressions of integers. *)
From Coq Require Import List NArith ZArith Bool.
From BP Require Import Base.Chars.
Import ListNotations.

Inductive sx := A (z : Z) | L (l : list sx).

Definition sx_err : sx := L [A (-1)%Z].     (* decoding failure: never a normal-looking value *)

Definition sN (n : N) : sx := A (Z.of_N n).
Definition snat (n : nat) : sx := A (Z.of_nat n).
Definition sbool (b : bool) : sx := A (if b then 1 else 0)%Z.
Definition sstr (s : str) : sx := L (map sN s).
Definition sopt {T} (f : T -> sx) (o : option T) : sx := match o with None => L [] | Some x => L [f x] end.
Definition slist {T} (f : T -> sx) (l : list T) : sx := L (map f l).

Definition as_Z (x : sx) : option Z := match x with A z => Some z | _ => None end.
Definition as_N (x : sx) : option N := match x with A z => if (z <? 0)%Z then None else Some (Z.to_N z) | _ => None end.
Definition as_nat (x : sx) : option nat := match as_N x with Some n => Some (N.to_nat n) | None => None end.
Definition as_bool (x : sx) : option bool :=
  match x with A 0%Z => Some false | A 1%Z => Some true | _ => None end.

Fixpoint all_some {T} (l : list (option T)) : option (list T) :=
  match l with
  | [] => Some []
  | None :: _ => None
  | Some x :: r => match all_some r with Some r' => Some (x :: r') | None => None end
  end.
Definition as_list {T} (f : sx -> option T) (x : sx) : option (list T) :=
  match x with L l => all_some (map f l) | _ => None end.
Definition as_str (x : sx) : option str := as_list as_N x.
Definition as_opt {T} (f : sx -> option T) (x : sx) : option (option T) :=
  match x with
  | L [] => Some None
  | L [y] => match f y with Some v => Some (Some v) | None => None end
  | _ => None
  end.

(* option monad notation *)
Notation "'do' x <- e ; k" := (match e with Some x => k | None => None end)
  (at level 200, x pattern, e at level 100, k at level 200, right associativity).

Fixpoint sx_eqb (a b : sx) : bool :=
  match a, b with
  | A x, A y => Z.eqb x y
  | L l, L m =>
      (fix go (l m : list sx) : bool :=
         match l, m with
         | [], [] => true
         | x :: l', y :: m' => sx_eqb x y && go l' m'
         | _, _ => false
         end) l m
  | _, _ => false
  end.
