(* Stable sorting by a total preorder given as a boolean [le].

   CPython's list.sort / sorted are not modelled; their contract is: the result is a permutation of the
   input, sorted with respect to the key order, and elements whose keys are equivalent keep their relative
   order (stability).  This file proves that such a list is UNIQUE ([stable_sort_unique]) and that
   insertion sort [isort] meets the contract; hence every implementation that meets the contract
   computes [isort].  Stability is stated the usual way: for every element p, the sub-list of the
   elements equivalent to p is the same list (same members, same order) before and after.

   Also here: Python's ordering of str (code points, [str_leb] of Base/Chars.v) is a total preorder, and
   so is the lexicographic order on (int, str) tuples used as sort keys by the block sorter. *)
From Coq Require Import List Bool Arith NArith Lia Permutation Sorted.
From BP Require Import Base.Chars.
Import ListNotations.

Section Sort.
  Variable A : Type.
  Variable le : A -> A -> bool.

  Fixpoint insert (x : A) (l : list A) : list A :=
    match l with
    | [] => [x]
    | y :: r => if le x y then x :: y :: r else y :: insert x r
    end.

  Fixpoint isort (l : list A) : list A :=
    match l with
    | [] => []
    | x :: r => insert x (isort r)
    end.

  (* p and x are equivalent for the order *)
  Definition eqv (p x : A) : bool := le p x && le x p.
  Definition leP (x y : A) : Prop := le x y = true.

  (* the contract of a stable sort: [out] is a stable sorted permutation of [l] *)
  Definition stable_sorted_perm (l out : list A) : Prop :=
    Permutation out l /\ StronglySorted leP out /\ forall p, filter (eqv p) out = filter (eqv p) l.

  Lemma insert_perm x l : Permutation (insert x l) (x :: l).
  Proof.
    induction l as [|y r IH]; simpl; [apply Permutation_refl|].
    destruct (le x y); [apply Permutation_refl|].
    eapply Permutation_trans; [apply perm_skip; exact IH | apply perm_swap].
  Qed.

  Lemma isort_perm l : Permutation (isort l) l.
  Proof.
    induction l as [|x r IH]; simpl; [constructor|].
    eapply Permutation_trans; [apply insert_perm | apply perm_skip; exact IH].
  Qed.

  Lemma isort_length l : length (isort l) = length l.
  Proof. apply Permutation_length, isort_perm. Qed.

  (* stability for any class [c] of mutually comparable-as-equal elements (e.g. "sort key equals k") *)
  Lemma insert_filter_class (c : A -> bool) x l :
    (forall y z, c y = true -> c z = true -> le y z = true) ->
    filter c (insert x l) = filter c (x :: l).
  Proof.
    intros Hc. induction l as [|y r IH]; [reflexivity|].
    cbn [insert]. destruct (le x y) eqn:E; [reflexivity|].
    cbn [filter] in *. rewrite IH.
    destruct (c x) eqn:Ex; [|reflexivity].
    destruct (c y) eqn:Ey; [|reflexivity].
    rewrite (Hc x y Ex Ey) in E. discriminate.
  Qed.

  Lemma isort_stable_class (c : A -> bool) l :
    (forall y z, c y = true -> c z = true -> le y z = true) -> filter c (isort l) = filter c l.
  Proof.
    intros Hc. induction l as [|x r IH]; [reflexivity|].
    cbn [isort]. rewrite insert_filter_class by exact Hc. cbn [filter]. rewrite IH. reflexivity.
  Qed.

  Hypothesis le_total : forall x y, le x y = true \/ le y x = true.
  Hypothesis le_trans : forall x y z, le x y = true -> le y z = true -> le x z = true.

  Lemma le_refl x : le x x = true.
  Proof. destruct (le_total x x); assumption. Qed.

  Lemma eqv_refl x : eqv x x = true.
  Proof. unfold eqv. rewrite le_refl. reflexivity. Qed.

  Lemma insert_sorted x l : StronglySorted leP l -> StronglySorted leP (insert x l).
  Proof.
    induction l as [|y r IH]; intros Hs; simpl.
    - constructor; constructor.
    - destruct (le x y) eqn:E.
      + constructor; [exact Hs|].
        constructor; [exact E|].
        inversion Hs as [|? ? Hr Hall]; subst.
        eapply Forall_impl; [|exact Hall]. intros z Hz. unfold leP in *. eapply le_trans; eauto.
      + inversion Hs as [|? ? Hr Hall]; subst.
        constructor; [apply IH; exact Hr|].
        assert (Hyx : le y x = true) by (destruct (le_total x y); congruence).
        eapply Permutation_Forall; [apply Permutation_sym, insert_perm|].
        constructor; assumption.
  Qed.

  Lemma isort_sorted l : StronglySorted leP (isort l).
  Proof. induction l; simpl; [constructor | apply insert_sorted; assumption]. Qed.

  Lemma isort_locally_sorted l : Sorted leP (isort l).
  Proof. apply StronglySorted_Sorted, isort_sorted. Qed.

  Lemma insert_filter p x l : filter (eqv p) (insert x l) = filter (eqv p) (x :: l).
  Proof.
    induction l as [|y r IH]; [reflexivity|].
    cbn [insert]. destruct (le x y) eqn:E; [reflexivity|].
    cbn [filter] in *. rewrite IH.
    destruct (eqv p x) eqn:Ex; [|reflexivity].
    destruct (eqv p y) eqn:Ey; [|reflexivity].
    exfalso. unfold eqv in *. apply andb_true_iff in Ex as [_ Hxp]. apply andb_true_iff in Ey as [Hpy _].
    rewrite (le_trans _ _ _ Hxp Hpy) in E. discriminate.
  Qed.

  Lemma isort_stable p l : filter (eqv p) (isort l) = filter (eqv p) l.
  Proof.
    induction l as [|x r IH]; [reflexivity|].
    cbn [isort]. rewrite insert_filter. cbn [filter]. rewrite IH. reflexivity.
  Qed.

  Theorem isort_meets_contract l : stable_sorted_perm l (isort l).
  Proof. split; [apply isort_perm | split; [apply isort_sorted | intros p; apply isort_stable]]. Qed.

  (* two sorted lists with the same equivalence classes, in the same internal order, are equal *)
  Lemma sorted_classes_unique l1 : forall l2,
    StronglySorted leP l1 -> StronglySorted leP l2 ->
    (forall p, filter (eqv p) l1 = filter (eqv p) l2) -> l1 = l2.
  Proof.
    induction l1 as [|x r1 IH]; intros l2 H1 H2 Hf.
    - destruct l2 as [|y r2]; [reflexivity|].
      specialize (Hf y). cbn [filter] in Hf. rewrite eqv_refl in Hf. discriminate.
    - destruct l2 as [|y r2].
      { specialize (Hf x). cbn [filter] in Hf. rewrite eqv_refl in Hf. discriminate. }
      inversion H1 as [|? ? Hs1 Ha1]; subst. inversion H2 as [|? ? Hs2 Ha2]; subst.
      assert (Exy : eqv x y = true).
      { destruct (eqv x y) eqn:E; [reflexivity|]. exfalso.
        (* x occurs in r2, so y <= x;  y occurs in r1, so x <= y *)
        assert (Hx : In x (filter (eqv x) (y :: r2))).
        { rewrite <- Hf. cbn [filter]. rewrite eqv_refl. left; reflexivity. }
        cbn [filter] in Hx. rewrite E in Hx. apply filter_In in Hx as [Hx _].
        assert (Eyx : eqv y x = false).
        { unfold eqv in *. rewrite andb_comm. exact E. }
        assert (Hy : In y (filter (eqv y) (x :: r1))).
        { rewrite Hf. cbn [filter]. rewrite eqv_refl. left; reflexivity. }
        cbn [filter] in Hy. rewrite Eyx in Hy. apply filter_In in Hy as [Hy _].
        rewrite Forall_forall in Ha1, Ha2.
        specialize (Ha1 _ Hy). specialize (Ha2 _ Hx). unfold leP in *.
        unfold eqv in E. rewrite Ha1, Ha2 in E. discriminate. }
      assert (x = y).
      { specialize (Hf x). cbn [filter] in Hf. rewrite eqv_refl, Exy in Hf. congruence. }
      subst y. f_equal. apply IH; try assumption.
      intros p. specialize (Hf p). cbn [filter] in Hf. destruct (eqv p x); congruence.
  Qed.

  (* UNIQUENESS: any stable sorted permutation of l is isort l *)
  Theorem stable_sort_unique l out : stable_sorted_perm l out -> out = isort l.
  Proof.
    intros (_ & Hs & Hf). apply sorted_classes_unique; [exact Hs | apply isort_sorted|].
    intros p. rewrite Hf, isort_stable. reflexivity.
  Qed.

  (* the permutation premise is in fact implied by the other two *)
  Theorem stable_sort_unique' l out :
    StronglySorted leP out -> (forall p, filter (eqv p) out = filter (eqv p) l) -> out = isort l.
  Proof.
    intros Hs Hf. apply sorted_classes_unique; [exact Hs | apply isort_sorted|].
    intros p. rewrite Hf, isort_stable. reflexivity.
  Qed.

  Lemma isort_sorted_id l : StronglySorted leP l -> isort l = l.
  Proof. intros Hs. symmetry. apply stable_sort_unique'; [exact Hs | reflexivity]. Qed.

  Lemma isort_idem l : isort (isort l) = isort l.
  Proof. apply isort_sorted_id, isort_sorted. Qed.

  Lemma isort_In x l : In x (isort l) <-> In x l.
  Proof.
    split; intros H.
    - eapply Permutation_in; [apply isort_perm | exact H].
    - eapply Permutation_in; [apply Permutation_sym, isort_perm | exact H].
  Qed.
End Sort.

Arguments insert {A}.
Arguments isort {A}.
Arguments eqv {A}.
Arguments leP {A}.
Arguments stable_sorted_perm {A}.

(* ---------------------------------------------------------------- sorting by a key *)
Section ByKey.
  Variables (A K : Type) (key : A -> K) (leb : K -> K -> bool).
  Hypothesis leb_total : forall x y, leb x y = true \/ leb y x = true.
  Hypothesis leb_trans : forall x y z, leb x y = true -> leb y z = true -> leb x z = true.

  Definition le_key (x y : A) : bool := leb (key x) (key y).
  Definition sort_by (l : list A) : list A := isort le_key l.

  Lemma le_key_total x y : le_key x y = true \/ le_key y x = true.
  Proof. apply leb_total. Qed.
  Lemma le_key_trans x y z : le_key x y = true -> le_key y z = true -> le_key x z = true.
  Proof. apply leb_trans. Qed.
End ByKey.
Arguments le_key {A K}.
Arguments sort_by {A K}.

(* ---------------------------------------------------------------- the orders used as keys *)
(* natural numbers (list.index results) *)
Lemma nat_leb_total x y : Nat.leb x y = true \/ Nat.leb y x = true.
Proof. destruct (Nat.leb_spec x y); [left; reflexivity | right; apply Nat.leb_le; lia]. Qed.
Lemma nat_leb_trans x y z : Nat.leb x y = true -> Nat.leb y z = true -> Nat.leb x z = true.
Proof. rewrite !Nat.leb_le. lia. Qed.

(* Python str: lexicographic by code point.  [str_ltb] is a strict weak order. *)
Lemma str_ltb_irrefl a : str_ltb a a = false.
Proof.
  induction a as [|x a IH]; [reflexivity|]. cbn [str_ltb].
  rewrite N.ltb_irrefl. exact IH.
Qed.

Lemma str_ltb_asym a : forall b, str_ltb a b = true -> str_ltb b a = false.
Proof.
  induction a as [|x a IH]; intros [|y b] H; try reflexivity; try discriminate.
  cbn [str_ltb] in *.
  destruct (N.ltb_spec (code x) (code y)) as [L1|L1]; destruct (N.ltb_spec (code y) (code x)) as [L2|L2];
    try reflexivity; try discriminate; try lia.
  apply IH; exact H.
Qed.

Lemma str_ltb_negtrans a : forall b c, str_ltb c a = true -> str_ltb b a = true \/ str_ltb c b = true.
Proof.
  induction a as [|x a IH]; intros b c H.
  - destruct c; discriminate.
  - destruct c as [|z c]; destruct b as [|y b]; cbn [str_ltb] in *; auto.
    destruct (N.ltb_spec (code z) (code x)) as [L1|L1]; destruct (N.ltb_spec (code x) (code z)) as [L2|L2];
      destruct (N.ltb_spec (code y) (code x)) as [L3|L3]; destruct (N.ltb_spec (code x) (code y)) as [L4|L4];
      destruct (N.ltb_spec (code z) (code y)) as [L5|L5]; destruct (N.ltb_spec (code y) (code z)) as [L6|L6];
      auto; try discriminate; try lia.
  Qed.

Lemma str_leb_total a b : str_leb a b = true \/ str_leb b a = true.
Proof.
  unfold str_leb. destruct (str_ltb b a) eqn:E; [right | left; reflexivity].
  rewrite (str_ltb_asym _ _ E). reflexivity.
Qed.

Lemma str_leb_trans a b c : str_leb a b = true -> str_leb b c = true -> str_leb a c = true.
Proof.
  unfold str_leb. rewrite !negb_true_iff. intros H1 H2.
  destruct (str_ltb c a) eqn:E; [|reflexivity].
  destruct (str_ltb_negtrans a b c E); congruence.
Qed.

Lemma str_leb_refl a : str_leb a a = true.
Proof. unfold str_leb. rewrite str_ltb_irrefl. reflexivity. Qed.

(* Python tuple comparison of (int, str) keys: first components decide unless equal *)
Definition lex_ltb (a b : nat * str) : bool :=
  Nat.ltb (fst a) (fst b) || (Nat.eqb (fst a) (fst b) && str_ltb (snd a) (snd b)).
Definition lex_leb (a b : nat * str) : bool := negb (lex_ltb b a).

Lemma lex_leb_total a b : lex_leb a b = true \/ lex_leb b a = true.
Proof.
  destruct a as [i s], b as [j t]. unfold lex_leb, lex_ltb; cbn [fst snd].
  destruct (lt_eq_lt_dec i j) as [[L|L]|L].
  - left. replace (j <? i)%nat with false by (symmetry; apply Nat.ltb_ge; lia).
    replace (j =? i)%nat with false by (symmetry; apply Nat.eqb_neq; lia). reflexivity.
  - subst j. rewrite Nat.ltb_irrefl, Nat.eqb_refl. cbn [orb andb].
    destruct (str_ltb t s) eqn:E; [right | left; reflexivity].
    rewrite (str_ltb_asym _ _ E). reflexivity.
  - right. replace (i <? j)%nat with false by (symmetry; apply Nat.ltb_ge; lia).
    replace (i =? j)%nat with false by (symmetry; apply Nat.eqb_neq; lia). reflexivity.
Qed.

Lemma lex_leb_trans a b c : lex_leb a b = true -> lex_leb b c = true -> lex_leb a c = true.
Proof.
  destruct a as [i s], b as [j t], c as [k u]. unfold lex_leb, lex_ltb; cbn [fst snd].
  rewrite !negb_true_iff, !orb_false_iff. intros [A1 A2] [B1 B2].
  apply Nat.ltb_ge in A1, B1.
  destruct (Nat.ltb_spec k i) as [L|L]; [lia|]. split; [reflexivity|].
  destruct (Nat.eqb_spec k i) as [E|E]; [|reflexivity]. subst k.
  assert (j = i) by lia. subst j. rewrite Nat.eqb_refl in A2, B2. cbn [andb] in *.
  destruct (str_ltb u s) eqn:F; [|reflexivity].
  destruct (str_ltb_negtrans s t u F); congruence.
Qed.
