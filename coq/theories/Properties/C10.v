(* C10 - Enclosing removal strips exactly one layer; adding back restores or re-encloses (middleware level).
   Only statements here; every proof is `exact <lemma>` (Proofs/EnclosingProofs.v, Proofs/LibAddProofs.v).
   The clause "written into an entry and re-parsed is one field with the same content" composes AddEnclosing with the
   splitter and is stated in the splitter engine (C10_reparse_except_known); here it is covered by the Python oracle. *)
From Coq Require Import List NArith ZArith Bool String.
From BP Require Import Base.Chars Model.Blocks Model.LibAdd Gen.Constants Model.Enclosing Spec.C10
  Proofs.LibAddProofs Proofs.EnclosingProofs.
Import ListNotations.
Local Open Scope Z_scope.

(* _strip_enclosing strips exactly one genuine outer {...} or "..." pair of the stripped value and says which;
   if the value is not one such piece it returns it unchanged with 'no-enclosing'.  The three cases are exhaustive
   and exclusive (a value has at most one outer pair), so this determines the function on every input. *)
Theorem C10_strip_one_layer : forall value : str,
  let v := strip value in
  (forall w, outer_brace v w -> strip_enclosing value = (w, [c_lb]))
  /\ (forall w, outer_quote v w -> strip_enclosing value = (w, [c_quote]))
  /\ ((forall w, ~ outer_brace v w) -> (forall w, ~ outer_quote v w) -> strip_enclosing value = (v, no_enclosing)).
Proof. exact strip_one_layer. Qed.
Print Assumptions C10_strip_one_layer.

(* adding back with reuse restores the original value exactly (every splitter value is stripped: strip v = v);
   for any value at all the result is the stripped original; whatever default / enclose_integers / numeric field *)
Theorem C10_reuse_restores : forall c v air, reuse c = true -> strip v = v ->
  enclose c (VStr (fst (strip_enclosing v))) (Some (VStr (snd (strip_enclosing v)))) air = Val (VStr v).
Proof. exact reuse_restores. Qed.
Print Assumptions C10_reuse_restores.

Theorem C10_reuse_restores_stripped : forall c value air, reuse c = true ->
  enclose c (VStr (fst (strip_enclosing value))) (Some (VStr (snd (strip_enclosing value)))) air = Val (VStr (strip value)).
Proof. exact reuse_restores_strip. Qed.
Print Assumptions C10_reuse_restores_stripped.

(* integer values (digit strings by str.isdigit, Python ints) in a numeric field (apply_int_rule = true), when no
   recorded enclosing is reused: never an error; unchanged (type included) iff enclose_integers = False; otherwise
   the default enclosing around the decimal text; outside numeric fields always the default enclosing *)
Theorem C10_int_rule : forall c v md, wf_cfg c -> (reuse c = false \/ not_none md = None) -> is_integer v = true ->
  (exists r, enclose c v md true = Val r)
  /\ (enclose c v md true = Val v <-> enclose_integers c = false)
  /\ (enclose_integers c = true ->
      exists txt q, fmt_value v = Some txt /\ default_enclosing c = [q] /\ enclose c v md true = Val (VStr (wrap q txt)))
  /\ (exists txt q, fmt_value v = Some txt /\ default_enclosing c = [q] /\ enclose c v md false = Val (VStr (wrap q txt))).
Proof. exact int_rule. Qed.
Print Assumptions C10_int_rule.

(* every other text / int value gets the default enclosing, without error *)
Theorem C10_default_enclosing : forall c v txt md air, wf_cfg c -> (reuse c = false \/ not_none md = None) ->
  fmt_value v = Some txt -> (air = false \/ is_integer v = false) ->
  exists q, default_enclosing c = [q] /\ enclose c v md air = Val (VStr (wrap q txt)).
Proof. exact default_enclosing_rule. Qed.
Print Assumptions C10_default_enclosing.

(* RemoveEnclosing on an entry: every field value is replaced by its stripped content; type, key, field keys, field
   lines are kept; the metadata entry maps each field key to the enclosing recorded for (the last field with) that key
   and to nothing else *)
Theorem C10_entry_metadata : forall h t k fs b', remove_block (BEntry h t k fs) = Val b' ->
  exists fs' md,
    b' = BEntry (set_meta h remove_enclosing_metadata_key (VDict md)) t k fs'
    /\ Forall2 stripped_field fs fs'
    /\ map fkey fs' = map fkey fs /\ map fline fs' = map fline fs
    /\ (forall k', dict_get md k' = match last_field k' fs with Some f => Some (recorded f) | None => None end).
Proof. exact remove_entry_spec. Qed.
Print Assumptions C10_entry_metadata.

Theorem C10_string_metadata : forall h k v b', remove_block (BString h k v) = Val b' ->
  exists s, v = VStr s
    /\ b' = BString (set_meta h remove_enclosing_metadata_key (VStr (snd (strip_enclosing s)))) k (VStr (fst (strip_enclosing s))).
Proof. exact remove_string_spec. Qed.
Print Assumptions C10_string_metadata.

(* frame: other blocks are returned as they are; of a block header only the one metadata entry changes *)
Theorem C10_other_blocks : forall b, is_entry b = false -> is_string b = false -> remove_block b = Val b.
Proof. exact remove_other. Qed.
Print Assumptions C10_other_blocks.

Theorem C10_metadata_frame : forall h k v, sl (set_meta h k v) = sl h /\ raw (set_meta h k v) = raw h
  /\ dict_get (meta (set_meta h k v)) k = Some v
  /\ (forall k', k' <> k -> dict_get (meta (set_meta h k v)) k' = dict_get (meta h) k').
Proof. exact set_meta_frame. Qed.
Print Assumptions C10_metadata_frame.

(* removal never raises on text values *)
Theorem C10_remove_total : forall fs, Forall (fun f => is_vstr (fval f) = true) fs -> forall md0, exists r, remove_fields fs md0 = Val r.
Proof. exact remove_fields_total. Qed.
Print Assumptions C10_remove_total.

(* library level: the block list of ANY library has distinct live keys, and on such a list both middlewares act
   block by block (BlockMiddleware.transform's Library(blocks=...) wraps nothing, drops nothing, reorders nothing) *)
Theorem C10_library_wf : forall bs, wf_blocks (lblocks (lib_of bs)).
Proof. exact lib_of_wf. Qed.
Print Assumptions C10_library_wf.

Theorem C10_remove_library : forall bs bs', wf_blocks bs -> remove_lib bs = Val bs' ->
  Forall2 (fun b b' => remove_block b = Val b') bs bs'.
Proof. exact remove_lib_blockwise. Qed.
Print Assumptions C10_remove_library.

Theorem C10_add_library : forall c bs bs', wf_blocks bs -> add_lib c bs = Val bs' ->
  Forall2 (fun b b' => add_block_encl c b = Val b') bs bs'.
Proof. exact add_lib_blockwise. Qed.
Print Assumptions C10_add_library.

(* AddEnclosing on an entry keeps type, key, field keys and lines and pops the metadata entry *)
Theorem C10_add_entry_frame : forall c h t k fs b', add_block_encl c (BEntry h t k fs) = Val b' ->
  exists fs', b' = BEntry (del_meta h remove_enclosing_metadata_key) t k fs'
    /\ map fkey fs' = map fkey fs /\ map fline fs' = map fline fs.
Proof. exact add_entry_frame. Qed.
Print Assumptions C10_add_entry_frame.

(* remove, then add with reuse, on an entry with pairwise distinct field keys: every value is its stripped original *)
Theorem C10_entry_reuse_restores : forall c h t k fs b1, reuse c = true -> NoDup (map fkey fs) ->
  remove_block (BEntry h t k fs) = Val b1 ->
  exists h', add_block_encl c b1 = Val (BEntry h' t k (map (fun f => mkfield (fkey f) (VStr (strip (str_of (fval f)))) (fline f)) fs))
             /\ sl h' = sl h /\ raw h' = raw h.
Proof. exact entry_reuse_restores. Qed.
Print Assumptions C10_entry_reuse_restores.

(* the constants regenerated from the running module are the ones the property names (re-proved at every build) *)
Theorem C10_numeric_fields :
  entry_potentially_int_fields = map lit ["year"; "month"; "volume"; "number"; "pages"; "edition"; "chapter"; "issue"]%string
  /\ strings_can_be_unescaped_ints = false
  /\ remove_enclosing_metadata_key = lit "removed_enclosing" /\ removed_enclosing_key = lit "removed_enclosing".
Proof. exact numeric_fields_ok. Qed.
Print Assumptions C10_numeric_fields.

(* ---------------------------------------------------------------- non-vacuity and the F5 witnesses *)
Example C10_example_nested : outer_brace (c_lb :: lit "a{b}c" ++ [c_rb]) (lit "a{b}c")
  /\ strip_enclosing (lit "  {a{b}c} ") = (lit "a{b}c", [c_lb]).
Proof. split; [apply single_brace; vm_compute; reflexivity | vm_compute; reflexivity]. Qed.

Example C10_example_quote_in_braces : outer_quote (c_quote :: lit "a{""}b" ++ [c_quote]) (lit "a{""}b").
Proof. apply single_quote. vm_compute. reflexivity. Qed.

(* {a} # {b}, "a" # "b" and the lone quote are NOT one enclosed piece (the three witnesses of finding F5) *)
Example C10_example_concat : ~ outer_brace (c_lb :: lit "a} # {b" ++ [c_rb]) (lit "a} # {b")
  /\ ~ outer_quote (c_quote :: lit "a"" # ""b" ++ [c_quote]) (lit "a"" # ""b")
  /\ strip_enclosing (lit "{a} # {b}") = (lit "{a} # {b}", no_enclosing)
  /\ strip_enclosing [c_quote] = ([c_quote], no_enclosing).
Proof.
  repeat split.
  - intros H. apply single_brace in H. vm_compute in H. discriminate.
  - intros H. apply single_quote in H. vm_compute in H. discriminate.
Qed.

Example C10_example_int_rule :
  enclose (mkadd false false [c_lb]) (VInt 1990) None true = Val (VInt 1990)
  /\ enclose (mkadd false true [c_lb]) (VInt 1990) None true = Val (VStr (lit "{1990}"))
  /\ enclose (mkadd false false [c_quote]) (VStr (lit "1990")) None true = Val (VStr (lit "1990"))
  /\ enclose (mkadd false false [c_quote]) (VStr (lit "1990")) None false = Val (VStr (c_quote :: lit "1990" ++ [c_quote]))
  /\ is_integer (VStr (lit "1990")) = true /\ wf_cfg (mkadd false false [c_lb]).
Proof. repeat split; try (vm_compute; reflexivity). left. reflexivity. Qed.

Example C10_example_entry :
  remove_block (BEntry hdr0 (lit "article") (lit "k") [mkfield (lit "title") (VStr (lit "{T}")) None; mkfield (lit "year") (VStr (lit "1990")) None])
  = Val (BEntry (mkhdr None None [(remove_enclosing_metadata_key,
                                   VDict [(lit "title", VStr [c_lb]); (lit "year", VStr no_enclosing)])])
                (lit "article") (lit "k") [mkfield (lit "title") (VStr (lit "T")) None; mkfield (lit "year") (VStr (lit "1990")) None]).
Proof. vm_compute. reflexivity. Qed.

(* ---- the re-parse clause, composed with the splitter model (Proofs/ReparseProofs.v): adding the default enclosing to
   a brace-balanced value (a `braced` content of the grammar: no active brace outside a group, not ending in a
   backslash, no block-start pattern = not in K2), written into an entry and re-parsed with the default stack, is one
   field with exactly that content; same for the quote default over `quoted` content (no bare quote outside braces,
   and none inside = not in K4); K2 and K4 are refuted by witnesses *)
From BP Require Import Model.Lexer Model.Splitter Model.Grammar Model.Pipeline Proofs.SplitGrammar Proofs.ReparseProofs.
Theorem C10_reparse_brace' : forall (b : braced) typ key pre name w1 w2 post,
  frame_ok typ key pre name w1 w2 post = true ->
  wf_braced false b = true ->                          (* brace-balanced, no active brace outside a group, no final backslash *)
  noat (render_braced b) [c_rb] = true ->              (* not in K2: no '@' word* blank* '{' in the value *)
  let v := render_braced b in
  let ev := c_lb :: v ++ [c_rb] in
  let text := entry_text typ key pre name w1 w2 ev post in
  (forall md air, enclose (mkadd false true [c_lb]) (VStr v) md air = Enclosing.Val (VStr ev))
  /\ split_raw text = Blocks [BEntry (mkhdr (Some 0) (Some text) []) (lower typ) key
                                [mkfield name (VStr ev) (Some (fline_of typ key pre name w1))]]
  /\ strip_enclosing ev = (v, [c_lb])
  /\ parse_default text =
     PVal [BEntry (mkhdr (Some 0) (Some text) [(Gen.Constants.remove_enclosing_metadata_key, VDict [(name, VStr [c_lb])])])
             (lower typ) key [mkfield name (VStr v) (Some (fline_of typ key pre name w1))]].
Proof. exact ReparseProofs.C10_reparse_brace. Qed.
Print Assumptions C10_reparse_brace'.

Theorem C10_reparse_quote' : forall (q : quoted) typ key pre name w1 w2 post,
  frame_ok typ key pre name w1 w2 post = true ->
  wf_quoted false q = true ->                          (* brace-balanced, no active quote at all (outside braces: the
                                                          quantifier; inside braces: not in K4), no final backslash *)
  noat (render_quoted q) [c_quote] = true ->           (* not in K2 *)
  let v := render_quoted q in
  let ev := c_quote :: v ++ [c_quote] in
  let text := entry_text typ key pre name w1 w2 ev post in
  (forall md air, enclose (mkadd false true [c_quote]) (VStr v) md air = Enclosing.Val (VStr ev))
  /\ split_raw text = Blocks [BEntry (mkhdr (Some 0) (Some text) []) (lower typ) key
                                [mkfield name (VStr ev) (Some (fline_of typ key pre name w1))]]
  /\ strip_enclosing ev = (v, [c_quote])
  /\ parse_default text =
     PVal [BEntry (mkhdr (Some 0) (Some text) [(Gen.Constants.remove_enclosing_metadata_key, VDict [(name, VStr [c_quote])])])
             (lower typ) key [mkfield name (VStr v) (Some (fline_of typ key pre name w1))]].
Proof. exact ReparseProofs.C10_reparse_quote. Qed.
Print Assumptions C10_reparse_quote'.

Theorem C10_reparse_refuted_K2 :
  render_braced k2_b = lit "a @b{c}"
  /\ frame_ok (lit "article") (lit "k") (lit " ") (lit "t") (lit " ") (lit " ") [] = true
  /\ wf_braced false k2_b = true /\ noat (render_braced k2_b) [c_rb] = false
  /\ ex_frame (c_lb :: render_braced k2_b ++ [c_rb]) = lit "@article{k, t = {a @b{c}}}"
  /\ map class_of (blocks_of (split_raw (ex_frame (c_lb :: render_braced k2_b ++ [c_rb])))) = [CFailed; CEntry; CImpl]
  /\ forall h t k fs, split_raw (ex_frame (c_lb :: render_braced k2_b ++ [c_rb])) <> Blocks [BEntry h t k fs].
Proof. exact ReparseProofs.C10_reparse_brace_refuted_K2. Qed.
Print Assumptions C10_reparse_refuted_K2.

Theorem C10_reparse_refuted_K4 :
  render_quoted k4_q = [c_lb; c_quote; c_rb] /\ render_braced k4_b = [c_lb; c_quote; c_rb]
  /\ wf_braced false k4_b = true /\ noat (render_braced k4_b) [c_rb] = true
  /\ wf_quoted false k4_q = false /\ noat (render_quoted k4_q) [c_quote] = true
  /\ map class_of (blocks_of (split_raw (ex_frame (c_quote :: render_quoted k4_q ++ [c_quote])))) = [CEntry; CImpl]
  /\ (forall h t k n fl, split_raw (ex_frame (c_quote :: render_quoted k4_q ++ [c_quote]))
                         <> Blocks [BEntry h t k [mkfield n (VStr (c_quote :: render_quoted k4_q ++ [c_quote])) fl]])
  /\ match blocks_of (split_raw (ex_frame (c_quote :: render_quoted k4_q ++ [c_quote]))) with
     | BEntry _ _ _ [f] :: _ => fval f = VStr [c_quote; c_lb; c_quote]
     | _ => False
     end.
Proof. exact ReparseProofs.C10_reparse_quote_refuted_K4. Qed.
Print Assumptions C10_reparse_refuted_K4.

