(* C11 - @string references resolve exactly: bare matching identifiers only (middleware level).
   Only statements here; every proof is `exact <lemma>` (Proofs/InterpolateProofs.v).
   A library is the block list it is built from (the splitter's library.add(blocks)); [lblocks (lib_of bs)] are its blocks
   (later same-key entries / strings wrapped as duplicates), live entries are the BEntry blocks among them.  The
   "after default parsing of a grammar-derived document" framing composes these theorems with the splitter model
   (stated in the splitter engine); here it is covered by the Python oracle on parse_string(text). *)
From Coq Require Import List NArith ZArith Bool String.
From BP Require Import Base.Chars Model.Blocks Model.LibAdd Gen.Constants Model.Enclosing Model.Interpolate Spec.C10 Spec.C11
  Proofs.LibAddProofs Proofs.EnclosingProofs Proofs.InterpolateProofs.
Import ListNotations.

(* every live entry stays at its position with its type and key; its fields and the recorded keys are related to the
   original fields exactly by the spec relation [res_fields] (a field is replaced iff it is a str, not enclosed, and equal
   - case-sensitively - to the key of a defined string; then by the value of the FIRST definition of that key, wherever
   it stands); the metadata entry is written iff something was resolved and lists the resolved field keys in order *)
Theorem C11_entries : forall bs i h t k fs, nth_error (lblocks (lib_of bs)) i = Some (BEntry h t k fs) ->
  exists fs' ks, res_fields bs fs fs' ks /\ nth_error (resolve_lib bs) i = Some (BEntry (resolved_hdr h ks) t k fs').
Proof. exact resolve_entries. Qed.
Print Assumptions C11_entries.

(* read position by position: a resolvable field holds the string's value and its key is recorded ... *)
Theorem C11_resolved : forall bs fs fs' ks, res_fields bs fs fs' ks -> forall j f v, nth_error fs j = Some f -> Resolvable bs f v ->
  nth_error fs' j = Some (mkfield (fkey f) v (fline f)) /\ In (fkey f) ks.
Proof. exact res_fields_hit. Qed.
Print Assumptions C11_resolved.

(* ... any other field (enclosed look-alike, concatenation, other letter case, undefined name, number, non-str value) is
   the very same field afterwards and (field names being distinct) its key is not recorded *)
Theorem C11_untouched : forall bs fs fs' ks, res_fields bs fs fs' ks -> forall j f, nth_error fs j = Some f ->
  (forall v, ~ Resolvable bs f v) ->
  nth_error fs' j = Some f /\ (NoDup (map fkey fs) -> ~ In (fkey f) ks).
Proof. exact res_fields_miss. Qed.
Print Assumptions C11_untouched.

(* strings, wrapped duplicates, failed blocks, comments: untouched by resolution, same positions, same number of blocks *)
Theorem C11_strings_kept : forall bs i b, nth_error (lblocks (lib_of bs)) i = Some b -> is_entry b = false ->
  nth_error (resolve_lib bs) i = Some b.
Proof. exact resolve_others. Qed.
Print Assumptions C11_strings_kept.

Theorem C11_length : forall bs, List.length (resolve_lib bs) = List.length (lblocks (lib_of bs)).
Proof. exact resolve_length. Qed.
Print Assumptions C11_length.

(* the default parse stack (resolve, THEN remove enclosing) acts block by block ... *)
Theorem C11_default_stack : forall bs out, default_stack bs = Val out ->
  Forall2 (fun b b' => remove_block (resolve_block (strs (lib_of bs)) b) = Val b') (lblocks (lib_of bs)) out.
Proof. exact default_stack_blockwise. Qed.
Print Assumptions C11_default_stack.

(* ... strings come out exactly as RemoveEnclosing alone leaves them (definition order irrelevant, resolution invisible) ... *)
Theorem C11_default_strings : forall bs out out0, default_stack bs = Val out -> remove_lib (lblocks (lib_of bs)) = Val out0 ->
  forall i b, nth_error (lblocks (lib_of bs)) i = Some b -> is_entry b = false -> nth_error out i = nth_error out0 i.
Proof. exact default_stack_strings. Qed.
Print Assumptions C11_default_strings.

(* ... and a field of a live entry holds the CONTENT (one outer pair removed, C10) of the referenced string, or its own content *)
Theorem C11_default_field : forall bs out i h t k fs, default_stack bs = Val out ->
  nth_error (lblocks (lib_of bs)) i = Some (BEntry h t k fs) ->
  exists h' fs'', nth_error out i = Some (BEntry h' t k fs'') /\ sl h' = sl h /\ raw h' = raw h
    /\ forall j f, nth_error fs j = Some f ->
         (forall sv, Resolvable bs f (VStr sv) ->
            nth_error fs'' j = Some (mkfield (fkey f) (VStr (fst (strip_enclosing sv))) (fline f)))
         /\ (forall s, fval f = VStr s -> (forall v, ~ Resolvable bs f v) ->
            nth_error fs'' j = Some (mkfield (fkey f) (VStr (fst (strip_enclosing s))) (fline f))).
Proof. exact default_stack_field. Qed.
Print Assumptions C11_default_field.

(* the stack order matters: with RemoveEnclosing first, the braced look-alike {a} becomes the bare a and is resolved *)
Theorem C11_order_matters :
  field_values (default_stack order_witness) = [[]; [VStr (lit "a")]]
  /\ field_values (swapped_stack order_witness) = [[]; [VStr (lit "x")]]
  /\ default_stack order_witness <> swapped_stack order_witness.
Proof. exact order_matters. Qed.
Print Assumptions C11_order_matters.

(* ---------------------------------------------------------------- non-vacuity *)
Definition ex_lib : list block :=
  [BEntry hdr0 (lit "article") (lit "k")
     [mkfield (lit "journal") (VStr (lit "jan")) None;          (* bare, defined later: resolved to the FIRST definition *)
      mkfield (lit "note") (VStr (lit "{jan}")) None;           (* enclosed look-alike *)
      mkfield (lit "title") (VStr (lit "Jan")) None;            (* other letter case *)
      mkfield (lit "month") (VStr (lit "jan # jan")) None];     (* concatenation *)
   BString hdr0 (lit "jan") (VStr (lit "{January}"));
   BString hdr0 (lit "jan") (VStr (lit "{second definition}"))].

Example C11_example_resolvable :
  Resolvable ex_lib (mkfield (lit "journal") (VStr (lit "jan")) None) (VStr (lit "{January}"))
  /\ (forall v, ~ Resolvable ex_lib (mkfield (lit "note") (VStr (lit "{jan}")) None) v)
  /\ (forall v, ~ Resolvable ex_lib (mkfield (lit "title") (VStr (lit "Jan")) None) v).
Proof.
  split; [|split].
  - exists (lit "jan"). split; [reflexivity|]. split; [|vm_compute; reflexivity].
    intros H. apply enclosed_b in H. vm_compute in H. discriminate.
  - intros v (s & E & Hne & _). inversion E; subst. apply Hne. apply enclosed_b. vm_compute. reflexivity.
  - intros v (s & E & _ & F). inversion E; subst. vm_compute in F. discriminate.
Qed.

Example C11_example_default :
  field_values (default_stack ex_lib)
  = [[VStr (lit "January"); VStr (lit "jan"); VStr (lit "Jan"); VStr (lit "jan # jan")]; []; []].
Proof. vm_compute. reflexivity. Qed.

(* ---- on documents of the dialect grammar, through the splitter and the default parse stack (Proofs/ResolveDocProofs.v):
   a bare value naming an @string holds the content of the FIRST @string of that name and is recorded; enclosed
   values, concatenations (see K8 for the one exception) and bare values naming no @string keep their own content
   and are not recorded; @string blocks stay where they are with only their enclosing removed *)
From BP Require Import Model.Lexer Model.Splitter Model.Grammar Model.Pipeline Model.LibAdd Proofs.SplitGrammar Proofs.ResolveDocProofs.
Theorem C11_doc_fields' : forall d, wf_doc d -> nodup_fields d -> distinct_keys d ->
  exists out, parse_default (render d) = PVal out /\ List.length out = List.length (d_items d) /\
  forall i typ hws w1 key w2 t g, nth_error (d_items d) i = Some (IEntry typ hws w1 key w2 t, g) ->
    exists h' fs', nth_error out i = Some (BEntry h' (lower typ) key fs')
      /\ raw h' = Some (render_item (IEntry typ hws w1 key w2 t))
      /\ map fkey fs' = map g_name (etail_fields t)
      /\ forall j f, nth_error (etail_fields t) j = Some f ->
         (* (i) a bare piece naming an @string: the content of the FIRST such @string, and the field is listed *)
         (forall s sv, g_val f = mkgv (PBare s) [] -> first_gstring (d_items d) s = Some sv ->
            holds fs' j (g_name f) (fst (strip_enclosing (render_value sv))) /\ listed h' (g_name f))
         (* (ii) enclosed as the resolver sees it, or the whole source text names no @string: own content, not listed *)
         /\ (enclosed (render_value (g_val f)) \/ first_gstring (d_items d) (render_value (g_val f)) = None ->
            holds fs' j (g_name f) (fst (strip_enclosing (render_value (g_val f)))) /\ ~ listed h' (g_name f)).
Proof. exact ResolveDocProofs.C11_doc_fields. Qed.
Print Assumptions C11_doc_fields'.

Theorem C11_doc_untouched' : forall d, wf_doc d -> nodup_fields d -> distinct_keys d ->
  exists out, parse_default (render d) = PVal out /\
  forall i typ hws w1 key w2 t g, nth_error (d_items d) i = Some (IEntry typ hws w1 key w2 t, g) ->
    exists h' fs', nth_error out i = Some (BEntry h' (lower typ) key fs')
      /\ forall j f, nth_error (etail_fields t) j = Some f -> untouched d (g_val f) ->
           holds fs' j (g_name f) (fst (strip_enclosing (render_value (g_val f)))) /\ ~ listed h' (g_name f).
Proof. exact ResolveDocProofs.C11_doc_untouched. Qed.
Print Assumptions C11_doc_untouched'.

Theorem C11_doc_strings' : forall d, wf_doc d -> nodup_fields d ->
  exists out, parse_default (render d) = PVal out /\ List.length out = List.length (d_items d)
  (* block level: everything that is no live entry is exactly what RemoveEnclosing alone makes of the split's block *)
  /\ split (render d) = Blocks (rebuild (expected d))
  /\ (forall i b, nth_error (rebuild (expected d)) i = Some b -> is_entry b = false ->
        exists b', remove_block b = Enclosing.Val b' /\ nth_error out i = Some b')
  (* document level *)
  /\ forall i kw hws w1 name w2 w3 v w4 g,
       nth_error (d_items d) i = Some (IString kw hws w1 name w2 w3 v w4, g) ->
       let it := IString kw hws w1 name w2 w3 v w4 in
       (* the first @string of its name: same position, same key, its own content, only the enclosing removed *)
       (first_gstring (firstn i (d_items d)) name = None ->
          exists ln, nth_error out i =
            Some (BString (mkhdr (Some ln) (Some (render_item it))
                             [(remove_enclosing_metadata_key, VStr (snd (strip_enclosing (render_value v))))])
                    name (VStr (fst (strip_enclosing (render_value v))))))
       (* a later @string of a repeated name: the duplicate wrapper of the split, untouched *)
       /\ (forall v0, first_gstring (firstn i (d_items d)) name = Some v0 ->
          exists ln hp, nth_error out i =
            Some (BDupKey (mkhdr (Some ln) (Some (render_item it)) []) name
                    (BString hp name (VStr (render_value v0)))
                    (BString (mkhdr (Some ln) (Some (render_item it)) []) name (VStr (render_value v))))).
Proof. exact ResolveDocProofs.C11_doc_strings. Qed.
Print Assumptions C11_doc_strings'.

Theorem C11_concat_refuted' :
  render cx_doc = lit "@string{a#b = ""X""} @article{k, t = a#b}"
  /\ wf_doc cx_doc /\ nodup_fields cx_doc /\ distinct_keys cx_doc /\ hash_free_b cx_doc = false
  /\ match parse_default (render cx_doc) with
     | PVal [_; BEntry h _ _ [f]] => fval f = VStr (lit "X") /\ dict_get (meta h) resolve_meta_key = Some (VList [VStr (lit "t")])
     | _ => False
     end.
Proof. exact ResolveDocProofs.C11_concat_refuted. Qed.
Print Assumptions C11_concat_refuted'.

