(* C17 - Field sorting and key normalisation only permute/merge fields; values intact.
   Only statements here; every proof is `exact <lemma>` (Proofs/SortFieldsProofs.v).
   Models: Model/SortFields.v (sort_alpha, sort_custom, custom_ctor), Model/FieldKeys.v (normalize_fields),
   Model/LibRebuild.v (block_mw = BlockMiddleware.transform incl. Library(blocks=...)).  Readable specs: Spec/C17.v.
   CPython's sorted() is modelled by insertion sort; C17_alpha_unique / C17_custom_unique show that ANY function
   meeting the stable-sort contract returns the same list. *)
From Coq Require Import String List ZArith Permutation Sorted.
From BP Require Import Base.Chars Base.StableSort Model.Blocks Model.LibRebuild Model.SortFields Model.FieldKeys Spec.C17
  Proofs.SortFieldsProofs.
Import ListNotations.

(* alphabetical: exactly the entry's fields, each once, keys ascending (code points), equal keys in source order *)
Theorem C17_alpha : forall fs, alpha_spec fs (sort_alpha fs).
Proof. exact sort_alpha_spec. Qed.
Print Assumptions C17_alpha.

Theorem C17_alpha_unique : forall fs out, alpha_spec fs out -> out = sort_alpha fs.
Proof. exact alpha_spec_unique. Qed.
Print Assumptions C17_alpha_unique.

(* custom order, contract form: a permutation ordered by position in the (folded) order list, unlisted keys after
   all listed ones, ties in source order; for every order list, with or without duplicates *)
Theorem C17_custom : forall cs ord fs, custom_spec cs ord fs (sort_custom cs ord fs).
Proof. exact sort_custom_spec. Qed.
Print Assumptions C17_custom.

Theorem C17_custom_unique : forall cs ord fs out, custom_spec cs ord fs out -> out = sort_custom cs ord fs.
Proof. exact custom_spec_unique. Qed.
Print Assumptions C17_custom_unique.

(* what "position" means: the first index of the key if listed, the length of the list if not *)
Theorem C17_custom_position : forall k ord,
  (In k ord -> nth_error ord (position k ord) = Some k /\ forall j, j < position k ord -> nth_error ord j <> Some k)
  /\ (~ In k ord <-> position k ord = length ord)
  /\ position k ord <= length ord.
Proof. exact position_meaning. Qed.
Print Assumptions C17_custom_position.

(* custom order, explicit form, for every order list the constructor accepts: for each listed key in listed order
   the fields carrying it (case-insensitively unless case_sensitive) in source order, then all other fields in
   source order *)
Theorem C17_custom_explicit : forall cs order ord fs,
  custom_ctor cs order = Some ord -> sort_custom cs ord fs = custom_explicit cs ord fs.
Proof. exact custom_explicit_after_ctor. Qed.
Print Assumptions C17_custom_explicit.

(* the constructor raises ValueError exactly when the order list has duplicates after case folding;
   otherwise it keeps the folded list *)
Theorem C17_custom_ctor : forall cs order, custom_ctor cs order = None <-> ~ NoDup (map (folded cs) order).
Proof. exact custom_ctor_error. Qed.
Print Assumptions C17_custom_ctor.

Theorem C17_custom_ctor_ok : forall cs order ord,
  custom_ctor cs order = Some ord -> ord = map (folded cs) order /\ NoDup ord.
Proof. exact custom_ctor_ok. Qed.
Print Assumptions C17_custom_ctor_ok.

(* normalisation: keys lower-case and unique, in the order of first occurrences; each key carries the value and
   start line of its LAST occurrence; every value is a value of the input (none changed, none invented) *)
Theorem C17_normalize : forall fs, normalize_spec fs (normalize_fields fs).
Proof. exact normalize_fields_spec. Qed.
Print Assumptions C17_normalize.

(* frame: on a library satisfying Library's key invariant the result corresponds block for block; non-entries are
   returned as they are; of an entry only the fields and the middleware's own metadata entry may differ
   (type, key, start line, raw and all other metadata are kept) *)
Theorem C17_frame : forall bs, lib_ok bs ->
  lib_frame (Some alpha_meta_key) bs (mw_alpha bs)
  /\ (forall cs tup ord, lib_frame (Some custom_meta_key) bs (mw_custom cs tup ord bs))
  /\ lib_frame None bs (mw_normalize bs).
Proof. exact frame_all. Qed.
Print Assumptions C17_frame.

Theorem C17_blockwise : forall bs, lib_ok bs ->
  mw_alpha bs = map alpha_block bs
  /\ (forall cs tup ord, mw_custom cs tup ord bs = map (custom_block cs tup ord) bs)
  /\ mw_normalize bs = map normalize_block bs.
Proof. exact blockwise_all. Qed.
Print Assumptions C17_blockwise.

Theorem C17_entry_fields : forall h t k fs,
  (exists h', alpha_block (BEntry h t k fs) = BEntry h' t k (sort_alpha fs))
  /\ (forall cs tup ord, exists h', custom_block cs tup ord (BEntry h t k fs) = BEntry h' t k (sort_custom cs ord fs))
  /\ normalize_block (BEntry h t k fs) = BEntry h t k (normalize_fields fs).
Proof. exact entry_fields_all. Qed.
Print Assumptions C17_entry_fields.

(* idempotence of the three middlewares on ANY list of blocks (metadata included), and of the field functions *)
Theorem C17_idem : forall bs,
  mw_alpha (mw_alpha bs) = mw_alpha bs
  /\ (forall cs tup ord, mw_custom cs tup ord (mw_custom cs tup ord bs) = mw_custom cs tup ord bs)
  /\ mw_normalize (mw_normalize bs) = mw_normalize bs.
Proof. exact idem_all. Qed.
Print Assumptions C17_idem.

Theorem C17_idem_fields : forall fs,
  sort_alpha (sort_alpha fs) = sort_alpha fs
  /\ (forall cs ord, sort_custom cs ord (sort_custom cs ord fs) = sort_custom cs ord fs)
  /\ normalize_fields (normalize_fields fs) = normalize_fields fs.
Proof. exact idem_fields. Qed.
Print Assumptions C17_idem_fields.

(* ---- non-vacuity: the definitions compute what one expects on inputs with collisions *)
Definition fld (k : string) (n : Z) : field := mkfield (lit k) (VInt n) (Some n).
Definition ex_fields : list field := [fld "b" 0; fld "A" 1; fld "a" 2; fld "B" 3; fld "a" 4; fld "ab" 5]%string.

Example C17_example_alpha :
  sort_alpha ex_fields = [fld "A" 1; fld "B" 3; fld "a" 2; fld "a" 4; fld "ab" 5; fld "b" 0]%string.
Proof. vm_compute. reflexivity. Qed.

Example C17_example_custom :
  custom_ctor false [lit "B"; lit "a"]%string = Some [lit "b"; lit "a"]%string
  /\ sort_custom false [lit "b"; lit "a"]%string ex_fields
     = [fld "b" 0; fld "B" 3; fld "A" 1; fld "a" 2; fld "a" 4; fld "ab" 5]%string
  /\ sort_custom true [lit "B"; lit "a"]%string ex_fields
     = [fld "B" 3; fld "a" 2; fld "a" 4; fld "b" 0; fld "A" 1; fld "ab" 5]%string.
Proof. repeat split; vm_compute; reflexivity. Qed.

Example C17_example_ctor :
  custom_ctor false [lit "a"; lit "b"; lit "A"]%string = None
  /\ custom_ctor true [lit "a"; lit "b"; lit "A"]%string = Some [lit "a"; lit "b"; lit "A"]%string.
Proof. split; vm_compute; reflexivity. Qed.

Example C17_example_normalize :
  normalize_fields ex_fields = [fld "b" 3; fld "a" 4; fld "ab" 5]%string.
Proof. vm_compute. reflexivity. Qed.

Example C17_example_lib_ok :
  lib_ok [BEntry hdr0 (lit "article") (lit "k1") ex_fields; BImpl hdr0 (lit "c"); BEntry hdr0 (lit "book") (lit "k2") []]%string.
Proof. split; vm_compute; repeat constructor; simpl; intuition discriminate. Qed.

(* ================================================================================================================
   C17 for EVERY str.lower.  The theorems above are about the ASCII instance [Base.Chars.lower] of str.lower().
   Below, the custom sort, its constructor and NormalizeFieldKeys are the same transcriptions of the Python
   (Model/SortFieldsGen.v, Model/FieldKeysGen.v) over an ARBITRARY function [lowerU : str -> str] standing for
   CPython's str.lower (which is not a map over characters: final sigma is context-sensitive, U+0130 lowers to two
   code points); specifications: Spec/C17Gen.v; proofs: Proofs/SortFieldsGenProofs.v.  [lowerU] and the only
   hypothesis ever made about it, [lower_idempotent lowerU := forall s, lowerU (lowerU s) = lowerU s], are explicit
   arguments/premises of closed theorems.  (CPython 3.12.1 / Unicode 15.0: lower() is idempotent - checked for all
   0x110000 code points, the image of lower() contains no context-sensitive character.)
   The alphabetical middleware never calls lower(): C17_alpha, C17_alpha_unique and its parts of C17_frame / C17_idem
   are already for every str.lower. *)
From BP Require Import Model.SortFieldsGen Model.FieldKeysGen Spec.C17Gen Proofs.SortFieldsGenProofs.

(* custom order, NO hypothesis on lowerU: a permutation, ordered by position of the folded key in the order list
   (listed first in listed order, unlisted after), ties in source order; the contract determines the result; explicit
   listed-first form for every order list the constructor accepts *)
Theorem C17_gen_custom : forall (lowerU : str -> str) cs ord fs,
  custom_spec_gen lowerU cs ord fs (sort_custom_gen lowerU cs ord fs)
  /\ (forall out, custom_spec_gen lowerU cs ord fs out -> out = sort_custom_gen lowerU cs ord fs)
  /\ (forall order, custom_ctor_gen lowerU cs order = Some ord ->
        sort_custom_gen lowerU cs ord fs = custom_explicit_gen lowerU cs ord fs).
Proof. exact gen_custom. Qed.
Print Assumptions C17_gen_custom.

(* constructor, NO hypothesis: ValueError exactly when the order list has duplicates after folding with lowerU;
   otherwise the folded list is kept *)
Theorem C17_gen_ctor : forall (lowerU : str -> str) cs order,
  (custom_ctor_gen lowerU cs order = None <-> ~ NoDup (map (folded_gen lowerU cs) order))
  /\ (forall ord, custom_ctor_gen lowerU cs order = Some ord -> ord = map (folded_gen lowerU cs) order /\ NoDup ord).
Proof. exact gen_ctor. Qed.
Print Assumptions C17_gen_ctor.

(* normalisation, NO hypothesis: keys = first occurrences of the lowerU names in order, unique; each key carries value
   and start line of the LAST field with that lowerU name, which is a field of the input (no value changed or
   invented).  With idempotence: every resulting key is lower-case (a fixed point of lowerU). *)
Theorem C17_gen_normalize : forall (lowerU : str -> str) fs,
  normalize_spec_gen lowerU fs (normalize_fields_gen lowerU fs)
  /\ (lower_idempotent lowerU -> keys_lower_gen lowerU (normalize_fields_gen lowerU fs)).
Proof. exact gen_normalize. Qed.
Print Assumptions C17_gen_normalize.

(* frame, NO hypothesis: on a library satisfying Library's key invariant the result corresponds block for block
   (non-entries as they are; of an entry only fields and the middleware's own metadata entry may differ), it is the
   block-wise image, and an entry keeps type and key and gets the sorted / normalised fields *)
Theorem C17_gen_frame : forall (lowerU : str -> str) bs, lib_ok bs ->
  (forall cs tup ord, lib_frame (Some custom_meta_key) bs (mw_custom_gen lowerU cs tup ord bs))
  /\ lib_frame None bs (mw_normalize_gen lowerU bs)
  /\ (forall cs tup ord, mw_custom_gen lowerU cs tup ord bs = map (custom_block_gen lowerU cs tup ord) bs)
  /\ mw_normalize_gen lowerU bs = map (normalize_block_gen lowerU) bs
  /\ (forall h t k fs,
        (forall cs tup ord, exists h',
            custom_block_gen lowerU cs tup ord (BEntry h t k fs) = BEntry h' t k (sort_custom_gen lowerU cs ord fs))
        /\ normalize_block_gen lowerU (BEntry h t k fs) = BEntry h t k (normalize_fields_gen lowerU fs)).
Proof. exact frame_all_g. Qed.
Print Assumptions C17_gen_frame.

(* idempotence: the custom sort for EVERY lowerU (any list of blocks, metadata included); NormalizeFieldKeys if
   lowerU is idempotent - and ONLY if: idempotence of the middleware (on libraries or on field lists), and
   "the normalised keys are lower-case", each imply that lowerU is idempotent (a one-field entry shows it) *)
Theorem C17_gen_idem : forall (lowerU : str -> str),
  (forall cs tup ord bs,
     mw_custom_gen lowerU cs tup ord (mw_custom_gen lowerU cs tup ord bs) = mw_custom_gen lowerU cs tup ord bs)
  /\ (forall cs ord fs,
        sort_custom_gen lowerU cs ord (sort_custom_gen lowerU cs ord fs) = sort_custom_gen lowerU cs ord fs)
  /\ (lower_idempotent lowerU ->
        (forall bs, mw_normalize_gen lowerU (mw_normalize_gen lowerU bs) = mw_normalize_gen lowerU bs)
        /\ (forall fs, normalize_fields_gen lowerU (normalize_fields_gen lowerU fs) = normalize_fields_gen lowerU fs)
        /\ (forall fs, keys_lower_gen lowerU (normalize_fields_gen lowerU fs)))
  /\ ((forall bs, mw_normalize_gen lowerU (mw_normalize_gen lowerU bs) = mw_normalize_gen lowerU bs)
        -> lower_idempotent lowerU)
  /\ ((forall fs, normalize_fields_gen lowerU (normalize_fields_gen lowerU fs) = normalize_fields_gen lowerU fs)
        -> lower_idempotent lowerU)
  /\ ((forall fs, keys_lower_gen lowerU (normalize_fields_gen lowerU fs)) -> lower_idempotent lowerU).
Proof. exact idem_all_g. Qed.
Print Assumptions C17_gen_idem.

(* the instance: with lowerU := Base.Chars.lower the generalised model IS the model the correspondence runs
   (Model/SortFields.v, Model/FieldKeys.v, the library-level middlewares) and the generalised specification IS
   Spec/C17.v - every equation by conversion; and the ASCII lower is idempotent *)
Theorem C17_gen_instance :
  (forall cs k, fold_key_gen lower cs k = fold_key cs k)
  /\ (forall cs order, custom_ctor_gen lower cs order = custom_ctor cs order)
  /\ (forall cs ord f, custom_rank_gen lower cs ord f = custom_rank cs ord f)
  /\ (forall cs ord fs, sort_custom_gen lower cs ord fs = sort_custom cs ord fs)
  /\ (forall cs tup ord b, custom_block_gen lower cs tup ord b = custom_block cs tup ord b)
  /\ (forall f, lowered_gen lower f = lowered f)
  /\ (forall d fs, norm_loop_gen lower d fs = norm_loop d fs)
  /\ (forall fs, normalize_fields_gen lower fs = normalize_fields fs)
  /\ (forall b, normalize_block_gen lower b = normalize_block b)
  /\ (forall cs tup ord bs, mw_custom_gen lower cs tup ord bs = mw_custom cs tup ord bs)
  /\ (forall bs, mw_normalize_gen lower bs = mw_normalize bs)
  /\ (forall cs k, folded_gen lower cs k = folded cs k)
  /\ (forall cs ord f, field_pos_gen lower cs ord f = field_pos cs ord f)
  /\ (forall cs ord fs out, custom_spec_gen lower cs ord fs out = custom_spec cs ord fs out)
  /\ (forall cs ord fs, custom_explicit_gen lower cs ord fs = custom_explicit cs ord fs)
  /\ (forall k fs, last_with_gen lower k fs = last_with k fs)
  /\ (forall fs out, (normalize_spec_gen lower fs out /\ keys_lower_gen lower out) <-> normalize_spec fs out)
  /\ lower_idempotent lower.
Proof. exact gen_instance. Qed.
Print Assumptions C17_gen_instance.

(* ---- non-vacuity over oracles that are NOT maps over characters *)
(* a toy lower() that changes lengths ("X" -> "xy", as U+0130 -> "i" U+0307) and is idempotent *)
Definition toy_lower (s : str) : str := if str_eqb s (lit "X") then lit "xy" else lower s.

Example C17_gen_example_normalize :
  normalize_fields_gen toy_lower [fld "X" 0; fld "b" 1; fld "XY" 2; fld "xy" 3; fld "B" 4]%string
  = [fld "xy" 3; fld "b" 4]%string.
Proof. vm_compute. reflexivity. Qed.

Example C17_gen_example_custom :
  custom_ctor_gen toy_lower false [lit "X"; lit "XY"]%string = None
  /\ custom_ctor_gen toy_lower false [lit "b"; lit "X"]%string = Some [lit "b"; lit "xy"]%string
  /\ sort_custom_gen toy_lower false [lit "b"; lit "xy"]%string [fld "X" 0; fld "c" 1; fld "B" 2; fld "xy" 3; fld "b" 4]%string
     = [fld "B" 2; fld "b" 4; fld "X" 0; fld "xy" 3; fld "c" 1]%string.
Proof. repeat split; vm_compute; reflexivity. Qed.

(* a lower() that is not idempotent: NormalizeFieldKeys applied twice differs from once *)
Example C17_gen_example_not_idem :
  let bad := fun s : str => (s ++ lit "a")%list in
  normalize_fields_gen bad (normalize_fields_gen bad [fld "k" 0]%string) <> normalize_fields_gen bad [fld "k" 0]%string.
Proof. vm_compute. discriminate. Qed.
