(* C17 - Field sorting and key normalisation only permute/merge fields; values intact.
   Only statements here; every proof is `exact <lemma>` (Proofs/SortFieldsProofs.v).
   Models: Model/SortFields.v (sort_alpha, sort_custom, custom_ctor), Model/FieldKeys.v (normalize_fields),
   Model/LibRebuild.v (block_mw = BlockMiddleware.transform incl. Library(blocks=...)).  Readable specs: Spec/C17.v.
   CPython's sorted() is modelled by insertion sort; C17_alpha_unique / C17_custom_unique show that ANY function
   meeting the stable-sort contract returns the same list. *)
From Coq Require Import String List ZArith Permutation Sorted.
From BP Require Import Base.Chars Base.StableSort Model.Blocks Model.LibRebuild Model.SortFields Model.FieldKeys Spec.C17
  Proofs.SortFieldsProofs.
Import ListNotations.

(* alphabetical: exactly the entry's fields, each once, keys ascending (code points), equal keys in source order *)
Theorem C17_alpha : forall fs, alpha_spec fs (sort_alpha fs).
Proof. exact sort_alpha_spec. Qed.
Print Assumptions C17_alpha.

Theorem C17_alpha_unique : forall fs out, alpha_spec fs out -> out = sort_alpha fs.
Proof. exact alpha_spec_unique. Qed.
Print Assumptions C17_alpha_unique.

(* custom order, contract form: a permutation ordered by position in the (folded) order list, unlisted keys after
   all listed ones, ties in source order; for every order list, with or without duplicates *)
Theorem C17_custom : forall cs ord fs, custom_spec cs ord fs (sort_custom cs ord fs).
Proof. exact sort_custom_spec. Qed.
Print Assumptions C17_custom.

Theorem C17_custom_unique : forall cs ord fs out, custom_spec cs ord fs out -> out = sort_custom cs ord fs.
Proof. exact custom_spec_unique. Qed.
Print Assumptions C17_custom_unique.

(* what "position" means: the first index of the key if listed, the length of the list if not *)
Theorem C17_custom_position : forall k ord,
  (In k ord -> nth_error ord (position k ord) = Some k /\ forall j, j < position k ord -> nth_error ord j <> Some k)
  /\ (~ In k ord <-> position k ord = length ord)
  /\ position k ord <= length ord.
Proof. exact position_meaning. Qed.
Print Assumptions C17_custom_position.

(* custom order, explicit form, for every order list the constructor accepts: for each listed key in listed order
   the fields carrying it (case-insensitively unless case_sensitive) in source order, then all other fields in
   source order *)
Theorem C17_custom_explicit : forall cs order ord fs,
  custom_ctor cs order = Some ord -> sort_custom cs ord fs = custom_explicit cs ord fs.
Proof. exact custom_explicit_after_ctor. Qed.
Print Assumptions C17_custom_explicit.

(* the constructor raises ValueError exactly when the order list has duplicates after case folding;
   otherwise it keeps the folded list *)
Theorem C17_custom_ctor : forall cs order, custom_ctor cs order = None <-> ~ NoDup (map (folded cs) order).
Proof. exact custom_ctor_error. Qed.
Print Assumptions C17_custom_ctor.

Theorem C17_custom_ctor_ok : forall cs order ord,
  custom_ctor cs order = Some ord -> ord = map (folded cs) order /\ NoDup ord.
Proof. exact custom_ctor_ok. Qed.
Print Assumptions C17_custom_ctor_ok.

(* normalisation: keys lower-case and unique, in the order of first occurrences; each key carries the value and
   start line of its LAST occurrence; every value is a value of the input (none changed, none invented) *)
Theorem C17_normalize : forall fs, normalize_spec fs (normalize_fields fs).
Proof. exact normalize_fields_spec. Qed.
Print Assumptions C17_normalize.

(* frame: on a library satisfying Library's key invariant the result corresponds block for block; non-entries are
   returned as they are; of an entry only the fields and the middleware's own metadata entry may differ
   (type, key, start line, raw and all other metadata are kept) *)
Theorem C17_frame : forall bs, lib_ok bs ->
  lib_frame (Some alpha_meta_key) bs (mw_alpha bs)
  /\ (forall cs tup ord, lib_frame (Some custom_meta_key) bs (mw_custom cs tup ord bs))
  /\ lib_frame None bs (mw_normalize bs).
Proof. exact frame_all. Qed.
Print Assumptions C17_frame.

Theorem C17_blockwise : forall bs, lib_ok bs ->
  mw_alpha bs = map alpha_block bs
  /\ (forall cs tup ord, mw_custom cs tup ord bs = map (custom_block cs tup ord) bs)
  /\ mw_normalize bs = map normalize_block bs.
Proof. exact blockwise_all. Qed.
Print Assumptions C17_blockwise.

Theorem C17_entry_fields : forall h t k fs,
  (exists h', alpha_block (BEntry h t k fs) = BEntry h' t k (sort_alpha fs))
  /\ (forall cs tup ord, exists h', custom_block cs tup ord (BEntry h t k fs) = BEntry h' t k (sort_custom cs ord fs))
  /\ normalize_block (BEntry h t k fs) = BEntry h t k (normalize_fields fs).
Proof. exact entry_fields_all. Qed.
Print Assumptions C17_entry_fields.

(* idempotence of the three middlewares on ANY list of blocks (metadata included), and of the field functions *)
Theorem C17_idem : forall bs,
  mw_alpha (mw_alpha bs) = mw_alpha bs
  /\ (forall cs tup ord, mw_custom cs tup ord (mw_custom cs tup ord bs) = mw_custom cs tup ord bs)
  /\ mw_normalize (mw_normalize bs) = mw_normalize bs.
Proof. exact idem_all. Qed.
Print Assumptions C17_idem.

Theorem C17_idem_fields : forall fs,
  sort_alpha (sort_alpha fs) = sort_alpha fs
  /\ (forall cs ord, sort_custom cs ord (sort_custom cs ord fs) = sort_custom cs ord fs)
  /\ normalize_fields (normalize_fields fs) = normalize_fields fs.
Proof. exact idem_fields. Qed.
Print Assumptions C17_idem_fields.

(* ---- non-vacuity: the definitions compute what one expects on inputs with collisions *)
Definition fld (k : string) (n : Z) : field := mkfield (lit k) (VInt n) (Some n).
Definition ex_fields : list field := [fld "b" 0; fld "A" 1; fld "a" 2; fld "B" 3; fld "a" 4; fld "ab" 5]%string.

Example C17_example_alpha :
  sort_alpha ex_fields = [fld "A" 1; fld "B" 3; fld "a" 2; fld "a" 4; fld "ab" 5; fld "b" 0]%string.
Proof. vm_compute. reflexivity. Qed.

Example C17_example_custom :
  custom_ctor false [lit "B"; lit "a"]%string = Some [lit "b"; lit "a"]%string
  /\ sort_custom false [lit "b"; lit "a"]%string ex_fields
     = [fld "b" 0; fld "B" 3; fld "A" 1; fld "a" 2; fld "a" 4; fld "ab" 5]%string
  /\ sort_custom true [lit "B"; lit "a"]%string ex_fields
     = [fld "B" 3; fld "a" 2; fld "a" 4; fld "b" 0; fld "A" 1; fld "ab" 5]%string.
Proof. repeat split; vm_compute; reflexivity. Qed.

Example C17_example_ctor :
  custom_ctor false [lit "a"; lit "b"; lit "A"]%string = None
  /\ custom_ctor true [lit "a"; lit "b"; lit "A"]%string = Some [lit "a"; lit "b"; lit "A"]%string.
Proof. split; vm_compute; reflexivity. Qed.

Example C17_example_normalize :
  normalize_fields ex_fields = [fld "b" 3; fld "a" 4; fld "ab" 5]%string.
Proof. vm_compute. reflexivity. Qed.

Example C17_example_lib_ok :
  lib_ok [BEntry hdr0 (lit "article") (lit "k1") ex_fields; BImpl hdr0 (lit "c"); BEntry hdr0 (lit "book") (lit "k2") []]%string.
Proof. split; vm_compute; repeat constructor; simpl; intuition discriminate. Qed.
