(* C18 - LaTeX en/decoding touches only text values, round-trips, and contains errors: THE WRAPPER
   (_PyStringTransformerMiddleware) for an ARBITRARY converter [conv : str -> str * str] (value, error message).
   Only statements here; every proof is `exact <lemma>` (Proofs/LatexProofs.v).
   PARTIAL CLAIM: pylatexenc (its conversion table, its LaTeX parser) is not modelled.  The round-trip clause of the property is
   proved only conditionally (C18_roundtrip_conditional); its hypothesis is validated by testing (harness/props/c18.py, stream
   `roundtrip`), with known findings K5, K6 and K12.  The ENCODER RULES that latex_encoding.py configures (keep_math,
   enclose_urls, then defaults) ARE modelled (Model/LatexRules.v, compared with LatexEncodingMiddleware on every run, op 121);
   the theorems about them are at the end of this file - among them the root causes of K5 and K6. *)
From Coq Require Import List NArith ZArith Bool String.
From BP Require Import Base.Chars Model.Blocks Model.LibAdd Model.LatexWrap Spec.C18 Proofs.LibAddProofs Proofs.LatexProofs.
Import ListNotations.

(* the whole wrapper in one equation: every visited text s (Spec.C18.visited: str field values; the parts of a NameParts
   held directly, in the order first, last, von, jr; str @string values) is replaced by fst (conv s) and nothing else
   changes; the block is wrapped into a middleware-error block iff some message is non-empty; the reasons are the
   non-empty messages in visiting order.  No exception: the function is total. *)
Theorem C18_wrapper : forall conv b,
  latex_block conv b =
  let p := map_block (fun s => fst (conv s)) b in
  let errs := filter nonempty (map (fun s => snd (conv s)) (visited b)) in
  (match errs with [] => p | _ => error_block p end, errs).
Proof. exact latex_block_eq. Qed.
Print Assumptions C18_wrapper.

(* scope and types: the result is the block itself or an error block around it, equal to the input except for str field
   values, NameParts strings and str @string values - which stay strings; keys, types, header, other values, other blocks equal *)
Theorem C18_scope : forall conv b, exists p, bscope b p
  /\ (fst (latex_block conv b) = p \/ fst (latex_block conv b) = BMwErr (mkhdr (sl (bhdr b)) (raw (bhdr b)) []) EPartial p).
Proof. exact latex_scope. Qed.
Print Assumptions C18_scope.

Theorem C18_types : forall f b, bscope b (map_block f b).
Proof. exact map_block_scope. Qed.
Print Assumptions C18_types.

(* the abstract wrapper, for an arbitrary _transform_python_value_string: an error block iff some message is non-empty *)
Theorem C18_wrapper_errors : forall conv b,
  (exists s, In s (visited b) /\ snd (conv s) <> [])
  <-> fst (latex_block conv b) = error_block (map_block (fun s => fst (conv s)) b) /\ snd (latex_block conv b) <> [].
Proof. exact latex_errors_iff. Qed.
Print Assumptions C18_wrapper_errors.

(* error containment with the shipped try/except around ANY third-party converter f (f s = Conv text, or Fail: an
   exception with its message and its class name): EVERY failure - whatever its message, the empty one included - yields
   the error block holding the block in which each text is converted or, where its conversion failed, the original;
   never an exception (total function) *)
Theorem C18_errors : forall f b,
  (exists s, In s (visited b) /\ fails f s)
  <-> fst (latex_block (py_wrap f) b) = error_block (map_block (outcome_text f) b) /\ snd (latex_block (py_wrap f) b) <> [].
Proof. exact latex_errors_all. Qed.
Print Assumptions C18_errors.

Theorem C18_no_error : forall f b, (forall s, In s (visited b) -> ~ fails f s) ->
  latex_block (py_wrap f) b = (map_block (outcome_text f) b, []).
Proof. exact latex_no_failure. Qed.
Print Assumptions C18_no_error.

(* an exception without message (a bare raise, a failed assert) is reported under its class name (was finding K7) *)
Theorem C18_empty_message_reported : forall f s c0 cls, f s = Fail [] c0 cls -> py_wrap f s = (s, c0 :: cls).
Proof. exact py_wrap_empty_message. Qed.
Print Assumptions C18_empty_message_reported.

Theorem C18_failure_iff_message : forall f s, snd (py_wrap f s) <> [] <-> fails f s.
Proof. exact py_wrap_fails. Qed.
Print Assumptions C18_failure_iff_message.

(* library level: on the blocks of a library the middleware acts block by block (an entry that fails leaves the key
   index, nothing is re-wrapped or dropped), and the result is again a well-formed block list *)
Theorem C18_library : forall conv bs, wf_blocks bs ->
  latex_lib conv bs = map (fun b => fst (latex_block conv b)) bs /\ wf_blocks (latex_lib conv bs).
Proof. exact latex_lib_blockwise. Qed.
Print Assumptions C18_library.

(* conditional round trip: IF decoding the encoding of every text of the alphabet P returns it without error messages
   (a statement about pylatexenc and the configured rules: TESTED, not proved) THEN decode-middleware after
   encode-middleware is the identity on every library over P, and no error block appears *)
Theorem C18_roundtrip_conditional : forall (enc dec : str -> str * str) (P : str -> Prop),
  (forall s, P s -> snd (enc s) = [] /\ dec (fst (enc s)) = (s, [])) ->
  forall bs, wf_blocks bs -> all_texts P bs ->
  latex_lib dec (latex_lib enc bs) = bs /\ latex_errors enc bs = map (fun _ => []) bs.
Proof. exact roundtrip_conditional. Qed.
Print Assumptions C18_roundtrip_conditional.

(* ---------------------------------------------------------------- non-vacuity, with the executable stub converters *)
Definition ex_entry : block :=
  BEntry (mkhdr (Some 3%Z) (Some (lit "@raw")) [(lit "m", VStr [c_eacute])]) (lit "article") [c_eacute]
    [mkfield (lit "title") (VStr (lit "caf" ++ [c_eacute])) (Some 4%Z);
     mkfield (lit "author") (VParts [[c_eacute]] [lit "von"] [lit "BOOM"; lit "x"] []) None;
     mkfield (lit "editor") (VList [VParts [[c_eacute]] [] [lit "BOOM"] []]) None;     (* a list of NameParts: not visited *)
     mkfield (lit "year") (VInt 1990) None].

Example C18_example_visited : visited ex_entry = [lit "caf" ++ [c_eacute]; [c_eacute]; lit "BOOM"; lit "x"; lit "von"].
Proof. reflexivity. Qed.

Example C18_example_error :
  latex_block stub_enc ex_entry =
  (BMwErr (mkhdr (Some 3%Z) (Some (lit "@raw")) []) EPartial
     (BEntry (mkhdr (Some 3%Z) (Some (lit "@raw")) [(lit "m", VStr [c_eacute])]) (lit "article") [c_eacute]
        [mkfield (lit "title") (VStr (lit "caf\'e")) (Some 4%Z);
         mkfield (lit "author") (VParts [lit "\'e"] [lit "von"] [lit "BOOM"; lit "x"] []) None;
         mkfield (lit "editor") (VList [VParts [[c_eacute]] [] [lit "BOOM"] []]) None;
         mkfield (lit "year") (VInt 1990) None]),
   [lit "boom BOOM"]).
Proof. vm_compute. reflexivity. Qed.

(* the former K7 witness: a converter raising an exception with an empty message *)
Example C18_example_empty_message :
  latex_block stub_enc (BString hdr0 [c_e] (VStr quiet))
  = (BMwErr hdr0 EPartial (BString hdr0 [c_e] (VStr quiet)), [lit "_Quiet"]).
Proof. vm_compute. reflexivity. Qed.

(* the stubs satisfy the round-trip hypothesis on texts without backslash, BOOM and QUIET, e.g.: *)
Example C18_example_roundtrip :
  let bs := [BString hdr0 (lit "s") (VStr (lit "caf" ++ [c_eacute])); BEntry hdr0 (lit "a") (lit "k") [mkfield (lit "t") (VStr [c_eacute; c_eacute]) None]] in
  wf_blocks bs /\ latex_lib stub_dec (latex_lib stub_enc bs) = bs /\ latex_lib stub_enc bs <> bs.
Proof.
  split; [|split].
  - split; vm_compute; repeat constructor; intros H; simpl in H; tauto.
  - vm_compute. reflexivity.
  - vm_compute. discriminate.
Qed.

(* ------------------------------------------------------------------ the encoder rules of latex_encoding.py
   (Model/LatexRules.v; [enc_char] = pylatexenc's default conversion of one character, arbitrary here) *)
From BP Require Import Model.LatexRules Proofs.LatexRulesProofs.

(* both rules off: the default conversion, character by character *)
Theorem C18_rules_off : forall enc_char s, encode enc_char false false s = flat_map enc_char s.
Proof. exact encode_no_rules. Qed.
Print Assumptions C18_rules_off.

(* keep_math is greedy (root cause of K5): a text without line break that starts with a dollar and ends in a dollar not preceded
   by a backslash is copied WHOLE, whatever stands between the first and the last dollar - other spans, `&`, `%` ... *)
Theorem C18_rules_keep_math_first_to_last_dollar : forall enc_char eu u x,
  (forall c, In c u -> ceq c c_nl = false) -> ceq x c_bs = false ->
  encode enc_char true eu (c_dollar :: u ++ [x; c_dollar]) = c_dollar :: u ++ [x; c_dollar].
Proof. exact encode_keeps_first_to_last_dollar. Qed.
Print Assumptions C18_rules_keep_math_first_to_last_dollar.

(* the intended behaviour of keep_math (URL rule off): pre $ body x $ post with no other dollar, no line break inside the span
   and the opening dollar not after a backslash - the span is copied as it is, pre and post are converted character by character *)
Theorem C18_rules_single_span : forall enc_char pre u x post,
  (forall c, In c pre -> ceq c c_dollar = false) -> ceq (last pre c_sp) c_bs = false ->
  (forall c, In c u -> ceq c c_nl = false) -> ceq x c_bs = false -> (forall c, In c post -> ceq c c_dollar = false) ->
  encode enc_char true false (pre ++ c_dollar :: u ++ [x; c_dollar] ++ post)
  = flat_map enc_char pre ++ (c_dollar :: u ++ [x; c_dollar]) ++ flat_map enc_char post.
Proof. exact encode_single_span. Qed.
Print Assumptions C18_rules_single_span.

(* enclose_urls (root cause of K6): a matched URL is a prefix of the remaining text, and it is written between \url{ and }
   exactly as it is - no character of it is converted - after which conversion resumes behind it *)
Theorem C18_rules_url_raw : forall enc_char km s m pb, url_match s = Some m ->
  (exists rest, s = m ++ rest)
  /\ enc_go enc_char km true pb 0 s
     = url_open ++ m ++ [c_rb] ++ enc_go enc_char km true (pb_after pb (List.length m) s) 0 (skipn (List.length m) s).
Proof. intros enc_char km s m pb H. split; [exact (url_match_prefix s m H) | exact (encode_url_raw enc_char km s m pb H)]. Qed.
Print Assumptions C18_rules_url_raw.

(* K5 and K6 on their witnesses, with the identity as default conversion: "$a$ & $b$" is kept whole (the `&` between the two
   spans is not converted); "http://a.b/c%20d x" becomes \url{http://a.b/c%20d} x with the `%` raw inside *)
Example C18_rules_examples :
  let s := map asc [36; 97; 36; 32; 38; 32; 36; 98; 36]%N in
  let u := map asc [104; 116; 116; 112; 58; 47; 47; 97; 46; 98; 47; 99; 37; 50; 48; 100; 32; 120]%N in
  encode (fun c => if ceq c (asc 38) then [c_bs; c] else [c]) true true s = s
  /\ encode (fun c => if ceq c c_pct then [c_bs; c] else [c]) true true u
     = url_open ++ firstn 16 u ++ [c_rb] ++ skipn 16 u.
Proof. vm_compute. split; reflexivity. Qed.

(* the constructors of the two middlewares: a custom converter together with one of the two switches is refused (ValueError),
   nothing else is; a switch that is not given takes its default (keep_math, enclose_urls: on; keep_braced_groups: off;
   keep_math_mode: on).  The harness checks the real constructors against this on every option combination (stream options). *)
Theorem C18_constructor_options : forall custom a b da db,
  (resolve_options custom a b da db = None <-> custom = true /\ (a <> None \/ b <> None))
  /\ resolve_options false None None da db = Some (false, da, db)
  /\ encoder_options false None None = Some (false, true, true)
  /\ decoder_options false None None = Some (false, false, true).
Proof.
  intros. split; [apply resolve_options_refuses|]. repeat split.
Qed.
Print Assumptions C18_constructor_options.
