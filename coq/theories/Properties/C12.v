(* C12 - co-author splitting loses nothing and splits only at top-level ' and '.
   Only statements here; proofs in Proofs/NamesSplitProofs.v (conservation), NamesExactProofs.v (exactness),
   NamesIdemProofs.v (idempotence).

   Proved: conservation for ALL strings; for ALL brace-balanced strings the exact separator rule (equality with the
   independent word-level reference splitter), the protection corollary and idempotence under merge + split.
   Tested, not proved: idempotence for unbalanced strings (C12_idempotent_all: the Python oracle checks it on the
   implementation for every generated string on every run; the machine's treatment of a stray '}' right after a
   separator has no word-level counterpart, see DESIGN 4 C12 Limits). *)
From Coq Require Import List NArith ZArith Bool String.
Local Open Scope string_scope.
From BP Require Import Base.Chars Model.Blocks Gen.Constants Model.Names Spec.C12 Proofs.NamesSplitProofs Proofs.NamesExactProofs Proofs.NamesIdemProofs.
Import ListNotations.

(* for EVERY string (balanced or not, any characters): the stripped text is exactly
     piece_1 sep_1 piece_2 ... sep_(n-1) piece_n,   every sep = whitespace+ a|A n|N d|D whitespace+,  pieces non-empty;
   so pieces are contiguous, in order, and together with the separators account for every character *)
Theorem C12_conservation : forall s, conserved s (split_names s).
Proof. exact split_conserved. Qed.
Print Assumptions C12_conservation.

(* for EVERY brace-balanced string the pieces are exactly those of the word-level reference splitter: cut the text
   into top-level words (whitespace = space, tab, CR, LF at brace depth 0 outside escape pairs; '~' is not whitespace);
   a word 'and' (any letter case) closes the current piece iff the piece is non-empty and a further word follows *)
Theorem C12_exact : forall s, balanced (strip4 s) = true -> split_names s = ref_split s.
Proof. exact split_exact. Qed.
Print Assumptions C12_exact.

(* text inside braces, escape pairs and '~'-joined words never split: if no character of the text is a separator
   character (depth-0 unescaped whitespace), the whole text is one piece *)
Theorem C12_protected : forall s, balanced (strip4 s) = true -> strip4 s <> [] ->
  Forall (fun x => snd x = false) (marks (strip4 s)) -> split_names s = [strip4 s].
Proof. exact protected_never_splits. Qed.
Print Assumptions C12_protected.

(* merging the pieces with " and " and splitting again gives the same pieces (brace-balanced text) *)
Theorem C12_idempotent : forall s, balanced (strip4 s) = true -> idempotent_on s.
Proof. exact split_idempotent. Qed.
Print Assumptions C12_idempotent.

(* ---- non-vacuity / instances *)
Example C12_example_split :
  split_names (lit " Donald E. Knuth  and   Leslie {Lamport and Co} AND \'Etienne~and~B and  ")
  = [lit "Donald E. Knuth"; lit "Leslie {Lamport and Co}"; lit "\'Etienne~and~B and"].
Proof. vm_compute. reflexivity. Qed.

Example C12_example_balanced :
  let s := lit "A and {B and C} and D\ and E" in
  balanced (strip4 s) = true /\ ref_split s = [lit "A"; lit "{B and C}"; lit "D\ and E"].
Proof. split; vm_compute; reflexivity. Qed.

Example C12_example_protected :
  let s := lit "{Simon and Schuster}~and~\ Co" in
  balanced (strip4 s) = true /\ Forall (fun x => snd x = false) (marks (strip4 s)).
Proof. split; [vm_compute; reflexivity|]. vm_compute. repeat constructor. Qed.

Example C12_example_idempotent :
  idempotent_on (lit "X and and Y and {and} AND Z and") /\ idempotent_on (lit "A } and { B").
Proof. split; vm_compute; reflexivity. Qed.
