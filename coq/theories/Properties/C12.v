(* C12 - co-author splitting loses nothing and splits only at top-level ' and '.
   Only statements here; proofs in Proofs/NamesSplitProofs.v (conservation), NamesExactProofs.v (exactness),
   NamesIdemProofs.v (idempotence).

   Proved: conservation and idempotence under merge + split for ALL strings; for ALL brace-balanced strings the exact
   separator rule (equality with the independent word-level reference splitter) and the protection corollary.
   Idempotence for all strings (C12_idempotent_all, Proofs/NamesIdemAllProofs.v) is a direct simulation argument on
   the machine (no reference splitter): the machine's treatment of a stray '}' right after a separator has no
   word-level counterpart, but after the canonical " and " it is processed from the same state as after the
   original separator. *)
From Coq Require Import List NArith ZArith Bool String.
Local Open Scope string_scope.
From BP Require Import Base.Chars Model.Blocks Gen.Constants Model.Names Spec.C12 Proofs.NamesSplitProofs Proofs.NamesExactProofs Proofs.NamesIdemProofs Proofs.NamesIdemAllProofs.
Import ListNotations.

(* for EVERY string (balanced or not, any characters): the stripped text is exactly
     piece_1 sep_1 piece_2 ... sep_(n-1) piece_n,   every sep = whitespace+ a|A n|N d|D whitespace+,  pieces non-empty;
   so pieces are contiguous, in order, and together with the separators account for every character *)
Theorem C12_conservation : forall s, conserved s (split_names s).
Proof. exact split_conserved. Qed.
Print Assumptions C12_conservation.

(* for EVERY brace-balanced string the pieces are exactly those of the word-level reference splitter: cut the text
   into top-level words (whitespace = space, tab, CR, LF at brace depth 0 outside escape pairs; '~' is not whitespace);
   a word 'and' (any letter case) closes the current piece iff the piece is non-empty and a further word follows *)
Theorem C12_exact : forall s, balanced (strip4 s) = true -> split_names s = ref_split s.
Proof. exact split_exact. Qed.
Print Assumptions C12_exact.

(* text inside braces, escape pairs and '~'-joined words never split: if no character of the text is a separator
   character (depth-0 unescaped whitespace), the whole text is one piece *)
Theorem C12_protected : forall s, balanced (strip4 s) = true -> strip4 s <> [] ->
  Forall (fun x => snd x = false) (marks (strip4 s)) -> split_names s = [strip4 s].
Proof. exact protected_never_splits. Qed.
Print Assumptions C12_protected.

(* merging the pieces with " and " and splitting again gives the same pieces (brace-balanced text) *)
Theorem C12_idempotent : forall s, balanced (strip4 s) = true -> idempotent_on s.
Proof. exact split_idempotent. Qed.
Print Assumptions C12_idempotent.

(* the same for EVERY string (unbalanced braces, stray '}', trailing backslash, any characters): merging the pieces
   with " and " and splitting again returns the same pieces *)
Theorem C12_idempotent_all : forall s, idempotent_on s.
Proof. exact split_idempotent_all. Qed.
Print Assumptions C12_idempotent_all.

(* ---- non-vacuity / instances *)
Example C12_example_split :
  split_names (lit " Donald E. Knuth  and   Leslie {Lamport and Co} AND \'Etienne~and~B and  ")
  = [lit "Donald E. Knuth"; lit "Leslie {Lamport and Co}"; lit "\'Etienne~and~B and"].
Proof. vm_compute. reflexivity. Qed.

Example C12_example_balanced :
  let s := lit "A and {B and C} and D\ and E" in
  balanced (strip4 s) = true /\ ref_split s = [lit "A"; lit "{B and C}"; lit "D\ and E"].
Proof. split; vm_compute; reflexivity. Qed.

Example C12_example_protected :
  let s := lit "{Simon and Schuster}~and~\ Co" in
  balanced (strip4 s) = true /\ Forall (fun x => snd x = false) (marks (strip4 s)).
Proof. split; [vm_compute; reflexivity|]. vm_compute. repeat constructor. Qed.

Example C12_example_idempotent :
  idempotent_on (lit "X and and Y and {and} AND Z and") /\ idempotent_on (lit "A } and { B").
Proof. split; vm_compute; reflexivity. Qed.

(* unbalanced instances of C12_idempotent_all: the hypothesis of C12_idempotent fails, the pieces are non-trivial *)
Example C12_example_idempotent_all :
  let s1 := lit "A  and } AND  B and }C aNd D" in
  let s2 := lit "{ and A and B" in
  let s3 := lit "A} and {B and C\\" in
  balanced (strip4 s1) = false /\ split_names s1 = [lit "A  and }"; lit "B and }C"; lit "D"]
  /\ balanced (strip4 s2) = false /\ split_names s2 = [lit "{ and A and B"]
  /\ balanced (strip4 s3) = false /\ split_names s3 = [lit "A}"; lit "{B and C\\"].
Proof. repeat split; vm_compute; reflexivity. Qed.
