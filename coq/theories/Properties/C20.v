(* C20 - Entry points apply exactly the requested middleware stack, in order.
   Only statements here; every proof is `exact <lemma>` (Proofs/StackProofs.v).  Middlewares are arbitrary
   (any type M with any  apply : M -> lib -> res lib); the splitter, the codec (decode) and the sinks
   (write_path, write_obj) are arbitrary too: they are the runtime's and enter as oracles (partial, DESIGN C20 Limits).
   The last section gives the codec oracle a body for three of the property's four encodings: Model/TextIO.v models what
   open(path, encoding=e).read() and open(path, "w").write(s) do to bytes and text for utf-8, latin-1 and utf-16 (strict
   codecs, byte order mark, universal newlines), compared with CPython on every run; the theorems C20_text_* say what
   the file layer preserves and what it does not (gbk, a table, stays an oracle).
   [in_order] (Spec/C20.v) is "each middleware applied to the result of the one before, left to right". *)
From Coq Require Import String List NArith ZArith Bool.
From BP Require Import Base.Chars Model.Blocks Model.Writer Model.Stack Spec.C20 Proofs.StackProofs Model.TextIO Proofs.TextIOProofs Proofs.TextIOChunks Proofs.TextIOBytes Proofs.WriterNoCR.
Import ListNotations.

(* parse_string = splitting, then exactly the given parse_stack in the given order, or the default stack followed by
   append_middleware in order; both given: ValueError; the entry point's loop is the left-to-right composition *)
Theorem C20_parse : forall (M : Type) (apply : M -> lib -> res lib) (default_parse : list M) (split : str -> res lib) t l,
  split t = Val l ->
  (forall ps, parse_string M apply default_parse split t (Some ps) None = in_order M apply ps l)
  /\ (forall am, parse_string M apply default_parse split t None (Some am)
                 = bind (in_order M apply default_parse l) (in_order M apply am))
  /\ parse_string M apply default_parse split t None None = in_order M apply default_parse l
  /\ (forall ps am, parse_string M apply default_parse split t (Some ps) (Some am) = Raise EValueError).
Proof. exact parse_clauses. Qed.
Print Assumptions C20_parse.

Theorem C20_stack_order : forall (M : Type) (apply : M -> lib -> res lib) a b l,
  run_mws M apply (a ++ b) l = bind (in_order M apply a l) (in_order M apply b)
  /\ run_mws M apply a l = in_order M apply a l.
Proof. exact (fun M apply a b l => conj (eq_trans (run_mws_in_order M apply (a ++ b) l) (in_order_app M apply a b l))
                                        (run_mws_in_order M apply a l)). Qed.
Print Assumptions C20_stack_order.

(* write_string = prepend_middleware in order, then the default unparse stack (or exactly the given unparse_stack),
   then the writer under the given (or default) format; both given: ValueError *)
Theorem C20_write : forall (M : Type) (apply : M -> lib -> res lib) (default_unparse : list M) l f,
  (forall us, write_string M apply default_unparse l (Some us) None f = bind (in_order M apply us l) (write (the_fmt f)))
  /\ (forall pm, write_string M apply default_unparse l None (Some pm) f
                 = bind (bind (in_order M apply pm l) (in_order M apply default_unparse)) (write (the_fmt f)))
  /\ write_string M apply default_unparse l None None f = bind (in_order M apply default_unparse l) (write (the_fmt f))
  /\ (forall us pm, write_string M apply default_unparse l (Some us) (Some pm) f = Raise EValueError).
Proof. exact write_clauses. Qed.
Print Assumptions C20_write.

(* parse_file(path, encoding) = parse_string of the decoded content; write_file hands exactly the text of write_string
   (same stack arguments, same format) to the sink, for a path and for a file object *)
Theorem C20_files : forall (M : Type) (apply : M -> lib -> res lib) (default_parse default_unparse : list M)
    (split : str -> res lib) (path enc world fobj : Type) (decode : path -> enc -> res str)
    (write_path : world -> path -> str -> res world) (write_obj : world -> fobj -> str -> res world),
  (forall p e ps am,
      parse_file M apply default_parse split path enc decode p e ps am
      = bind (decode p e) (fun t => parse_string M apply default_parse split t ps am))
  /\ (forall w tgt l ps am f,
      write_file M apply default_unparse path world fobj write_path write_obj w tgt l ps am f
      = bind (write_string M apply default_unparse l ps am f) (sink path world fobj write_path write_obj w tgt))
  /\ (forall w tgt l f s, write_string M apply default_unparse l None None f = Val s ->
      write_file M apply default_unparse path world fobj write_path write_obj w tgt l None None f
      = sink path world fobj write_path write_obj w tgt s)
  /\ (forall w tgt l us f,
      write_file M apply default_unparse path world fobj write_path write_obj w tgt l (Some us) None f
      = bind (bind (in_order M apply us l) (write (the_fmt f))) (sink path world fobj write_path write_obj w tgt))
  /\ (forall w tgt l pm f,
      write_file M apply default_unparse path world fobj write_path write_obj w tgt l None (Some pm) f
      = bind (bind (bind (in_order M apply pm l) (in_order M apply default_unparse)) (write (the_fmt f)))
             (sink path world fobj write_path write_obj w tgt)).
Proof. exact files_clauses. Qed.
Print Assumptions C20_files.

(* a block middleware's per-block results replace the blocks in place: the new library is Library(concatenation, in block
   order, of what each result stands for: nothing for None / an empty collection, the block, the blocks of a collection);
   as soon as one result is anything else, or a collection with a non-block, TypeError; every result is one or the other *)
Theorem C20_splice : forall f l,
  (forall reps, Forall2 legal (map f l) reps -> block_transform f l = Val (library_of (concat reps)))
  /\ (Exists illegal (map f l) -> block_transform f l = Raise ETypeError)
  /\ (forall r, (exists bs, legal r bs) \/ illegal r).
Proof. exact (fun f l => conj (block_transform_legal f l) (conj (block_transform_illegal f l) legal_or_illegal)). Qed.
Print Assumptions C20_splice.

(* Library(blocks) keeps every block at its position, as it is or wrapped as a duplicate of an earlier same-kind key *)
Theorem C20_library : forall bs,
  Forall2 same_or_wrapped bs (library_of bs) /\ List.length (library_of bs) = List.length bs.
Proof. exact (fun bs => conj (library_of_shape bs) (library_of_length bs)). Qed.
Print Assumptions C20_library.

(* blocks of the failed classes never reach a handler: they are kept *)
Theorem C20_dispatch : forall fe fs fp fx fi b, is_failed_class b = true -> transform_block fe fs fp fx fi b = RBlock b.
Proof. exact transform_block_other. Qed.
Print Assumptions C20_dispatch.

(* ---- non-vacuity: the probes are order-sensitive, and the statements above distinguish the orders *)
Definition ex_lib : lib := [BEntry hdr0 (lit "article") (lit "k") []; BExpl hdr0 (lit "c")].
Definition ex_apply := apply_mw (fun _ l => Val l).
Example C20_example_order :
  in_order mw ex_apply [MLibTag 1; MLibTag 2] ex_lib <> in_order mw ex_apply [MLibTag 2; MLibTag 1] ex_lib
  /\ parse_string mw ex_apply [MLibTag 7] (fun _ => Val ex_lib) [] None (Some [MLibTag 1; MLibTag 2])
     = in_order mw ex_apply [MLibTag 7; MLibTag 1; MLibTag 2] ex_lib.
Proof. split; [vm_compute; discriminate | reflexivity]. Qed.

Example C20_example_splice :
  let new := BImpl hdr0 (lit "n") in
  let f := fun b => match b with BEntry _ _ _ _ => RColl [IBlock b; IBlock new] | _ => RNone end in
  Forall2 legal (map f ex_lib) [[BEntry hdr0 (lit "article") (lit "k") []; new]; []]
  /\ block_transform f ex_lib = Val [BEntry hdr0 (lit "article") (lit "k") []; new]
  /\ Exists illegal (map (fun b => match b with BExpl _ _ => RColl [IBlock b; INonBlock] | _ => RBlock b end) ex_lib).
Proof.
  cbn zeta. split; [|split].
  - repeat constructor. apply (Lg_coll [BEntry hdr0 (lit "article") (lit "k") []; BImpl hdr0 (lit "n")]).
  - reflexivity.
  - apply Exists_cons_tl. apply Exists_cons_hd. right. eexists. split; [reflexivity | right; left; reflexivity].
Qed.

(* ---- the text layer under parse_file / write_file (Model/TextIO.v), for files and texts of ANY length *)
Local Open Scope Z_scope.

(* what write_file wrote, parse_file reads back - up to universal newlines: the text handed to parse_string is
   nl_read of the text write_string returned; identical when the text holds no carriage return *)
Theorem C20_text_write_then_read : forall e s bs, write_text e s = Some bs -> read_text e bs = Some (nl_read s).
Proof. exact write_then_read. Qed.
Print Assumptions C20_text_write_then_read.

Theorem C20_text_file_transparent : forall e s bs, no_cr s = true -> write_text e s = Some bs -> read_text e bs = Some s.
Proof. exact file_transparent. Qed.
Print Assumptions C20_text_file_transparent.

(* ... and NOT otherwise: a carriage return inside a value does not survive write_file -> parse_file (it comes back as
   a line feed); parse_file never hands a carriage return to the splitter *)
Theorem C20_text_cr_not_preserved : exists s bs, write_text Utf8 s = Some bs /\ read_text Utf8 bs <> Some s.
Proof. exact file_not_transparent_cr. Qed.
Print Assumptions C20_text_cr_not_preserved.
Theorem C20_text_read_no_cr : forall e bs s, read_text e bs = Some s -> no_cr s = true.
Proof. exact read_no_cr. Qed.
Print Assumptions C20_text_read_no_cr.

(* the strict decoders accept exactly one spelling of each text: utf-8 no overlong form, no surrogate, nothing above
   U+10FFFF; utf-16 the mark and then the encoder's units in the announced order.  Hence parse_file(path, e) is an
   injective function of the bytes it accepts (per byte order), and what it returns can be written again *)
Theorem C20_text_utf8_canonical : forall bs s, utf8_decode bs = Some s -> utf8_encode s = Some bs.
Proof. exact utf8_canonical. Qed.
Print Assumptions C20_text_utf8_canonical.
Theorem C20_text_utf8_injective : forall b1 b2 s, utf8_decode b1 = Some s -> utf8_decode b2 = Some s -> b1 = b2.
Proof. exact utf8_decode_injective. Qed.
Print Assumptions C20_text_utf8_injective.
Theorem C20_text_utf16_canonical : forall bs s, bytes_ok bs = true -> utf16_decode bs = Some s ->
  exists us, units_encode s = Some us /\
             ((bs = [] /\ us = []) \/ bs = 255 :: 254 :: bytes_le us \/ bs = 254 :: 255 :: bytes_be us).
Proof. exact utf16_canonical. Qed.
Print Assumptions C20_text_utf16_canonical.
Theorem C20_text_latin1_total : forall bs, latin1_decode bs = Some bs.
Proof. exact latin1_decode_total. Qed.
Print Assumptions C20_text_latin1_total.

(* which texts write_file can write: every text of scalar values under utf-8 (bytes in range), none with a lone
   surrogate (UnicodeEncodeError) *)
Theorem C20_text_write_total_utf8 : forall s, scalars s = true -> exists bs, write_text Utf8 s = Some bs /\ bytes_ok bs = true.
Proof. exact write_total_utf8. Qed.
Print Assumptions C20_text_write_total_utf8.
Theorem C20_text_write_refuses_surrogates : forall s, scalars s = false -> write_text Utf8 s = None.
Proof. exact write_refuses_surrogates_utf8. Qed.
Print Assumptions C20_text_write_refuses_surrogates.

(* open() reads and decodes a file in chunks; the model decodes it at once.  That is the same thing: decoding is compositional
   at character boundaries, newline translation wherever the cut does not follow a carriage return (where CPython's incremental
   newline decoder keeps a pending character) - and only there *)
Theorem C20_text_utf8_chunks : forall a b s, utf8_decode a = Some s ->
  utf8_decode (a ++ b) = option_map (app s) (utf8_decode b).
Proof. exact utf8_decode_app. Qed.
Print Assumptions C20_text_utf8_chunks.
Theorem C20_text_newline_chunks : forall a b, ends_in_cr a = false -> nl_read (a ++ b) = nl_read a ++ nl_read b.
Proof. exact nl_read_app. Qed.
Print Assumptions C20_text_newline_chunks.
Theorem C20_text_newline_chunks_refuted_at_cr : nl_read ([97; 13] ++ [10; 98]) <> nl_read [97; 13] ++ nl_read [10; 98].
Proof. exact nl_read_app_refuted_at_cr. Qed.
Print Assumptions C20_text_newline_chunks_refuted_at_cr.
Theorem C20_text_read_chunks : forall a b s t, utf8_decode a = Some s -> utf8_decode b = Some t -> ends_in_cr s = false ->
  read_text Utf8 (a ++ b) = option_map (app (nl_read s)) (read_text Utf8 b).
Proof. exact read_text_utf8_app. Qed.
Print Assumptions C20_text_read_chunks.

(* the same on the writing side: a text handed to file.write in several pieces arrives as the encoding of the whole text
   (utf-16: ONE byte order mark, then the units of the pieces one after the other) *)
Theorem C20_text_write_pieces_utf8 : forall s t, utf8_encode (s ++ t) = oapp (utf8_encode s) (utf8_encode t).
Proof. exact utf8_encode_app. Qed.
Print Assumptions C20_text_write_pieces_utf8.
Theorem C20_text_write_pieces_latin1 : forall s t, latin1_encode (s ++ t) = oapp (latin1_encode s) (latin1_encode t).
Proof. exact latin1_encode_app. Qed.
Print Assumptions C20_text_write_pieces_latin1.
Theorem C20_text_write_pieces_utf16 : forall s t a b, units_encode s = Some a -> units_encode t = Some b ->
  utf16_encode (s ++ t) = Some (255 :: 254 :: bytes_le a ++ bytes_le b).
Proof. exact utf16_encode_pieces. Qed.
Print Assumptions C20_text_write_pieces_utf16.

(* the other direction, at the level of bytes: a utf-8 file without a carriage-return byte that parse_file accepts is reproduced
   byte for byte when the text that was read is written again; reading is injective on such files - and not on files with
   carriage returns (CR LF, CR and LF files read as the same text) *)
Theorem C20_text_utf8_file_fixpoint : forall bs s, no_cr_byte bs = true -> read_text Utf8 bs = Some s -> write_text Utf8 s = Some bs.
Proof. exact utf8_file_fixpoint. Qed.
Print Assumptions C20_text_utf8_file_fixpoint.
Theorem C20_text_utf8_read_injective : forall b1 b2 s, no_cr_byte b1 = true -> no_cr_byte b2 = true ->
  read_text Utf8 b1 = Some s -> read_text Utf8 b2 = Some s -> b1 = b2.
Proof. exact utf8_read_injective. Qed.
Print Assumptions C20_text_utf8_read_injective.
Theorem C20_text_utf8_read_not_injective_with_cr :
  read_text Utf8 [97; 13; 10] = read_text Utf8 [97; 10] /\ read_text Utf8 [97; 13] = read_text Utf8 [97; 10].
Proof. exact utf8_read_not_injective_with_cr. Qed.
Print Assumptions C20_text_utf8_read_not_injective_with_cr.

(* END TO END, writer model + text layer: what write_file puts into a file for a library without carriage returns, under a format
   without carriage returns, comes back from the file exactly - the code points of the text the writer model produces
   (cps: the code of every model character) survive every modelled codec that can encode them.  The premise is on the
   LIBRARY and the FORMAT, not on the written text: C06_write_no_cr carries it across the writer. *)
Theorem C20_text_written_library_survives_the_file : forall f bs s e bytes,
  fmt_ok f = true -> forallb block_ok bs = true -> write f bs = Val s ->
  write_text e (cps s) = Some bytes -> read_text e bytes = Some (cps s).
Proof. exact written_library_survives_the_file. Qed.
Print Assumptions C20_text_written_library_survives_the_file.

(* non-vacuity: a document with a non-ASCII letter, an astral character and a CRLF line end, through each codec *)
Example C20_text_example :
  let s := [64; 97; 123; 233; 44; 13; 10; 128512; 125] in
  read_text Utf8 [64; 97; 123; 195; 169; 44; 13; 10; 240; 159; 152; 128; 125] = Some [64; 97; 123; 233; 44; 10; 128512; 125]
  /\ write_text Utf16 s = Some [255; 254; 64; 0; 97; 0; 123; 0; 233; 0; 44; 0; 13; 0; 10; 0; 61; 216; 0; 222; 125; 0]
  /\ read_text Utf16 [254; 255; 0; 64; 216; 61; 222; 0] = Some [64; 128512]
  /\ read_text Utf16 [64; 0] = None                                  (* no byte order mark *)
  /\ read_text Utf8 [192; 128] = None /\ read_text Utf8 [237; 160; 128] = None   (* overlong; surrogate *)
  /\ write_text Latin1 s = None /\ read_text Latin1 [233; 13] = Some [233; 10].
Proof. cbn zeta. repeat split; vm_compute; reflexivity. Qed.
