(* C20 - Entry points apply exactly the requested middleware stack, in order.
   Only statements here; every proof is `exact <lemma>` (Proofs/StackProofs.v).  Middlewares are arbitrary
   (any type M with any  apply : M -> lib -> res lib); the splitter, the codec (decode) and the sinks
   (write_path, write_obj) are arbitrary too: they are the runtime's and enter as oracles (partial, DESIGN C20 Limits).
   [in_order] (Spec/C20.v) is "each middleware applied to the result of the one before, left to right". *)
From Coq Require Import String List NArith ZArith Bool.
From BP Require Import Base.Chars Model.Blocks Model.Writer Model.Stack Spec.C20 Proofs.StackProofs.
Import ListNotations.

(* parse_string = splitting, then exactly the given parse_stack in the given order, or the default stack followed by
   append_middleware in order; both given: ValueError; the entry point's loop is the left-to-right composition *)
Theorem C20_parse : forall (M : Type) (apply : M -> lib -> res lib) (default_parse : list M) (split : str -> res lib) t l,
  split t = Val l ->
  (forall ps, parse_string M apply default_parse split t (Some ps) None = in_order M apply ps l)
  /\ (forall am, parse_string M apply default_parse split t None (Some am)
                 = bind (in_order M apply default_parse l) (in_order M apply am))
  /\ parse_string M apply default_parse split t None None = in_order M apply default_parse l
  /\ (forall ps am, parse_string M apply default_parse split t (Some ps) (Some am) = Raise EValueError).
Proof. exact parse_clauses. Qed.
Print Assumptions C20_parse.

Theorem C20_stack_order : forall (M : Type) (apply : M -> lib -> res lib) a b l,
  run_mws M apply (a ++ b) l = bind (in_order M apply a l) (in_order M apply b)
  /\ run_mws M apply a l = in_order M apply a l.
Proof. exact (fun M apply a b l => conj (eq_trans (run_mws_in_order M apply (a ++ b) l) (in_order_app M apply a b l))
                                        (run_mws_in_order M apply a l)). Qed.
Print Assumptions C20_stack_order.

(* write_string = prepend_middleware in order, then the default unparse stack (or exactly the given unparse_stack),
   then the writer under the given (or default) format; both given: ValueError *)
Theorem C20_write : forall (M : Type) (apply : M -> lib -> res lib) (default_unparse : list M) l f,
  (forall us, write_string M apply default_unparse l (Some us) None f = bind (in_order M apply us l) (write (the_fmt f)))
  /\ (forall pm, write_string M apply default_unparse l None (Some pm) f
                 = bind (bind (in_order M apply pm l) (in_order M apply default_unparse)) (write (the_fmt f)))
  /\ write_string M apply default_unparse l None None f = bind (in_order M apply default_unparse l) (write (the_fmt f))
  /\ (forall us pm, write_string M apply default_unparse l (Some us) (Some pm) f = Raise EValueError).
Proof. exact write_clauses. Qed.
Print Assumptions C20_write.

(* parse_file(path, encoding) = parse_string of the decoded content; write_file hands exactly the text of write_string
   (same stack arguments, same format) to the sink, for a path and for a file object *)
Theorem C20_files : forall (M : Type) (apply : M -> lib -> res lib) (default_parse default_unparse : list M)
    (split : str -> res lib) (path enc world fobj : Type) (decode : path -> enc -> res str)
    (write_path : world -> path -> str -> res world) (write_obj : world -> fobj -> str -> res world),
  (forall p e ps am,
      parse_file M apply default_parse split path enc decode p e ps am
      = bind (decode p e) (fun t => parse_string M apply default_parse split t ps am))
  /\ (forall w tgt l ps am f,
      write_file M apply default_unparse path world fobj write_path write_obj w tgt l ps am f
      = bind (write_string M apply default_unparse l ps am f) (sink path world fobj write_path write_obj w tgt))
  /\ (forall w tgt l f s, write_string M apply default_unparse l None None f = Val s ->
      write_file M apply default_unparse path world fobj write_path write_obj w tgt l None None f
      = sink path world fobj write_path write_obj w tgt s)
  /\ (forall w tgt l us f,
      write_file M apply default_unparse path world fobj write_path write_obj w tgt l (Some us) None f
      = bind (bind (in_order M apply us l) (write (the_fmt f))) (sink path world fobj write_path write_obj w tgt))
  /\ (forall w tgt l pm f,
      write_file M apply default_unparse path world fobj write_path write_obj w tgt l None (Some pm) f
      = bind (bind (bind (in_order M apply pm l) (in_order M apply default_unparse)) (write (the_fmt f)))
             (sink path world fobj write_path write_obj w tgt)).
Proof. exact files_clauses. Qed.
Print Assumptions C20_files.

(* a block middleware's per-block results replace the blocks in place: the new library is Library(concatenation, in block
   order, of what each result stands for: nothing for None / an empty collection, the block, the blocks of a collection);
   as soon as one result is anything else, or a collection with a non-block, TypeError; every result is one or the other *)
Theorem C20_splice : forall f l,
  (forall reps, Forall2 legal (map f l) reps -> block_transform f l = Val (library_of (concat reps)))
  /\ (Exists illegal (map f l) -> block_transform f l = Raise ETypeError)
  /\ (forall r, (exists bs, legal r bs) \/ illegal r).
Proof. exact (fun f l => conj (block_transform_legal f l) (conj (block_transform_illegal f l) legal_or_illegal)). Qed.
Print Assumptions C20_splice.

(* Library(blocks) keeps every block at its position, as it is or wrapped as a duplicate of an earlier same-kind key *)
Theorem C20_library : forall bs,
  Forall2 same_or_wrapped bs (library_of bs) /\ List.length (library_of bs) = List.length bs.
Proof. exact (fun bs => conj (library_of_shape bs) (library_of_length bs)). Qed.
Print Assumptions C20_library.

(* blocks of the failed classes never reach a handler: they are kept *)
Theorem C20_dispatch : forall fe fs fp fx fi b, is_failed_class b = true -> transform_block fe fs fp fx fi b = RBlock b.
Proof. exact transform_block_other. Qed.
Print Assumptions C20_dispatch.

(* ---- non-vacuity: the probes are order-sensitive, and the statements above distinguish the orders *)
Definition ex_lib : lib := [BEntry hdr0 (lit "article") (lit "k") []; BExpl hdr0 (lit "c")].
Definition ex_apply := apply_mw (fun _ l => Val l).
Example C20_example_order :
  in_order mw ex_apply [MLibTag 1; MLibTag 2] ex_lib <> in_order mw ex_apply [MLibTag 2; MLibTag 1] ex_lib
  /\ parse_string mw ex_apply [MLibTag 7] (fun _ => Val ex_lib) [] None (Some [MLibTag 1; MLibTag 2])
     = in_order mw ex_apply [MLibTag 7; MLibTag 1; MLibTag 2] ex_lib.
Proof. split; [vm_compute; discriminate | reflexivity]. Qed.

Example C20_example_splice :
  let new := BImpl hdr0 (lit "n") in
  let f := fun b => match b with BEntry _ _ _ _ => RColl [IBlock b; IBlock new] | _ => RNone end in
  Forall2 legal (map f ex_lib) [[BEntry hdr0 (lit "article") (lit "k") []; new]; []]
  /\ block_transform f ex_lib = Val [BEntry hdr0 (lit "article") (lit "k") []; new]
  /\ Exists illegal (map (fun b => match b with BExpl _ _ => RColl [IBlock b; INonBlock] | _ => RBlock b end) ex_lib).
Proof.
  cbn zeta. split; [|split].
  - repeat constructor. apply (Lg_coll [BEntry hdr0 (lit "article") (lit "k") []; BImpl hdr0 (lit "n")]).
  - reflexivity.
  - apply Exists_cons_tl. apply Exists_cons_hd. right. eexists. split; [reflexivity | right; left; reflexivity].
Qed.
