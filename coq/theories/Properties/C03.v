(* C03 - block raw texts tile the source without loss or overlap; line numbers are true.
   Statements only; proofs in Proofs/SplitTiling.v. *)
From Coq Require Import List NArith ZArith.
From BP Require Import Base.Chars Model.Blocks Model.Splitter Spec.C03 Proofs.SplitTiling.
Local Open Scope Z_scope.

(* for EVERY input text, well-formed or not: the raw texts of the returned blocks, in block order, decompose
   "\n" ++ text as gap0 raw1 gap1 ... rawk gapk with whitespace-only gaps (so no character is dropped or
   duplicated, also around failed blocks), every raw text is non-empty, and each start_line equals the number of
   newlines before the raw text, counted from 0 at the first source line *)
Theorem C03_tiling_and_lines : forall t bs, split_raw t = Blocks bs -> tiles_with_true_lines t bs.
Proof. exact split_raw_tiles. Qed.
Print Assumptions C03_tiling_and_lines.

(* every field of every entry (also inside duplicate-field blocks) reports the true line of an '=' character of
   the entry's raw text: raw = pre ++ '=' :: post and line = start_line + newlines(pre) *)
Theorem C03_field_lines : forall t bs, split_raw t = Blocks bs -> Forall blk_ok bs.
Proof. exact field_line_is_eq_line. Qed.
Print Assumptions C03_field_lines.

Theorem C03_field_lines_in_range : forall t bs, split_raw t = Blocks bs -> Forall fields_in_range bs.
Proof. exact field_lines_in_range. Qed.
Print Assumptions C03_field_lines_in_range.
