From BP Require Import Base.Chars.
Theorem C03_placeholder : True. Proof. exact I. Qed.
Print Assumptions C03_placeholder.
