(* C02 - well-formed BibTeX yields exactly the blocks, keys, fields and values written.
   Statements only; proofs in Proofs/SplitGrammar.v.  The dialect grammar is the AST of Model/Grammar.v
   (DESIGN.md section 3) with its printer `render`, its constructive ground truth `expected` and the side
   conditions `wf_doc` (a boolean: characters of names/keys, whitespace runs, "structural delimiters are
   active", braced/quoted content, type words, free text, and side condition G = no block-start pattern
   inside any text). *)
From Coq Require Import List NArith ZArith Bool.
From BP Require Import Base.Chars Model.Blocks Model.Splitter Model.Grammar Proofs.SplitGrammar.
Import ListNotations.

(* parse (print d) = ground truth of d, for EVERY document of the dialect: one block per source block in source
   order; each entry has the lower-cased type, the exact key and its fields in order with exact names and verbatim
   value text and the line of the '='; strings, preambles, explicit comments and free text carry their source text
   (up to surrounding whitespace where the code strips); raw text and start line of every block are the source's *)
Theorem C02_split_render : forall d, wf_doc d -> nodup_fields d -> split_raw (render d) = Blocks (expected d).
Proof. exact split_render. Qed.
Print Assumptions C02_split_render.

(* ... with no failed block *)
Theorem C02_no_failed : forall d, wf_doc d -> nodup_fields d ->
  exists bs, split_raw (render d) = Blocks bs /\ filter is_failed_class bs = [].
Proof. exact split_render_no_failed. Qed.
Print Assumptions C02_no_failed.

Theorem C02_expected_no_failed : forall d, forallb (fun b => negb (is_failed_class b)) (expected d) = true.
Proof. exact expected_no_failed. Qed.
Print Assumptions C02_expected_no_failed.

(* non-vacuity: a concrete document (free text with delimiters and an '@', a @Comment with a nested group, a
   @String, an entry with nested braces containing '=' and a double quote, a quoted value with an escaped quote, a brace
   group and two '#' concatenations, a @misc {k2} entry, trailing free text) is well-formed, and boundary B1
   (a quote inside braces inside a quoted piece) is outside the dialect and really diverges *)
Example C02_example_wf : wf_doc ex_doc /\ nodup_fields ex_doc.
Proof. split; [exact ex_wf | exact ex_nodup]. Qed.
