From BP Require Import Base.Chars.
Theorem C02_placeholder : True. Proof. exact I. Qed.
Print Assumptions C02_placeholder.
