(* C19 - An entry behaves like an insertion-ordered mapping of its fields; equality of fields and blocks is structural.
   Only statements here; every proof is `exact <lemma>` (Proofs/EntryProofs.v). *)
From Coq Require Import List ZArith String.
From BP Require Import Base.Chars Model.Blocks Model.Entry Spec.C19 Proofs.EntryProofs.
Import ListNotations.

(* every sequence of set_field, e[k]=v, pop, del e[k], get, in, e[k] on an entry with distinct field keys gives the
   results, and leaves the fields in the order, of an insertion-ordered dictionary given the same calls
   (replace keeps the position, new keys append, removal closes the gap); by induction over the call list *)
Theorem C19_refines : forall ops e, distinct_keys e -> no_reserved ops ->
  snd (run ops e) = snd (run_spec ops (abs e)) /\ abs (fst (run ops e)) = fst (run_spec ops (abs e)).
Proof. exact refines. Qed.
Print Assumptions C19_refines.

(* after any such sequence fields, fields_dict and items() list the same fields in the same order, the keys are
   still distinct, and items() starts with the entry's unchanged type and key *)
Theorem C19_views : forall ops e, distinct_keys e ->
  let e' := fst (run ops e) in
  fields_dict (efields e') = map (fun f => (fkey f, f)) (efields e')
  /\ items e' = (k_entrytype, VStr (etyp e)) :: (k_id, VStr (ekey e)) :: map (fun f => (fkey f, fval f)) (efields e')
  /\ distinct_keys e'.
Proof. exact views. Qed.
Print Assumptions C19_views.

(* e["ENTRYTYPE"] and e["ID"] return the entry's type and key after any calls, whatever the fields are called *)
Theorem C19_reserved : forall ops e,
  getitem (fst (run ops e)) k_entrytype = RVal (VStr (etyp e)) /\ getitem (fst (run ops e)) k_id = RVal (VStr (ekey e)).
Proof. exact reserved. Qed.
Print Assumptions C19_reserved.

(* a == b for entries, strings, preambles and comments holds exactly when they have the same class and the same
   content, attribute by attribute *)
Theorem C19_eq : forall a b, block_modelled a = true -> meta_wf a -> meta_wf b ->
  (block_py_eq a b = true <-> block_same a b).
Proof. exact block_eq_same. Qed.
Print Assumptions C19_eq.

Theorem C19_eq_fields : forall a b, field_modelled a = true -> (field_py_eq a b = true <-> field_same a b).
Proof. exact field_eq_same. Qed.
Print Assumptions C19_eq_fields.

(* a copy or deep copy (same class, same content) compares equal to its original *)
Theorem C19_eq_copy : forall a, is_failed_class a = false -> meta_wf a -> block_py_eq a a = true.
Proof. exact block_py_eq_refl. Qed.
Print Assumptions C19_eq_copy.

(* "the same value" is plain equality as soon as no bool is involved (Python's 1 == True is the only cross-type case),
   so blocks differing in exactly one attribute are unequal *)
Theorem C19_eq_plain : forall a, value_plain a = true -> forall b, value_plain b = true -> (value_same a b <-> a = b).
Proof. exact value_same_plain. Qed.
Print Assumptions C19_eq_plain.

(* ---- non-vacuity (witnesses defined in Proofs/EntryProofs.v) *)
(* an entry with the keys A, a, ab and eight calls without reserved lookups satisfy the hypotheses *)
Example C19_example_hypotheses : distinct_keys ex_entry /\ no_reserved ex_ops.
Proof. exact example_hypotheses. Qed.
(* replace kept the position of "a", the re-added "A" went to the end, the absent lookup raised KeyError *)
Example C19_example_run :
  map fkey (efields (fst (run ex_ops ex_entry))) = [lit "a"; lit "ab"; lit "A"]
  /\ nth 4 (snd (run ex_ops ex_entry)) RNone = RKeyError
  /\ nth 7 (snd (run ex_ops ex_entry)) RNone = RVal (VStr (lit "new")).
Proof. exact example_run. Qed.
(* a modelled block with metadata: equal to itself, unequal after changing one field value or its type *)
Example C19_example_eq :
  block_modelled (ex_block (VStr (lit "x"))) = true /\ meta_wf (ex_block (VStr (lit "x")))
  /\ block_py_eq (ex_block (VStr (lit "x"))) (ex_block (VStr (lit "x"))) = true
  /\ block_py_eq (ex_block (VStr (lit "x"))) (ex_block (VStr (lit "y"))) = false
  /\ block_py_eq (ex_block (VStr (lit "1"))) (ex_block (VInt 1)) = false.
Proof. exact example_eq. Qed.

(* ================================================================== Field OBJECTS (identity): Model/EntryObj.v *)
(* The theorems above see an entry as a list of field values.  Below, a store maps object ids to the content of Field
   objects, an entry is the list of the ids in its field list, and several entries - and results of earlier get / pop
   calls - may hold the same objects.  Proofs: Proofs/EntryObjProofs.v. *)
From BP Require Import Model.EntryObj Proofs.EntryObjProofs.

(* (a) every sequence of calls on one entry, performed on objects (set_field overwrites the list slot with the given
   object, e[k] = v puts a NEW object there, pop removes the slot and returns the object), read through the store,
   is the value-level run of Model/Entry.v: same final fields in the same order, same results; whatever is read through
   the FINAL store (arguments, results handed out at any earlier time) is what it was at the time of its call.  The
   entry never holds a dangling id, results are objects of the store, and the store only grew. *)
Theorem C19_obj_refines : forall ops s e, ent_ok s e -> ops_ok ops s e ->
  forall s' e' rs, orun ops s e = (s', e', rs) ->
  run (map (abs_op s') ops) (abs_ent s e) = (abs_ent s' e', map (abs_res s') rs)
  /\ ent_ok s' e' /\ Forall (res_ok s') rs /\ store_extends s s'.
Proof. exact obj_refines. Qed.
Print Assumptions C19_obj_refines.

(* one call: the diagram commutes *)
Theorem C19_obj_refines_step : forall s e o s1 e1 r, ent_ok s e -> op_ok s o -> ostep s e o = (s1, e1, r) ->
  step (abs_ent s e) (abs_op s o) = (abs_ent s1 e1, abs_res s1 r)
  /\ ent_ok s1 e1 /\ res_ok s1 r /\ store_extends s s1.
Proof. exact ostep_refines. Qed.
Print Assumptions C19_obj_refines_step.

(* (b) NO call of the mapping interface, on any of several entries sharing any objects, changes an existing Field
   object: the store only grows.  No hypothesis. *)
Theorem C19_obj_store_frame : forall cs w i, In i (sdom (wstore w)) ->
  In i (sdom (wstore (fst (wrun cs w)))) /\ slookup (wstore (fst (wrun cs w))) i = slookup (wstore w) i.
Proof. exact store_frame. Qed.
Print Assumptions C19_obj_store_frame.

(* (c) whatever calls are made on OTHER entries, an entry b that is not called keeps the same objects in the same
   order and shows exactly what it showed (fields, fields_dict, items(), get, in, [] for every key), whatever objects
   it shares with the entries called; and every Field object that existed before (e.g. one handed out by an earlier
   get) shows what it showed *)
Theorem C19_obj_other_entries : forall cs w b e, nth_error (wents w) b = Some e -> ent_ok (wstore w) e ->
  (forall c, In c cs -> fst c <> b) ->
  let w' := fst (wrun cs w) in
  nth_error (wents w') b = Some e
  /\ shows_same (wstore w) (wstore w') e
  /\ (forall i, In i (sdom (wstore w)) -> sget (wstore w') i = sget (wstore w) i).
Proof. exact other_entries. Qed.
Print Assumptions C19_obj_other_entries.

(* (a) + (c) in one statement: a program over several entries sharing objects is, read through the store, the same
   program over INDEPENDENT value-level entries (vstep touches only the entry called) *)
Theorem C19_obj_world_refines : forall cs w, world_ok w -> wops_ok cs w ->
  forall w' rs, wrun cs w = (w', rs) ->
  vrun (map (abs_wop (wstore w')) cs) (abs_world w) = (abs_world w', map (abs_res (wstore w')) rs)
  /\ world_ok w' /\ Forall (res_ok (wstore w')) rs /\ store_extends (wstore w) (wstore w').
Proof. exact world_refines. Qed.
Print Assumptions C19_obj_world_refines.

(* ---- non-vacuity (witnesses in Proofs/EntryObjProofs.v) *)
(* two worlds of two entries: in ex_world B gets A's title object through get / set_field, in ex_world2 B was built
   from list(A.fields) and holds both of A's objects *)
Example C19_obj_example_hypotheses :
  world_ok ex_world /\ wops_ok ex_wops ex_world /\ world_ok ex_world2 /\ wops_ok ex_wops2 ex_world2.
Proof. exact example_obj_hypotheses. Qed.
(* f = A.get("title"); B.set_field(f); A["title"] = "X": A has a new object 4 in the slot of 1, B holds object 1 and
   B["title"] is still "T", A["title"] is "X", f still shows "T" *)
Example C19_obj_example_run :
  let w' := fst (wrun ex_wops ex_world) in
  map oids (wents w') = [[4; 2]; [1]]
  /\ snd (wrun ex_wops ex_world) = [OObj 1; ONone; ONone; OVal (VStr (lit "T")); OVal (VStr (lit "X"))]
  /\ sget (wstore w') 1 = mkfield (lit "title") (VStr (lit "T")) (Some 2%Z)
  /\ sget (wstore w') 4 = mkfield (lit "title") (VStr (lit "X")) None.
Proof. exact example_obj_run. Qed.
(* item assignment on A: B, which shares both objects, reads as before; A does not *)
Example C19_obj_example_shared :
  let w' := fst (wrun ex_wops2 ex_world2) in
  nth_error (abs_world ex_world2) 1 = Some (abs_ent ex_store (mkoent (lit "book") (lit "b") [1; 2]))
  /\ nth_error (abs_world w') 1 = nth_error (abs_world ex_world2) 1
  /\ nth_error (abs_world w') 0 <> nth_error (abs_world ex_world2) 0.
Proof. exact example_obj_shared. Qed.
(* which change of the code (c) excludes: item assignment that writes the value into the Field object found in the slot
   (ostep_inplace) changes the entry that was not called and the object handed out before - on the same example *)
Example C19_obj_inplace_refuted :
  exists cs w b e, world_ok w /\ wops_ok cs w /\ nth_error (wents w) b = Some e /\ (forall c, In c cs -> fst c <> b)
    /\ abs_ent (wstore (fst (wrun_inplace cs w))) e <> abs_ent (wstore w) e
    /\ exists i, In i (sdom (wstore w)) /\ sget (wstore (fst (wrun_inplace cs w))) i <> sget (wstore w) i.
Proof. exact obj_inplace_refuted. Qed.
