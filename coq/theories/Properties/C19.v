(* C19 - An entry behaves like an insertion-ordered mapping of its fields; equality of fields and blocks is structural.
   Only statements here; every proof is `exact <lemma>` (Proofs/EntryProofs.v). *)
From Coq Require Import List ZArith String.
From BP Require Import Base.Chars Model.Blocks Model.Entry Spec.C19 Proofs.EntryProofs.
Import ListNotations.

(* every sequence of set_field, e[k]=v, pop, del e[k], get, in, e[k] on an entry with distinct field keys gives the
   results, and leaves the fields in the order, of an insertion-ordered dictionary given the same calls
   (replace keeps the position, new keys append, removal closes the gap); by induction over the call list *)
Theorem C19_refines : forall ops e, distinct_keys e -> no_reserved ops ->
  snd (run ops e) = snd (run_spec ops (abs e)) /\ abs (fst (run ops e)) = fst (run_spec ops (abs e)).
Proof. exact refines. Qed.
Print Assumptions C19_refines.

(* after any such sequence fields, fields_dict and items() list the same fields in the same order, the keys are
   still distinct, and items() starts with the entry's unchanged type and key *)
Theorem C19_views : forall ops e, distinct_keys e ->
  let e' := fst (run ops e) in
  fields_dict (efields e') = map (fun f => (fkey f, f)) (efields e')
  /\ items e' = (k_entrytype, VStr (etyp e)) :: (k_id, VStr (ekey e)) :: map (fun f => (fkey f, fval f)) (efields e')
  /\ distinct_keys e'.
Proof. exact views. Qed.
Print Assumptions C19_views.

(* e["ENTRYTYPE"] and e["ID"] return the entry's type and key after any calls, whatever the fields are called *)
Theorem C19_reserved : forall ops e,
  getitem (fst (run ops e)) k_entrytype = RVal (VStr (etyp e)) /\ getitem (fst (run ops e)) k_id = RVal (VStr (ekey e)).
Proof. exact reserved. Qed.
Print Assumptions C19_reserved.

(* a == b for entries, strings, preambles and comments holds exactly when they have the same class and the same
   content, attribute by attribute *)
Theorem C19_eq : forall a b, block_modelled a = true -> meta_wf a -> meta_wf b ->
  (block_py_eq a b = true <-> block_same a b).
Proof. exact block_eq_same. Qed.
Print Assumptions C19_eq.

Theorem C19_eq_fields : forall a b, field_modelled a = true -> (field_py_eq a b = true <-> field_same a b).
Proof. exact field_eq_same. Qed.
Print Assumptions C19_eq_fields.

(* a copy or deep copy (same class, same content) compares equal to its original *)
Theorem C19_eq_copy : forall a, is_failed_class a = false -> meta_wf a -> block_py_eq a a = true.
Proof. exact block_py_eq_refl. Qed.
Print Assumptions C19_eq_copy.

(* "the same value" is plain equality as soon as no bool is involved (Python's 1 == True is the only cross-type case),
   so blocks differing in exactly one attribute are unequal *)
Theorem C19_eq_plain : forall a, value_plain a = true -> forall b, value_plain b = true -> (value_same a b <-> a = b).
Proof. exact value_same_plain. Qed.
Print Assumptions C19_eq_plain.

(* ---- non-vacuity (witnesses defined in Proofs/EntryProofs.v) *)
(* an entry with the keys A, a, ab and eight calls without reserved lookups satisfy the hypotheses *)
Example C19_example_hypotheses : distinct_keys ex_entry /\ no_reserved ex_ops.
Proof. exact example_hypotheses. Qed.
(* replace kept the position of "a", the re-added "A" went to the end, the absent lookup raised KeyError *)
Example C19_example_run :
  map fkey (efields (fst (run ex_ops ex_entry))) = [lit "a"; lit "ab"; lit "A"]
  /\ nth 4 (snd (run ex_ops ex_entry)) RNone = RKeyError
  /\ nth 7 (snd (run ex_ops ex_entry)) RNone = RVal (VStr (lit "new")).
Proof. exact example_run. Qed.
(* a modelled block with metadata: equal to itself, unequal after changing one field value or its type *)
Example C19_example_eq :
  block_modelled (ex_block (VStr (lit "x"))) = true /\ meta_wf (ex_block (VStr (lit "x")))
  /\ block_py_eq (ex_block (VStr (lit "x"))) (ex_block (VStr (lit "x"))) = true
  /\ block_py_eq (ex_block (VStr (lit "x"))) (ex_block (VStr (lit "y"))) = false
  /\ block_py_eq (ex_block (VStr (lit "1"))) (ex_block (VInt 1)) = false.
Proof. exact example_eq. Qed.
