(* C01 - parsing and re-writing never raise: bad input becomes failed blocks.  (splitter part; the default parse
   and write stacks are added by C01_parse_total / C01_write_total in Properties/C01b.v once composed) *)
From Coq Require Import List NArith.
From BP Require Import Base.Chars Model.Blocks Model.Lexer Model.Splitter Proofs.SplitTotal.

(* for EVERY text (any size, nesting depth, line count, syntax errors) splitting returns blocks: the two
   "should never happen" exceptions of splitter.py are unreachable and no scanner gets stuck *)
Theorem C01_split_raw_total : forall t, exists bs, split_raw t = Blocks bs.
Proof. exact split_raw_total. Qed.
Print Assumptions C01_split_raw_total.

Theorem C01_split_total : forall t, exists bs, split t = Blocks bs.
Proof. exact split_total. Qed.
Print Assumptions C01_split_total.

(* the look-ahead of the mark regex: after every @-mark the input continues with plain characters and then an
   opening-brace mark (never another mark, never end of input) *)
Theorem C01_at_then_brace : forall pb c r, classify1 pb c r = Some MAt -> good_head (classify (N.eqb c c_bs) r).
Proof. exact at_then_brace. Qed.
Print Assumptions C01_at_then_brace.

(* ---- the public entry points with their default stacks (Model/Pipeline.v; proofs in Proofs/PipelineTotal.v) *)
From BP Require Import Model.Writer Model.Pipeline Proofs.PipelineTotal.

(* parse_string (split, resolve @string references, remove enclosings) returns a library for EVERY text *)
Theorem C01_parse_total : forall t, exists bs, parse_default t = PVal bs.
Proof. exact parse_default_total. Qed.
Print Assumptions C01_parse_total.

(* write_string (default stack: add enclosings on a copy; writer) on that library returns a string for EVERY text *)
Theorem C01_parse_write_total : forall t, exists s, parse_write t = PVal s.
Proof. exact parse_write_total. Qed.
Print Assumptions C01_parse_write_total.

(* ... and for every format whose failed-block comment template expands *)
Theorem C01_write_total : forall f bs, Forall good_block bs -> template_ok f -> exists s, write_default f bs = PVal s.
Proof. exact write_default_total. Qed.
Print Assumptions C01_write_total.

(* syntax errors surface only as failed blocks stored in the library: the default stack drops or adds no block,
   and every failed block carries its raw text (its error is part of the constructor) *)
Theorem C01_failed_carry : forall t bs, parse_default t = PVal bs ->
  Forall (fun b => is_failed_class b = true -> exists r, raw (bhdr b) = Some r) bs.
Proof. exact failed_carry. Qed.
Print Assumptions C01_failed_carry.

Theorem C01_no_block_lost : forall t bs0 bs, split t = Blocks bs0 -> parse_default t = PVal bs -> length bs = length bs0.
Proof. exact parse_default_length. Qed.
Print Assumptions C01_no_block_lost.
