(* C01 - parsing and re-writing never raise: bad input becomes failed blocks.  (splitter part; the default parse
   and write stacks are added by C01_parse_total / C01_write_total in Properties/C01b.v once composed) *)
From Coq Require Import List NArith.
From BP Require Import Base.Chars Model.Blocks Model.Lexer Model.Splitter Proofs.SplitTotal.

(* for EVERY text (any size, nesting depth, line count, syntax errors) splitting returns blocks: the two
   "should never happen" exceptions of splitter.py are unreachable and no scanner gets stuck *)
Theorem C01_split_raw_total : forall t, exists bs, split_raw t = Blocks bs.
Proof. exact split_raw_total. Qed.
Print Assumptions C01_split_raw_total.

Theorem C01_split_total : forall t, exists bs, split t = Blocks bs.
Proof. exact split_total. Qed.
Print Assumptions C01_split_total.

(* the look-ahead of the mark regex: after every @-mark the input continues with plain characters and then an
   opening-brace mark (never another mark, never end of input) *)
Theorem C01_at_then_brace : forall pb c r, classify1 pb c r = Some MAt -> good_head (classify (N.eqb c c_bs) r).
Proof. exact at_then_brace. Qed.
Print Assumptions C01_at_then_brace.
