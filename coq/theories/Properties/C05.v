From BP Require Import Base.Chars.
Theorem C05_placeholder : True. Proof. exact I. Qed.
Print Assumptions C05_placeholder.
