(* C05 - parse -> write -> parse preserves content; written text is a fixpoint.
   Statements only; proofs in Proofs/RoundTrip*.v.  parse_default / write_default are the public entry points with
   their default stacks composed from the engine models (Model/Pipeline.v); that composition is compared with
   parse_string / write_string on every run (op 150). *)
From Coq Require Import List NArith ZArith Bool.
From BP Require Import Base.Chars Model.Blocks Model.Writer Model.Grammar Model.Pipeline Spec.C05.
From BP Require Import Proofs.LibAddProofs Proofs.RoundTrip Proofs.RoundTrip2 Proofs.RoundTrip6 Proofs.RoundTrip7.
Import ListNotations.

(* for EVERY document d of the dialect grammar (duplicate-free: distinct entry keys, @string names and field names)
   and EVERY format with whitespace-only indent and separator (any value_column incl. 'auto', either trailing_comma):
   writing the parsed library and parsing the result gives the same sequence of blocks with the same types, keys,
   field order and values and the same comment / preamble / string content - outside known finding K7 (some key,
   comment or value ends in a backslash) *)
Theorem C05_roundtrip : forall d f l1 t1 l2, wf_doc d -> nodup_doc d -> wf_fmt f ->
  parse_default (render d) = PVal l1 -> known_K7 l1 = false ->
  write_default f l1 = PVal t1 -> parse_default t1 = PVal l2 -> content l2 = content l1.
Proof. exact roundtrip_content. Qed.
Print Assumptions C05_roundtrip.

(* ... and writing that second library reproduces the first output byte for byte *)
Theorem C05_fixpoint : forall d f l1 t1 l2, wf_doc d -> nodup_doc d -> wf_fmt f ->
  parse_default (render d) = PVal l1 -> known_K7 l1 = false ->
  write_default f l1 = PVal t1 -> parse_default t1 = PVal l2 -> write_default f l2 = PVal t1.
Proof. exact roundtrip_fixpoint_doc. Qed.
Print Assumptions C05_fixpoint.

(* none of the four steps can fail: the hypotheses above are never vacuous *)
Theorem C05_total : forall d f, wf_doc d -> nodup_doc d -> wf_fmt f ->
  exists l1, parse_default (render d) = PVal l1 /\
    (known_K7 l1 = false ->
     exists t1 l2, roundtrip f (render d) = PVal (t1, l2, t1) /\ content l2 = content l1).
Proof. exact C05_roundtrip_total. Qed.
Print Assumptions C05_total.

(* the default write stack and the writer depend on a library only through its content (for libraries without
   failed blocks, with distinct keys and well-typed enclosing metadata - all true of parse results) *)
Theorem C05_write_depends_on_content : forall f bs bs',
  content bs = content bs' -> wf_blocks bs -> no_failed bs = true -> md_ok bs = true -> md_ok bs' = true ->
  write_default f bs = write_default f bs'.
Proof. exact write_default_content. Qed.
Print Assumptions C05_write_depends_on_content.
