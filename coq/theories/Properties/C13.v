(* C13 - name parts follow BibTeX's First/von/Last/Jr rules and keep every word once; invalid names become error blocks.
   Only statements here; proofs in Proofs/NamesPartProofs.v, Proofs/NamesParseProofs.v, Proofs/NamesTokProofs.v.

   Both layers are proved for ALL strings (any characters, any flag assignment of isalpha/isupper):
   - tokeniser layer: the single pass with its eight registers computes exactly the compositional
     Spec.C13 (atoms -> sections at depth-0 commas -> words at depth-0 whitespace -> word_case of each word alone);
   - partition layer: Python's negative-index slices / index / rindex are BibTeX's partition.
   The only things entering from outside are the two whitespace sets read from the running module
   (Gen/Constants.v; the facts used about them are re-checked by vm_compute at every build).

   What "the case of a word" is: Spec.C13.word_case is the rule the LIBRARY implements (that is what C13_partition
   proves).  It agrees with BibTeX's von_token_found on words without a backslash, on escapes at brace level 0 and on
   the usual one-letter accents {\'E}x (all 149 cases of the repository's BibTeX-derived corpus), and it does NOT on the
   five word classes of known finding K14: C13_word_case_refuted_K14 / C13_partition_refuted_K14 below, against the
   literal transcription Spec/BibtexCase.v. *)
From Coq Require Import List NArith ZArith Bool String.
Local Open Scope string_scope.
From BP Require Import Base.Chars Model.Blocks Gen.Constants Model.Names Spec.C13 Spec.BibtexCase Proofs.BibtexCaseProofs Proofs.BibtexCaseAgree Proofs.BibtexCaseAgree2 Proofs.NamesPartProofs Proofs.NamesParseProofs Proofs.NamesTokProofs.
Import ListNotations.

(* MAIN THEOREM: in strict mode (the default, and what SplitNameParts uses) the function IS the specification:
   a name is accepted iff the compositional transcription of BibTeX's algorithm accepts it, with the same parts *)
Theorem C13_partition : forall s p, spec_parse s = Some p <-> parse_name true s = POk p.
Proof. exact tok_partition. Qed.
Print Assumptions C13_partition.

(* InvalidNameError is raised exactly for unbalanced braces, more than two depth-0 commas, or a trailing comma *)
Theorem C13_invalid : forall s, invalid_name s = true <-> exists e, parse_name true s = PErr e.
Proof. exact tok_invalid. Qed.
Print Assumptions C13_invalid.

(* the case of a word depends on the word's own characters only (word_case is applied to each word separately in
   name_sections) and every accepted name is partitioned from these words: a corollary of C13_partition, spelled out *)
Theorem C13_word_case_local : forall s p, parse_name true s = POk p ->
  p = if forallb is_nil (name_sections s) then parts0 else partition_spec (name_sections s).
Proof. exact tok_word_case_local. Qed.
Print Assumptions C13_word_case_local.

(* also for non-strict mode: the result of a successful parse (strict or not) is BibTeX's partition of the pass's own word lists:
   Zs pairs every word with the case the pass computed for it; no word is empty; words and cases are in lock-step *)
Theorem C13_partition_any_mode : forall strict s p, parse_name strict s = POk p ->
  exists Zs : list (list (str * Z)),
    parse_sections strict s = POk (map (map fst) Zs, map (map snd) Zs) /\ words_nonempty Zs /\
    p = if forallb is_nil Zs then parts0 else partition_spec (map (map cw) Zs).
Proof. exact parse_name_partition. Qed.
Print Assumptions C13_partition_any_mode.

(* the model's partition (Python's negative-index slices, index/rindex) IS the readable partition, on every list of
   sections whatsoever (any number of words, any case pattern, 1, 2, 3 or more sections) *)
Theorem C13_partition_slices : forall Zs : list (list (str * Z)), words_nonempty Zs ->
  partition (map (map fst) Zs) (map (map snd) Zs) = partition_spec (map (map cw) Zs).
Proof. exact partition_eq. Qed.
Print Assumptions C13_partition_slices.

(* every word exactly once and in source order within its comma section: First ++ von ++ Last is the comma-free
   section; von ++ Last is the first section and Jr / First are the later ones *)
Theorem C13_words_once : forall secs, words_once secs (partition_spec secs).
Proof. exact spec_words_once1. Qed.
Print Assumptions C13_words_once.

(* Last always keeps at least the final word of its section *)
Theorem C13_last_keeps_final : forall secs, last_keeps_final secs (partition_spec secs).
Proof. exact spec_last_keeps_final. Qed.
Print Assumptions C13_last_keeps_final.

(* strict mode only adds errors: a name accepted in strict mode is split identically in non-strict mode
   (so no name is silently altered by the error handling) *)
Theorem C13_strict_only_adds_errors : forall s p, parse_name true s = POk p -> parse_name false s = POk p.
Proof. exact strict_sub. Qed.
Print Assumptions C13_strict_only_adds_errors.

(* SplitNameParts on an entry whose name fields hold lists of strings never raises: either every name is valid and
   the entry comes back with the same header, type, key, field keys and lines, non-name fields untouched and every
   name replaced by its parts; or some name is invalid and the result is a MiddlewareErrorBlock (InvalidNameError)
   with the entry's start line and raw text, holding the entry with the same type, key, field keys/lines, non-name
   fields untouched, and the field with the offending name unchanged *)
Theorem C13_error_block : forall nf h t key fs, well_typed nf fs ->
  error_block_spec nf h t key fs (name_entry nf MwSplitParts (BEntry h t key fs)).
Proof. exact split_entry_error_block. Qed.
Print Assumptions C13_error_block.

(* ---- non-vacuity *)
Definition ex_s (x : String.string) : str := lit x.

(* "AA bb CC dd" (the F8 witness): First=[AA] von=[bb] Last=[CC dd] *)
Example C13_example_f8 :
  parse_name true (ex_s "AA bb CC dd") = POk (mkparts [ex_s "AA"] [ex_s "bb"] [ex_s "CC"; ex_s "dd"] []).
Proof. vm_compute. reflexivity. Qed.

Example C13_example_three_forms :
  parse_name true (ex_s "Charles Louis de la Vall{\'e}e Poussin")
  = POk (mkparts [ex_s "Charles"; ex_s "Louis"] [ex_s "de"; ex_s "la"] [ex_s "Vall{\'e}e"; ex_s "Poussin"] [])
  /\ parse_name true (ex_s "von der Last, Jr, First~Name")
  = POk (mkparts [ex_s "First"; ex_s "Name"] [ex_s "von"; ex_s "der"] [ex_s "Last"] [ex_s "Jr"])
  /\ parse_name true (ex_s "AA, BB, CC, DD") = PErr NTooMany
  /\ parse_name true (ex_s "AA {BB CC") = PErr NUnterminated
  /\ parse_name true (ex_s "AA BB CC}") = PErr NUnmatched
  /\ parse_name true (ex_s "BB, ") = PErr NTrailing.
Proof. vm_compute. repeat split. Qed.

Example C13_example_error_block :
  let f1 := mkfield (ex_s "editor") (VList [VStr (ex_s "Aa Bb")]) (Some 1%Z) in
  let f2 := mkfield (ex_s "author") (VList [VStr (ex_s "Cc Dd"); VStr (ex_s "BB,")]) (Some 2%Z) in
  let h := mkhdr (Some 3%Z) (Some (ex_s "@book{k}")) [] in
  well_typed default_name_fields [f1; f2] /\
  name_entry default_name_fields MwSplitParts (BEntry h (ex_s "book") (ex_s "k") [f1; f2])
  = NBVal (BMwErr h EInvalidName
             (BEntry h (ex_s "book") (ex_s "k")
                [mkfield (ex_s "editor") (VList [VParts [ex_s "Aa"] [] [ex_s "Bb"] []]) (Some 1%Z); f2])).
Proof.
  cbv zeta. split.
  - constructor; [intros _; exists [ex_s "Aa Bb"]; reflexivity|].
    constructor; [intros _; exists [ex_s "Cc Dd"; ex_s "BB,"]; reflexivity|]. constructor.
  - vm_compute. reflexivity.
Qed.

(* ---- known finding K14: the word case is not BibTeX's where a special character or an escape is involved *)
Theorem C13_word_case_refuted_K14 : exists w, lib_von w = true /\ von_token_found w = false.
Proof. exact word_case_refuted. Qed.
Print Assumptions C13_word_case_refuted_K14.

(* `Bent {\O}rsted Hansen`: the library (by C13_partition: the model) makes the middle word the von part; for BibTeX
   \O is an upper-case control word, the word is not a von token and belongs to First *)
Theorem C13_partition_refuted_K14 : exists s p w,
  parse_name true s = POk p /\ n_first p = [lit "Bent"] /\ n_von p = [w] /\ n_last p = [lit "Hansen"]
  /\ von_token_found w = false.
Proof. exact partition_refuted. Qed.
Print Assumptions C13_partition_refuted_K14.

(* ... and ONLY there: on words of ASCII characters (with the flags CPython gives them) that hold no backslash, the library's
   word case is BibTeX's - any length, any brace nesting, balanced or not *)
Theorem C13_word_case_agrees_without_backslash : forall w,
  forallb ascii_canon w = true -> no_bs w = true -> lib_von w = von_token_found w.
Proof. exact agree_no_backslash. Qed.
Print Assumptions C13_word_case_agrees_without_backslash.

(* the same for words that hold escapes but no brace (`\'Emile`, `\o`, `d\'Alembert`): the deviation needs a backslash AND a brace *)
Theorem C13_word_case_agrees_without_brace : forall w,
  forallb ascii_canon w = true -> no_brace w = true -> lib_von w = von_token_found w.
Proof. exact agree_no_brace. Qed.
Print Assumptions C13_word_case_agrees_without_brace.

(* one word per class D1..D5 of the finding with both verdicts; and a sample (a test, bounded) of forms that agree *)
Example C13_K14_classes :
  forallb (fun x => Bool.eqb (lib_von (fst x)) (fst (snd x)) && Bool.eqb (von_token_found (fst x)) (snd (snd x))
                    && negb (Bool.eqb (lib_von (fst x)) (von_token_found (fst x)))) k14_words = true.
Proof. exact k14_words_differ. Qed.
Example C13_K14_agreement_sample : forallb (fun w => Bool.eqb (lib_von w) (von_token_found w)) agree_words = true.
Proof. exact agree_sample. Qed.
