(* C15 - Month middlewares share one 12-month table, compose, and leave non-months alone.
   Only statements here; every proof is `exact <lemma>` (Proofs/MonthProofs.v). *)
From Coq Require Import List ZArith String.
From BP Require Import Base.Chars Model.Blocks Gen.Constants Model.Month Spec.C15 Proofs.MonthProofs.
Local Open Scope Z_scope.

(* the table read from the running module is one consistent 12-row table:
   abbreviation_i = lower (first three letters of full name_i), rows are letters only, the four
   module-level views (_MONTH_ABBREV, _MONTH_FULL, _LOWERCASE_FULL, _MONTH_ABBREV_TO_FULL) agree *)
Theorem C15_table : table_ok = true.
Proof. exact table_ok_true. Qed.
Print Assumptions C15_table.

(* every spelling of month m (integer, decimal string with any leading zeros, ANY letter-case variant of the
   abbreviation or the full name) is mapped to m / the lower-case abbreviation / the capitalised full name *)
Theorem C15_spellings : forall m v, 1 <= m <= 12 -> spells m v ->
  resolve MInt v = MVal (VInt m) /\ resolve MAbbrev v = MVal (VStr (abbrev_of m)) /\ resolve MLong v = MVal (VStr (full_of m)).
Proof. exact spellings_resolve. Qed.
Print Assumptions C15_spellings.

(* applying any middleware after another equals applying the last one alone: all 9 ordered pairs, every value
   except the bool True (C15_bool_true) *)
Theorem C15_compose : forall f g v v1, in_domain v -> v <> VBool true -> resolve f v = MVal v1 -> resolve g v1 = resolve g v.
Proof. exact compose. Qed.
Print Assumptions C15_compose.

(* any other value except the bool True is returned unchanged, with its type *)
Theorem C15_others : forall k v, ~ is_month_spelling v -> in_domain v -> v <> VBool true -> resolve k v = MVal v.
Proof. exact others_unchanged. Qed.
Print Assumptions C15_others.

(* FINDING (True): `isinstance(True, int)` holds, so the abbreviation / long middlewares read the bool True as month 1
   although it is no spelling (the int middleware, which looks at str only, returns it as it is); hence int-after-long
   gives the int 1 where int alone gives True.  /repo: MonthAbbreviationMiddleware on month=True -> 'jan'.
   (False is read as 0: out of range, unchanged by all three, covered by C15_others.) *)
Theorem C15_bool_true :
  resolve MInt (VBool true) = MVal (VBool true)
  /\ resolve MAbbrev (VBool true) = MVal (VStr (abbrev_of 1))
  /\ resolve MLong (VBool true) = MVal (VStr (full_of 1))
  /\ ~ is_month_spelling (VBool true).
Proof. exact resolve_bool_true. Qed.
Print Assumptions C15_bool_true.

(* no value whatsoever makes a middleware raise (KeyError / ValueError sites of the three functions are unreachable) *)
Theorem C15_no_raise : forall k v, resolve k v <> MRaise.
Proof. exact never_raises. Qed.
Print Assumptions C15_no_raise.

Theorem C15_entry_no_raise : forall k b, month_entry k b <> BRaise.
Proof. exact month_entry_no_raise. Qed.
Print Assumptions C15_entry_no_raise.

(* on an entry only the month field's value and the middleware's metadata entry may change; entries without a
   month field and all other blocks are returned as they are *)
Theorem C15_entry_frame : forall k b b', month_entry k b = BVal b' ->
  match b with
  | BEntry h t key fs =>
      exists h' fs', b' = BEntry h' t key fs' /\ sl h' = sl h /\ raw h' = raw h
                     /\ map fkey fs' = map fkey fs /\ map fline fs' = map fline fs
                     /\ (last_value month_key fs = None -> b' = b)
  | _ => b' = b
  end.
Proof. exact month_entry_frame. Qed.
Print Assumptions C15_entry_frame.

(* non-vacuity: the hypotheses are met by non-trivial values *)
Example C15_example_spelling : spells 9 (VStr (lit "SePtEmBeR"%string)) /\ spells 9 (VStr (lit "0009"%string)) /\ spells 5 (VStr (lit "MAY"%string)).
Proof.
  repeat split.
  - right; right; right. eexists. split; [reflexivity|]. vm_compute. reflexivity.
  - right; left. eexists. split; [reflexivity|]. split; vm_compute; reflexivity.
  - right; right; left. eexists. split; [reflexivity|]. vm_compute. reflexivity.
Qed.

(* ====================================================================================================
   C15 over CPython's REAL str.lower / str.isdecimal / int.

   The theorems above are statements about the ASCII instances `lower` / `py_int` (in_domain, MSkip).  Below,
   Model/MonthGen.v transcribes the same three functions over ABSTRACT oracles
       lowerU : str -> str            s.lower()
       intU   : str -> option Z       _int_of_decimal_str(s) for an s with s.isdecimal(); None = int() refuses the
                                      string even without its leading zeros (more than sys.get_int_max_str_digits()
                                      digits, CPython >= 3.11); the value then stays a string
   and the theorems hold for EVERY value (strings of any script included) under two explicit premises on lower()
   (Spec/C15Gen.v, oracles_ok), each a fact of CPython; NOTHING is assumed of intU:
       lower_rows_ok        on the 24 ASCII table rows lower() is the ASCII lower-casing
       lower_keeps_decimal  s.isdecimal() -> s.lower().isdecimal()       (decimal digits are uncased)
   Nothing else is assumed of lower(): in particular NOT that it preserves length (U+0130), NOT that only ASCII
   letters lower to ASCII letters (KELVIN SIGN -> 'k'), NOT idempotence.  The uses of `v_lower[:3]` as a dict key
   / list.index argument are safe because membership in an ASCII table pins v_lower down to that row
   (MonthGenProofs: abbrev_member_prefix, full_member_prefix) - facts of the table, not of lower().

   History: the first version of this generalisation (int() itself as the oracle, f"{int}" as a third one) showed
   that a month value of more than 4300 digits ("0"*4300+"1") made all three middlewares raise ValueError and an
   int >= 10^4300 made the long / abbreviation middlewares raise while formatting their message.  Both are repaired
   in /repo ("fix: month middlewares do not raise on digit strings and ints beyond int()'s digit limit"); the model
   below is the repaired code and C15_gen_no_raise is unconditional.  Still open: True (C15_gen_bool_true).
   ==================================================================================================== *)
From BP Require Import Model.MonthGen Spec.C15Gen Proofs.MonthGenProofs.

(* every spelling of month m - the integer; a string CPython calls decimal which _int_of_decimal_str reads as m, in any
   script, with any number of leading zeros; any string whose lower() is the abbreviation or the lower-cased full name -
   is mapped to m / the abbreviation / the capitalised full name *)
Theorem C15_gen_spellings : forall lowerU intU, oracles_ok lowerU ->
  forall m v, 1 <= m <= 12 -> spells_g lowerU intU m v ->
  resolve_g lowerU intU MInt v = GVal (VInt m)
  /\ resolve_g lowerU intU MAbbrev v = GVal (VStr (abbrev_of m))
  /\ resolve_g lowerU intU MLong v = GVal (VStr (full_of m)).
Proof. exact gen_spellings. Qed.
Print Assumptions C15_gen_spellings.

(* all 9 ordered pairs, every value except True: the second middleware applied to the result of the first behaves
   exactly as the second applied to the original value *)
Theorem C15_gen_compose : forall lowerU intU, oracles_ok lowerU ->
  forall f g v v1, v <> VBool true ->
  resolve_g lowerU intU f v = GVal v1 -> resolve_g lowerU intU g v1 = resolve_g lowerU intU g v.
Proof. exact gen_compose. Qed.
Print Assumptions C15_gen_compose.

(* any other value except True is returned unchanged, with its type *)
Theorem C15_gen_others : forall lowerU intU, oracles_ok lowerU ->
  forall k v, ~ is_month_spelling_g lowerU intU v -> v <> VBool true -> resolve_g lowerU intU k v = GVal v.
Proof. exact gen_others. Qed.
Print Assumptions C15_gen_others.

(* in particular a decimal string that int() refuses even without leading zeros is no spelling and comes back as it is *)
Theorem C15_gen_refused_decimal : forall lowerU intU, oracles_ok lowerU ->
  forall k s, str_isdecimal s = true -> intU s = None ->
  ~ is_month_spelling_g lowerU intU (VStr s) /\ resolve_g lowerU intU k (VStr s) = GVal (VStr s).
Proof. exact gen_refused_decimal. Qed.
Print Assumptions C15_gen_refused_decimal.

(* no value whatsoever makes a middleware raise, whatever int() does: the KeyError and ValueError(list.index) sites,
   the only ones left, are unreachable for every string ... *)
Theorem C15_gen_no_raise : forall lowerU intU, oracles_ok lowerU ->
  forall k v, resolve_g lowerU intU k v <> GRaise.
Proof. exact gen_no_raise. Qed.
Print Assumptions C15_gen_no_raise.
(* ... and for this the only thing needed of lower() is that it is right on the 24 table rows *)
Theorem C15_gen_no_raise_rows : forall lowerU intU, lower_rows_ok lowerU ->
  forall k v, resolve_g lowerU intU k v <> GRaise.
Proof. exact gen_no_raise_rows. Qed.
Print Assumptions C15_gen_no_raise_rows.

(* the ASCII model is the instance lower / int_of_decimal: the premises hold there, and the generalised functions
   coincide with Model/Month.v wherever that model answers at all *)
Theorem C15_gen_instance : forall k v,
  oracles_ok lower
  /\ (resolve k v <> MSkip -> to_mres (resolve_g lower int_of_decimal k v) = resolve k v).
Proof. exact gen_instance_all. Qed.
Print Assumptions C15_gen_instance.

(* every spelling covered by C15_spellings is covered by C15_gen_spellings, for any lower() / _int_of_decimal_str that
   agree with the ASCII instances on ASCII-only strings / ASCII digit strings *)
Theorem C15_gen_covers_ascii : forall lowerU intU m v, lower_ascii_agree lowerU -> int_ascii_agree intU -> 1 <= m <= 12 ->
  spells m v -> spells_g lowerU intU m v.
Proof. exact spells_covered. Qed.
Print Assumptions C15_gen_covers_ascii.
Theorem C15_gen_ascii_rows : forall lowerU, lower_ascii_agree lowerU -> lower_rows_ok lowerU.
Proof. exact ascii_agree_rows. Qed.
Print Assumptions C15_gen_ascii_rows.

(* FINDING (True), generalised model: not a spelling, yet changed by the abbreviation (and long) middleware; and
   int-after-long gives the int 1 where the int middleware alone gives True back *)
Theorem C15_gen_bool_true : forall lowerU intU, oracles_ok lowerU ->
  ~ is_month_spelling_g lowerU intU (VBool true)
  /\ resolve_g lowerU intU MAbbrev (VBool true) = GVal (VStr (abbrev_of 1))
  /\ (exists v1, resolve_g lowerU intU MLong (VBool true) = GVal v1
                 /\ resolve_g lowerU intU MInt v1 = GVal (VInt 1)
                 /\ resolve_g lowerU intU MInt (VBool true) = GVal (VBool true)).
Proof. exact gen_bool_refuted. Qed.
Print Assumptions C15_gen_bool_true.

(* non-vacuity: an executable instance with NON-ASCII oracle behaviour (KELVIN SIGN -> 'k', U+0130 -> two characters,
   ARABIC-INDIC digits, leading zeros dropped, the 4300-digit limit) satisfies the premises ... *)
Example C15_gen_example_oracles : oracles_ok lower_x.
Proof. exact instance_x_ok. Qed.
(* ... ARABIC-INDIC "12" (U+0661 U+0662) is month 12 for all three middlewares (/repo: 12, 'dec', 'December') *)
Example C15_gen_example_arabic :
  resolve_g lower_x int_x MInt (VStr arabic_12) = GVal (VInt 12)
  /\ resolve_g lower_x int_x MAbbrev (VStr arabic_12) = GVal (VStr (abbrev_of 12))
  /\ resolve_g lower_x int_x MLong (VStr arabic_12) = GVal (VStr (full_of 12)).
Proof. exact example_x_arabic. Qed.
(* ... 'o' KELVIN-SIGN 't' lowers to the ASCII word "okt": no row, unchanged (/repo: unchanged) *)
Example C15_gen_example_kelvin : forall k,
  lower_x oKt = (asc 111 :: asc 107 :: asc 116 :: nil) /\ resolve_g lower_x int_x k (VStr oKt) = GVal (VStr oKt).
Proof. exact example_x_kelvin. Qed.
(* ... 4300 zeros and a one is month 1 (/repo after the repair: 1, 'jan', 'January'; before: ValueError) *)
Example C15_gen_example_long_digits :
  resolve_g lower_x int_x MInt (VStr long_one) = GVal (VInt 1)
  /\ resolve_g lower_x int_x MAbbrev (VStr long_one) = GVal (VStr (abbrev_of 1))
  /\ resolve_g lower_x int_x MLong (VStr long_one) = GVal (VStr (full_of 1)).
Proof. exact example_x_long_one. Qed.
(* ... 4301 ones are still refused by int(): no spelling, unchanged (/repo after the repair: unchanged; before: ValueError) *)
Example C15_gen_example_refused : forall k,
  int_x long_ones = None /\ ~ is_month_spelling_g lower_x int_x (VStr long_ones)
  /\ resolve_g lower_x int_x k (VStr long_ones) = GVal (VStr long_ones).
Proof. exact example_x_long_ones. Qed.
(* ... the int 10^4300 is unchanged by all three (/repo after the repair: unchanged; before: ValueError in two) *)
Example C15_gen_example_big_int : forall k, resolve_g lower_x int_x k (VInt (10 ^ 4300)) = GVal (VInt (10 ^ 4300)).
Proof. exact example_x_big_int. Qed.
