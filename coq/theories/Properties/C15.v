(* C15 - Month middlewares share one 12-month table, compose, and leave non-months alone.
   Only statements here; every proof is `exact <lemma>` (Proofs/MonthProofs.v). *)
From Coq Require Import List ZArith String.
From BP Require Import Base.Chars Model.Blocks Gen.Constants Model.Month Spec.C15 Proofs.MonthProofs.
Local Open Scope Z_scope.

(* the table read from the running module is one consistent 12-row table:
   abbreviation_i = lower (first three letters of full name_i), rows are letters only, the four
   module-level views (_MONTH_ABBREV, _MONTH_FULL, _LOWERCASE_FULL, _MONTH_ABBREV_TO_FULL) agree *)
Theorem C15_table : table_ok = true.
Proof. exact table_ok_true. Qed.
Print Assumptions C15_table.

(* every spelling of month m (integer, decimal string with any leading zeros, ANY letter-case variant of the
   abbreviation or the full name) is mapped to m / the lower-case abbreviation / the capitalised full name *)
Theorem C15_spellings : forall m v, 1 <= m <= 12 -> spells m v ->
  resolve MInt v = MVal (VInt m) /\ resolve MAbbrev v = MVal (VStr (abbrev_of m)) /\ resolve MLong v = MVal (VStr (full_of m)).
Proof. exact spellings_resolve. Qed.
Print Assumptions C15_spellings.

(* applying any middleware after another equals applying the last one alone: all 9 ordered pairs, every value *)
Theorem C15_compose : forall f g v v1, in_domain v -> resolve f v = MVal v1 -> resolve g v1 = resolve g v.
Proof. exact compose. Qed.
Print Assumptions C15_compose.

(* any other value is returned unchanged, with its type *)
Theorem C15_others : forall k v, ~ is_month_spelling v -> in_domain v -> resolve k v = MVal v.
Proof. exact others_unchanged. Qed.
Print Assumptions C15_others.

(* no value whatsoever makes a middleware raise (KeyError / ValueError sites of the three functions are unreachable) *)
Theorem C15_no_raise : forall k v, resolve k v <> MRaise.
Proof. exact never_raises. Qed.
Print Assumptions C15_no_raise.

Theorem C15_entry_no_raise : forall k b, month_entry k b <> BRaise.
Proof. exact month_entry_no_raise. Qed.
Print Assumptions C15_entry_no_raise.

(* on an entry only the month field's value and the middleware's metadata entry may change; entries without a
   month field and all other blocks are returned as they are *)
Theorem C15_entry_frame : forall k b b', month_entry k b = BVal b' ->
  match b with
  | BEntry h t key fs =>
      exists h' fs', b' = BEntry h' t key fs' /\ sl h' = sl h /\ raw h' = raw h
                     /\ map fkey fs' = map fkey fs /\ map fline fs' = map fline fs
                     /\ (last_value month_key fs = None -> b' = b)
  | _ => b' = b
  end.
Proof. exact month_entry_frame. Qed.
Print Assumptions C15_entry_frame.

(* non-vacuity: the hypotheses are met by non-trivial values *)
Example C15_example_spelling : spells 9 (VStr (lit "SePtEmBeR"%string)) /\ spells 9 (VStr (lit "0009"%string)) /\ spells 5 (VStr (lit "MAY"%string)).
Proof.
  repeat split.
  - right; right; right. eexists. split; [reflexivity|]. vm_compute. reflexivity.
  - right; left. eexists. split; [reflexivity|]. split; vm_compute; reflexivity.
  - right; right; left. eexists. split; [reflexivity|]. vm_compute. reflexivity.
Qed.
