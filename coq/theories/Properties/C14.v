(* C14 - splitting names and merging them back is an inverse pair.
   Only statements here; proofs in Proofs/NamesInverseProofs.v, NamesRoundTripProofs.v, NamesListProofs.v, NamesStackProofs.v.

   Proved for ALL strings: the person-level law (through the real tokeniser, by the agreement theorem of C13), the
   list-level law outside the known class K3 (through the real co-author splitter, by C12_exact), the reduction of the
   four-middleware round trip to the list-level law, and the refutation witness inside K3.
   Not part of these theorems: the writer / parser legs of parse_string ... write_string (C05/C10's subject); they are
   exercised on every run by the stack stream of the harness (op 91 + the Python oracle on re-parsed output). *)
From Coq Require Import List NArith ZArith Bool String.
Local Open Scope string_scope.
From BP Require Import Base.Chars Model.Blocks Gen.Constants Model.Names Spec.C12 Spec.C13 Spec.C14
                       Proofs.NamesPartProofs Proofs.NamesParseProofs Proofs.NamesInverseProofs Proofs.NamesRoundTripProofs Proofs.NamesStackProofs Proofs.NamesListProofs.
Import ListNotations.

(* BibTeX's partition with the words still paired with their cases, and its projection to plain words *)
Theorem C14_partition_words : forall secs, partition_spec secs = strs (partition_cw secs).
Proof. exact partition_cw_strs. Qed.
Print Assumptions C14_partition_words.

(* PERSON LEVEL: for every string that is a valid name with a non-empty last name and no word ending in an odd number of
   backslashes, merging the parts last-name-first and splitting again returns exactly the same parts *)
Theorem C14_person_inverse : forall s p, split1 s = POk p -> admissible p -> split1 (merge1 p) = POk p.
Proof. exact person_inverse. Qed.
Print Assumptions C14_person_inverse.

(* the partition layer of it, on its own: take ANY sections a strict parse can deliver (1-3 sections, the last one non-empty
   if there are several), partition them, lay the parts out as merge_last_name_first does
   ("von Last" [, "Jr"], "First", absent parts omitted) and partition again: the same parts come back,
   provided Last is non-empty. *)
Theorem C14_person_inverse_partition : forall secs, valid_layout secs -> c_last (partition_cw secs) <> [] ->
  partition_cw (relayout (partition_cw secs)) = partition_cw secs.
Proof. exact repartition. Qed.
Print Assumptions C14_person_inverse_partition.

(* LIST LEVEL outside the known class K3: for every value whose names are valid and admissible and none of whose words is
   'and' (any letter case), merging the parts of every person, joining with " and ", separating and splitting again
   returns exactly the same persons and parts *)
Theorem C14_list_inverse_except_known : forall v ps, persons_of v = map POk ps -> Forall admissible ps ->
  known_C14_K3_b ps = false -> persons_of (merge_names (map merge1 ps)) = map POk ps.
Proof. exact list_inverse_except_known. Qed.
Print Assumptions C14_list_inverse_except_known.

(* list level, known finding K3: a name with a top-level word 'and' merges to text that splits into more persons *)
Theorem C14_list_inverse_refuted : exists v ps,
  persons_of v = map POk ps /\ forallb admissible_b ps = true /\ known_C14_K3_b ps = true /\
  persons_of (merge_names (map merge1 ps)) <> map POk ps.
Proof.
  exists (lit "xx~and B C"), [mkparts [] [lit "xx"; lit "and"] [lit "B"; lit "C"] []].
  split; [vm_compute; reflexivity|]. split; [vm_compute; reflexivity|]. split; [vm_compute; reflexivity|].
  vm_compute. discriminate.
Qed.
Print Assumptions C14_list_inverse_refuted.

(* whole stack, middleware part: on an entry, SeparateCoAuthors;SplitNameParts then MergeNameParts;MergeCoAuthors then
   SeparateCoAuthors;SplitNameParts again returns the same structured entry (same header, type, key, field keys, lines,
   non-name fields, and the same persons and parts in every name field) as soon as every name field's text obeys the
   list-level law -- i.e. the stack adds nothing to the function-level law (the writer / parser legs in between are
   C05/C10's subject and are exercised by the stack stream of the harness) *)
Theorem C14_stack_from_lists : forall nf h t k fs,
  (forall f s, In f fs -> mem_str (fkey f) nf = true -> fval f = VStr s -> stack_field_law s) ->
  stack_inverse_at nf (BEntry h t k fs).
Proof. exact stack_from_lists. Qed.
Print Assumptions C14_stack_from_lists.

(* ---- non-vacuity / instances (vm_compute on the model) *)
Example C14_example_person :
  let s := lit "AA bb CC dd" in
  exists p, split1 s = POk p /\ merge1 p = lit "bb CC dd, AA" /\ split1 (merge1 p) = POk p.
Proof. eexists. split; [vm_compute; reflexivity|]. split; (vm_compute; reflexivity). Qed.

Example C14_example_person_jr :
  let s := lit "von der {\'E}x Last, Jr, First~Name" in
  exists p, split1 s = POk p /\ n_last p <> [] /\ no_word_ends_odd_backslash p = true /\ split1 (merge1 p) = POk p.
Proof. eexists. split; [vm_compute; reflexivity|]. split; [vm_compute; discriminate|]. split; (vm_compute; reflexivity). Qed.

Example C14_example_layout :
  let secs := [[(lit "AA", Upper); (lit "bb", Lower); (lit "CC", Upper); (lit "dd", Lower)]] in
  valid_layout secs /\ c_last (partition_cw secs) <> [] /\
  relayout (partition_cw secs) = [[(lit "bb", Lower); (lit "CC", Upper); (lit "dd", Lower)]; [(lit "AA", Upper)]].
Proof. cbv zeta. split; [exact I|]. split; [vm_compute; discriminate | vm_compute; reflexivity]. Qed.

Example C14_example_list :
  let v := lit "Aa bb Cc and Dd, Jr, Ee" in
  let ps := [mkparts [lit "Aa"] [lit "bb"] [lit "Cc"] []; mkparts [lit "Ee"] [] [lit "Dd"] [lit "Jr"]] in
  persons_of v = map POk ps /\ known_C14_K3_b ps = false /\ persons_of (merge_names (map merge1 ps)) = map POk ps.
Proof. cbv zeta. split; [vm_compute; reflexivity|]. split; (vm_compute; reflexivity). Qed.

Example C14_example_stack :
  let b := BEntry hdr0 (lit "book") (lit "k") [mkfield (lit "author") (VStr (lit "Aa bb Cc and Dd, Ee")) None;
                                                 mkfield (lit "title") (VStr (lit "X and Y")) None] in
  stack_inverse_at default_name_fields b /\
  exists b1, name_stack default_name_fields parse_side b = NBVal b1 /\ is_entry b1 = true.
Proof.
  cbv zeta. split.
  - unfold stack_inverse_at. intros b1 b2 H1 _ H2.
    vm_compute in H1. inversion H1; subst. vm_compute in H2. inversion H2; subst. vm_compute. reflexivity.
  - eexists. split; [vm_compute; reflexivity|]. vm_compute; reflexivity.
Qed.
