(* C14 - splitting names and merging them back is an inverse pair.
   Only statements here; proofs in Proofs/NamesInverseProofs.v, NamesRoundTripProofs.v, NamesListProofs.v, NamesStackProofs.v.

   Proved for ALL strings: the person-level law (through the real tokeniser, by the agreement theorem of C13), the
   list-level law outside the known class K3 (through the real co-author splitter, by C12_exact), the reduction of the
   four-middleware round trip to the list-level law, and the refutation witness inside K3.
   The writer / parser legs of parse_string ... write_string are closed in the second half of this file
   (C14_stack_field_roundtrip, C14_stack_entry_roundtrip, C14_stack_library_roundtrip, C14_stack_document_roundtrip:
   Spec/C14Stack.v, Proofs/NamesPipelineProofs.v, by composition with C05/C10's theorems), under explicit assumptions
   on the merged text; C14_stack_roundtrip_refuted shows the balance assumption cannot be dropped.  The stack is also
   exercised on every run by the stack stream of the harness (op 91 + the Python oracle on re-parsed output). *)
From Coq Require Import List NArith ZArith Bool String.
Local Open Scope string_scope.
From BP Require Import Base.Chars Model.Blocks Gen.Constants Model.Names Spec.C12 Spec.C13 Spec.C14
                       Proofs.NamesPartProofs Proofs.NamesParseProofs Proofs.NamesInverseProofs Proofs.NamesRoundTripProofs Proofs.NamesStackProofs Proofs.NamesListProofs.
Import ListNotations.

(* BibTeX's partition with the words still paired with their cases, and its projection to plain words *)
Theorem C14_partition_words : forall secs, partition_spec secs = strs (partition_cw secs).
Proof. exact partition_cw_strs. Qed.
Print Assumptions C14_partition_words.

(* PERSON LEVEL: for every string that is a valid name with a non-empty last name and no word ending in an odd number of
   backslashes, merging the parts last-name-first and splitting again returns exactly the same parts *)
Theorem C14_person_inverse : forall s p, split1 s = POk p -> admissible p -> split1 (merge1 p) = POk p.
Proof. exact person_inverse. Qed.
Print Assumptions C14_person_inverse.

(* the partition layer of it, on its own: take ANY sections a strict parse can deliver (1-3 sections, the last one non-empty
   if there are several), partition them, lay the parts out as merge_last_name_first does
   ("von Last" [, "Jr"], "First", absent parts omitted) and partition again: the same parts come back,
   provided Last is non-empty. *)
Theorem C14_person_inverse_partition : forall secs, valid_layout secs -> c_last (partition_cw secs) <> [] ->
  partition_cw (relayout (partition_cw secs)) = partition_cw secs.
Proof. exact repartition. Qed.
Print Assumptions C14_person_inverse_partition.

(* LIST LEVEL outside the known class K3: for every value whose names are valid and admissible and none of whose words is
   'and' (any letter case), merging the parts of every person, joining with " and ", separating and splitting again
   returns exactly the same persons and parts *)
Theorem C14_list_inverse_except_known : forall v ps, persons_of v = map POk ps -> Forall admissible ps ->
  known_C14_K3_b ps = false -> persons_of (merge_names (map merge1 ps)) = map POk ps.
Proof. exact list_inverse_except_known. Qed.
Print Assumptions C14_list_inverse_except_known.

(* list level, known finding K3: a name with a top-level word 'and' merges to text that splits into more persons *)
Theorem C14_list_inverse_refuted : exists v ps,
  persons_of v = map POk ps /\ forallb admissible_b ps = true /\ known_C14_K3_b ps = true /\
  persons_of (merge_names (map merge1 ps)) <> map POk ps.
Proof.
  exists (lit "xx~and B C"), [mkparts [] [lit "xx"; lit "and"] [lit "B"; lit "C"] []].
  split; [vm_compute; reflexivity|]. split; [vm_compute; reflexivity|]. split; [vm_compute; reflexivity|].
  vm_compute. discriminate.
Qed.
Print Assumptions C14_list_inverse_refuted.

(* whole stack, middleware part: on an entry, SeparateCoAuthors;SplitNameParts then MergeNameParts;MergeCoAuthors then
   SeparateCoAuthors;SplitNameParts again returns the same structured entry (same header, type, key, field keys, lines,
   non-name fields, and the same persons and parts in every name field) as soon as every name field's text obeys the
   list-level law -- i.e. the stack adds nothing to the function-level law (the writer / parser legs in between are
   C05/C10's subject and are exercised by the stack stream of the harness) *)
Theorem C14_stack_from_lists : forall nf h t k fs,
  (forall f s, In f fs -> mem_str (fkey f) nf = true -> fval f = VStr s -> stack_field_law s) ->
  stack_inverse_at nf (BEntry h t k fs).
Proof. exact stack_from_lists. Qed.
Print Assumptions C14_stack_from_lists.

(* ---- non-vacuity / instances (vm_compute on the model) *)
Example C14_example_person :
  let s := lit "AA bb CC dd" in
  exists p, split1 s = POk p /\ merge1 p = lit "bb CC dd, AA" /\ split1 (merge1 p) = POk p.
Proof. eexists. split; [vm_compute; reflexivity|]. split; (vm_compute; reflexivity). Qed.

Example C14_example_person_jr :
  let s := lit "von der {\'E}x Last, Jr, First~Name" in
  exists p, split1 s = POk p /\ n_last p <> [] /\ no_word_ends_odd_backslash p = true /\ split1 (merge1 p) = POk p.
Proof. eexists. split; [vm_compute; reflexivity|]. split; [vm_compute; discriminate|]. split; (vm_compute; reflexivity). Qed.

Example C14_example_layout :
  let secs := [[(lit "AA", Upper); (lit "bb", Lower); (lit "CC", Upper); (lit "dd", Lower)]] in
  valid_layout secs /\ c_last (partition_cw secs) <> [] /\
  relayout (partition_cw secs) = [[(lit "bb", Lower); (lit "CC", Upper); (lit "dd", Lower)]; [(lit "AA", Upper)]].
Proof. cbv zeta. split; [exact I|]. split; [vm_compute; discriminate | vm_compute; reflexivity]. Qed.

Example C14_example_list :
  let v := lit "Aa bb Cc and Dd, Jr, Ee" in
  let ps := [mkparts [lit "Aa"] [lit "bb"] [lit "Cc"] []; mkparts [lit "Ee"] [] [lit "Dd"] [lit "Jr"]] in
  persons_of v = map POk ps /\ known_C14_K3_b ps = false /\ persons_of (merge_names (map merge1 ps)) = map POk ps.
Proof. cbv zeta. split; [vm_compute; reflexivity|]. split; (vm_compute; reflexivity). Qed.

Example C14_example_stack :
  let b := BEntry hdr0 (lit "book") (lit "k") [mkfield (lit "author") (VStr (lit "Aa bb Cc and Dd, Ee")) None;
                                                 mkfield (lit "title") (VStr (lit "X and Y")) None] in
  stack_inverse_at default_name_fields b /\
  exists b1, name_stack default_name_fields parse_side b = NBVal b1 /\ is_entry b1 = true.
Proof.
  cbv zeta. split.
  - unfold stack_inverse_at. intros b1 b2 H1 _ H2.
    vm_compute in H1. inversion H1; subst. vm_compute in H2. inversion H2; subst. vm_compute. reflexivity.
  - eexists. split; [vm_compute; reflexivity|]. vm_compute; reflexivity.
Qed.

(* ==================================================================================================================
   THE WHOLE LOOP:   parse_string(text, append_middleware=[SeparateCoAuthors(), SplitNameParts()])
                     write_string(library, prepend_middleware=[MergeNameParts(), MergeCoAuthors()], bibtex_format=f)
   and parsing the written text again (Spec/C14Stack.v: parse_names / write_names, composed from the default stacks and
   the writer of Model/Pipeline.v and the four name middlewares lifted to the library).  Proofs: NamesPipelineProofs.v,
   by composition of C05's second half (the writer's output on a clean library is a well-formed document of the dialect
   which re-parses with the same content; this contains C10's brace re-parse clause), C14_list_inverse_except_known and
   the per-field description of the middlewares.  Nothing about the splitter is proved again.

   ASSUMPTIONS ABOUT THE INPUT (each delimits a class in which the loop really fails):
     * C14's own quantifier: valid names, non-empty last names, no word ending in an odd number of backslashes; outside K3;
     * `writable v'` for the MERGED text v' = merge_names (map merge1 ps) of every name field:
         - brace_ok v'  : v' is balanced in the SPLITTER's reading of braces and does not end in a backslash.
                          "does not end in a backslash" is the K7 class of C05 (the backslash would escape the closing
                          brace the writer puts behind the value).  Balance does NOT follow from validity of the names:
                          names.py reads "\\" as an escape pair (the brace after it is real), the splitter's look-behind
                          reads a brace after any backslash as escaped, and MergeNameParts re-orders the words
                          (C14_stack_roundtrip_refuted, a new finding: value "{\\} \\{}");
         - noat v' [c_rb]: v' contains no block-start pattern '@' word* blank* '{' (the K2 class of C10).  It has to be
                          assumed of the merged text, not of the original: "Z @a~{x}" has no pattern (a tie is not a
                          blank) and merges to "@a {x}, Z" (C14_stack_roundtrip_refuted_K2);
     * the frame (as in C10_reparse_brace): lower-case entry type that is a word and not comment/preamble/string, key and
       field names of key characters without '@', key not ending in a backslash, distinct field names; the entry's
       removed-enclosing metadata absent / None / a dict (md_ok: true of every parse result); whitespace-only indent
       and block separator (wf_fmt).
   DERIVED, not assumed: brace_ok is exactly "render of a well-formed brace content of the grammar"
   (C14_brace_ok_spec); if every word of every person is balanced in the splitter's reading then so is the merged
   text (C14_merged_brace_ok: merging only adds spaces, ", ", " and " and a backslash after an odd run of backslashes);
   the words of a VALID name are balanced in the splitter's reading as soon as they contain no two adjacent
   backslashes (C14_valid_words_brace_ok, from the tokeniser agreement of C13: a word is a balanced list of escape
   pairs and characters, and without the pair "\\" both readings of a backslash coincide) -- hence
   C14_stack_field_roundtrip_valid, whose only assumptions on the text are: names in C14's scope, no "\\" in a word,
   merged text not ending in a backslash (K7) and without block-start pattern (K2);
   the write never fails, the written text always parses, and the re-parse of a name field is the SAME structured value
   (not merely some value). *)
From BP Require Import Model.LibAdd Model.Enclosing Model.Writer Model.Grammar Model.Pipeline Spec.C05 Spec.C14Stack
  Proofs.LibAddProofs Proofs.RoundTrip Proofs.RoundTrip2 Proofs.RoundTrip4 Proofs.RoundTrip5 Proofs.RoundTripEx Proofs.NamesBraceProofs Proofs.NamesPipelineProofs.

(* brace_ok (a left-to-right scan with the splitter's look-behind) is the class of C10's brace re-parse theorem *)
Theorem C14_brace_ok_spec : forall s, brace_ok s = true <-> exists b, render_braced b = s /\ wf_braced false b = true.
Proof. exact brace_ok_iff. Qed.
Print Assumptions C14_brace_ok_spec.

(* derived: merging keeps words that are balanced for the splitter balanced *)
Theorem C14_merged_brace_ok : forall ps,
  Forall (fun p => Forall (fun w => word_brace_ok w = true) (all_words p)) ps ->
  Grammar.ends_bs false (merge_names (map merge1 ps)) = false ->
  brace_ok (merge_names (map merge1 ps)) = true.
Proof. exact merged_brace_ok. Qed.
Print Assumptions C14_merged_brace_ok.

(* ONE NAME FIELD OF ONE ENTRY.  v is the field's text as the default parse stack leaves it, ps its persons; the parse
   side turns the field into the structured value; writing that entry (merge middlewares, AddEnclosing, writer: never
   fails) and parsing the text again (splitter, default stack, parse side: never fails) gives one entry with the same
   type and key whose field holds exactly ps again.  v itself need not be writable, only the merged text. *)
Theorem C14_stack_field_roundtrip : forall nf f h t k name fl v ps,
  wf_fmt f -> entry_frame_ok t k = true -> field_key_ok name = true -> mem_str name nf = true ->
  md_ok [BEntry h t k [mkfield name (VStr v) fl]] = true ->
  persons_of v = map POk ps -> Forall admissible ps -> known_C14_K3_b ps = false ->
  writable (merge_names (map merge1 ps)) ->
  let structured := VList (map v_of_parts ps) in
  names_lib nf parse_side [BEntry h t k [mkfield name (VStr v) fl]] = Enclosing.Val [BEntry h t k [mkfield name structured fl]] /\
  exists t1 h' fl', write_names nf f [BEntry h t k [mkfield name structured fl]] = PVal t1
                    /\ parse_names nf t1 = PVal [BEntry h' t k [mkfield name structured fl']].
Proof. exact stack_field_roundtrip. Qed.
Print Assumptions C14_stack_field_roundtrip.

(* ONE ENTRY with any number of fields: name fields in scope with writable merged text, the other fields writable;
   the re-parsed entry has the same field names in the same order with the same values (structured names included) *)
Theorem C14_stack_entry_roundtrip : forall nf f h t k fs,
  wf_fmt f -> entry_frame_ok t k = true -> fresh_all [] (map fkey fs) = true -> md_ok [BEntry h t k fs] = true ->
  Forall (entry_field_ok nf) fs ->
  exists fs1 t1 h' fs2,
    names_lib nf parse_side [BEntry h t k fs] = Enclosing.Val [BEntry h t k fs1]
    /\ write_names nf f [BEntry h t k fs1] = PVal t1
    /\ parse_names nf t1 = PVal [BEntry h' t k fs2]
    /\ map (fun x => (fkey x, fval x)) fs2 = map (fun x => (fkey x, fval x)) fs1.
Proof. exact stack_entry_roundtrip. Qed.
Print Assumptions C14_stack_entry_roundtrip.

(* A WHOLE LIBRARY whose content is clean (cs: every text a brace content without block-start pattern -- what every
   parse of a dialect document outside K7 produces, C05) and whose name fields are in scope with writable merged text *)
Theorem C14_stack_library_roundtrip : forall nf f cs l0,
  wf_fmt f -> wf_cs false cs -> content l0 = ccontent cs -> wf_blocks l0 -> md_ok l0 = true ->
  Forall (name_fields_ok nf) (content l0) ->
  exists l1 t1 l2, names_lib nf parse_side l0 = Enclosing.Val l1 /\ write_names nf f l1 = PVal t1
                   /\ parse_names nf t1 = PVal l2 /\ content l2 = content l1.
Proof. exact stack_clean_roundtrip. Qed.
Print Assumptions C14_stack_library_roundtrip.

(* THE SENTENCE OF THE PROPERTY: for every document d of the dialect grammar (duplicate-free) outside K7 whose name
   fields are in scope with writable merged text and every whitespace format: parsing with the two middlewares appended,
   writing with their inverses prepended and parsing again succeed, and the two structured libraries have the same content
   (types, keys, field order, values -- the persons and parts of every name field among them) *)
Theorem C14_stack_document_roundtrip : forall nf d f l0,
  wf_doc d -> nodup_doc d -> wf_fmt f ->
  parse_default (Grammar.render d) = PVal l0 -> known_K7 l0 = false -> Forall (name_fields_ok nf) (content l0) ->
  exists l1 t1 l2, parse_names nf (Grammar.render d) = PVal l1 /\ write_names nf f l1 = PVal t1
                   /\ parse_names nf t1 = PVal l2 /\ content l2 = content l1.
Proof. exact stack_doc_roundtrip. Qed.
Print Assumptions C14_stack_document_roundtrip.

(* derived: validity gives the balance, where names.py and the splitter read backslashes alike *)
Theorem C14_valid_words_brace_ok : forall s p, split1 s = POk p ->
  Forall (fun w => no_double_bs w = true) (all_words p) -> Forall (fun w => word_brace_ok w = true) (all_words p).
Proof. exact NamesBraceProofs.valid_words_brace_ok. Qed.
Print Assumptions C14_valid_words_brace_ok.

Theorem C14_merged_brace_ok_valid : forall v ps, persons_of v = map POk ps ->
  Forall (fun p => Forall (fun w => no_double_bs w = true) (all_words p)) ps ->
  Grammar.ends_bs false (merge_names (map merge1 ps)) = false ->
  brace_ok (merge_names (map merge1 ps)) = true.
Proof. exact merged_brace_ok_valid. Qed.
Print Assumptions C14_merged_brace_ok_valid.

(* the field theorem with the balance derived from validity *)
Theorem C14_stack_field_roundtrip_valid : forall nf f h t k name fl v ps,
  wf_fmt f -> entry_frame_ok t k = true -> field_key_ok name = true -> mem_str name nf = true ->
  md_ok [BEntry h t k [mkfield name (VStr v) fl]] = true ->
  persons_of v = map POk ps -> Forall admissible ps -> known_C14_K3_b ps = false ->
  Forall (fun p => Forall (fun w => no_double_bs w = true) (all_words p)) ps ->       (* outside the new finding *)
  Grammar.ends_bs false (merge_names (map merge1 ps)) = false ->                      (* outside K7 *)
  noat (merge_names (map merge1 ps)) [c_rb] = true ->                                 (* outside K2 *)
  let structured := VList (map v_of_parts ps) in
  names_lib nf parse_side [BEntry h t k [mkfield name (VStr v) fl]] = Enclosing.Val [BEntry h t k [mkfield name structured fl]] /\
  exists t1 h' fl', write_names nf f [BEntry h t k [mkfield name structured fl]] = PVal t1
                    /\ parse_names nf t1 = PVal [BEntry h' t k [mkfield name structured fl']].
Proof. exact stack_field_roundtrip_valid. Qed.
Print Assumptions C14_stack_field_roundtrip_valid.

(* the balance assumption is needed -- and this is a finding about /repo, reproduced on the real parse_string /
   write_string: the entry  @article{k, author = {{\\} \\{}}}  parses into one valid, admissible person outside K3 whose
   text is a fine brace content; the written text  author = {\\{}, {\\}}  re-parses as a failed block and a comment *)
Theorem C14_stack_roundtrip_refuted :
  exists l1 t1 l2,
    parse_names default_name_fields bs2_text = PVal l1
    /\ content l1 = [KEntry (lit "article") (lit "k") [(lit "author", VList (map v_of_parts bs2_ps))]]
    /\ persons_of bs2_value = map POk bs2_ps /\ forallb admissible_b bs2_ps = true /\ known_C14_K3_b bs2_ps = false
    /\ brace_ok bs2_value = true /\ noat bs2_value [c_rb] = true
    /\ forallb word_brace_ok (flat_map all_words bs2_ps) = false
    /\ merge_names (map merge1 bs2_ps) = lit "\\{}, {\\}"
    /\ brace_ok (merge_names (map merge1 bs2_ps)) = false
    /\ write_names default_name_fields default_fmt l1 = PVal t1
    /\ t1 = lit "@article{k,
	author = {\\{}, {\\}}
}
"
    /\ parse_names default_name_fields t1 = PVal l2
    /\ map class_of l2 = [CFailed; CImpl].
Proof. exact stack_roundtrip_refuted. Qed.
Print Assumptions C14_stack_roundtrip_refuted.

(* ... and so is the assumption on block-start patterns, on the merged text (class K2 reached through the merge; also
   reproduced on the real parse_string / write_string):  @article{k, author = {Z @a~{x}}}  is written
   author = {@a {x}, Z}  and re-parses as a failed block, an entry @a{x} and a comment *)
Theorem C14_stack_roundtrip_refuted_K2 :
  exists l1 t1 l2,
    parse_names default_name_fields at2_text = PVal l1
    /\ content l1 = [KEntry (lit "article") (lit "k") [(lit "author", VList (map v_of_parts at2_ps))]]
    /\ persons_of at2_value = map POk at2_ps /\ forallb admissible_b at2_ps = true /\ known_C14_K3_b at2_ps = false
    /\ brace_ok at2_value = true /\ noat at2_value [c_rb] = true
    /\ merge_names (map merge1 at2_ps) = lit "@a {x}, Z"
    /\ brace_ok (merge_names (map merge1 at2_ps)) = true
    /\ noat (merge_names (map merge1 at2_ps)) [c_rb] = false
    /\ write_names default_name_fields default_fmt l1 = PVal t1
    /\ parse_names default_name_fields t1 = PVal l2
    /\ map class_of l2 = [CFailed; Blocks.CEntry; CImpl].
Proof. exact stack_roundtrip_refuted_at. Qed.
Print Assumptions C14_stack_roundtrip_refuted_K2.

(* ---- non-vacuity: the hypotheses of the field theorem on a concrete two-person value, and the loop computed on the
   executable model for the same entry *)
Example C14_example_stack_field :
  let nf := default_name_fields in
  let v := lit "Donald E. Knuth and Ludwig van Beethoven" in
  let ps := [mkparts [lit "Donald"; lit "E."] [] [lit "Knuth"] []; mkparts [lit "Ludwig"] [lit "van"] [lit "Beethoven"] []] in
  let structured := VList (map v_of_parts ps) in
  let written := lit "@book{k,
	author = {Knuth, Donald E. and van Beethoven, Ludwig}
}
" in
  wf_fmt default_fmt /\ entry_frame_ok (lit "book") (lit "k") = true /\ field_key_ok (lit "author") = true
  /\ mem_str (lit "author") nf = true /\ md_ok [BEntry hdr0 (lit "book") (lit "k") [mkfield (lit "author") (VStr v) None]] = true
  /\ persons_of v = map POk ps /\ Forall admissible ps /\ known_C14_K3_b ps = false
  /\ merge_names (map merge1 ps) = lit "Knuth, Donald E. and van Beethoven, Ludwig"
  /\ writable (merge_names (map merge1 ps))
  /\ forallb no_double_bs (flat_map all_words ps) = true /\ Grammar.ends_bs false (merge_names (map merge1 ps)) = false
  /\ write_names nf default_fmt [BEntry hdr0 (lit "book") (lit "k") [mkfield (lit "author") structured None]] = PVal written
  /\ exists h', parse_names nf written = PVal [BEntry h' (lit "book") (lit "k") [mkfield (lit "author") structured (Some 1%Z)]].
Proof.
  cbv zeta. split; [exact default_fmt_wf|].
  split; [vm_compute; reflexivity|].
  split; [vm_compute; reflexivity|].
  split; [vm_compute; reflexivity|].
  split; [vm_compute; reflexivity|].
  split; [vm_compute; reflexivity|].
  split; [repeat constructor; vm_compute; discriminate|].
  split; [vm_compute; reflexivity|].
  split; [vm_compute; reflexivity|].
  split; [split; vm_compute; reflexivity|].
  split; [vm_compute; reflexivity|]. split; [vm_compute; reflexivity|].
  split; [vm_compute; reflexivity|].
  eexists; vm_compute; reflexivity.
Qed.

(* the same through the theorem *)
Example C14_example_stack_field_thm :
  let nf := default_name_fields in
  let v := lit "Donald E. Knuth and Ludwig van Beethoven" in
  let ps := [mkparts [lit "Donald"; lit "E."] [] [lit "Knuth"] []; mkparts [lit "Ludwig"] [lit "van"] [lit "Beethoven"] []] in
  exists t1 h' fl', write_names nf default_fmt [BEntry hdr0 (lit "book") (lit "k") [mkfield (lit "author") (VList (map v_of_parts ps)) None]] = PVal t1
    /\ parse_names nf t1 = PVal [BEntry h' (lit "book") (lit "k") [mkfield (lit "author") (VList (map v_of_parts ps)) fl']].
Proof.
  cbv zeta. destruct C14_example_stack_field as (Hf & Hfr & Hk & Hm & Hmd & Hv & Ha & Hk3 & _ & Hw & _).
  exact (proj2 (C14_stack_field_roundtrip _ _ _ _ _ _ _ _ _ Hf Hfr Hk Hm Hmd Hv Ha Hk3 Hw)).
Qed.

(* the hypotheses of the entry theorem: a name field with a special character, a Jr part, a tie and a protected 'and',
   next to an ordinary field containing ' and ', a group and a harmless '@' *)
Example C14_example_stack_entry :
  let fs := [mkfield (lit "author") (VStr (lit "von der {\'E}x Last, Jr, First~Name and {Barnes {and} Noble, Inc.}")) None;
             mkfield (lit "title") (VStr (lit "X and {Y} @ home")) None] in
  entry_frame_ok (lit "book") (lit "k") = true /\ fresh_all [] (map fkey fs) = true
  /\ md_ok [BEntry hdr0 (lit "book") (lit "k") fs] = true /\ Forall (entry_field_ok default_name_fields) fs.
Proof.
  cbv zeta. split; [vm_compute; reflexivity|]. split; [vm_compute; reflexivity|]. split; [vm_compute; reflexivity|].
  constructor; [|constructor; [|constructor]].
  - split; [vm_compute; reflexivity|]. eexists. split; [reflexivity|]. cbn [fkey].
    change (mem_str (lit "author") default_name_fields) with true. cbv iota.
    set (ps := [mkparts [lit "First"; lit "Name"] [lit "von"; lit "der"] [lit "{\'E}x"; lit "Last"] [lit "Jr"];
                mkparts [] [] [lit "{Barnes {and} Noble, Inc.}"] []]).
    match goal with |- name_value_ok ?s =>
      assert (Hv : persons_of s = map POk ps) by (vm_compute; reflexivity); pose proof (parts_of_ok _ _ Hv) as Ep end.
    unfold name_value_ok, remerge. rewrite Ep. split; [exact Hv|].
    split; [constructor; [|constructor; [|constructor]]; (split; [vm_compute; discriminate | vm_compute; reflexivity])|].
    split; [vm_compute; reflexivity|]. split; vm_compute; reflexivity.
  - split; [vm_compute; reflexivity|]. eexists. split; [reflexivity|]. cbn [fkey].
    change (mem_str (lit "title") default_name_fields) with false. cbv iota.
    split; vm_compute; reflexivity.
Qed.

(* ... and the loop for that entry, through the theorem *)
Example C14_example_stack_entry_thm :
  let fs := [mkfield (lit "author") (VStr (lit "von der {\'E}x Last, Jr, First~Name and {Barnes {and} Noble, Inc.}")) None;
             mkfield (lit "title") (VStr (lit "X and {Y} @ home")) None] in
  exists fs1 t1 h' fs2,
    names_lib default_name_fields parse_side [BEntry hdr0 (lit "book") (lit "k") fs] = Enclosing.Val [BEntry hdr0 (lit "book") (lit "k") fs1]
    /\ write_names default_name_fields default_fmt [BEntry hdr0 (lit "book") (lit "k") fs1] = PVal t1
    /\ parse_names default_name_fields t1 = PVal [BEntry h' (lit "book") (lit "k") fs2]
    /\ map (fun x => (fkey x, fval x)) fs2 = map (fun x => (fkey x, fval x)) fs1.
Proof.
  cbv zeta. destruct C14_example_stack_entry as (Hfr & Hfresh & Hmd & Hfs).
  exact (C14_stack_entry_roundtrip _ _ _ _ _ _ default_fmt_wf Hfr Hfresh Hmd Hfs).
Qed.

(* the derived balance of the merged text from the words, on the same persons *)
Example C14_example_merged_brace_ok :
  let ps := [mkparts [lit "First"; lit "Name"] [lit "von"; lit "der"] [lit "{\'E}x"; lit "Last"] [lit "Jr"]; mkparts [] [] [lit "{Barnes {and} Noble, Inc.}"] []] in
  Forall (fun p => Forall (fun w => word_brace_ok w = true) (all_words p)) ps
  /\ Grammar.ends_bs false (merge_names (map merge1 ps)) = false
  /\ persons_of (lit "von der {\'E}x Last, Jr, First~Name and {Barnes {and} Noble, Inc.}") = map POk ps.
Proof.
  cbv zeta. split; [|split; vm_compute; reflexivity].
  constructor; [|constructor; [|constructor]]; apply Forall_forall; intros w Hw; vm_compute in Hw;
    repeat (destruct Hw as [<-|Hw]; [vm_compute; reflexivity|]); contradiction.
Qed.
