(* C08 - Library views stay consistent under any history of add / remove / replace.
   Only statements here; every proof is `exact <lemma>` (Proofs/LibraryProofs.v). *)
From Coq Require Import List NArith ZArith String.
From BP Require Import Base.Chars Model.Blocks Model.Entry Model.Library Spec.C08 Proofs.LibraryProofs.
Import ListNotations.

(* after ANY finite history of add (single, list, fail_on_duplicate_key), remove, replace (both modes) with ANY
   arguments, raising calls included: entries / strings are the Entry / String blocks in block order, the two dict views map exactly the
   keys of the held entries/strings to those objects, no two held entries (strings) share a key, the five class views
   partition blocks - and the only exception ever raised is ValueError (the KeyError / AssertionError sites of
   remove and _cast_to_duplicate are unreachable).  Induction over the history. *)
Theorem C08_inv_reachable : forall ops n,
  Inv (fst (run ops (empty_lib n))) /\ Forall (fun o => o = Done \/ o = Raised EValue) (snd (run ops (empty_lib n))).
Proof. exact inv_any_history. Qed.
Print Assumptions C08_inv_reachable.

(* the same for the inductive notion of reachable state used by the theorems below *)
Theorem C08_inv_reachable_state : forall l, reachable l -> Inv l.
Proof. exact inv_reachable. Qed.
Print Assumptions C08_inv_reachable_state.

(* blocks: add appends one block per argument in order (the argument or its duplicate wrapper) - also when it
   raises; a successful remove deletes, for each argument in turn, the first block == to it and closes the gap;
   a successful replace puts the new block (or its wrapper) at the position of the first block == old and moves
   nothing else *)
Theorem C08_order : forall l, reachable l ->
  (forall bs f, exists added, blocks (fst (add l bs f)) = blocks l ++ added /\ Forall2 placed added bs)
  /\ (forall bs, snd (remove l bs) = Done -> removes_all bs (blocks l) (blocks (fst (remove l bs))))
  /\ (forall old new f, snd (replace l old new f) = Done ->
        exists pre y post x, blocks l = pre ++ y :: post /\ ob_py_eq y old = true
          /\ Forall (fun z => ob_py_eq z old = false) pre
          /\ blocks (fst (replace l old new f)) = pre ++ x :: post /\ placed x new).
Proof. exact order. Qed.
Print Assumptions C08_order.

(* a call that raises ValueError leaves the library equal (Python ==, on ALL EIGHT views: the six list views in
   order, the two dict views as mappings) to what it was - except add(..., fail_on_duplicate_key=True), finding K1.  Covers remove of a missing block (nothing is
   touched, also for lists: finding F11 repaired), replace of a missing block, and the rollback of replace, which
   re-inserts the CALLER's block: equal, not necessarily identical, to the one that was held *)
Theorem C08_raise_atomic_except_known : forall l o, reachable l -> ~ known_K1 o ->
  snd (apply l o) = Raised EValue -> lib_equal l (fst (apply l o)).
Proof. exact raise_atomic. Qed.
Print Assumptions C08_raise_atomic_except_known.

(* K1 (documented behaviour, pinned by the suite): the raising add has already appended the wrapper *)
Theorem C08_raise_atomic_refuted : exists l o, reachable l /\ op_wf l o /\ snd (apply l o) = Raised EValue
  /\ ~ lib_equal l (fst (apply l o)).
Proof. exact atomic_refuted. Qed.
Print Assumptions C08_raise_atomic_refuted.

(* strings (like entries) is always the String blocks of blocks in that order, and no raising call other than K1
   changes it.  (Before /repo commit c532558 `strings` was list(dict.values()) and the rollback of a raising replace
   returned it reordered: then proved here as C08_strings_order_refuted, now repaired.) *)
Theorem C08_strings_order : forall l, reachable l ->
  v_strings l = filter is_string_ob (blocks l)
  /\ forall o, ~ known_K1 o -> snd (apply l o) = Raised EValue -> list_equal (v_strings l) (v_strings (fst (apply l o))).
Proof. exact strings_order. Qed.
Print Assumptions C08_strings_order.

(* ---- non-vacuity: a reachable library holding a duplicate wrapper; replace(twin of the held entry, an entry whose
   key is taken) raises and is rolled back: the caller's twin (object 7) now stands where object 0 stood *)
Example C08_example_rollback :
  reachable w_lib3 /\ ~ known_K1 w_op3 /\ snd (apply w_lib3 w_op3) = Raised EValue
  /\ map oid_of (blocks w_lib3) = [0; 1000; 2]%N /\ map oid_of (blocks (fst (apply w_lib3 w_op3))) = [7; 1000; 2]%N.
Proof. exact example_rollback. Qed.

(* the witness of the former strings-order finding: replace(String a, a String whose key b is taken) raises; the
   string index is now in the order b, a, but `strings` is unchanged *)
Example C08_example_strings_order :
  reachable w_lib2 /\ ~ known_K1 w_op2 /\ snd (apply w_lib2 w_op2) = Raised EValue
  /\ map fst (v_strings_dict (fst (apply w_lib2 w_op2))) = [lit "b"%string; lit "a"%string]
  /\ map oid_of (v_strings w_lib2) = [0; 1]%N /\ map oid_of (v_strings (fst (apply w_lib2 w_op2))) = [0; 1]%N.
Proof. exact example_strings_order. Qed.
