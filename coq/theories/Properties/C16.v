(* C16 - Block sorting is a stable permutation by (type rank, key) keeping comment runs attached.
   Only statements here; every proof is `exact <lemma>` (Proofs/SortBlocksProofs.v).
   Model: Model/SortBlocks.v (sort_transform = SortBlocksByTypeAndKeyMiddleware.transform(library).blocks, including the
   re-adding of the sorted blocks by Library(blocks=...), Model/LibRebuild.v).  Readable specs: Spec/C16.v.
   [lib_ok bs] is the invariant every Library maintains (no two live entries / strings share a key); order lists are
   arbitrary lists of class codes (any sub-permutation, any length, duplicates, classes no block has).
   CPython's list.sort is modelled by insertion sort; C16_sort_contract shows that ANY function meeting the
   stable-sort contract yields the same library.  "The input library is unchanged" is a heap-level statement (C07);
   here the input is a value and cannot change; the harness oracle checks it on the implementation. *)
From Coq Require Import String List NArith ZArith Permutation Sorted.
From BP Require Import Base.Chars Base.StableSort Model.Blocks Model.LibRebuild Model.SortBlocks Spec.C16
  Proofs.SortBlocksProofs.
Import ListNotations.

(* exactly the input blocks: none lost, duplicated or altered (and none wrapped again by the rebuilt Library) *)
Theorem C16_permutation : forall preserve order bs, lib_ok bs -> Permutation (sort_transform preserve order bs) bs.
Proof. exact transform_perm. Qed.
Print Assumptions C16_permutation.

(* the output is the concatenation of the input's units (single blocks, or comment run + block below it), rearranged
   so that (rank of the type in the order, key) never decreases, and units with equal (rank, key) keep their
   original relative order -- C16_sorted and C16_stable are the last two conjuncts of sort_spec *)
Theorem C16_sorted_stable : forall preserve order bs, lib_ok bs -> sort_spec preserve order bs (sort_transform preserve order bs).
Proof. exact transform_sorted. Qed.
Print Assumptions C16_sorted_stable.

Theorem C16_sorted : forall preserve order bs, lib_ok bs -> sorted_spec preserve order bs (sort_transform preserve order bs).
Proof. exact transform_sorted_only. Qed.
Print Assumptions C16_sorted.

Theorem C16_stable : forall preserve order bs, lib_ok bs -> stable_spec preserve order bs (sort_transform preserve order bs).
Proof. exact transform_stable_only. Qed.
Print Assumptions C16_stable.

(* the same without comment preservation, said on blocks directly *)
Theorem C16_sorted_stable_blocks : forall order bs, lib_ok bs -> plain_sort_spec order bs (sort_transform false order bs).
Proof. exact transform_plain. Qed.
Print Assumptions C16_sorted_stable_blocks.

(* rank: first index of the block's exact class in the order; unlisted classes get the length of the order (last) *)
Theorem C16_rank : forall c order,
  (In c order -> nth_error order (rank_in c order) = Some c /\ forall j, j < rank_in c order -> nth_error order j <> Some c)
  /\ (~ In c order <-> rank_in c order = length order)
  /\ rank_in c order <= length order.
Proof. exact rank_meaning. Qed.
Print Assumptions C16_rank.

(* with comment preservation every run of comments directly above a non-comment block stays directly above it *)
Theorem C16_comments : forall order bs, lib_ok bs -> comments_attached bs (sort_transform true order bs).
Proof. exact transform_comments. Qed.
Print Assumptions C16_comments.

(* the units of a library are determined by the library, and the contract determines the output *)
Theorem C16_sort_contract : forall preserve order bs out, lib_ok bs ->
  sort_spec preserve order bs out -> out = sort_transform preserve order bs.
Proof. exact transform_unique. Qed.
Print Assumptions C16_sort_contract.

(* Library(blocks=...) adds the sorted blocks as they are, and the result satisfies the library invariant again *)
Theorem C16_rebuild : forall preserve order bs, lib_ok bs ->
  sort_transform preserve order bs = sorted_blocks preserve order bs /\ lib_ok (sort_transform preserve order bs).
Proof. exact sort_transform_ok. Qed.
Print Assumptions C16_rebuild.

(* ---- non-vacuity *)
Definition h (n : Z) : hdr := mkhdr (Some n) None [].
Definition ex_lib : list block :=
  [BImpl (h 0) (lit "c0"); BEntry (h 1) (lit "article") (lit "b") []; BExpl (h 2) (lit "c2"); BImpl (h 3) (lit "c3");
   BString (h 4) (lit "a") (VStr (lit "x")); BFailed (h 5) (EOther 0); BEntry (h 6) (lit "article") (lit "a") [];
   BDupKey (h 7) (lit "b") (BEntry (h 1) (lit "article") (lit "b") []) (BEntry (h 7) (lit "misc") (lit "b") []);
   BExpl (h 8) (lit "c8")]%string.

Example C16_example_lib_ok : lib_ok ex_lib.
Proof. split; vm_compute; repeat constructor; simpl; intuition discriminate. Qed.

(* default order String, Preamble, Entry, ImplicitComment, ExplicitComment = codes 1 2 0 4 3 *)
Example C16_example_preserve :
  map (fun b => sl (bhdr b)) (sort_transform true [1; 2; 0; 4; 3]%N ex_lib)
  = map Some [2; 3; 4; 6; 0; 1; 8; 5; 7]%Z.
Proof. vm_compute. reflexivity. Qed.

Example C16_example_plain :
  map (fun b => sl (bhdr b)) (sort_transform false [0]%N ex_lib)
  = map Some [6; 1; 0; 2; 3; 5; 8; 4; 7]%Z.
Proof. vm_compute. reflexivity. Qed.

Example C16_example_units :
  units_of ex_lib (map jblocks (block_junks ex_lib)) /\ length (block_junks ex_lib) = 6.
Proof. split; [exact (junks_units ex_lib) | vm_compute; reflexivity]. Qed.

(* ---- "the input library is left unchanged" (heap level; the framework model of C07): SortBlocksByTypeAndKey deep-copies
   the block list and builds a new library for EVERY permutation the sort may apply - every pre-existing object is
   unchanged and nothing reachable from the result is a pre-existing object.  Stated with the executable deep copy
   (an instance of the contract assumed of copy.deepcopy: C07_deepcopy_exec_contract). *)
From BP Require Import Model.Heap Model.HeapMw Spec.C07 Proofs.HeapProofs Proofs.HeapCopyTotal.
Theorem C16_input_kept : forall perm h lib h' lib', wf_heap h -> In lib (dom h) ->
  sort_blocks_mw deepcopy_exec perm h lib = Some (h', lib') ->
  unchanged h h' /\ (forall p, reach h' lib' p -> ~ In p (dom h)).
Proof.
  intros perm h lib h' lib' W L E.
  destruct (sort_blocks_ok deepcopy_exec deepcopy_exec_contract perm h lib h' lib' W L E) as (_ & _ & U & S).
  split; [exact U | exact S].
Qed.
Print Assumptions C16_input_kept.
