From BP Require Import Base.Chars.
Theorem C09_placeholder : True. Proof. exact I. Qed.
Print Assumptions C09_placeholder.
