(* C09 - duplicate keys are never merged or dropped: first wins, the rest are flagged.
   Statements only; proofs in Proofs/DupProofs.v.  (That a well-formed document yields one raw block per source block
   is C02; here: what Library.add makes of ANY sequence of raw blocks, and what the splitter emits for repeated
   field names in ANY entry.) *)
From Coq Require Import String List NArith ZArith.
From BP Require Import Base.Chars Model.Blocks Model.LibAdd Model.Splitter Spec.C09 Proofs.DupProofs.
Import ListNotations.

(* the library's block list is the source list with every later same-key Entry / String replaced, at its own
   position, by a duplicate-key block exposing the key, the FIRST block with that key and the complete duplicate *)
Theorem C09_classify : forall bs, rebuild bs = flag_all [] bs.
Proof. exact rebuild_flag_all. Qed.
Print Assumptions C09_classify.

Theorem C09_count : forall bs, length (rebuild bs) = length bs.
Proof. exact rebuild_length. Qed.
Print Assumptions C09_count.

Theorem C09_position : forall bs i d, i < length bs -> nth i (rebuild bs) d = flagged (firstn i bs) (nth i bs d).
Proof. exact rebuild_nth. Qed.
Print Assumptions C09_position.

(* first wins: the two key indexes map each key to the first source block with that key; duplicate-field blocks
   are never registered *)
Theorem C09_first_wins_entries : forall bs k, dict_get (ents (lib_of bs)) k = first_entry k bs.
Proof. exact entries_dict_first. Qed.
Print Assumptions C09_first_wins_entries.
Theorem C09_first_wins_strings : forall bs k, dict_get (strs (lib_of bs)) k = first_string k bs.
Proof. exact strings_dict_first. Qed.
Print Assumptions C09_first_wins_strings.
Theorem C09_dupfield_not_registered : forall bs k,
  dict_get (ents (lib_of bs)) k = None <-> (forall h t f, ~ In (BEntry h t k f) bs).
Proof. exact entry_key_absent_iff. Qed.
Print Assumptions C09_dupfield_not_registered.

Theorem C09_split_is_flagged : forall t bs, split_raw t = Blocks bs -> split t = Blocks (flag_all [] bs).
Proof. exact split_is_flagged. Qed.
Print Assumptions C09_split_is_flagged.

(* for EVERY text: an emitted plain entry has pairwise distinct field names; an entry that repeats a field name is
   emitted as a duplicate-field block whose keys are exactly the names occurring at least twice and whose inner
   entry (same header) still has every field occurrence *)
Theorem C09_dup_fields : forall t bs, split_raw t = Blocks bs -> Forall dup_ok bs.
Proof. exact split_raw_dup_ok. Qed.
Print Assumptions C09_dup_fields.

(* incremental parsing (Splitter.split(library=L), parse_string(text, library=L)): the blocks of the text are added to
   the library that already holds `prev`; the result is what adding all blocks in one go gives - in particular every
   duplicate in the new text points at the first block of the WHOLE library with that key *)
Theorem C09_incremental : forall prev t bs, split_raw t = Blocks bs ->
  split_into prev t = Blocks (flag_all [] (prev ++ bs)).
Proof. exact split_into_flag_all. Qed.
Print Assumptions C09_incremental.

Theorem C09_incremental_fresh : forall t, split_into [] t = split t.
Proof. exact split_into_nil. Qed.
Print Assumptions C09_incremental_fresh.

(* ---- on documents of the dialect grammar (entry keys, string names AND field names may repeat): the number of
   returned blocks equals the number of source blocks and the i-th block is the flagged i-th source block *)
From BP Require Import Model.Grammar Proofs.GrammarCorollaries.
Theorem C09_doc_classify : forall d, wf_doc d -> split (render d) = Blocks (flag_all [] (expected_dup d)).
Proof. exact C09_doc_classify_dup. Qed.
Print Assumptions C09_doc_classify.

Theorem C09_doc_count : forall d, wf_doc d -> forall bs, split (render d) = Blocks bs -> List.length bs = List.length (d_items d).
Proof. exact C09_doc_count_dup. Qed.
Print Assumptions C09_doc_count.

(* the ground truth with duplicate field names: exactly the duplicate-field wrapping the property describes *)
Theorem C09_doc_dup_fields : forall d, wf_doc d -> split_raw (render d) = Blocks (expected_dup d) /\ Forall dup_ok (expected_dup d).
Proof. intros d H. split; [exact (split_render_dup d H) | exact (expected_dup_ok d H)]. Qed.
Print Assumptions C09_doc_dup_fields.
