(* C09 - duplicate keys are never merged or dropped: first wins, the rest are flagged.
   Statements only; proofs in Proofs/DupProofs.v.  (That a well-formed document yields one raw block per source block
   is C02; here: what Library.add makes of ANY sequence of raw blocks, and what the splitter emits for repeated
   field names in ANY entry.) *)
From Coq Require Import String List NArith ZArith.
From BP Require Import Base.Chars Model.Blocks Model.LibAdd Model.Splitter Spec.C09 Proofs.DupProofs.
Import ListNotations.

(* the library's block list is the source list with every later same-key Entry / String replaced, at its own
   position, by a duplicate-key block exposing the key, the FIRST block with that key and the complete duplicate *)
Theorem C09_classify : forall bs, rebuild bs = flag_all [] bs.
Proof. exact rebuild_flag_all. Qed.
Print Assumptions C09_classify.

Theorem C09_count : forall bs, length (rebuild bs) = length bs.
Proof. exact rebuild_length. Qed.
Print Assumptions C09_count.

Theorem C09_position : forall bs i d, i < length bs -> nth i (rebuild bs) d = flagged (firstn i bs) (nth i bs d).
Proof. exact rebuild_nth. Qed.
Print Assumptions C09_position.

(* first wins: the two key indexes map each key to the first source block with that key; duplicate-field blocks
   are never registered *)
Theorem C09_first_wins_entries : forall bs k, dict_get (ents (lib_of bs)) k = first_entry k bs.
Proof. exact entries_dict_first. Qed.
Print Assumptions C09_first_wins_entries.
Theorem C09_first_wins_strings : forall bs k, dict_get (strs (lib_of bs)) k = first_string k bs.
Proof. exact strings_dict_first. Qed.
Print Assumptions C09_first_wins_strings.
Theorem C09_dupfield_not_registered : forall bs k,
  dict_get (ents (lib_of bs)) k = None <-> (forall h t f, ~ In (BEntry h t k f) bs).
Proof. exact entry_key_absent_iff. Qed.
Print Assumptions C09_dupfield_not_registered.

Theorem C09_split_is_flagged : forall t bs, split_raw t = Blocks bs -> split t = Blocks (flag_all [] bs).
Proof. exact split_is_flagged. Qed.
Print Assumptions C09_split_is_flagged.

(* for EVERY text: an emitted plain entry has pairwise distinct field names; an entry that repeats a field name is
   emitted as a duplicate-field block whose keys are exactly the names occurring at least twice and whose inner
   entry (same header) still has every field occurrence *)
Theorem C09_dup_fields : forall t bs, split_raw t = Blocks bs -> Forall dup_ok bs.
Proof. exact split_raw_dup_ok. Qed.
Print Assumptions C09_dup_fields.

(* incremental parsing (Splitter.split(library=L), parse_string(text, library=L)): the blocks of the text are added to
   the library that already holds `prev`; the result is what adding all blocks in one go gives - in particular every
   duplicate in the new text points at the first block of the WHOLE library with that key *)
Theorem C09_incremental : forall prev t bs, split_raw t = Blocks bs ->
  split_into prev t = Blocks (flag_all [] (prev ++ bs)).
Proof. exact split_into_flag_all. Qed.
Print Assumptions C09_incremental.

Theorem C09_incremental_fresh : forall t, split_into [] t = split t.
Proof. exact split_into_nil. Qed.
Print Assumptions C09_incremental_fresh.

(* ---- on documents of the dialect grammar (entry keys, string names AND field names may repeat): the number of
   returned blocks equals the number of source blocks and the i-th block is the flagged i-th source block *)
From BP Require Import Model.Grammar Proofs.GrammarCorollaries.
Theorem C09_doc_classify : forall d, wf_doc d -> split (render d) = Blocks (flag_all [] (expected_dup d)).
Proof. exact C09_doc_classify_dup. Qed.
Print Assumptions C09_doc_classify.

Theorem C09_doc_count : forall d, wf_doc d -> forall bs, split (render d) = Blocks bs -> List.length bs = List.length (d_items d).
Proof. exact C09_doc_count_dup. Qed.
Print Assumptions C09_doc_count.

(* the ground truth with duplicate field names: exactly the duplicate-field wrapping the property describes *)
Theorem C09_doc_dup_fields : forall d, wf_doc d -> split_raw (render d) = Blocks (expected_dup d) /\ Forall dup_ok (expected_dup d).
Proof. intros d H. split; [exact (split_render_dup d H) | exact (expected_dup_ok d H)]. Qed.
Print Assumptions C09_doc_dup_fields.

(* ---- at object level (heap model of C07): a LIBRARY-LEVEL deep copy - what ResolveStringReferencesMiddleware in copy mode,
   the block sorter and copy.deepcopy make - keeps the link of every duplicate-key block inside the copy: the copy of the
   wrapper points at the copy of the first block, and that copy is the member of the copied block list at the first block's
   position (not the original, not a private second copy).  Proved from the isomorphism theorem of the executable deep copy
   (Proofs/HeapCopyIso.v).  The PER-BLOCK copies of a copy-mode block middleware do not have this property on the unchanged
   tree: known finding K13. *)
From BP Require Import Model.Heap Model.HeapMw Proofs.HeapCopyIso.
Theorem C09_copy_keeps_previous_block_live : forall h lib h' lib' bl xs i j w b,
  wf_heap h -> In lib (dom h) -> deepcopy_exec h lib = (h', lib') ->
  attr_list h lib A_blocks = Some (bl, xs) -> nth_error xs i = Some (PRef w) -> nth_error xs j = Some (PRef b) ->
  getattr h w A_previous_block = Some (PRef b) ->
  exists bl' xs' w' b',
    attr_list h' lib' A_blocks = Some (bl', xs') /\ nth_error xs' i = Some (PRef w') /\ nth_error xs' j = Some (PRef b')
    /\ getattr h' w' A_previous_block = Some (PRef b')
    /\ ~ In b' (dom h) /\ ~ In w' (dom h).
Proof. exact deepcopy_keeps_previous_block_live. Qed.
Print Assumptions C09_copy_keeps_previous_block_live.

(* the hypotheses are met by a library with one entry (object 5) and its duplicate (wrapper 10, previous_block = 5), and the
   conclusion is what the executable copy computes on it: blocks [16; 21], previous_block of 21 is 16 *)
Local Open Scope Z_scope.
Definition ex_lib_heap : heap :=
  [ (1%nat, OInst 2 [(1, PRef 2%nat); (2, PRef 3%nat); (3, PRef 4%nat)]);
    (2%nat, OList [PRef 5%nat; PRef 10%nat]); (3%nat, ODict [(100, PRef 5%nat)]); (4%nat, ODict []);
    (5%nat, OInst 3 [(7, PAtom 100)]);
    (10%nat, OInst 11 [(14, PRef 12%nat); (7, PAtom 100); (15, PRef 5%nat)]);
    (12%nat, OInst 3 [(7, PAtom 100)]) ].
Example C09_copy_keeps_previous_block_live_ex :
  wf_heap_b ex_lib_heap = true
  /\ attr_list ex_lib_heap 1 A_blocks = Some (2%nat, [PRef 5%nat; PRef 10%nat])
  /\ getattr ex_lib_heap 10 A_previous_block = Some (PRef 5%nat)
  /\ (let '(h', lib') := deepcopy_exec ex_lib_heap 1 in
      match attr_list h' lib' A_blocks with
      | Some (_, [PRef b'; PRef w']) => getattr h' w' A_previous_block = Some (PRef b') /\ b' <> 5%nat
      | _ => False
      end).
Proof. vm_compute. repeat split; auto; discriminate. Qed.

(* K13, in the model: the per-block copies of a copy-mode BLOCK middleware (BlockMiddleware.transform: deepcopy(block) for
   every block, then Library(blocks)) do NOT keep the link.  With the identity body on the library above the result has the
   blocks [13; 14] and the wrapper 14 points at object 16, a private copy of the first block that is in no block list.
   The heap model transcribes the shipped framework, so the defect of the unchanged tree shows here as a theorem. *)
From BP Require Import Model.HeapBodies.
Theorem C09_block_copy_mode_refuted_K13 :
  exists h lib h' lib' bl xs w p,
    wf_heap_b h = true
    /\ transform_block_mw deepcopy_exec false probe_identity h lib = Some (h', lib')
    /\ attr_list h' lib' A_blocks = Some (bl, xs) /\ In (PRef w) xs
    /\ getattr h' w A_previous_block = Some (PRef p) /\ ~ In (PRef p) xs.
Proof.
  exists ex_lib_heap, 1%nat.
  destruct (transform_block_mw deepcopy_exec false probe_identity ex_lib_heap 1) as [[h' lib']|] eqn:E;
    [|vm_compute in E; discriminate].
  exists h', lib', 17%nat, [PRef 13%nat; PRef 14%nat], 14%nat, 16%nat.
  vm_compute in E. inversion E; subst. vm_compute.
  repeat split; auto. intros [H|[H|[]]]; discriminate.
Qed.
Print Assumptions C09_block_copy_mode_refuted_K13.

(* ... while the same framework in IN-PLACE mode keeps it (the blocks are not copied: the wrapper and its first block are the
   objects they were, and the new library lists both) - K13 is specific to the per-block copies *)
Example C09_block_inplace_mode_keeps_link :
  match transform_block_mw deepcopy_exec true probe_identity ex_lib_heap 1 with
  | Some (h', lib') =>
      match attr_list h' lib' A_blocks with
      | Some (_, [PRef b'; PRef w']) => getattr h' w' A_previous_block = Some (PRef b') /\ b' = 5%nat /\ w' = 10%nat
      | _ => False
      end
  | None => False
  end.
Proof. vm_compute. repeat split. Qed.
