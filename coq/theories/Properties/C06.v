(* C06 - Written text obeys the BibtexFormat contract and carries every block's content.
   Only statements here; every proof is `exact <lemma>` (Proofs/WriterProofs.v).  The readable contract is Spec/C06.v.
   (The clause "the format object is left unchanged" is heap-level: C07; here it is checked by the harness oracle.) *)
From Coq Require Import String List NArith ZArith Bool.
From BP Require Import Base.Chars Model.Blocks Gen.Constants Model.Writer Spec.C06 Proofs.WriterProofs.
Import ListNotations.

(* the separator constant of the running module is the ' = ' of the property text *)
Theorem C06_val_sep : val_sep = lit " = ".
Proof. exact val_sep_ok. Qed.
Print Assumptions C06_val_sep.

(* every library of str values (any block mix, failed blocks with their raw text) under every format is written, without
   an exception, as the texts of its blocks in library order joined by the configured separator: between consecutive
   blocks, none after the last; each text is the one the contract prescribes for the block (Spec.C06.block_text) under the
   padding widths the format prescribes (fixed column, or the common minimal column of 'auto') *)
Theorem C06_structure : forall f bs,
  Forall writable bs -> (has_failed bs -> template_ok (f_failed f)) ->
  exists out, write f bs = Val out /\ written f bs out.
Proof. exact write_structure. Qed.
Print Assumptions C06_structure.

(* what "joined by the separator" means: sep between any two non-empty runs of blocks, nothing after the last block *)
Theorem C06_separator : forall sep l1 l2, l1 <> [] -> l2 <> [] -> join sep (l1 ++ l2) = join sep l1 ++ sep ++ join sep l2.
Proof. exact join_app. Qed.
Print Assumptions C06_separator.

(* an entry: header line, then for the field at each position exactly
   indent ++ key ++ padding ++ " = " ++ value ++ [","]? ++ "\n", the comma iff trailing_comma or the field is not the last *)
Theorem C06_field_line : forall indent col tr failed h t k fs kvs,
  str_fields fs = Some kvs ->
  joined (treat_block indent col tr failed (BEntry h t k fs))
  = Some ([c_at] ++ t ++ [c_lb] ++ k ++ [c_comma; c_nl] ++ field_lines indent (width_of col) tr kvs ++ [c_rb; c_nl]).
Proof. exact entry_text. Qed.
Print Assumptions C06_field_line.

Theorem C06_field_line_at : forall indent w tr kvs1 kv kvs2,
  exists pre post,
    field_lines indent w tr (kvs1 ++ kv :: kvs2)
    = pre ++ (indent ++ fst kv ++ spaces (w (fst kv)) ++ lit " = " ++ snd kv
              ++ (if comma_rule tr (List.length kvs1) (List.length (kvs1 ++ kv :: kvs2)) then [c_comma] else []) ++ [c_nl])
          ++ post.
Proof. exact field_lines_app. Qed.
Print Assumptions C06_field_line_at.

Theorem C06_comma : forall tr i n, i < n -> (comma_rule tr i n = true <-> tr = true \/ S i <> n).
Proof. exact comma_rule_spec. Qed.
Print Assumptions C06_comma.

(* the value starts at column len(indent)+col whenever the key is short enough; a longer key gets no padding.
   First on the model's own padding function, then for any padding width allowed by the contract *)
Theorem C06_column : forall indent col key,
  (List.length key + 3 <= col -> List.length (indent ++ key ++ pad col key ++ val_sep) = List.length indent + col)
  /\ (col <= List.length key + 3 -> pad col key = []).
Proof. exact (fun indent col key => conj (column_short indent col key) (column_long col key)). Qed.
Print Assumptions C06_column.

Theorem C06_column_spec : forall indent col key p, pad_width_ok col key p ->
  (List.length key + 3 <= col -> value_start indent key p = List.length indent + col)
  /\ (col <= List.length key + 3 -> p = 0 /\ value_start indent key p = List.length indent + List.length key + 3).
Proof. exact (fun indent col key p H => conj (column_of_short_key indent col key p H) (column_of_long_key indent col key p H)). Qed.
Print Assumptions C06_column_spec.

(* the padding widths (hence the whole text) are determined by the contract *)
Theorem C06_width_determined : forall f bs w1 w2, width_ok f bs w1 -> width_ok f bs w2 -> forall k, w1 k = w2 k.
Proof. exact width_determined. Qed.
Print Assumptions C06_width_determined.

(* 'auto': the column is 3 + the longest key over ALL fields of ALL entries of the library; every value of every entry
   starts in that same column, some field has no padding (when there is a field), and no smaller column fits all keys *)
Theorem C06_auto : forall f bs width indent,
  f_column f = ColAuto -> width_ok f bs width ->
  exists col,
    (forall k, In k (lib_keys bs) -> value_start indent k (width k) = List.length indent + col)
    /\ (lib_keys bs <> [] -> exists k, In k (lib_keys bs) /\ width k = 0)
    /\ (forall col', (forall k, In k (lib_keys bs) -> List.length k + 3 <= col') -> lib_keys bs <> [] -> col <= col')
    /\ col = resolve_column f bs.
Proof. exact auto_common_minimal. Qed.
Print Assumptions C06_auto.

Theorem C06_auto_column : forall bs, auto_column bs = max_key_len bs + 3 /\ is_max_len (max_key_len bs) (lib_keys bs).
Proof. exact (fun bs => conj (auto_column_eq bs) (max_key_len_is_max bs)). Qed.
Print Assumptions C06_auto_column.

(* failed blocks (every ParsingFailedBlock subclass): the CONFIGURED comment with {n} = number of lines of the raw text
   (str.splitlines), a newline, the raw text verbatim, a newline *)
Theorem C06_failed : forall indent width tr failed b,
  is_failed_class b = true -> raw (bhdr b) <> None -> template_ok failed ->
  exists t, joined (treat_failed failed (bhdr b)) = Some t /\ block_text indent width tr failed b t.
Proof. exact treat_failed_text. Qed.
Print Assumptions C06_failed.

Theorem C06_splitlines : forall s, Lines s (splitlines s).
Proof. exact splitlines_Lines. Qed.
Print Assumptions C06_splitlines.

(* outside the contract: a value that is not a str makes the final join raise TypeError *)
Theorem C06_nonstr_raises : forall f bs ps,
  write_pieces (f_indent f) (resolve_column f bs) (f_trailing f) (f_failed f) (f_sep f) bs = Val ps ->
  In PBad ps -> write f bs = Raise ETypeError.
Proof. exact write_nonstr. Qed.
Print Assumptions C06_nonstr_raises.

(* ---- non-vacuity: a library with two entries (keys longer and shorter than the column), an @string, a failed block and a
   duplicate-key block, under a format with 'auto', a multi-character separator and a custom comment with {n} and {{ }} *)
Definition ex_fmt : fmt := mkfmt (lit "  ") ColAuto (lit "---") true (lit "% {{FAIL}} {n}").
Definition ex_entry (k : string) : block :=
  BEntry hdr0 (lit "article") (lit k) [mkfield (lit "title") (VStr (lit "{T}")) None; mkfield (lit "a") (VStr (lit "1")) None].
Definition ex_lib : list block :=
  [ex_entry "k1"; BString hdr0 (lit "s") (VStr (lit "{v}")); BFailed (mkhdr None (Some (lit "x" ++ [c_cr; c_nl] ++ lit "y")) []) EDupKey;
   BDupKey (mkhdr None (Some (lit "@article{k1}")) []) (lit "k1") (ex_entry "k1") (ex_entry "k1")].

Lemma ex_template_ok : template_ok (f_failed ex_fmt).
Proof.
  intros n. eexists. unfold ex_fmt, f_failed.
  apply F_lit; [discriminate | discriminate |]. apply F_lit; [discriminate | discriminate |].
  apply F_lb. repeat (apply F_lit; [discriminate | discriminate |]). apply F_rb.
  apply F_lit; [discriminate | discriminate |]. apply F_n. apply F_nil.
Qed.

Example C06_example_hypotheses : Forall writable ex_lib /\ (has_failed ex_lib -> template_ok (f_failed ex_fmt)) /\ has_failed ex_lib.
Proof.
  split; [|split].
  - repeat constructor; cbn; discriminate.
  - intros _. exact ex_template_ok.
  - exists (BFailed (mkhdr None (Some (lit "x" ++ [c_cr; c_nl] ++ lit "y")) []) EDupKey). split; [right; right; left; reflexivity | reflexivity].
Qed.

Example C06_example_output :
  write ex_fmt ex_lib
  = Val (lit "@article{k1," ++ [c_nl] ++ lit "  title = {T}," ++ [c_nl] ++ lit "  a     = 1," ++ [c_nl] ++ lit "}" ++ [c_nl]
         ++ lit "---" ++ lit "@string{s = {v}}" ++ [c_nl]
         ++ lit "---" ++ lit "% {FAIL} 2" ++ [c_nl] ++ lit "x" ++ [c_cr; c_nl] ++ lit "y" ++ [c_nl]
         ++ lit "---" ++ lit "% {FAIL} 1" ++ [c_nl] ++ lit "@article{k1}" ++ [c_nl]).
Proof. vm_compute. reflexivity. Qed.

Example C06_example_lines : Lines (lit "a" ++ [c_cr; c_nl] ++ lit "b" ++ [c_cr] ++ [asc 133]) [lit "a"; lit "b"; []].
Proof.
  apply (L_crlf (lit "a") c_cr c_nl); [repeat constructor; cbn; intuition discriminate | reflexivity | reflexivity |].
  apply (L_break (lit "b") c_cr [asc 133] [[]]); [repeat constructor; cbn; intuition discriminate | cbn; tauto | |].
  - intros [_ [c2 [r [E E2]]]]. inversion E; subst. vm_compute in E2. discriminate.
  - apply (L_break [] (asc 133) [] []); [constructor | cbn; tauto | | constructor].
    intros [E _]. vm_compute in E. discriminate.
Qed.

(* ---- the validating setter of BibtexFormat.value_column (writer.py): accepted exactly for an int >= 0 (bool counts
   as int) and the string 'auto'; a rejected assignment raises ValueError and leaves the format as it was *)
From BP Require Import Model.FormatSetters Proofs.FormatSetterProofs.
Theorem C06_value_column_setter : forall f a,
  (snd (assign_value_column f a) = false <->
     (exists z, a = VInt z /\ (0 <= z)%Z) \/ (exists b, a = VBool b) \/ a = VStr s_auto)
  /\ (snd (assign_value_column f a) = true -> fst (assign_value_column f a) = f)
  /\ (forall z, (0 <= z)%Z -> f_column (fst (assign_value_column f (VInt z))) = ColN (Z.to_nat z))
  /\ f_column (fst (assign_value_column f (VStr s_auto))) = ColAuto.
Proof. exact value_column_setter. Qed.
Print Assumptions C06_value_column_setter.

(* ---- "the caller's format object is left unchanged" (heap level; the framework model of C07).  write_string with the
   default stack and ANY per-block body within its footprint, then writer.write, which deep-copies the format before it
   replaces 'auto' by a number: the format object itself, and every object reachable from it, is exactly what it was;
   so is every other pre-existing object.  Stated with the executable deep copy (proved an instance of the contract
   assumed of copy.deepcopy: C07_deepcopy_exec_contract), hence without any hypothesis on the copy. *)
From BP Require Import Model.Heap Model.HeapMw Spec.C07 Proofs.HeapProofs Proofs.HeapCopyTotal.
Theorem C06_format_unchanged : forall bd at_auto at_col h lib fmt h',
  footprint_ok bd -> wf_heap h -> In lib (dom h) -> In fmt (dom h) ->
  write_string_mw deepcopy_exec bd at_auto at_col h lib fmt = Some h' ->
  lookup h' fmt = lookup h fmt /\ (forall p, reach h' fmt p <-> reach h fmt p) /\ unchanged h h'.
Proof.
  intros bd a1 a2 h lib fmt h' F W L D E.
  destruct (write_string_ok deepcopy_exec deepcopy_exec_contract bd a1 a2 h lib fmt h' F W L D E) as (_ & U & _ & R).
  split; [exact (U fmt D) | split; [exact R | exact U]].
Qed.
Print Assumptions C06_format_unchanged.

(* ---- the writer introduces no carriage return: the output holds one only if the library or the format does.  (Together with
   the text layer of Model/TextIO.v this is why a library without carriage returns goes through a file unchanged:
   C20_text_written_library_survives_the_file.) *)
From BP Require Import Proofs.WriterNoCR.
Theorem C06_write_no_cr : forall f bs s,
  fmt_ok f = true -> forallb block_ok bs = true -> write f bs = Val s -> ok s = true.
Proof. exact write_no_cr. Qed.
Print Assumptions C06_write_no_cr.
