From BP Require Import Base.Chars.
Theorem C04_placeholder : True. Proof. exact I. Qed.
Print Assumptions C04_placeholder.
