(* C04 - malformed blocks never damage neighbours: parsing resyncs at the next @block.
   Statements only; proofs in Proofs/SplitResync.v. *)
From Coq Require Import List NArith ZArith.
From BP Require Import Base.Chars Model.Blocks Model.Lexer Model.Splitter Spec.C03 Spec.C04 Proofs.SplitResync.
Import ListNotations.
Local Open Scope Z_scope.

(* arbitrary text x (unbalanced braces or quotes, truncated blocks, garbage), then a line starting with a block
   start "@type{" (at_ok r: the look-ahead of the mark regex succeeds): that block and everything after it is
   parsed exactly as it would be on its own, k lines further down; what precedes accounts for x only (its raw
   texts tile "\n" ++ x ++ "\n") *)
Theorem C04_resync : forall x r B B0, at_ok r = true ->
  split_raw (x ++ c_nl :: c_at :: r) = Blocks B -> split_raw (c_at :: r) = Blocks B0 ->
  exists pre items, B = pre ++ map (shiftb (count_nl x + 1)) B0 /\
    raw_lines pre = Some items /\ tiledL (-1) (c_nl :: x ++ [c_nl]) items.
Proof. exact resync_tiles. Qed.
Print Assumptions C04_resync.

(* a text after which the machine has just closed a block (a document ending in a complete block), followed by
   arbitrary text: the blocks parsed for that document are unchanged *)
Theorem C04_prefix_stable : forall p x Bp, md (run p) = Out -> ic_rev (run p) = [] ->
  split_raw p = Blocks Bp -> exists rest, split_raw (p ++ x) = Blocks (Bp ++ rest).
Proof. exact prefix_stable'. Qed.
Print Assumptions C04_prefix_stable.

(* consequently: parsing a concatenation yields the concatenation of the blocks (second part shifted) *)
Theorem C04_concat : forall p r Bp B0, md (run p) = Out -> ic_rev (run p) = [] -> at_ok r = true ->
  split_raw p = Blocks Bp -> split_raw (c_at :: r) = Blocks B0 ->
  split_raw (p ++ c_nl :: c_at :: r) = Blocks (Bp ++ map (shiftb (count_nl p + 1)) B0).
Proof. exact concat'. Qed.
Print Assumptions C04_concat.

(* ---- the same three statements over the dialect grammar (Model/Grammar.v): "a well-formed document ending in a
   complete block" (ends_in_block) and "a line starting with a well-formed block" (starts_with_block) discharge the
   machine-state hypotheses above; duplicate field names allowed (expected_dup) *)
From BP Require Import Model.Grammar Proofs.GrammarCorollaries.
Theorem C04_doc_prefix_stable : forall d, wf_doc d -> ends_in_block d ->
  forall x, exists rest, split_raw (render d ++ x) = Blocks (expected_dup d ++ rest).
Proof. exact C04_doc_prefix_stable_dup. Qed.
Print Assumptions C04_doc_prefix_stable.

Theorem C04_doc_concat : forall d1 d2, wf_doc d1 -> ends_in_block d1 -> wf_doc d2 -> starts_with_block d2 ->
  split_raw (render d1 ++ c_nl :: render d2) = Blocks (expected_dup d1 ++ map (shiftb (count_nl (render d1) + 1)) (expected_dup d2)).
Proof. exact C04_doc_concat_dup. Qed.
Print Assumptions C04_doc_concat.

Theorem C04_doc_ends_closed : forall d, wf_doc d -> ends_in_block d -> md (run (render d)) = Out /\ ic_rev (run (render d)) = [].
Proof. exact doc_ends_closed. Qed.
Print Assumptions C04_doc_ends_closed.
