(* C07 - writing and copy-mode middleware never mutate or alias their input.
   Only statements here; every proof is `exact <lemma>` (Proofs/HeapProofs.v, Proofs/HeapBodiesProofs.v,
   Proofs/HeapCopyTotal.v).  Readable definitions: Spec/C07.v
   (input_untouched, shares_nothing, no_alias, dc_contract, footprint_ok, mw_ok); model: Model/Heap.v, Model/HeapMw.v.

   What is ASSUMED: copy.deepcopy is CPython's; it enters as an arbitrary function DC with the contract dc_contract
   (explicit hypothesis of every theorem, not an axiom).  What is PROVED: for every heap, every library object in it,
   every per-block body within footprint_ok, every stack - the framework code of middleware.py / interpolate.py /
   sorting_blocks.py / library.py / writer.py (as transcribed in Model/HeapMw.v) leaves every pre-existing object
   untouched and returns a library from which no pre-existing object is reachable. *)
From Coq Require Import List ZArith Bool.
From BP Require Import Model.Heap Model.HeapMw Model.HeapBodies Spec.C07 Proofs.HeapProofs Proofs.HeapBodiesProofs
  Proofs.HeapCopyTotal.
Import ListNotations.
Local Open Scope Z_scope.

(* BlockMiddleware.transform with allow_inplace_modification=False, any body that stays within its footprint:
   every object of the initial heap is unchanged, and nothing reachable from the result library is such an object *)
Theorem C07_copy_mode : forall DC, dc_contract DC -> forall bd h lib h' lib',
  footprint_ok bd -> wf_heap h -> In lib (dom h) ->
  transform_block_mw DC false bd h lib = Some (h', lib') ->
  wf_heap h' /\ In lib' (dom h') /\ input_untouched h h' /\ shares_nothing h h' lib'.
Proof. exact copy_mode_ok. Qed.
Print Assumptions C07_copy_mode.

(* the three library-level transforms: LibraryMiddleware(False), ResolveStringReferences(False) for EVERY set of
   bare references, SortBlocksByTypeAndKey (always) for EVERY permutation the sort may apply *)
Theorem C07_library_mws : forall DC, dc_contract DC -> forall h lib h' lib', wf_heap h -> In lib (dom h) ->
  (library_mw DC false h lib = Some (h', lib') -> no_alias h h' lib')
  /\ (forall bare kres, resolve_mw DC false bare kres h lib = Some (h', lib') -> no_alias h h' lib')
  /\ (forall perm, sort_blocks_mw DC perm h lib = Some (h', lib') -> no_alias h h' lib').
Proof.
  exact (fun DC C h lib h' lib' W L =>
    conj (library_mw_ok DC C h lib h' lib' W L)
   (conj (fun bare kres => resolve_ok DC C bare kres h lib h' lib' W L)
         (fun perm => sort_blocks_ok DC C perm h lib h' lib' W L))).
Qed.
Print Assumptions C07_library_mws.

(* stacks of ANY positive length (not only <= 3) of copy-mode middlewares: the original input is untouched and the
   final result shares nothing with it *)
Theorem C07_stack : forall DC, dc_contract DC -> forall ms h lib h' lib',
  Forall mw_ok ms -> ms <> [] -> wf_heap h -> In lib (dom h) ->
  run_stack DC ms h lib = Some (h', lib') -> no_alias h h' lib'.
Proof. exact run_stack_ok. Qed.
Print Assumptions C07_stack.

(* write_string with the default stack (one copy-mode block middleware, any body within footprint_ok - AddEnclosing's
   transform_entry / transform_string write field / string values and pop a metadata key of THEIR block) followed by
   writer.write, which deep-copies the caller's format before replacing 'auto': every pre-existing object - the whole
   library and the format - is unchanged, so a second write_string reads exactly the same library and format graph *)
Theorem C07_write_string : forall DC, dc_contract DC -> forall bd at_auto at_col h lib fmt h',
  footprint_ok bd -> wf_heap h -> In lib (dom h) -> In fmt (dom h) ->
  write_string_mw DC bd at_auto at_col h lib fmt = Some h' ->
  wf_heap h' /\ input_untouched h h'
  /\ (forall p, reach h' lib p <-> reach h lib p) /\ (forall p, reach h' fmt p <-> reach h fmt p).
Proof. exact write_string_ok. Qed.
Print Assumptions C07_write_string.

(* footprint_ok is met by non-trivial bodies: every probe body run against the real framework by the correspondence
   (set every value, append a Field, replace the metadata dict, drop strings, return [block, new comment], return the
   block twice, rename keys) - all but the deliberately leaking probe 7, which stores the library it is given *)
Theorem C07_probe_footprints : forall n c kp kdup, n <> 7 -> footprint_ok (probe_body n c kp kdup).
Proof. exact probe_footprints. Qed.
Print Assumptions C07_probe_footprints.

(* The transform_entry / transform_string bodies of EVERY shipped BlockMiddleware (Model/HeapBodies.v: RemoveEnclosing,
   AddEnclosing, the three Month*, NormalizeFieldKeys, SortFieldsAlphabetically / SortFieldsCustom, SeparateCoAuthors,
   MergeCoAuthors, SplitNameParts, MergeNameParts, LatexEncoding / LatexDecoding) stay within their footprint - for EVERY
   value of the harness-supplied string tables (no hypothesis on them: a table can only decide which atoms are written
   and which branch is taken, never which objects are touched). *)
Theorem C07_shipped_footprints : forall s, footprint_ok (shipped_body s).
Proof. exact shipped_footprints. Qed.
Print Assumptions C07_shipped_footprints.

(* hence, without a testing gap at the level of the heap model: every shipped block middleware in copy mode ... *)
Theorem C07_shipped_copy_mode : forall DC, dc_contract DC -> forall s h lib h' lib', wf_heap h -> In lib (dom h) ->
  transform_block_mw DC false (shipped_body s) h lib = Some (h', lib') -> no_alias h h' lib'.
Proof. exact (fun DC C s h lib h' lib' => copy_mode_ok DC C (shipped_body s) h lib h' lib' (shipped_footprints s)). Qed.
Print Assumptions C07_shipped_copy_mode.

(* ... every stack (any positive length) of shipped block middlewares, Resolve, SortBlocks, LibraryMiddleware in copy mode *)
Definition shipped_mw (m : mw) : Prop :=
  match m with
  | MwBlock i bd => i = false /\ exists s, bd = shipped_body s
  | MwLibrary i => i = false
  | MwResolve i _ _ => i = false
  | MwSort _ => True
  end.
Theorem C07_shipped_stack : forall DC, dc_contract DC -> forall ms h lib h' lib',
  Forall shipped_mw ms -> ms <> [] -> wf_heap h -> In lib (dom h) ->
  run_stack DC ms h lib = Some (h', lib') -> no_alias h h' lib'.
Proof. exact shipped_stack_ok. Qed.
Print Assumptions C07_shipped_stack.

(* ... and write_string with the REAL default stack [AddEnclosing(copy mode)], for every enclosing table *)
Theorem C07_write_string_default : forall DC, dc_contract DC -> forall kmeta tbl at_auto at_col h lib fmt h',
  wf_heap h -> In lib (dom h) -> In fmt (dom h) ->
  write_string_mw DC (shipped_body (SAddEnclosing kmeta tbl)) at_auto at_col h lib fmt = Some h' ->
  wf_heap h' /\ input_untouched h h'
  /\ (forall p, reach h' lib p <-> reach h lib p) /\ (forall p, reach h' fmt p <-> reach h fmt p).
Proof.
  exact (fun DC C k t a1 a2 h lib fmt h' =>
           write_string_ok DC C (shipped_body (SAddEnclosing k t)) a1 a2 h lib fmt h' (shipped_footprints (SAddEnclosing k t))).
Qed.
Print Assumptions C07_write_string_default.

(* The executable copy used to RUN the model (fuelled, memoised graph copy; cycles and sharing handled as in copy.py)
   satisfies the contract conclusions on EVERY well-formed heap on which it completes (flag true: the fuel did not run
   out and no dangling reference was met).
   _partial: what is missing HERE for `dc_contract deepcopy_exec` is completion - that the fuel S (length h) always
   suffices on a well-formed heap (each non-memoised visit adds a distinct object of h to the memo).  Completion is now
   PROVED: C07_deepcopy_exec_total and C07_deepcopy_exec_contract below (this theorem is kept as the conditional half).
   The copy is also compared with CPython's copy.deepcopy on real object graphs by the correspondence (op 165) on
   every run. *)
Theorem C07_deepcopy_exec_partial : forall h r h' r', wf_heap h -> In r (dom h) ->
  deepcopy_checked h r = Some (h', r') ->
  deepcopy_exec h r = (h', r')
  /\ wf_heap h' /\ unchanged h h' /\ In r' (dom h') /\ (forall p, reach h' r' p -> ~ In p (dom h)).
Proof.
  exact (fun h r h' r' W D E => conj (deepcopy_checked_exec h r h' r' E) (deepcopy_checked_contract h r h' r' W D E)).
Qed.
Print Assumptions C07_deepcopy_exec_partial.

(* COMPLETION (what _partial above was missing; proofs in Proofs/HeapCopyTotal.v): on every well-formed heap and every
   root in it the executable copy completes - the fuel S (length h) never runs out and no dangling reference is met.
   The fuel bounds the recursion depth; the memo's keys are pairwise distinct objects of h, a nested non-memoised
   visit has pushed its key first and the memo never shrinks, so `length h < fuel + length memo` holds at every call
   and, with length memo <= length h, leaves at least one unit of fuel at every call. *)
Theorem C07_deepcopy_exec_total : forall h r, wf_heap h -> In r (dom h) ->
  exists h' r', deepcopy_checked h r = Some (h', r') /\ deepcopy_exec h r = (h', r').
Proof. exact deepcopy_total. Qed.
Print Assumptions C07_deepcopy_exec_total.

(* Hence the executable copy IS an instance of the contract that every theorem above assumes of copy.deepcopy:
   dc_contract is inhabited (the hypothesis `dc_contract DC` is not vacuous), and the model that is RUN against the
   implementation (Run/RunHeap.v uses deepcopy_exec) is covered by the theorems, with no side condition. *)
Theorem C07_deepcopy_exec_contract : dc_contract deepcopy_exec.
Proof. exact deepcopy_exec_contract. Qed.
Print Assumptions C07_deepcopy_exec_contract.

(* e.g. the stack theorem, with the hypothesis on DC discharged *)
Theorem C07_stack_exec : forall ms h lib h' lib',
  Forall mw_ok ms -> ms <> [] -> wf_heap h -> In lib (dom h) ->
  run_stack deepcopy_exec ms h lib = Some (h', lib') -> no_alias h h' lib'.
Proof. exact run_stack_exec_ok. Qed.
Print Assumptions C07_stack_exec.

(* The contract above would also be met by a "copy" that is one fresh empty object.  The executable copy is more: a GRAPH
   ISOMORPHISM of everything reachable from the root onto fresh objects (Proofs/HeapCopyIso.v) - the memo m is an injective
   renaming, the copy of every reachable object is that object with every reference renamed and every atom kept, and the
   copy contains nothing else.  This is what "the input library is equal to its prior deep copy" and "the result of a
   copy-mode middleware has the content the in-place result would have" rest on; C09 uses it for the links inside a copy. *)
From BP Require Import Proofs.HeapCopyIso.
Theorem C07_deepcopy_exec_iso : forall h r h' r', wf_heap h -> In r (dom h) -> deepcopy_exec h r = (h', r') ->
  exists m,
    memo_get m r = Some r'
    /\ (forall p, reach h r p -> exists p', memo_get m p = Some p' /\ is_copy_of h h' m p p')
    /\ (forall k1 k2 v, memo_get m k1 = Some v -> memo_get m k2 = Some v -> k1 = k2)
    /\ (forall k v, memo_get m k = Some v -> ~ In v (dom h) /\ In v (dom h'))
    /\ unchanged h h'.
Proof. exact deepcopy_exec_iso. Qed.
Print Assumptions C07_deepcopy_exec_iso.

Theorem C07_deepcopy_exec_iso_onto : forall h r h' r', wf_heap h -> In r (dom h) -> deepcopy_exec h r = (h', r') ->
  exists m, memo_get m r = Some r'
    /\ (forall p', reach h' r' p' -> exists p, reach h r p /\ memo_get m p = Some p').
Proof. exact deepcopy_exec_iso_onto. Qed.
Print Assumptions C07_deepcopy_exec_iso_onto.

(* ------------------------------------------------------------------ non-vacuity: a concrete heap.
   Library 1 with blocks [Entry 5 (key 100); DuplicateBlockKeyBlock 10 -> previous 5, duplicate Entry 12 (key 100)],
   one field each; BibtexFormat 9 with value_column = atom 7 ('auto'). *)
Definition ex_entry (md fl : nat) : obj :=
  OInst 3 [(4, PAtom 50); (5, PAtom 51); (6, PRef md); (11, PAtom 52); (7, PAtom 100); (12, PRef fl)].
Definition ex_field (v : Z) : obj := OInst 8 [(10, PAtom 53); (7, PAtom 54); (8, PAtom v)].
Definition ex_heap : heap :=
  [ (1%nat, OInst 2 [(1, PRef 2%nat); (2, PRef 3%nat); (3, PRef 4%nat)]);
    (2%nat, OList [PRef 5%nat; PRef 10%nat]); (3%nat, ODict [(100, PRef 5%nat)]); (4%nat, ODict []);
    (5%nat, ex_entry 6 7); (6%nat, ODict []); (7%nat, OList [PRef 8%nat]); (8%nat, ex_field 55);
    (9%nat, OInst 14 [(22, PAtom 7)]);
    (10%nat, OInst 11 [(4, PAtom 50); (5, PAtom 51); (6, PRef 11%nat); (13, PAtom 4); (14, PRef 12%nat); (7, PAtom 100);
                       (15, PRef 5%nat)]);
    (11%nat, ODict []); (12%nat, ex_entry 13 14); (13%nat, ODict []); (14%nat, OList [PRef 15%nat]); (15%nat, ex_field 56) ].

Example C07_ex_heap_wf : wf_heap_b ex_heap = true.
Proof. vm_compute. reflexivity. Qed.

(* the executable deepcopy meets the contract on this heap, for the library, the duplicate wrapper and the format *)
Example C07_ex_deepcopy_contract :
  dc_contract_on_b deepcopy_exec ex_heap 1 = true /\ dc_contract_on_b deepcopy_exec ex_heap 10 = true
  /\ dc_contract_on_b deepcopy_exec ex_heap 9 = true /\ dc_contract_on_b deepcopy_exec ex_heap 2 = true.
Proof. vm_compute. repeat split. Qed.

Example C07_ex_deepcopy_completes :
  forallb (fun r => match deepcopy_checked ex_heap r with Some _ => true | None => false end) (dom ex_heap) = true.
Proof. vm_compute. reflexivity. Qed.

(* the fuel S (length h) is exactly what a cycle through all objects needs: on the 3-cycle 1 -> 2 -> 3 -> 1 (3 also
   refers to itself) the copy completes and preserves the cycle (copies 4 -> 5 -> 6 -> 4), while with fuel length h
   the same run gives up (the memoised visit closing the cycle needs one unit too).  With an older shadowed binding
   in the association list (length h counts bindings, not objects) it completes as well. *)
Definition ex_cycle : heap :=
  [ (1%nat, OList [PRef 2%nat]); (2%nat, ODict [(7, PRef 3%nat)]); (3%nat, OInst 3 [(4, PRef 1%nat); (5, PRef 3%nat)]) ].
Example C07_ex_cycle :
  wf_heap_b ex_cycle = true
  /\ deepcopy_checked ex_cycle 1
     = Some ((4%nat, OList [PRef 5%nat]) :: (5%nat, ODict [(7, PRef 6%nat)])
             :: (6%nat, OInst 3 [(4, PRef 4%nat); (5, PRef 6%nat)])
             :: (6%nat, OInst 3 []) :: (5%nat, ODict []) :: (4%nat, OList []) :: ex_cycle, 4%nat)
  /\ dc_contract_on_b deepcopy_exec ex_cycle 1 = true
  /\ snd (dc (length ex_cycle) ex_cycle [] 1) = false
  /\ (let h := (1%nat, OList [PRef 2%nat; PRef 1%nat]) :: ex_cycle in
      wf_heap_b h = true /\ dc_contract_on_b deepcopy_exec h 1 = true
      /\ match deepcopy_checked h 1 with Some _ => true | None => false end = true).
Proof. vm_compute. repeat split. Qed.

(* the conclusions of the theorems as a boolean on a concrete run *)
Definition no_alias_b (h : heap) (r : option (heap * nat)) : option (bool * bool) :=
  match r with
  | Some (h', lib') => Some (unchanged_b h h', disjoint_b (reach_b h' lib') (dom h))
  | None => None
  end.

(* copy mode: input untouched AND nothing shared; in-place mode on the same heap: input changed AND shared - so the
   two conclusions are not vacuous.  probe_twice makes the new Library allocate a duplicate wrapper. *)
Example C07_ex_copy_vs_inplace :
  no_alias_b ex_heap (transform_block_mw deepcopy_exec false (probe_set_values 77) ex_heap 1) = Some (true, true)
  /\ no_alias_b ex_heap (transform_block_mw deepcopy_exec true (probe_set_values 77) ex_heap 1) = Some (false, false)
  /\ no_alias_b ex_heap (transform_block_mw deepcopy_exec false probe_twice ex_heap 1) = Some (true, true)
  /\ no_alias_b ex_heap (transform_block_mw deepcopy_exec true probe_identity ex_heap 1) = Some (true, false)
  /\ no_alias_b ex_heap (sort_blocks_mw deepcopy_exec [1%nat; 0%nat] ex_heap 1) = Some (true, true)
  /\ no_alias_b ex_heap (resolve_mw deepcopy_exec false [55] 9 ex_heap 1) = Some (true, true)
  /\ no_alias_b ex_heap (library_mw deepcopy_exec true ex_heap 1) = Some (true, false).
Proof. vm_compute. repeat split. Qed.

(* a body outside footprint_ok (it stores the library it was given) does alias, even in copy mode *)
Example C07_ex_leak :
  no_alias_b ex_heap (transform_block_mw deepcopy_exec false (probe_leak_library 9) ex_heap 1) = Some (true, false).
Proof. vm_compute. repeat split. Qed.

(* shipped bodies on the example heap: NormalizeFieldKeys (key atom 54 -> 540: field.key written, entry.fields a new list)
   and SplitNameParts failing on the value (a new MiddlewareErrorBlock referencing the entry): copy mode untouched and
   disjoint, in-place mode neither *)
Example C07_ex_shipped :
  no_alias_b ex_heap (transform_block_mw deepcopy_exec false (shipped_body (SNormalizeFieldKeys [(54, 540)])) ex_heap 1) = Some (true, true)
  /\ no_alias_b ex_heap (transform_block_mw deepcopy_exec true (shipped_body (SNormalizeFieldKeys [(54, 540)])) ex_heap 1) = Some (false, false)
  /\ no_alias_b ex_heap (transform_block_mw deepcopy_exec false (shipped_body (SSortFields [(54, 0%nat)] 1 9 (MVList [54]))) ex_heap 1) = Some (true, true)
  /\ no_alias_b ex_heap (transform_block_mw deepcopy_exec true (shipped_body (SSortFields [(54, 0%nat)] 1 9 (MVList [54]))) ex_heap 1) = Some (false, false).
Proof. vm_compute. repeat split. Qed.

(* write_string: format with 'auto' (atom 7): the caller's format object 9 is untouched *)
Example C07_ex_write :
  match write_string_mw deepcopy_exec (probe_set_values 77) 7 12 ex_heap 1 9 with
  | Some h' => unchanged_b ex_heap h' && oobj_eqb (lookup h' 9%nat) (Some (OInst 14 [(22, PAtom 7)]))
  | None => false
  end = true.
Proof. vm_compute. reflexivity. Qed.
