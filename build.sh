#!/bin/bash
# Build the Coq development, the extraction and the model binary from files on disk (offline).
# Usage: build.sh [--no-gen]   (gen = regenerate Gen/Constants.v from /repo)
set -euo pipefail
HERE="$(cd "$(dirname "$0")" && pwd)"
REPO="${VERIF_REPO:-/repo}"
cd "$HERE"
# one build at a time: checks may be started in parallel and each of them builds first; the later ones wait here and then
# find everything up to date (nothing is rewritten, so a check that is already running is not disturbed)
exec 9>"$HERE/.build.lock"
flock 9
if [ "${1:-}" != "--no-gen" ]; then
  (cd "$HERE/harness" && PYTHONPATH="$REPO" PYTHONDONTWRITEBYTECODE=1 PYTHONHASHSEED=0 /venv/bin/python -B gen_constants.py)
fi
cd "$HERE/coq"
{ cat _CoqProject.in; find theories -name '*.v' | LC_ALL=C sort; } > _CoqProject.new
if ! cmp -s _CoqProject.new _CoqProject 2>/dev/null; then mv _CoqProject.new _CoqProject; coq_makefile -f _CoqProject -o Makefile >/dev/null; else rm _CoqProject.new; fi
[ -f Makefile ] || coq_makefile -f _CoqProject -o Makefile >/dev/null
mkdir -p "$HERE/ocaml/extracted"
set +e
timeout 3000 make -j"${VERIF_JOBS:-16}" > "$HERE/coq/build.log" 2>&1
RC=$?
set -e
grep -v -e '^COQDEP' -e '^COQC' -e '^CAMLDEP' -e '^make' "$HERE/coq/build.log" | tail -40 || true
if [ "$RC" != 0 ]; then echo "build: coq FAILED (rc=$RC)"; exit 1; fi
# coqc writes extracted files into its working directory: move them
if ls "$HERE"/coq/*.ml >/dev/null 2>&1; then
  rm -f "$HERE"/ocaml/extracted/*.ml "$HERE"/ocaml/extracted/*.mli
  mv "$HERE"/coq/*.ml "$HERE"/coq/*.mli "$HERE/ocaml/extracted/"
fi
cd "$HERE/ocaml"
if [ ! -x model_run ] || [ -n "$(find extracted driver.ml -newer model_run 2>/dev/null | head -1)" ]; then
  cd extracted
  rm -f *.cmi *.cmx *.o
  cp ../driver.ml driver.ml
  FILES=$(ocamlfind ocamldep -sort *.ml *.mli)
  # built under a scratch name and moved into place: a check that is running keeps the binary it started with
  ocamlfind ocamlopt -O2 -w -a -o ../model_run.new $FILES 2>/dev/null || ocamlfind ocamlopt -w -a -o ../model_run.new $FILES
  mv -f ../model_run.new ../model_run
  rm -f driver.ml
  echo "build: model_run rebuilt"
fi
echo "build: ok"
