"""Inputs that coincide with something the LIBRARY ITSELF writes, names or keeps (shared by the per-property generators).

Seeding round 10 asked for changes that a randomized suite would miss.  Five of twenty answers keyed on the text of the
writer's own warning comment (`% WARNING Parsing failed for the following N lines.`, with N equal to - or different from -
the line count of what follows), five on names that the library reserves or treats specially (`ID`, `ENTRYTYPE`, `others`,
`et al.`, metadata keys), the rest on a coincidence between two values that random generators draw independently (a field
text equal to an @string key, a default argument that IS the stored object, a user class with the same __name__ as a
library class, a text that is the path of an existing file).  Nothing here is random: fixed ordered pools, to be combined
by the generators with their own PRNG.

    warning_lines(n, fmt=None)   the writer's warning comment for n lines (default template read from the tree under test,
                                 or the given format's), plus near misses: other counts, other digit systems, other case,
                                 leading / trailing blanks, doubled
    MAGIC_WORDS                  strings the library reserves, emits or compares with somewhere
    magic_for_tree()             MAGIC_WORDS + what the tree under test defines: metadata keys of every shipped middleware,
                                 module constants, attribute names of the public classes, default format strings
"""

MAGIC_WORDS = [
    "ID", "ENTRYTYPE", "id", "Id", "entrytype", "Entrytype", "key", "entry_type", "fields", "raw", "start_line", "value", "comment",
    "others", "Others", "OTHERS", "et al.", "et al", "Et Al.", "et. al.", "and", "And", "AND", "and others",
    "comment", "Comment", "string", "String", "preamble", "Preamble", "article",
    "month", "jan", "Jan", "january", "1", "01", "0", "12", "13",
    "None", "True", "False", "nan", "inf", "NULL", "__class__", "__dict__", "self",
    "removed_enclosing", "no-enclosing", "{", "}", "\"", "{}", "{0}", "{n}", "%s", "%d", "%(n)s", "{key}", "{{", "}}",
    "author", "editor", "translator", "title", "year",
    "% WARNING Parsing failed for the following 1 lines.", "WARNING", "% WARNING",
    "\n\n", "\t", " = ", ",", ", ", " and ", " # ",
]


def _template():
    try:
        from bibtexparser.writer import BibtexFormat
        return BibtexFormat().parsing_failed_comment
    except Exception:  # noqa: BLE001
        return "% WARNING Parsing failed for the following {n} lines."


def warning_lines(n, fmt=None):
    """[(label, text)] - the warning comment the writer would put above a failed block of n lines, and near misses"""
    tpl = fmt.parsing_failed_comment if fmt is not None else _template()

    def f(k):
        try:
            return tpl.format(n=k)
        except Exception:  # noqa: BLE001
            return tpl
    exact = f(n)
    out = [("exact", exact), ("n-1", f(n - 1)), ("n+1", f(n + 1)), ("zero", f(0)), ("one", f(1)), ("huge", f(10 ** 6)),
           ("negative", f(-n)), ("padded", f("%03d" % n)), ("plus", f("+%d" % n)),
           ("superscript", f("".join("⁰¹²³⁴⁵⁶⁷⁸⁹"[int(d)] for d in str(max(n, 0))))),
           ("arabic-indic", f("".join(chr(0x0660 + int(d)) for d in str(max(n, 0))))),
           ("fullwidth", f("".join(chr(0xFF10 + int(d)) for d in str(max(n, 0))))),
           ("circled", f("①")), ("word", f("two")), ("empty-count", f("")), ("float", f("%d.0" % n)),
           ("upper", exact.upper()), ("lower", exact.lower()), ("no-percent", exact.lstrip("% ")),
           ("trailing-blank", exact + " "), ("leading-blank", " " + exact), ("twice", exact + "\n" + exact),
           ("no-period", exact.rstrip(".")), ("template-itself", tpl)]
    seen, res = set(), []
    for lab, t in out:
        if t not in seen:
            seen.add(t)
            res.append((lab, t))
    return res


_MAGIC = None


def magic_for_tree():
    global _MAGIC
    if _MAGIC is not None:
        return _MAGIC
    words = list(MAGIC_WORDS)
    try:
        import bibtexparser.middlewares as M
        from bibtexparser.middlewares.middleware import Middleware
        for name in dir(M):
            c = getattr(M, name)
            if isinstance(c, type) and issubclass(c, Middleware):
                try:
                    k = c.metadata_key()
                except Exception:  # noqa: BLE001
                    try:
                        k = c().metadata_key()
                    except Exception:  # noqa: BLE001
                        k = None
                if isinstance(k, str):
                    words.append(k)
        from bibtexparser.writer import BibtexFormat
        f = BibtexFormat()
        words += [f.indent, f.block_separator, f.parsing_failed_comment]
        import bibtexparser.model as model
        for cls in (model.Entry, model.Field, model.String, model.Block):
            words += [a for a in dir(cls) if not a.startswith("__")][:40]
    except Exception:  # noqa: BLE001
        pass
    seen, res = set(), []
    for w in words:
        if isinstance(w, str) and w not in seen:
            seen.add(w)
            res.append(w)
    _MAGIC = res
    return res
